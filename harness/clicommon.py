"""Running cutplace.applications.main in-process on generated CID and data files."""
import csv
import logging
import os
import shutil
import tempfile

from cutplace import applications

import vcommon as V

logging.disable(logging.CRITICAL)


class Workdir:
    def __enter__(self):
        self.path = tempfile.mkdtemp(prefix="cpverif_")
        return self

    def __exit__(self, *a):
        shutil.rmtree(self.path, ignore_errors=True)

    def write_cid(self, spec, name="cid.csv", broken=False):
        p = os.path.join(self.path, name)
        rows = V.cid_rows(spec)
        if broken:
            rows = rows + [["F", "not a name", "", "", "", "Text", ""]]
        with open(p, "w", newline="", encoding="utf-8") as fh:
            csv.writer(fh).writerows(rows)
        return p

    def write_data(self, name, text):
        p = os.path.join(self.path, name)
        with open(p, "w", newline="", encoding="cp1252") as fh:
            fh.write(text)
        return p

    def missing(self, name):
        return os.path.join(self.path, name)

    def directory(self, name):
        p = os.path.join(self.path, name)
        os.makedirs(p, exist_ok=True)
        return p


def run_main(argv):
    """exit code of main(argv); SystemExit (argparse) is reported by its code"""
    import contextlib
    import io as _io
    try:
        with contextlib.redirect_stderr(_io.StringIO()), contextlib.redirect_stdout(_io.StringIO()):
            return applications.main(["cutplace"] + argv)
    except SystemExit as e:
        return e.code if isinstance(e.code, int) else 2
    except BaseException as e:  # noqa
        return "leak:" + type(e).__name__
