"""Running cutplace.applications.main in-process on generated CID and data files."""
import csv
import logging
import os
import shutil
import tempfile

from cutplace import applications

import vcommon as V

logging.disable(logging.CRITICAL)


class Workdir:
    def __enter__(self):
        self.path = tempfile.mkdtemp(prefix="cpverif_")
        return self

    def __exit__(self, *a):
        shutil.rmtree(self.path, ignore_errors=True)

    def write_cid(self, spec, name="cid.csv", broken=False):
        p = os.path.join(self.path, name)
        rows = V.cid_rows(spec)
        if broken:
            rows = rows + [["F", "not a name", "", "", "", "Text", ""]]
        with open(p, "w", newline="", encoding="utf-8") as fh:
            csv.writer(fh).writerows(rows)
        return p

    def write_data(self, name, text):
        p = os.path.join(self.path, name)
        with open(p, "w", newline="", encoding="cp1252") as fh:
            fh.write(text)
        return p

    def missing(self, name):
        return os.path.join(self.path, name)

    def directory(self, name):
        p = os.path.join(self.path, name)
        os.makedirs(p, exist_ok=True)
        return p


def run_main(argv):
    """exit code of main(argv); SystemExit (argparse) is reported by its code"""
    import contextlib
    import io as _io
    try:
        with contextlib.redirect_stderr(_io.StringIO()), contextlib.redirect_stdout(_io.StringIO()):
            return applications.main(["cutplace"] + argv)
    except SystemExit as e:
        return e.code if isinstance(e.code, int) else 2
    except BaseException as e:  # noqa
        return "leak:" + type(e).__name__


ENV_IGNORE = ("COLUMNS", "LINES", "TZ", "LANG", "LANGUAGE", "TMPDIR", "TEMP", "TMP", "HOME", "TERM", "NO_COLOR", "FORCE_COLOR")


def run_main_recording(argv):
    """run_main plus the names of the environment variables that were looked up while it ran"""
    import os
    names = set()
    cls = type(os.environ)
    original = cls.__getitem__

    def recording(self, key):
        names.add(key if isinstance(key, str) else repr(key))
        return original(self, key)

    cls.__getitem__ = recording
    try:
        code = run_main(argv)
    finally:
        cls.__getitem__ = original
    return code, sorted(n for n in names if n not in ENV_IGNORE and not n.startswith(("PYTHON", "LC_")))


def environment_dependence(argv, code, names):
    """the verdict of a command line is decided by its arguments and files: looked-up environment variables set to a few
    values must not change the exit code; returns a message or None"""
    import os
    for name in names:
        had = os.environ.get(name)
        try:
            for value in ("0", "1", "3", "-1", "x"):
                os.environ[name] = value
                other = run_main(argv)
                if other != code:
                    return "with the environment variable %s=%s the exit code is %r instead of %r" % (name, value, other, code)
        finally:
            if had is None:
                os.environ.pop(name, None)
            else:
                os.environ[name] = had
    return None
