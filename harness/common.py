"""Shared machinery of the cutplace verification harness.

Everything here runs under /venv/bin/python with PYTHONPATH=/repo so that `import cutplace`
is the implementation in /repo's current working tree.
"""
import concurrent.futures
import fcntl
import hashlib
import json
import os
import re
import subprocess
import sys
import time

VERIF = os.path.dirname(os.path.dirname(os.path.abspath(__file__)))
REPO = os.environ.get("CUTPLACE_REPO", "/repo")
COQ = os.path.join(VERIF, "coq")
BUILD = os.path.join(VERIF, "build")
EVIDENCE = os.path.join(VERIF, "evidence")
JOBS = int(os.environ.get("VERIF_JOBS", "16"))

# ---------------------------------------------------------------- Coq literal printers


def L(xs, f=str):
    return "[" + "; ".join(f(x) for x in xs) + "]"


def S(s):
    """Python str -> Coq `text` (list N of code points)."""
    if s == "":
        return "[]"
    return "[" + ";".join(str(ord(c)) for c in s) + "]%N"


def B(b):
    return "true" if b else "false"


def Zn(z):
    return "(%d)%%Z" % z


def Nn(n):
    assert n >= 0
    return "%d%%N" % n


def Nat(n):
    assert 0 <= n < 5000, n
    return "%d%%nat" % n


def O(v, f):
    return "None" if v is None else "(Some %s)" % f(v)


def P(*xs):
    return "(" + ", ".join(xs) + ")"


# ---------------------------------------------------------------- running coqc


def _coqc(path, timeout):
    t0 = time.time()
    try:
        p = subprocess.run(
            ["coqc", "-Q", COQ, "CP", path], stdout=subprocess.PIPE, stderr=subprocess.STDOUT, timeout=timeout, text=True
        )
        return p.returncode, p.stdout, time.time() - t0
    except subprocess.TimeoutExpired as e:
        return 124, "TIMEOUT after %ss\n%s" % (timeout, e.stdout or ""), time.time() - t0


_RESULT = re.compile(r"=\s*\(\s*(\d+)\s*,\s*\[([0-9;\s]*)\]\s*(?:,\s*(\d+)\s*)?\)")
LAST_CANARY = [[0, 0]]  # shards in which the comparison self-test discriminated / shards with at least two cases
LAST_OOD = [None]  # number of out-of-domain items counted by the last run_shards call (None: the property has no OOD term)


def run_shards(prop, header, case_type, model_term, eqb_term, cases, shard_size=400, timeout=600, ood_term=None):
    """cases: list of dicts with key 'coq' (a Coq term of type case_type * obs type).
    Evaluates the model inside Coq on every case and returns the indices (into cases) where
    the model's observation differs from the embedded implementation observation.
    model_term : Coq function from the case input to the model's observation
    eqb_term   : Coq boolean equality on observations
    Returns (bad_indices, errors)."""
    d = os.path.join(BUILD, prop)
    os.makedirs(d, exist_ok=True)
    for f in os.listdir(d):
        if f.startswith("cases_"):
            os.remove(os.path.join(d, f))
    shards = [cases[i : i + shard_size] for i in range(0, len(cases), shard_size)]
    paths = []
    for k, sh in enumerate(shards):
        path = os.path.join(d, "cases_%d.v" % k)
        with open(path, "w") as fh:
            fh.write(header + "\n")
            fh.write("Definition cases : list (%s) := [\n" % case_type)
            fh.write(";\n".join(c["coq"] for c in sh))
            fh.write("\n].\n")
            if ood_term:
                fh.write(
                    "Eval vm_compute in (length cases, mismatches_from (fun c => negb (%s (%s (fst c)) (snd c))) 0 cases, "
                    "fold_left (fun a c => (a + %s (fst c))%%nat) cases 0%%nat).\n" % (eqb_term, model_term, ood_term)
                )
            else:
                fh.write(
                    "Eval vm_compute in (length cases, mismatches_from (fun c => negb (%s (%s (fst c)) (snd c))) 0 cases).\n"
                    % (eqb_term, model_term)
                )
            # self-test of the comparison itself: the model's observation for one of the first inputs must differ from the
            # recorded observation of at least one other case of the shard (a comparison that accepts everything, or
            # a generator that produces one observation only, would otherwise look like perfect agreement)
            fh.write(
                "Eval vm_compute in existsb (fun a => let m := %s (fst a) in existsb (fun b => negb (%s m (snd b))) cases) (firstn 3 cases).\n"
                % (model_term, eqb_term)
            )
        paths.append(path)
    bad, errors = [], []
    LAST_CANARY[0] = [0, 0]
    LAST_OOD[0] = 0 if ood_term else None
    with concurrent.futures.ThreadPoolExecutor(max_workers=JOBS) as ex:
        results = list(ex.map(lambda p: _coqc(p, timeout), paths))
    for k, (rc, out, _) in enumerate(results):
        flat = " ".join(out.split())
        m = _RESULT.search(flat)
        if rc != 0 or not m:
            errors.append("shard %d: coqc exit %d: %s" % (k, rc, out[-2000:]))
            continue
        n = int(m.group(1))
        if n != len(shards[k]):
            errors.append("shard %d: evaluated %d of %d cases" % (k, n, len(shards[k])))
        for tok in m.group(2).replace(";", " ").split():
            bad.append(k * shard_size + int(tok))
        if ood_term and m.group(3):
            LAST_OOD[0] += int(m.group(3))
        if len(shards[k]) >= 2:
            LAST_CANARY[0][1] += 1
            if re.search(r"=\s*true\s*:\s*bool", flat):
                LAST_CANARY[0][0] += 1
    for p in paths:
        for ext in (".vo", ".vok", ".vos", ".glob"):
            try:
                os.remove(p[:-2] + ext)
            except OSError:
                pass
        aux = os.path.join(os.path.dirname(p), "." + os.path.basename(p)[:-2] + ".aux")
        try:
            os.remove(aux)
        except OSError:
            pass
    return bad, errors


def eval_model(prop, header, case_type, model_term, case_coq, timeout=300):
    """The model's observation for one case, as Coq prints it (for replay files)."""
    d = os.path.join(BUILD, prop)
    os.makedirs(d, exist_ok=True)
    path = os.path.join(d, "replay_eval.v")
    with open(path, "w") as fh:
        fh.write(header + "\n")
        fh.write("Definition c : %s := %s.\n" % (case_type, case_coq))
        fh.write("Eval vm_compute in (%s (fst c)).\n" % model_term)
    rc, out, _ = _coqc(path, timeout)
    return " ".join(out.split())[:4000]


# ---------------------------------------------------------------- build


def sh(cmd, timeout=3600, cwd=VERIF):
    p = subprocess.run(cmd, shell=True, cwd=cwd, stdout=subprocess.PIPE, stderr=subprocess.STDOUT, text=True, timeout=timeout)
    return p.returncode, p.stdout


class BuildLock:
    def __enter__(self):
        os.makedirs(BUILD, exist_ok=True)
        self.fh = open(os.path.join(BUILD, ".lock"), "w")
        fcntl.flock(self.fh, fcntl.LOCK_EX)
        return self

    def __exit__(self, *a):
        fcntl.flock(self.fh, fcntl.LOCK_UN)
        self.fh.close()


def regenerate():
    """Run the translator; returns (ok, log). Generated files are only rewritten when they change."""
    rc, out = sh("/venv/bin/python %s/tools/py2v.py --repo %s --out %s/Generated" % (VERIF, REPO, COQ))
    return rc == 0, out


def make(target=None, clean=False):
    """Full .vo build (never -vos). Returns (ok, log)."""
    mk, proj = os.path.join(COQ, "Makefile"), os.path.join(COQ, "_CoqProject")
    if not os.path.exists(mk) or clean or os.path.getmtime(proj) > os.path.getmtime(mk):
        rc, out = sh("coq_makefile -f _CoqProject -o Makefile", cwd=COQ)
        if rc != 0:
            return False, out
    if clean:
        sh("make clean", cwd=COQ)
    tgt = target or ""
    rc, out = sh("timeout 3000 make -k -j%d %s" % (JOBS, tgt), cwd=COQ, timeout=3100)
    return rc == 0, out


GATE = re.compile(r"\b(Admitted|admit|Axiom|Axioms|Parameter|Parameters|Conjecture|Hypothesis|Variable)\b|Unset Guard|bypass_check|type-in-type|impredicative-set|Admit Obligations")


def grep_gate():
    """Refuse anything that declares an axiom or switches a kernel check off.
    (Variable/Hypothesis are permitted inside Sections only; Context is used for those instead,
    so the plain words are refused everywhere to keep the gate simple.)"""
    hits = []
    for root, _, files in os.walk(COQ):
        for f in files:
            if f.endswith(".v") or f == "_CoqProject":
                p = os.path.join(root, f)
                for i, line in enumerate(open(p, encoding="utf-8"), 1):
                    code = re.sub(r"\(\*.*?\*\)", "", line)
                    if GATE.search(code):
                        hits.append("%s:%d: %s" % (os.path.relpath(p, VERIF), i, line.strip()))
    return hits


def theorems_of(prop):
    p = os.path.join(COQ, "Props", prop + ".v")
    if not os.path.exists(p):
        return []
    return re.findall(r"^\s*(?:Theorem|Example)\s+(\w+)", open(p).read(), re.M)


def print_assumptions(prop, names):
    d = os.path.join(BUILD, prop)
    os.makedirs(d, exist_ok=True)
    path = os.path.join(d, "assumptions.v")
    with open(path, "w") as fh:
        fh.write("From CP Require Import Props.%s.\n" % prop)
        for n in names:
            fh.write("Print Assumptions %s.\n" % n)
    rc, out, _ = _coqc(path, 600)
    if rc != 0:
        return None, out
    chunks = [c.strip() for c in re.split(r"(?=Closed under the global context|Axioms:)", out) if c.strip()]
    return chunks, out


def coqchk(prop, timeout=1500):
    """Re-check the property's compiled theorem file and everything it depends on with the independent checker;
    returns (ok, summary text)."""
    try:
        p = subprocess.run(["coqchk", "-silent", "-o", "-Q", COQ, "CP", "CP.Props.%s" % prop], stdout=subprocess.PIPE,
                           stderr=subprocess.STDOUT, text=True, timeout=timeout)
    except subprocess.TimeoutExpired:
        return False, "coqchk timed out"
    out = p.stdout
    i = out.find("CONTEXT SUMMARY")
    summary = " ".join(out[i:].split()) if i >= 0 else out[-800:]
    return p.returncode == 0 and "Axioms: <none>" in summary, summary


# ---------------------------------------------------------------- evidence / findings


def case_key(inp):
    return hashlib.sha1(json.dumps(inp, sort_keys=True, default=str).encode()).hexdigest()


def write_json(path, obj):
    os.makedirs(os.path.dirname(path), exist_ok=True)
    tmp = path + ".tmp"
    with open(tmp, "w") as fh:
        json.dump(obj, fh, indent=1, sort_keys=True, default=str)
        fh.write("\n")
    os.replace(tmp, path)


def load_known_findings():
    p = os.path.join(VERIF, "known_findings.json")
    if not os.path.exists(p):
        return []
    return json.load(open(p))["findings"]
