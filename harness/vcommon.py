"""Shared pieces for the Validio family (C04-C08, C14, C18, C20): CID specs, recording plugin classes,
data encoders, implementation runners and Coq printers for Model/Validio.v + Model/ValidioInst.v."""
import io
import re

from cutplace import checks, data, errors, fields, interface, rowio, validio

from common import B, L, Nat, O, P, S, Zn

HEADER = "From CP Require Import Model.Base Model.Ranges Model.Fields Model.Validio Model.ValidioInst Corr.Obs.\n"

# ------------------------------------------------------------------ recording plugin classes

LOG = []  # call log of the plugin classes below (C20)


class RecFieldFormat(fields.AbstractFieldFormat):
    """Accepts exactly the values listed in its rule ('a|b|c'); records every validated_value call."""

    def __init__(self, field_name, is_allowed_to_be_empty, length, rule, data_format):
        super().__init__(field_name, is_allowed_to_be_empty, length, rule, data_format, empty_value="")
        self.accepted = rule.split("|") if rule else []

    def validated_value(self, value):
        LOG.append(["value", self.field_name, value])
        if value not in self.accepted:
            raise errors.FieldValueError("value %r is not in the table" % value)
        return value


class RecCheck(checks.AbstractCheck):
    """rule: 'accept' | 'endfail' | 'veto <field> <trigger>'; records every protocol call."""

    def __init__(self, description, rule, available_field_names, location=None):
        super().__init__(description, rule, available_field_names, location)
        parts = rule.split()
        self.kind = parts[0]
        self.veto_field = parts[1] if self.kind == "veto" else None
        self.trigger = parts[2] if self.kind == "veto" else None

    def reset(self):
        LOG.append(["reset", self.description])

    def check_row(self, field_name_to_value_map, location):
        LOG.append(["check_row", self.description, [field_name_to_value_map[n] for n in self.field_names]])
        if self.kind == "veto" and field_name_to_value_map[self.veto_field] == self.trigger:
            raise errors.CheckError("veto", location)

    def check_at_end(self, location):
        LOG.append(["at_end", self.description])
        if self.kind == "endfail":
            raise errors.CheckError("end failure", location)

    def cleanup(self):
        LOG.append(["cleanup", self.description])


_LATE = {}


def late_classes(name):
    """direct subclasses of the two abstract bases created only now (after other CIDs have been read in this
    process); they resolve by class name like any other: '<name>FieldFormat' / '<name>Check'"""
    if name not in _LATE:
        def ff_init(self, field_name, is_allowed_to_be_empty, length, rule, data_format):
            fields.AbstractFieldFormat.__init__(self, field_name, is_allowed_to_be_empty, length, rule, data_format, empty_value="")
            self.accepted = rule.split("|") if rule else []

        def ck_init(self, description, rule, available_field_names, location=None):
            checks.AbstractCheck.__init__(self, description, rule, available_field_names, location)
            parts = rule.split()
            self.kind = parts[0]
            self.veto_field = parts[1] if self.kind == "veto" else None
            self.trigger = parts[2] if self.kind == "veto" else None

        ff = type(name + "FieldFormat", (fields.AbstractFieldFormat,), {"__init__": ff_init, "validated_value": RecFieldFormat.validated_value})
        ck = type(name + "Check", (checks.AbstractCheck,), {"__init__": ck_init, "reset": RecCheck.reset, "check_row": RecCheck.check_row,
                                                            "check_at_end": RecCheck.check_at_end, "cleanup": RecCheck.cleanup})
        _LATE[name] = (ff, ck)
    return _LATE[name]


# ------------------------------------------------------------------ spec -> implementation CID


def items_text(items):
    """[[lo, hi], ...] with None for open sides -> range description"""
    if items is None:
        return ""
    parts = []
    for lo, hi in items:
        if lo is not None and lo == hi:
            parts.append(str(lo))
        else:
            parts.append(("" if lo is None else str(lo)) + "..." + ("" if hi is None else str(hi)))
    return ", ".join(parts)


OPS = {"<": "CLt", "<=": "CLe", "==": "CEq", "!=": "CNe", ">=": "CGe", ">": "CGt"}


def check_desc(i):
    """descriptions in descending alphabetical order: the order of declaration is what counts, not the names"""
    return "check%d" % (9 - i)


def check_index(desc):
    return 9 - int(desc[len("check"):])


def cid_rows(spec):
    rows = [["D", "Format", spec["format"]]]
    props = []
    if spec.get("header"):
        props.append(["D", "Header", str(spec["header"])])
    if spec.get("encoding"):
        rows.append(["D", "Encoding", spec["encoding"]])
    if spec.get("allowed") is not None:
        props.append(["D", "Allowed characters", items_text(spec["allowed"])])
    if spec["format"] == "fixed" and spec.get("line_delimiter"):
        props.append(["D", "Line delimiter", spec["line_delimiter"]])
    # data format rows may stand anywhere behind the Format row: "late" puts them behind the fields
    late = props if spec.get("late") else []
    rows += [] if spec.get("late") else props
    if spec.get("late") and spec.get("allowed") is not None and spec.get("examples"):
        # an earlier, wider 'Allowed characters' row under which the examples of the fields are validated;
        # the later row (behind the fields) is the one that counts for the data
        rows.append(["D", "Allowed characters", "0..."])
    for f in spec["fields"]:
        rule = ""
        if f["type"] == "Choice":
            rule = ", ".join(f["choices"])
        elif f["type"] == "Rec":
            rule = "|".join(f["choices"])
        elif "accepted" in f:
            rule = f.get("rule", "")
        tname = spec.get("rec_name", "Rec") if f["type"] == "Rec" else f["type"]
        rows.append(["F", f["name"], good_example(spec, f) if spec.get("examples") else "", "X" if f["empty"] else "", items_text(f["length"]), tname, rule])
    rows += late
    names = [f["name"] for f in spec["fields"]]
    for i, c in enumerate(spec.get("checks", [])):
        desc = check_desc(i)
        if c["kind"] == "unique":
            rows.append(["C", desc, "IsUnique", ", ".join(names[k] for k in c["cols"])])
        elif c["kind"] == "distinct":
            rows.append(["C", desc, "DistinctCount", "%s %s %d" % (names[c["col"]], c["op"], c["n"])])
        elif c["kind"] == "veto":
            rows.append(["C", desc, spec.get("rec_name", "Rec"), "veto %s %s" % (names[c["col"]], c["trigger"])])
        else:
            rows.append(["C", desc, spec.get("rec_name", "Rec"), c["kind"]])
    return rows


def good_example(spec, f):
    """an example the field accepts whatever characters are allowed ('' = no example)"""
    if "accepted" in f:
        return ""
    pool = list(f["choices"]) if f["choices"] else ["a", "zz", "y{~", "A1b"]
    for c in pool:
        n = len(c)
        if spec["format"] == "fixed":
            if n <= f["length"][0][0]:
                return c
        elif f["length"] is None or any((lo is None or lo <= n) and (hi is None or n <= hi) for lo, hi in f["length"]):
            return c
    return ""


PLUGIN_SOURCE = """# written by the harness: a plugin folder as interface.import_plugins() scans it
from cutplace import checks, errors, fields
import vcommon


class %(name)sFieldFormat(fields.AbstractFieldFormat):
    def __init__(self, field_name, is_allowed_to_be_empty, length, rule, data_format):
        super().__init__(field_name, is_allowed_to_be_empty, length, rule, data_format, empty_value="")
        self.accepted = rule.split("|") if rule else []

    validated_value = vcommon.RecFieldFormat.validated_value


class %(name)sCheck(checks.AbstractCheck):
    def __init__(self, description, rule, available_field_names, location=None):
        super().__init__(description, rule, available_field_names, location)
        parts = rule.split()
        self.kind = parts[0]
        self.veto_field = parts[1] if self.kind == "veto" else None
        self.trigger = parts[2] if self.kind == "veto" else None

    reset = vcommon.RecCheck.reset
    check_row = vcommon.RecCheck.check_row
    check_at_end = vcommon.RecCheck.check_at_end
    cleanup = vcommon.RecCheck.cleanup
"""


def plugin_classes(name, folder):
    """the same two classes, this time supplied by a plugin folder: a module written there and imported by cutplace"""
    import os
    if name not in _LATE:
        os.makedirs(folder, exist_ok=True)
        for old in os.listdir(folder):
            if old.endswith(".py"):
                os.remove(os.path.join(folder, old))
        with open(os.path.join(folder, "plugin_%s.py" % name.lower()), "w") as fh:
            fh.write(PLUGIN_SOURCE % {"name": name})
        interface.import_plugins(folder)
        _LATE[name] = True


def build_cid(spec):
    if spec.get("rec_name") and spec.get("plugin_folder"):
        plugin_classes(spec["rec_name"], spec["plugin_folder"])
    elif spec.get("rec_name"):
        late_classes(spec["rec_name"])
    cid = interface.Cid()
    cid.read("<spec>", cid_rows(spec))
    return cid


def coq_range(items):
    if items is None:
        return "None"
    return "(Some %s)" % L(items, lambda it: P(O(it[0], Zn), O(it[1], Zn)))


def coq_cid(spec):
    fs = []
    for f in spec["fields"]:
        # a built-in type other than Text / Choice: its hook is replayed from the implementation (C02 decides the hooks) as
        # the list of those cells of its column that a fresh field of that type accepts
        h = "HText" if f["type"] == "Text" else "(HChoice %s)" % L(f["accepted"] if "accepted" in f else f["choices"], S)
        fs.append("(mkfield %s %s %s %s)" % (S(f["name"]), B(f["empty"]), coq_range(f["length"]), h))
    cks = []
    for c in spec.get("checks", []):
        if c["kind"] == "unique":
            cks.append("(KUnique %s)" % L(c["cols"], Nat))
        elif c["kind"] == "distinct":
            cks.append("(KDistinct %s %s %s)" % (Nat(c["col"]), OPS[c["op"]], Zn(c["n"])))
        elif c["kind"] == "veto":
            cks.append("(KVeto %s %s)" % (Nat(c["col"]), S(c["trigger"])))
        elif c["kind"] == "endfail":
            cks.append("KEndFail")
        else:
            cks.append("KAccept")
    return "(mkcid %s %s %s %s %s)" % (B(spec["format"] == "fixed"), coq_range(spec.get("allowed")), Nat(spec.get("header", 0)), L(fs, str), L(cks, str))


# ------------------------------------------------------------------ data


def widths(spec):
    return [f["length"][0][0] for f in spec["fields"]]


def encode(spec, table, broken_tail=False):
    """text of a data set; for fixed data every cell is padded/cut to its width by the caller"""
    if spec["format"] == "fixed":
        ld = {"lf": "\n", "cr": "\r", "crlf": "\r\n", None: "\n", "any": "\n", "none": ""}[spec.get("line_delimiter")]
        text = "".join("".join(row) + ld for row in table)
        if broken_tail:
            # a complete record followed by a character that is neither a permitted delimiter nor a whole record
            text += "".join("a" * w for w in widths(spec)) + "x"
        return text
    text = "".join(",".join(row) + "\n" for row in table)
    if broken_tail:
        text += '"unterminated\n'
    return text


LAST_RAW_LEAK = [None]


def raw_rows(cid, spec, text):
    """(rows the implementation's own row reader delivers, whether it ends in DataFormatError)"""
    stream = io.StringIO(text, newline="")
    df = cid.data_format
    if spec["format"] == "fixed":
        gen = rowio.fixed_rows(stream, df.encoding, interface.field_names_and_lengths(cid), df.line_delimiter)
    else:
        gen = rowio.delimited_rows(stream, df)
    rows = []
    LAST_RAW_LEAK[0] = None
    try:
        for r in gen:
            rows.append(list(r))
        return rows, False
    except errors.DataFormatError:
        return rows, True
    except Exception as e:  # noqa - a row reader must fail with DataFormatError only; the case's oracle reports it
        LAST_RAW_LEAK[0] = "%s: %s" % (type(e).__name__, str(e)[:120])
        return rows, True


# ------------------------------------------------------------------ observations

FAMILY = [
    (errors.FieldValueError, "FFieldValue"),
    (errors.CheckError, "FCheck"),
    (errors.DataFormatError, "FDataFormat"),
    (errors.RangeValueError, "FRangeValue"),
    (errors.DataError, "FData"),
    (errors.InterfaceError, "FInterface"),
]
FIELD_IN_MESSAGE = re.compile(r"cannot accept field '([^']*)'")


def family_of(e):
    for cls, name in FAMILY:
        if isinstance(e, cls):
            return name
    return "FLeak"


def canon_error(e, spec):
    """(family, line, cell, field index named in the message, see-also (line, cell)); read AFTER the run"""
    fam = family_of(e)
    if fam == "FLeak":
        return {"family": fam, "type": type(e).__name__, "line": 0, "cell": 0, "field": None, "see": None, "path": None}
    loc = e.location
    m = FIELD_IN_MESSAGE.search(e.message)
    names = [f["name"] for f in spec["fields"]]
    fld = names.index(m.group(1)) if m and m.group(1) in names else None
    see = e.see_also_location
    if fam == "FDataFormat":
        # the row readers keep their own location object; the property only demands the family
        return {"family": fam, "line": 0, "cell": 0, "field": None, "see": None, "path": None}
    return {
        "family": fam,
        "line": loc.line if loc is not None else 0,
        "cell": loc._cell if loc is not None else 0,
        "field": fld,
        "see": None if see is None else [see.line, see._cell],
        "path": None if loc is None else loc.file_path,
        "text": str(e)[:160],
    }


def coq_err(c):
    see = "None" if c["see"] is None else "(Some (Lc %s %s))" % (Nat(c["see"][0]), Nat(c["see"][1]))
    return "(E %s %s %s %s %s)" % (c["family"], Nat(c["line"]), Nat(c["cell"]), O(c["field"], Nat), see)


def coq_out(o):
    if "row" in o:
        return "(ORow %s)" % L(o["row"], S)
    return "(OErr %s)" % coq_err(o["err"])


def coq_run_obs(obs):
    return P(L(obs["outs"], coq_out), O(obs["raised"], coq_err), Nat(obs["acc"]), Nat(obs["rej"]))


def run_reader(cid, spec, text, mode, limit, decoy_text=None, prepass=False):
    """`with Reader(...) as r: for row in r.rows()` - the body of cutplace.rows() - plus the counters"""
    outs = []
    raised = None
    stream = io.StringIO(text, newline="")
    reader = validio.Reader(cid, stream, on_error=mode, validate_until=limit)
    if prepass:
        # the same Reader reads its data a first time (rows() starts a new pass each time it is called); the pass
        # under observation is the second one
        try:
            for _ in reader.rows():
                pass
        except Exception:  # noqa
            pass
        stream.seek(0)
    if decoy_text is not None:
        # another data set read with the same CID between the construction of the reader under test and its use:
        # "decided over the whole data set" means this data set only
        try:
            with validio.Reader(cid, io.StringIO(decoy_text, newline=""), on_error="continue") as other:
                for _ in other.rows():
                    pass
        except Exception:  # noqa
            pass
    try:
        with reader:
            for r in reader.rows():
                outs.append(r)
    except Exception as e:  # noqa
        raised = e
    res = {
        "outs": [{"err": canon_error(o, spec)} if isinstance(o, Exception) else {"row": list(o)} for o in outs],
        "raised": None if raised is None else canon_error(raised, spec),
        "acc": reader.accepted_rows_count or 0,
        "rej": reader.rejected_rows_count or 0,
    }
    return res


def run_rows_fn(cid, spec, text, mode, limit):
    """the public generator function cutplace.validio.rows() itself"""
    outs = []
    raised = None
    try:
        for r in validio.rows(cid, io.StringIO(text, newline=""), on_error=mode, validate_until=limit):
            outs.append(r)
    except Exception as e:  # noqa
        raised = e
    return {"outs": [{"err": canon_error(o, spec)} if isinstance(o, Exception) else {"row": list(o)} for o in outs],
            "raised": None if raised is None else canon_error(raised, spec)}


def run_validate(cid, spec, text, limit):
    raised = None
    try:
        validio.validate(cid, io.StringIO(text, newline=""), validate_until=limit)
    except Exception as e:  # noqa
        raised = e
    return {"outs": [], "raised": None if raised is None else canon_error(raised, spec), "acc": 0, "rej": 0}


MODES = {"raise": "MRaise", "yield": "MYield", "continue": "MContinue"}


# ------------------------------------------------------------------ generators


def gen_spec(rnd, fmt=None, nfields=None, with_checks=True, rec=False, header=None):
    fmt = fmt or rnd.choice(["delimited", "delimited", "fixed"])
    n = nfields or rnd.randint(1, 5)
    fs = []
    for i in range(n):
        ftype = "Rec" if rec else rnd.choice(["Text", "Choice", "Choice"])
        f = {"name": "f%d" % i, "empty": rnd.random() < 0.4, "type": ftype, "choices": []}
        if fmt == "fixed":
            w = rnd.randint(1, 3)
            f["length"] = [[w, w]]
        else:
            f["length"] = rnd.choice([None, None, [[1, 2]], [[None, 2]], [[2, None]], [[1, 1], [3, 3]], [[2, 2]], [[None, 1], [3, None]]])
        if ftype in ("Choice", "Rec"):
            pool = ["a", "b", "ab", "x", "abc", "bb"]
            if fmt == "fixed":
                pool = [p for p in pool if len(p) <= f["length"][0][0]] or ["a"]
            f["choices"] = rnd.sample(pool, rnd.randint(1, min(3, len(pool))))
        fs.append(f)
    spec = {"format": fmt, "header": rnd.choice([0, 0, 1, 2]) if header is None else header, "fields": fs, "checks": []}
    if rnd.random() < 0.3:
        spec["allowed"] = rnd.choice([[[97, 122]], [[32, 32], [97, 98]], [[0, 120]], [[98, None]]])
        spec["late"] = rnd.random() < 0.5
        spec["examples"] = spec["late"] and not rec and rnd.random() < 0.6
    if fmt == "fixed" and rnd.random() < 0.5:
        spec["line_delimiter"] = rnd.choice(["lf", "cr", "crlf", "any"])
    if with_checks:
        for _ in range(rnd.choice([0, 0, 1, 1, 2, 3])):
            k = rnd.random()
            if rec:
                kind = rnd.choice(["accept", "endfail", "veto", "veto"])
                c = {"kind": kind}
                if kind == "veto":
                    c.update(col=rnd.randrange(n), trigger=rnd.choice(["a", "b", "x"]))
                spec["checks"].append(c)
            elif k < 0.5:
                spec["checks"].append({"kind": "unique", "cols": rnd.sample(range(n), rnd.randint(1, min(3, n)))})
            else:
                spec["checks"].append({"kind": "distinct", "col": rnd.randrange(n), "op": rnd.choice(list(OPS)), "n": rnd.randint(0, 4)})
    return spec


def gen_cell(rnd, spec, f):
    """a cell for field f: mostly acceptable, sometimes one of the classic rejections"""
    pool = list(f["choices"]) if f["choices"] else ["a", "b", "ab", "abc", "x"]
    r = rnd.random()
    if r < 0.6:
        c = rnd.choice(pool)
    elif r < 0.7:
        c = ""
    elif r < 0.8:
        c = rnd.choice(["abcd", "zz", "y", "B", " a", "a "])
    elif r < 0.9:
        c = rnd.choice(["{", "~", "A", "1"])  # likely outside allowed characters
    else:
        c = rnd.choice(["a", "b", "x", "ab"])
    if spec["format"] == "fixed":
        w = f["length"][0][0]
        c = (c + " " * w)[:w] if rnd.random() < 0.8 else (" " * w + c)[-w:]     # sometimes right-aligned
        if rnd.random() < 0.05:
            c = rnd.choice(["\t", "\xa0", "\t ", " \t"]) * w      # white space, but no blanks: not an empty cell's padding
            c = c[:w]
    return c


BUILTIN_POOLS = {
    "Integer": [("", ["1", "12", "-3", "007", "+5", "1.5", "x", "99999999999", "2147483648", "1e3", "0x10", " 7", "1_0"]),
                ("0...99", ["0", "99", "100", "-1", "042", "x", "+9", "9.0"])],
    "Decimal": [("", ["1", "1.5", "-0.25", "1e3", "x", "123456789012345678901.5", "1e20", "-1e20", "9999999999999999999.999999999999",
                      "99999999999999999999", "NaN", "Infinity", "1e-40"]),
                ("0...299.99", ["0", "299.99", "300", "1e2", "1e3", "x", "-0.01", "299.990"])],
    "DateTime": [("DD.MM.YYYY", ["01.02.2003", "31.02.2003", "1.2.2003", "x", "29.02.2000", "29.02.1900", "01.02.03"]),
                 ("hh:mm", ["23:59", "24:00", "7:5", "x", "00:00"])],
    "RegEx": [("a+b?", ["a", "aab", "b", "ab", "abb", "x"])],
    "Pattern": [("a*", ["a", "abc", "ba", "A", "x"])],
}


def builtin_variant(rnd, spec, table):
    """turn one field of a delimited spec into a field of another built-in type and fill its column with cells from that
    type's pool; the field's hook is replayed from the implementation: accepted = the cells of the column a fresh field of
    that type accepts. Returns (spec, table) - new objects."""
    import copy
    from cutplace import data as _data, errors as _errors, fields as _fields
    if spec["format"] != "delimited" or not spec["fields"]:
        return spec, table
    spec = copy.deepcopy(spec)
    table = [list(r) for r in table]
    k = rnd.randrange(len(spec["fields"]))
    f = spec["fields"][k]
    tname = rnd.choice(sorted(BUILTIN_POOLS))
    rule, pool = rnd.choice(BUILTIN_POOLS[tname])
    f.update(type=tname, rule=rule, choices=[], length=None)
    n = len(spec["fields"])
    for row in table:
        if len(row) == n:
            row[k] = rnd.choice(pool) if rnd.random() < 0.9 else ""
    cells = sorted({row[k] for row in table if len(row) == n and row[k] != ""})
    df = _data.DataFormat("delimited")
    df.validate()
    field = getattr(_fields, tname + "FieldFormat")("f", f["empty"], "", rule, df)
    accepted = []
    for c in cells:
        try:
            field.validated_value(c)
            accepted.append(c)
        except _errors.FieldValueError:
            pass
        except Exception:  # noqa - a hook that fails otherwise: the model expects a rejection, the run will show the leak
            pass
    f["accepted"] = accepted
    return spec, table


def gen_table(rnd, spec, nrows=None, ragged=True):
    n = len(spec["fields"])
    rows = []
    for _ in range(rnd.randint(0, 8) if nrows is None else nrows):
        row = [gen_cell(rnd, spec, f) for f in spec["fields"]]
        if ragged and spec["format"] != "fixed" and rnd.random() < 0.12:
            # items that a message about the row will have to show: format directives, braces, quotes, backslashes
            odd = ["x", "5%", "%s off", "100%d", "{0}", "%(a)s", "a'b", "\\", "%"]
            row = row[: rnd.randint(0, n)] if rnd.random() < 0.5 else row + [rnd.choice(odd) for _ in range(rnd.randint(1, 2))]
            if row and rnd.random() < 0.5:
                row[rnd.randrange(len(row))] = rnd.choice(odd)
        if rows and rnd.random() < 0.25:
            row = list(rnd.choice(rows))  # duplicates for the checks
            if len(row) != n and spec["format"] == "fixed":
                row = row[:n]
        rows.append(row)
    return rows
