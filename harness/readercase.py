"""One reader run (cutplace.rows or cutplace.validate) as a correspondence case for Model/Validio.v."""
import vcommon as V
from common import B, L, Nat, O, P, S

MODEL_FILES = ["Model/Validio.v", "Model/ValidioInst.v", "Corr/Obs.v"]
HEADER = V.HEADER + """Definition run (i : cid cstate * bool * mode * option nat * list (list text) * bool) : run_obs :=
  let '(c, is_validate, m, lim, raws, fault) := i in
  if is_validate then (let r := validate_api c lim (resets (c_checks c)) raws fault in ([], r_raised r, 0%nat, 0%nat))
  else run_obs_of (api_rows c m lim (resets (c_checks c)) raws fault)."""
CASE_TYPE = "(cid cstate * bool * mode * option nat * list (list text) * bool) * run_obs"
MODEL = "run"
EQB = "run_obs_eqb"
SHARD = 250
TRUSTED = ["the row readers (csv / fixed_rows) deliver the logical rows: the model is run on the rows the implementation's own reader returned for the same text (their correctness is C12/C13)"]
ASSUMPTIONS = ["field types used here are Text, Choice and a table-driven plugin field; checks are IsUnique, DistinctCount 'field <op> n' and plugin checks"]


def make_case(inp):
    spec, table = inp["spec"], inp["table"]
    mode, limit, fault = inp.get("mode", "yield"), inp.get("limit"), inp.get("fault", False)
    api = inp.get("api", "rows")
    cid = V.build_cid(spec)
    text = V.encode(spec, table, broken_tail=fault)
    raws, raw_fault = V.raw_rows(cid, spec, text)
    raw_leak = V.LAST_RAW_LEAK[0]
    if api == "validate":
        obs = V.run_validate(cid, spec, text, limit)
    else:
        decoy = V.encode(spec, inp["decoy"]) if inp.get("decoy") else None
        obs = V.run_reader(cid, spec, text, mode, limit, decoy, prepass=bool(inp.get("prepass")))
    if api == "rows":
        # cutplace.rows() - the public function - on a freshly built CID must behave like `with Reader(...)`
        fn = V.run_rows_fn(V.build_cid(spec), spec, text, mode, limit)
        if (fn["outs"], fn["raised"]) != (obs["outs"], obs["raised"]):
            obs["fn_mismatch"] = "cutplace.rows(on_error=%r) gives %r / raises %r but `with Reader(...)` gives %r / raises %r" % (
                mode, fn["outs"][-2:], fn["raised"], obs["outs"][-2:], obs["raised"])
    obs["raw_fault"] = raw_fault
    if raw_leak:
        obs["fn_mismatch"] = "the row reader failed with a non-cutplace exception on a malformed container: " + raw_leak
    coq_in = P(V.coq_cid(spec), B(api == "validate"), V.MODES[mode], O(limit, Nat), L(raws, lambda r: L(r, S)), B(raw_fault))
    n_err = sum(1 for o in obs["outs"] if "err" in o) + (1 if obs["raised"] else 0)
    tags = [spec["format"], mode, api, "errors" if n_err else "clean", "fault" if raw_fault else "nofault", "rows%d" % len(raws)] + (["second-pass"] if inp.get("prepass") else [])
    return {"coq": P(coq_in, V.coq_run_obs(obs)), "obs": obs, "raws": raws, "nontrivial": len(raws) > spec.get("header", 0), "tags": tags}


def extra_oracle(inp, obs):
    return obs.get("fn_mismatch")
