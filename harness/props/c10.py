"""C10 - CID and data problems surface as cutplace errors, never as internal failures.
(a) every cell of every row kind of valid base CIDs filled from a pool of hostile values, one cell at a time
    (thorough: also pairwise), Cid.read against Model/Cid.v; (b) hostile data cells per field type and format through
    field.validated against Model/FieldTypes.v and through cutplace.rows; (c) data containers truncated and bit-flipped;
(d) the command line on hostile CIDs and data: exit code never 4."""
import contextlib
import io
import os
import shutil
import zipfile

import xlsxwriter

import cutplace
from cutplace import applications, errors, interface

import common as C
import props.c02 as c02
import props.c09 as c09
from common import L, P, S

MODEL_FILES = ["Model/Cid.v", "Model/FieldTypes.v"]
HEADER = c09.HEADER.replace("Definition ood", "Definition ood09") + """
Inductive c10case := CCid (c : tcase) | CNoModel.
Inductive c10obs := OCid (o : tobs) | ONone.
Definition run10 (c : c10case) : c10case := c.
Definition obs10_eqb (c : c10case) (e : c10obs) : bool :=
  match c, e with
  | CCid t, OCid o => tobs_eqb (run t) o
  | CNoModel, ONone => true
  | _, _ => false
  end.
Definition ood (c : c10case) : nat := match c with CCid t => ood09 t | CNoModel => 0%nat end."""
CASE_TYPE = "c10case * c10obs"
MODEL = "run10"
EQB = "obs10_eqb"
OOD = "ood"
SHARD = 150
RULE = ("(a) 4 valid base CIDs (delimited with all 8 field types and both checks, fixed, excel, ods) x every cell of every row "
        "(incl. one cell beyond the last) x a pool of 85 hostile values (unterminated quotes, stray operators and brackets, "
        "out-of-range and malformed numbers, non-ASCII, control characters, NaN/Infinity, regex and date-layout fragments, "
        "Python expressions, empty), one cell at a time - quick: the delimited base completely, the others sampled; thorough: "
        "all, plus sampled pairs of cells; (b) hostile data cells: every field type x 4 formats x the pool through "
        "field.validated (compared with the model as in C02, any non-FieldValueError flagged) and through cutplace.rows on "
        "delimited data; (c) containers: ODS documents with a hostile value in each of the four repeat attributes (as data and as the CID itself); ODS and XLSX archives truncated at every k-th byte and with a bit flipped at every "
        "k-th byte (quick k=16/7, thorough k=1), delimited and fixed files with undecodable bytes, NUL, unterminated quotes, "
        "short records; fixed and delimited data under CIDs with every built-in field type; (c') validio.Writer under the same CIDs with one hostile value per row; (d) cutplace.applications.main on hostile CIDs and data: exit code in {0,1,3} and never 4. "
        "Observed: accepted / InterfaceError (+row named) / DataError / other exception. Non-trivial: the hostile value is "
        "non-empty. Distinct = distinct case.")
EXHAUSTIVE = {"quick": False, "thorough": False}
TRUSTED = ["Model/Cid.v and its sub-models as validated by C09/C02/C11/C01", "harness/props/c10.py"]
ASSUMPTIONS = ["a missing or unreadable file (OSError) is an environment problem, not a CID or data problem (the command line answers it with 3)",
               "lengths so large that building the derived range exhausts memory are excluded from the pool (resource exhaustion cannot be exercised safely)"]

TMP = os.path.join(C.BUILD, "C10", "tmp")
POOL = ["", " ", "'", '"', "'a", "(", ")", "((", "[", "{", "\\", "a\\", "...", "1...", "...1", "1...2...3", "5...1", "-", "--1", "1e999",
        "99999999999999999999", "5000", "0x", "0b2", "1_", "$", "?", "!", "`", "#", "a#b", "é", "…", " ", "\x00", "\x1b", "NaN", "Infinity",
        "-inf", "1,", ",", ",,", "a,,b", "a b", "a.b", ".", "..", "*", "[a", "a)", "(?P<x>", "(?", "a{", "+", "\\1", "%", "%%", "DD.DD", "YYYY YY", "MMm",
        "count", "x < ", "x ==", "x < y", "x <> 1", "x < 1; import os", "x < '1'", "x.__class__", "lambda", "None", "True", "\t", "\n", "a\nb", "\r",
        " a", "a ", "0", "-1", "1.5", "01", "1_0", "١", "TAB", "utf-8", "crlf", "none", "x" * 300,
        "b'a'", "r'x'", "u'a'", "rb'a'", "f'x'", 'b"a"...3', "a'b'", "\\\na < 3", "\\\n1...2", "rot13", "hex", "undefined", "utf-16", "punycode", "5, 5", "5...5, 5", "1...5, 5...9",
        # letters whose case mappings are unusual (lower / upper / casefold disagree, change the length, or leave the script)
        "\u13a0", "csv\uab70", "\u0130", "\u00df", "\u212a", "\ufb01xed", "\u01c5", "\u1e9e", "\U00010400"]
BASES = {
    "delimited": [["D", "Format", "Delimited"], ["D", "Header", "1"], ["D", "Item delimiter", ";"], ["D", "Allowed characters", "32..."], ["D", "Encoding", "utf-8"],
                  ["F", "a", "12", "", "1...5", "Integer", "0...99999"], ["F", "b", "x", "X", "", "Choice", "x, y"], ["F", "c", "1.5", "", "", "Decimal", "0...10"],
                  ["F", "d", "01.02.2003", "", "", "DateTime", "DD.MM.YYYY"], ["F", "e", "", "", "", "Pattern", "a*"], ["F", "f", "", "", "", "RegEx", "abc"],
                  ["F", "g", "k", "", "", "Constant", "k"], ["F", "h", "", "X", "...20", "Text", ""], ["C", "u", "IsUnique", "a, b"], ["C", "dc", "DistinctCount", "b < 3"]],
    "fixed": [["D", "Format", "Fixed"], ["D", "Line delimiter", "lf"], ["D", "Decimal separator", ","], ["D", "Thousands separator", "."],
              ["F", "a", "12", "", "5", "Integer", ""], ["F", "b", "x", "X", "3", "Text", ""], ["F", "c", "1,5", "", "6", "Decimal", ""], ["C", "u", "IsUnique", "a"]],
    "excel": [["D", "Format", "Excel"], ["D", "Sheet", "1"], ["F", "a", "12", "", "", "Integer", ""], ["F", "c", "1.5", "", "", "Decimal", ""], ["F", "d", "", "", "", "DateTime", "YYYY-MM-DD"]],
    "ods": [["D", "Format", "Ods"], ["D", "Sheet", "2"], ["F", "a", "", "X", "1...", "Integer", "1..."], ["C", "dc", "DistinctCount", "a >= 1"]],
}
FIELD_DECLS = [("Integer", "", "0...99"), ("Integer", "1...3", ""), ("Decimal", "", "0...10"), ("Decimal", "", "1..."), ("Choice", "", "x, y"),
               ("Constant", "", "k"), ("DateTime", "", "DD.MM.YYYY hh:mm"), ("DateTime", "", "YY"), ("Pattern", "", "a*[b-c]?"), ("RegEx", "", "a.c+"), ("Text", "1...5", ""),
               ("Integer", "", "0...0x" + "f" * 4000), ("Integer", "", "0..." + "9" * 5000), ("Decimal", "", "0...1e99999")]


def hostile_rows(base, y, x, v):
    rows = [list(r) for r in base]
    r = rows[y] + [""] * max(0, x + 1 - len(rows[y]))
    r[x] = v
    rows[y] = r
    return rows


# ------------------------------------------------------------------ (c) containers


def ods_blob():
    xml = ('<?xml version="1.0" encoding="UTF-8"?><office:document-content xmlns:office="urn:oasis:names:tc:opendocument:xmlns:office:1.0" '
           'xmlns:table="urn:oasis:names:tc:opendocument:xmlns:table:1.0" xmlns:text="urn:oasis:names:tc:opendocument:xmlns:text:1.0">'
           "<office:body><office:spreadsheet><table:table table:name=\"S\"><table:table-row><table:table-cell><text:p>1</text:p></table:table-cell>"
           "<table:table-cell table:number-columns-repeated=\"1\"><text:p>x<text:s text:c=\"2\"/>y</text:p></table:table-cell></table:table-row></table:table>"
           "</office:spreadsheet></office:body></office:document-content>")
    b = io.BytesIO()
    with zipfile.ZipFile(b, "w", zipfile.ZIP_DEFLATED) as z:
        z.writestr("mimetype", "application/vnd.oasis.opendocument.spreadsheet")
        z.writestr("content.xml", xml)
    return b.getvalue()


def xlsx_blob():
    path = os.path.join(TMP, "base_%d.xlsx" % os.getpid())
    wb = xlsxwriter.Workbook(path)
    ws = wb.add_worksheet()
    ws.write_number(0, 0, 1)
    ws.write_string(0, 1, "x")
    wb.close()
    data = open(path, "rb").read()
    os.remove(path)
    return data


DATA_CID = {"ods": [["D", "Format", "ods"], ["F", "a", "", "", "", "Integer"], ["F", "b", "", "X", "", "Text"]],
            "xlsx": [["D", "Format", "excel"], ["F", "a", "", "", "", "Integer"], ["F", "b", "", "X", "", "Text"]],
            "csv": [["D", "Format", "delimited"], ["D", "Encoding", "utf-8"], ["F", "a", "", "", "", "Integer"], ["F", "b", "", "X", "", "Text"]],
            "txt": [["D", "Format", "fixed"], ["D", "Encoding", "utf-8"], ["D", "Line delimiter", "lf"], ["F", "a", "", "", "3", "Integer"], ["F", "b", "", "X", "5", "Text"]]}
ALLTYPES_FIXED = [["D", "Format", "fixed"], ["D", "Encoding", "utf-8"], ["D", "Line delimiter", "lf"],
                  ["F", "i", "", "", "3", "Integer"], ["F", "d", "", "X", "6", "Decimal"], ["F", "c", "", "", "1", "Choice", "x, y"],
                  ["F", "t", "", "X", "10", "DateTime", "DD.MM.YYYY"], ["F", "p", "", "X", "2", "Pattern", "a*"], ["F", "r", "", "X", "2", "RegEx", "a."],
                  ["F", "k", "", "", "1", "Constant", "k"], ["F", "s", "", "X", "4", "Text"]]
ALLTYPES_DELIMITED = [["D", "Format", "delimited"], ["D", "Encoding", "utf-8"]] + [r[:4] + [""] + r[5:] for r in ALLTYPES_FIXED[3:]]
for _enc in ("utf-16", "utf-32", "punycode", "utf-7", "unicode_escape", "idna"):
    # encodings whose decoders fail in their own ways (no byte order mark, bad escape, ...): always a DataFormatError
    DATA_CID["csv+" + _enc] = [["D", "Format", "delimited"], ["D", "Encoding", _enc], ["F", "a", "", "", "", "Integer"], ["F", "b", "", "X", "", "Text"]]
    DATA_CID["txt+" + _enc] = [["D", "Format", "fixed"], ["D", "Encoding", _enc], ["D", "Line delimiter", "lf"], ["F", "a", "", "", "3", "Integer"], ["F", "b", "", "X", "5", "Text"]]
DATA_CID["txtall"] = ALLTYPES_FIXED
DATA_CID["csvall"] = ALLTYPES_DELIMITED
TEXT_BLOBS = {"txtall": [b"  1   1.5x01.02.2003abaxkabcd\n", b"  1      x                    \n", b"  1  1,5 x01.02.2003abaxkabcd\n", b"  1   NaNx31.02.2003abaxkabcd\n",
                         b"  1   1.5x01.02.2003abaxkabc", b"", b"  1   1.5z01.02.2003abaxkabcd\n  2   2.5y            \n"],
              "csvall": [b"1,1.5,x,01.02.2003,ab,ax,k,abcd\n", b"1,,x,,,,,\n", b"1,NaN,x,,,,,\n", b"1,1.5,x,31.02.2003,,,,\n", b"1,1.5\n"],
              "csv": [b"1,x\n", b"1,\xff\n", b'1,"x\n', b"1,x\x00y\n", b"\xff\xfe1\x00", b"1,x\r\r\n2,y", b'1,"a"b\n', b"", b"\n\n", b"1\n", b"1,2,3\n", b"a,b\n", b"1,\xc3\n"],
              "txt": [b"  1abcde\n", b"  1abc", b"  1abcde\r\n", b"  1ab\xffde\n", b"", b"\n", b"  1abcdeX", b"  1abcde\n  2", b"\xe4" * 8 + b"\n", b"  1abcd\xc3", b"  1abcde\xc3", b"  1abcde\xff\n", b"  1abcde\n  2abcde\xc3\xc3", (b"  1abcde\n" * 1024)[:-1] + b"\xff"]}
for _k in list(DATA_CID):
    if "+" in _k:
        TEXT_BLOBS[_k] = [b"1,x\n", b"  1abcde\n", b"\xff\xfe1\x00,\x00x\x00\n\x00", b"\\u12", b"xn--\xff", b"+AGE-,x\n", b"", b"\xff"]
_BLOBS = {}
# values for table:number-rows-repeated (R), table:number-columns-repeated of a filled (C) and an empty (E) cell, text:c (S)
ATTR_POOL = ["0", "-1", "-0", "+2", "2", " 2 ", "1.5", "1e2", "x", "", "0x10", "１", "٣", "00", "1_0", "99999999999999999999", "-99999999999999999999", "\t1\n", "1 1", "NaN", "True"]


def container_bytes(inp):
    kind = inp["container"]
    if kind in TEXT_BLOBS:
        return TEXT_BLOBS[kind][inp["index"]]
    if kind not in _BLOBS:
        _BLOBS[kind] = ods_blob() if kind == "ods" else xlsx_blob()
    blob = _BLOBS[kind]
    if inp["damage"] == "declared-encoding":
        xml = zipfile.ZipFile(io.BytesIO(blob)).read("content.xml").decode("utf-8").replace('encoding="UTF-8"', 'encoding="%s"' % inp["declared"])
        b = io.BytesIO()
        with zipfile.ZipFile(b, "w", zipfile.ZIP_DEFLATED) as z:
            z.writestr("content.xml", xml.encode("utf-8"))
        return b.getvalue()
    if inp["damage"] == "attr":
        # a well-formed document in which one repeat attribute carries a hostile value
        xml = ('<?xml version="1.0" encoding="UTF-8"?><office:document-content xmlns:office="urn:oasis:names:tc:opendocument:xmlns:office:1.0" '
               'xmlns:table="urn:oasis:names:tc:opendocument:xmlns:table:1.0" xmlns:text="urn:oasis:names:tc:opendocument:xmlns:text:1.0">'
               "<office:body><office:spreadsheet><table:table table:name=\"S\"><table:table-row table:number-rows-repeated=\"@R@\">"
               "<table:table-cell><text:p>1</text:p></table:table-cell>"
               "<table:table-cell table:number-columns-repeated=\"@C@\"><text:p>x<text:s text:c=\"@S@\"/>y</text:p></table:table-cell></table:table-row>"
               "<table:table-row><table:table-cell table:number-columns-repeated=\"@E@\"/></table:table-row></table:table>"
               "</office:spreadsheet></office:body></office:document-content>")
        from xml.sax.saxutils import escape
        for key in "RCSE":
            xml = xml.replace("@%s@" % key, escape(inp["value"], {'"': "&quot;"}) if key == inp["place"] else "1")
        b = io.BytesIO()
        with zipfile.ZipFile(b, "w", zipfile.ZIP_DEFLATED) as z:
            z.writestr("content.xml", xml.encode("utf-8"))
        return b.getvalue()
    if inp["damage"] == "truncate":
        return blob[:inp["at"]]
    b = bytearray(blob)
    b[inp["at"]] ^= 1 << inp["bit"]
    return bytes(b)


def read_data(cid_rows, path, as_stream=False):
    stream = None
    try:
        cid = interface.Cid()
        cid.read("c10", cid_rows)
        n = 0
        source = path
        if as_stream:
            # the caller opens the data itself: text with the declared encoding for delimited / fixed, binary otherwise
            fmt = cid.data_format.format
            stream = open(path, "r", encoding=cid.data_format.encoding, newline="") if fmt in ("delimited", "fixed") else open(path, "rb")
            source = stream
        for _ in cutplace.rows(cid, source):
            n += 1
        return {"rows": n}
    except errors.DataError as e:
        return {"dataerror": type(e).__name__}
    except errors.InterfaceError as e:
        return {"interface": str(e)[:100]}
    except Exception as e:  # noqa
        return {"leak": type(e).__name__, "msg": ("from an open stream: " if as_stream else "") + str(e)[:120]}
    finally:
        if stream is not None:
            stream.close()


def api_built(rows, data_text):
    """a CID built call by call (add_data_format_row / add_field_format_row / add_check_row); a call that is refused with an
    InterfaceError is skipped, as a caller that reports the problem and goes on would do; then data are validated"""
    try:
        cid = interface.Cid()
        refused = 0
        for row in rows:
            try:
                kind = row[0].strip().lower()
                if kind == "d":
                    cid.add_data_format_row(list(row[1:]))
                elif kind == "f":
                    cid.add_field_format_row(list(row[1:]))
                else:
                    cid.add_check_row(list(row[1:]))
            except errors.InterfaceError:
                refused += 1
        try:
            cid.data_format.validate()
        except errors.InterfaceError:
            return {"interface": "contradicting properties", "refused": refused}
        n = 0
        for _ in cutplace.rows(cid, io.StringIO(data_text, newline=""), on_error="continue"):
            n += 1
        return {"rows": n, "refused": refused}
    except errors.DataError as e:
        return {"dataerror": type(e).__name__}
    except errors.InterfaceError as e:
        return {"interface": str(e)[:100]}
    except Exception as e:  # noqa
        return {"leak": type(e).__name__, "msg": "CID built call by call: " + str(e)[:100]}


def end_rule(cid_rows, data_text):
    """a CID whose check rule is fine when the CID is read but not for the counts the data produce: whatever the rule does
    at the end of the data is an interface error or a data error, in every on_error mode"""
    out = {}
    for mode in ("raise", "continue", "yield"):
        try:
            cid = interface.Cid()
            cid.read("c10", [list(r) for r in cid_rows])
            n = 0
            for _ in cutplace.rows(cid, io.StringIO(data_text, newline=""), on_error=mode):
                n += 1
            out[mode] = "rows"
        except errors.DataError as e:
            out[mode] = type(e).__name__
        except errors.InterfaceError:
            out[mode] = "InterfaceError"
        except Exception as e:  # noqa
            return {"leak": type(e).__name__, "msg": "on_error=%s: %s" % (mode, str(e)[:100])}
    return out


def write_data(cid_rows, rows):
    """validio.Writer on a stream: rows either are written or refused with a DataError"""
    from cutplace import validio
    try:
        cid = interface.Cid()
        cid.read("c10", cid_rows)
        out = io.StringIO()
        done = []
        with validio.Writer(cid, out) as w:
            for row in rows:
                try:
                    w.write_row(row)
                    done.append("ok")
                except errors.DataError as e:
                    done.append(type(e).__name__)
        return {"written": done}
    except errors.DataError as e:
        return {"dataerror": type(e).__name__}
    except errors.InterfaceError as e:
        return {"interface": str(e)[:100]}
    except Exception as e:  # noqa
        return {"leak": type(e).__name__, "msg": str(e)[:120]}


def run_cli(cid_text, data_bytes):
    cp = os.path.join(TMP, "cli_%d_cid.csv" % os.getpid())
    dp = os.path.join(TMP, "cli_%d_data.csv" % os.getpid())
    with open(cp, "wb") as fh:
        fh.write(cid_text)
    with open(dp, "wb") as fh:
        fh.write(data_bytes)
    try:
        with contextlib.redirect_stderr(io.StringIO()), contextlib.redirect_stdout(io.StringIO()):
            rc = applications.main(["cutplace", cp, dp])
    except SystemExit as e:
        rc = "SystemExit(%s)" % e.code
    except Exception as e:  # noqa
        rc = "raised " + type(e).__name__
    os.remove(cp)
    os.remove(dp)
    return rc


# ------------------------------------------------------------------ cases


def make_case(inp):
    os.makedirs(TMP, exist_ok=True)
    kind = inp["kind"]
    if kind == "cid":
        c = c09.make_case({"kind": "defect", "rows": inp["rows"], "defect": "hostile", "at": None})
        # re-wrap the C09 case: "(CidCase ..., obs)" -> "(CCid (CidCase ...), OCid obs)"
        inner = c["coq"]
        assert inner.startswith("((CidCase ")
        depth, i = 0, 1
        while True:
            ch = inner[i]
            depth += ch == "("
            depth -= ch == ")"
            i += 1
            if depth == 0:
                break
        case_term, obs_term = inner[1:i], inner[i + 2:-1]
        obs = c["obs"]
        tag = "accepted" if "accepted" in obs else ("rejected" if "rejected" in obs else "leak")
        return {"coq": P("(CCid %s)" % case_term, "(OCid %s)" % obs_term), "obs": obs, "nontrivial": inp["value"] != "",
                "tags": ["cid", inp["base"], tag]}
    if kind == "cell":
        c2 = dict(inp["decl"])
        obs = c02.observe(c2)
        leaks = [[cell, o[1]] for cell, o in zip(c2["cells"], obs.get("cells", [])) if o[0] == "leak"]
        rec = {"decl": obs["decl"], "leaks": leaks, "decl_detail": obs.get("type")}
        tags = ["cell", c2["type"], c2["fmt"], "decl-" + obs["decl"]] + ["cell-" + o[0] for o in obs.get("cells", [])]
        return {"coq": P("CNoModel", "ONone"), "obs": rec, "nontrivial": True, "tags": tags}
    if kind == "container":
        ext = inp["container"]
        path = os.path.join(TMP, "c_%d.%s" % (os.getpid(), ext))
        with open(path, "wb") as fh:
            fh.write(container_bytes(inp))
        obs = read_data(DATA_CID[ext], path)
        if "leak" not in obs and ext != "xlsx":
            by_stream = read_data(DATA_CID[ext], path, as_stream=True)
            if "leak" in by_stream:
                obs = by_stream
        if inp.get("damage") == "attr" and "leak" not in obs:
            # the same document used as the CID itself
            try:
                interface.Cid(path)
            except errors.CutplaceError:
                pass
            except Exception as e:  # noqa
                obs = {"leak": type(e).__name__, "msg": "as CID: " + str(e)[:100]}
        os.remove(path)
        return {"coq": P("CNoModel", "ONone"), "obs": obs, "nontrivial": True, "tags": ["container", ext, inp.get("damage", "text"), sorted(obs)[0]]}
    if kind == "api":
        obs = api_built(inp["rows"], inp["data"])
        return {"coq": P("CNoModel", "ONone"), "obs": obs, "nontrivial": True, "tags": ["api", sorted(obs)[0]]}
    if kind == "endrule":
        obs = end_rule(inp["rows"], inp["data"])
        return {"coq": P("CNoModel", "ONone"), "obs": obs, "nontrivial": True, "tags": ["endrule", sorted(obs)[0] if "leak" in obs else obs["raise"]]}
    if kind == "write":
        obs = write_data(DATA_CID[inp["cid"]], inp["rows"])
        return {"coq": P("CNoModel", "ONone"), "obs": obs, "nontrivial": True, "tags": ["write", inp["cid"], sorted(obs)[0]]}
    rc = run_cli(inp["cid"].encode("utf-8", "surrogateescape"), inp["data"].encode("utf-8", "surrogateescape"))
    return {"coq": P("CNoModel", "ONone"), "obs": {"exit": rc}, "nontrivial": True, "tags": ["cli", "exit-%s" % rc]}


def direct_oracle(inp, obs):
    kind = inp["kind"]
    if kind == "cid":
        if "leak" in obs:
            return "Cid.read raised %s (%s) for %r in row %d, cell %d" % (obs["leak"], obs["msg"], inp["value"], inp["y"] + 1, inp["x"] + 1)
        return None
    if kind == "cell":
        if obs["decl"] == "leak":
            return "declaring a %s field raised %s" % (inp["decl"]["type"], obs["decl_detail"])
        if obs["leaks"]:
            return "%s field: validated_value(%r) raised %s" % (inp["decl"]["type"], obs["leaks"][0][0], obs["leaks"][0][1])
        return None
    if kind == "api":
        if "leak" in obs:
            return "%s (%s) after the calls %r" % (obs["leak"], obs["msg"], inp["rows"][-3:])
        return None
    if kind == "endrule":
        if "leak" in obs:
            return "%s (%s) at the end of the data under the rule %r" % (obs["leak"], obs["msg"], inp["rows"][-1][3])
        return None
    if kind == "write":
        if "leak" in obs:
            return "writing rows %r under the %s CID raised %s (%s)" % (inp["rows"], inp["cid"], obs["leak"], obs["msg"])
        if "interface" in obs:
            return "writing data was reported as InterfaceError: %s" % obs["interface"]
        return None
    if kind == "container":
        if "leak" in obs:
            return "reading a damaged %s container raised %s (%s)" % (inp["container"], obs["leak"], obs["msg"])
        if "interface" in obs:
            return "a damaged data container was reported as InterfaceError: %s" % obs["interface"]
        return None
    if obs["exit"] not in (0, 1, 3):
        return "the command line answered a CID / data problem with %r" % (obs["exit"],)
    return None


def classify(inp, obs, msg):
    return None


def csv_text(rows):
    b = io.StringIO()
    import csv
    csv.writer(b).writerows(rows)
    return b.getvalue()


def gen_inputs(tier, rnd):
    shutil.rmtree(TMP, ignore_errors=True)
    # (a) one hostile cell at a time
    for name, base in BASES.items():
        for y, row in enumerate(base):
            width = {"D": 3, "F": 7, "C": 4}[row[0]]
            for x in range(0, width + 1):
                for v in POOL:
                    if tier == "quick" and name != "delimited" and rnd.random() > 0.25:
                        continue
                    yield {"kind": "cid", "base": name, "y": y, "x": x, "value": v, "rows": hostile_rows(base, y, x, v)}
    # data format property names that collide with internals of DataFormat (set_property dispatches on '_' + name)
    from cutplace import data as _data
    internals = sorted({n[1:].replace("_", " ") for n in dir(_data.DataFormat("delimited")) if n.startswith("_") and len(n) > 1}
                       | {n.replace("_", " ") for n in dir(_data.DataFormat("delimited")) if not n.startswith("_")})
    for name, base in BASES.items():
        for y in (1, len([r for r in base if r[0] == "D"]) - 1):
            for prop in internals:
                for value in ("x", ""):
                    yield {"kind": "cid", "base": name, "y": y, "x": 1, "value": prop, "rows": hostile_rows(hostile_rows(base, y, 1, prop), y, 2, value)}
    if tier != "quick":
        for name, base in BASES.items():
            for _ in range(4000):
                y1, y2 = rnd.randrange(len(base)), rnd.randrange(len(base))
                x1, x2 = rnd.randrange(1, 7), rnd.randrange(1, 7)
                v1, v2 = rnd.choice(POOL), rnd.choice(POOL)
                rows = hostile_rows(hostile_rows(base, y1, x1, v1), y2, x2, v2)
                yield {"kind": "cid", "base": name, "y": y2, "x": x2, "value": v1 + "|" + v2, "rows": rows}
    # (b) hostile data cells
    for ftype, length, rule in FIELD_DECLS:
        for fmt in ("delimited", "fixed", "excel", "ods"):
            if fmt == "fixed":
                length_f = "8"
            else:
                length_f = length
            decl = c02.base(ftype, fmt, length_f, rule, [v for v in POOL if v != ""])
            yield {"kind": "cell", "decl": decl}
    # (c) containers
    os.makedirs(TMP, exist_ok=True)
    for ext in sorted(TEXT_BLOBS):
        for i in range(len(TEXT_BLOBS[ext])):
            yield {"kind": "container", "container": ext, "index": i}
    for ext, k_trunc, k_flip in (("ods", 16, 7), ("xlsx", 64, 29)):
        blob = ods_blob() if ext == "ods" else xlsx_blob()
        if tier != "quick":
            k_trunc, k_flip = (1, 1) if ext == "ods" else (3, 2)
        for at in range(0, len(blob), k_trunc):
            yield {"kind": "container", "container": ext, "damage": "truncate", "at": at}
        for at in range(0, len(blob), k_flip):
            yield {"kind": "container", "container": ext, "damage": "flip", "at": at, "bit": at % 8}
    for declared in ["Shift_JIS", "x-no-such-encoding", "utf-7", "EBCDIC-CP-US", "UTF-16", "ISO-8859-1"]:
        yield {"kind": "container", "container": "ods", "damage": "declared-encoding", "declared": declared}
    for place in "RCSE":
        for value in ATTR_POOL:
            yield {"kind": "container", "container": "ods", "damage": "attr", "place": place, "value": value}
    # (c') the validating writer under CIDs with every built-in field type
    good_row = ["1", "1.5", "x", "01.02.2003", "ab", "ax", "k", "abcd"]
    for cid_name in ("txtall", "csvall"):
        yield {"kind": "write", "cid": cid_name, "rows": [good_row, ["2", "", "y", "", "", "", "", ""], good_row[:3]]}
        for col in range(len(good_row)):
            for v in (POOL if tier != "quick" else POOL[::4]):
                if v in ("", "\x00"):
                    continue
                row = list(good_row)
                row[col] = v
                yield {"kind": "write", "cid": cid_name, "rows": [row, good_row]}
    # values that are no strings at all handed to the validating writer: a data error, not a TypeError / AttributeError
    for cid_name in ("txtall", "csvall"):
        for col in range(len(good_row)):
            for v in (None, 1, 1.5, b"x", ["x"], True):
                row = list(good_row)
                row[col] = v
                yield {"kind": "write", "cid": cid_name, "rows": [row, good_row]}
    # (c+) count rules that are fine for the count the CID is read with (0) and break for a count the data produce
    two = [["D", "Format", "Delimited"], ["D", "Item delimiter", ";"], ["F", "a", "", "", "", "Text"], ["F", "b", "", "", "", "Text"]]
    count_rules = ["b < 1000 // (count - %d)" % k for k in (1, 2, 3)] + ["b <= (10, 20, 30)[count]", "b < 5 if count < 2 else nope", "b < 3 if count != 2 else None",
                   "b < [1, 2][count]", "b < {0: 1}[count]", "b < int('1' * (1 - count))", "b < 9 or count.nope", "b < (1).__truediv__(count - 1)", "b < len('abc'[count]) + 9"]
    for rule in count_rules:
        for k in (0, 1, 2, 3, 4):
            text = "".join("r%d;v%d\n" % (i, i % max(k, 1)) for i in range(k + 1 if k else 0))
            yield {"kind": "endrule", "rows": two + [["C", "at the end", "DistinctCount", rule]], "data": text}
        yield {"kind": "cli", "cid": csv_text(two + [["C", "at the end", "DistinctCount", rule]]), "data": "x;v1\ny;v2\nz;v3\nu;v2\n"}
    # (c'') a CID built call by call, one call refused in between, the corrected call made afterwards
    base = BASES["delimited"]
    good_data = "a;b;c;d;e;f;g;h\n1;x;1.5;01.02.2003;abc;abc;k;\n2;y;2.5;02.02.2003;abc;abc;k;\n"
    fixes = [(["C", "u2", "IsUnique", "nope"], ["C", "u2", "IsUnique", "a"]), (["C", "u2", "IsSorted", "a"], ["C", "u2", "IsUnique", "a"]),
             (["C", "u2", "IsUnique", "a,"], ["C", "u2", "IsUnique", "a"]), (["C", "d2", "DistinctCount", "a <"], ["C", "d2", "DistinctCount", "a < 9"]),
             (["C", "d2", "DistinctCount", "zz < 3"], ["C", "d2", "DistinctCount", "b < 3"]), (["C", "u", "IsUnique", "b"], ["C", "u3", "IsUnique", "b"]),
             (["C", "", "IsUnique", "a"], ["C", "u4", "IsUnique", "a, b"])]
    for bad, good in fixes:
        yield {"kind": "api", "rows": base + [bad], "data": good_data}
        yield {"kind": "api", "rows": base + [bad, good], "data": good_data}
        yield {"kind": "api", "rows": base + [bad, bad, good, good], "data": good_data}
    for bad, good in [(["F", "x1", "", "", "", "Foo"], ["F", "x1", "", "X", "", "Text"]), (["F", "x1", "", "", "1...x", "Text"], ["F", "x1", "", "X", "", "Text"]),
                      (["F", "x1", "zz", "", "", "Integer"], ["F", "x1", "", "X", "", "Integer"]), (["F", "a"], ["F", "a2", "", "X"]),
                      (["F", "x1", "", "", "", "Integer", "1...("], ["F", "x1", "", "X", "", "Integer", "1...9"])]:
        fields_only = [r for r in base if r[0] != "C"]
        yield {"kind": "api", "rows": fields_only + [bad], "data": good_data}
        yield {"kind": "api", "rows": fields_only + [bad, good], "data": good_data.replace("\n", ";\n")}
    for bad, good in [(["D", "Header", "x"], ["D", "Header", "1"]), (["D", "Quote character", "ab"], ["D", "Quote character", "'"]), (["D", "Colour", "red"], ["D", "Encoding", "utf-8"])]:
        yield {"kind": "api", "rows": base[:1] + [bad, good] + base[1:], "data": good_data}
    # (d) the command line
    good_cid = csv_text(BASES["delimited"][:1] + [["D", "Encoding", "utf-8"], ["F", "a", "", "", "", "Integer"]])
    for data in ["1\n", "x\n", "\udcff\n", '"1\n', "", "1,2\n", "NaN\n"]:
        yield {"kind": "cli", "cid": good_cid, "data": data}
    for y, x, v in [(rnd.randrange(len(BASES["delimited"])), rnd.randrange(0, 7), rnd.choice(POOL)) for _ in range(40 if tier == "quick" else 400)]:
        if "\x00" in v:
            continue
        yield {"kind": "cli", "cid": csv_text(hostile_rows(BASES["delimited"], y, x, v)), "data": "1;x;1.5;01.02.2003;abc;abc;k;\n"}
    for cid_text in ["", "\udcff\udcfe", "d,format,delimited\n", "f,a\n", 'd,format,"delimited\n']:
        yield {"kind": "cli", "cid": cid_text, "data": "1\n"}
