"""C09 - CIDs are accepted iff structurally sound; rejections name the offending row.
Generated valid CIDs, meaning-preserving rewrites of them (must stay accepted with the identical interface) and single
defects from a catalogue at every applicable row (must be rejected at that row); Cid.read against Model/Cid.v."""
import codecs
import keyword
import re

from cutplace import errors, interface, ranges

import props.c11 as c11
from common import B, L, Nat, O, P, S, Zn

MODEL_FILES = ["Model/Cid.v"]
HEADER = """From CP Require Import Model.Base Model.Ranges Model.Lex Model.RangeParse Model.DataFormat Model.Fields Model.FieldTypes Model.Cid.
Inductive tcase := KeywordCase | CidCase (e : env) (rows : list (list text)) | ApiCase (e : env) (rows : list (list text))
| LookupCase (e : env) (rows : list (list text)) (names : list text) (row : list text).
Inductive tobs :=
| OKeywords (l : list text)
| OAccepted (fmt : text) (attrs : list (text * aval)) (fields : list fsum) (checks : list csum)
| OApi (refused : nat) (fmt : option (text * list (text * aval))) (fields : list fsum) (checks : list csum)
| OLookup (indexes : list (option nat)) (values : list (option text))
| ORejected (row : option nat) | OLeak.
Definition oz_eqb := option_eqb Z.eqb.
Definition item_eqb (a b : item) : bool := oz_eqb (fst a) (fst b) && oz_eqb (snd a) (snd b).
Definition aval_eqb (a b : aval) : bool :=
  match a, b with
  | AText x, AText y => option_eqb text_eqb x y
  | ABool x, ABool y => Bool.eqb x y
  | AInt x, AInt y => Z.eqb x y
  | AQuoting x, AQuoting y => Bool.eqb x y
  | ARange x, ARange y => option_eqb (list_eqb item_eqb) x y
  | AOther, AOther => true
  | _, _ => false
  end.
Definition fsum_eqb (a b : fsum) : bool :=
  text_eqb (fs_name a) (fs_name b) && text_eqb (fs_type a) (fs_type b) && Bool.eqb (fs_empty a) (fs_empty b)
  && option_eqb (list_eqb item_eqb) (fs_len a) (fs_len b) && text_eqb (fs_rule a) (fs_rule b) && text_eqb (fs_example a) (fs_example b).
Definition csum_eqb (a b : csum) : bool :=
  text_eqb (ck_desc a) (ck_desc b) && text_eqb (ck_type a) (ck_type b) && text_eqb (ck_rule a) (ck_rule b) && list_eqb text_eqb (ck_fields a) (ck_fields b).
Definition run (c : tcase) : option tobs :=
  match c with
  | KeywordCase => Some (OKeywords keywords)
  | CidCase e rows =>
      match cid_read e rows with
      | CidOk s => match st_fmt s with
                   | Some d => Some (OAccepted (df_format d) (df_attrs d) (st_fields s) (st_checks s))
                   | None => None end
      | CidInterface r => Some (ORejected r)
      | CidLeak => Some OLeak
      | CidOut => None
      end
  | LookupCase e rows names row =>
      match cid_read e rows with
      | CidOk s => Some (OLookup (map (field_index s) names) (map (fun n => field_value_for s n row) names))
      | CidInterface r => Some (ORejected r)
      | CidLeak => Some OLeak
      | CidOut => None
      end
  | ApiCase e rows =>
      match api_steps e rows cstate0 0 with
      | Some (s, n) => Some (OApi n (match st_fmt s with Some d => Some (df_format d, df_attrs d) | None => None end) (st_fields s) (st_checks s))
      | None => None
      end
  end.
(* the attribute list of the implementation may be in another order: compare by lookup *)
Definition is_valid_name : text := [105;115;95;118;97;108;105;100]%N.   (* bookkeeping flag of validate(), not a property *)
Definition attrs_eqb (m e : list (text * aval)) : bool :=
  forallb (fun p => match get_attr m (fst p) with Some v => aval_eqb v (snd p) | None => false end) e
  && forallb (fun p => text_eqb (fst p) is_valid_name || match snd p with AOther => true | _ => false end
                       || match get_attr e (fst p) with Some _ => true | None => false end) m.
Definition tobs_eqb (m : option tobs) (e : tobs) : bool :=
  match m with
  | None => true
  | Some (OKeywords a) => match e with OKeywords b => list_eqb text_eqb a b | _ => false end
  | Some (OAccepted f a fs cs) => match e with
                                  | OAccepted f' a' fs' cs' => text_eqb f f' && attrs_eqb a a' && list_eqb fsum_eqb fs fs' && list_eqb csum_eqb cs cs'
                                  | _ => false end
  | Some (OApi n f fs cs) => match e with
                           | OApi n' f' fs' cs' => Nat.eqb n n' && list_eqb fsum_eqb fs fs' && list_eqb csum_eqb cs cs'
                                                   && match f, f' with
                                                      | Some (x, a), Some (x', a') => text_eqb x x' && attrs_eqb a a'
                                                      | None, None => true | _, _ => false end
                           | _ => false end
  | Some (OLookup a b) => match e with OLookup a' b' => list_eqb (option_eqb Nat.eqb) a a' && list_eqb (option_eqb text_eqb) b b' | _ => false end
  | Some (ORejected r) => match e with
                          | ORejected r' => match r, r' with Some x, Some y => Nat.eqb x y | _, _ => true end   (* a row is compared when both name one *)
                          | _ => false end
  | Some OLeak => match e with OLeak => true | _ => false end
  end.
Definition ood (c : tcase) : nat := match run c with None => 1%nat | _ => 0%nat end.
Definition F (n t : text) (e : bool) (l : range) (r x : text) : fsum := {| fs_name := n; fs_type := t; fs_empty := e; fs_len := l; fs_rule := r; fs_example := x |}.
Definition K (d t r : text) (f : list text) : csum := {| ck_desc := d; ck_type := t; ck_rule := r; ck_fields := f |}."""
CASE_TYPE = "tcase * tobs"
MODEL = "run"
EQB = "tobs_eqb"
OOD = "ood"
SHARD = 120
RULE = ("generated valid CIDs (4 formats, random applicable properties, 1..6 fields of all 8 types with lengths, rules and valid "
        "examples, 0..3 checks of both kinds); (a) meaning-preserving rewrites of each: comment rows and empty rows at every "
        "position, trailing cells, case changes of row markers / property names / format name / empty mark, surrounding blanks "
        "on row marker, field name, empty mark, type, length and rule, reordered property rows - oracle: accepted with the "
        "identical interface; (b) exactly one defect from a catalogue of 45 structural defects at every applicable row - "
        "oracle: InterfaceError whose text names that row (end-of-CID defects: any InterfaceError). Observed: accepted + "
        "(format, all data format attributes, per field name/type/empty flag/length items/rule/example, per check "
        "description/type/rule/fields) or the row named by the InterfaceError text or another exception. "
        "Also compared: keyword.kwlist of the runtime with the model's keyword table. Non-trivial: a rewritten or "
        "defective CID. Distinct = distinct row list.")
EXHAUSTIVE = {"quick": False, "thorough": False}
TRUSTED = ["the sets of plugin class names and of known encodings are asked of the runtime and handed to the model",
           "Model/Lex.v (tokenizer), Model/DataFormat.v (C11), Model/FieldTypes.v (C02) as validated by their own checks"]
ASSUMPTIONS = ["surrounding blanks are a harmless decoration for row markers, field names, empty marks, types, lengths and rules "
               "(the cells cutplace strips); data format property names are matched without stripping, so blanks around them "
               "are not part of the rewrites",
               "DistinctCount rules outside 'field', 'field <op> <int>' are evaluated by Python's eval and are outside the model "
               "(counted as out of domain; the direct oracle still applies)"]

ROW_RE = re.compile(r"\(R(\d+)C\d+\)")
POOL_ENCODINGS = ["utf-8", "latin-1", "cp1252", "ascii", "iso-8859-15", "nope", "UTF-8", "", "utf-16", "punycode", "rot13", "hex", "undefined"]


def env_of():
    cid = interface.Cid()
    ftypes = sorted(k[:-len("FieldFormat")] for k in cid._field_format_name_to_class_map if k.endswith("FieldFormat"))
    ctypes = sorted(k[:-len("Check")] for k in cid._check_name_to_class_map if k.endswith("Check"))
    known = [e for e in POOL_ENCODINGS if c11.encoding_known(e)]
    return ftypes, ctypes, known


ENV = env_of()


def coq_env(extra=None):
    more = [extra] if extra else []
    return "{| e_field_types := %s; e_check_types := %s; e_encodings := %s |}" % (L(ENV[0] + more, S), L(ENV[1] + more, S), L(ENV[2], S))


def summary(cid):
    df = cid.data_format
    attrs = [(k[1:], c11.canon_attr(v)) for k, v in df.__dict__.items() if k not in ("_format", "_is_valid") and k == k.lower()]
    fs = []
    for f in cid.field_formats:
        items = f.length.items
        if items is not None:
            items = [[None if x is None else int(x) if x == int(x) else "frac" for x in it] for it in items]
        fs.append({"name": f.field_name, "type": type(f).__name__[:-len("FieldFormat")], "empty": f.is_allowed_to_be_empty,
                   "length": items, "rule": f.rule, "example": f.example or ""})
    cs = []
    for name in cid.check_names:
        c = cid.check_map[name]
        fields_used = getattr(c, "_field_names_to_check", None)
        if fields_used is None and hasattr(c, "_field_name_to_count"):
            fields_used = [getattr(c, "_field_name_to_count")]
        if fields_used is None:
            fields_used = []        # a plugin check: which fields its rule means is its own business
        cs.append({"desc": c.description, "type": type(c).__name__[:-len("Check")], "rule": c.rule, "fields": list(fields_used)})
    return {"format": df.format, "attrs": attrs, "fields": fs, "checks": cs}


def observe(rows):
    try:
        cid = interface.Cid()
        given = [list(r) for r in rows]
        cid.read("c09.csv", given)
        if given != [list(r) for r in rows]:
            # the rows belong to the caller (a reader may hand out the same list more than once)
            return {"leak": "rows changed", "msg": "Cid.read changed the rows it was given: %r" % ([g for g, r in zip(given, rows) if g != list(r)][:2],)}
        return {"accepted": summary(cid)}
    except errors.InterfaceError as e:
        m = ROW_RE.search(str(e))
        return {"rejected": int(m.group(1)) - 1 if m else None, "msg": str(e)[:160]}
    except Exception as e:  # noqa
        return {"leak": type(e).__name__, "msg": str(e)[:160]}


def observe_lookup(rows, names, row):
    """Cid.field_index / field_value_for / field_format_for on the finished CID; an undeclared name is refused (None)"""
    try:
        cid = interface.Cid()
        cid.read("c09.csv", [list(r) for r in rows])
    except errors.InterfaceError as e:
        m = ROW_RE.search(str(e))
        return {"rejected": int(m.group(1)) - 1 if m else None, "msg": str(e)[:160]}
    try:
        idx, vals, same = [], [], True
        for n in names:
            try:
                i = cid.field_index(n)
            except AssertionError:
                i = None
            idx.append(i)
            try:
                vals.append(cid.field_value_for(n, list(row)))
            except AssertionError:
                vals.append(None)
            if i is not None:
                same = same and cid.field_format_for(n) is cid.field_formats[i] and cid.field_names[i] == n
        for d in cid.check_names:
            same = same and cid.check_for(d) is cid.check_map[d] and cid.check_for(d).description == d
        return {"lookup": [idx, vals], "same_objects": same}
    except Exception as e:  # noqa
        return {"leak": type(e).__name__, "msg": "lookups on a finished CID: " + str(e)[:140]}


def observe_api(rows):
    """the CID built call by call as Cid.read would make the calls; a refused call is counted and skipped"""
    try:
        cid = interface.Cid()
        refused = 0
        for row in rows:
            if not row:
                continue
            kind = row[0].lower().strip()
            data = (list(row[1:]) + [""] * 6)[:6]
            try:
                if kind == "d":
                    cid.add_data_format_row(data)
                elif kind == "f":
                    cid.add_field_format_row(data)
                elif kind == "c":
                    cid.add_check_row(data)
                elif kind != "":
                    refused += 1
            except errors.InterfaceError:
                refused += 1
        if cid.data_format is None:
            return {"api": {"format": None, "attrs": [], "fields": [], "checks": []}, "refused": refused,
                    "stray": [len(cid.field_names), len(cid.check_names)]}
        return {"api": summary(cid), "refused": refused}
    except Exception as e:  # noqa
        return {"leak": type(e).__name__, "msg": "CID built call by call: " + str(e)[:140]}


def coq_summary(s, api=None):
    def rng(items):
        if items is None:
            return "None"
        return "(Some %s)" % L(items, lambda it: P(O(it[0], Zn), O(it[1], Zn)))
    fs = L(s["fields"], lambda f: "(F %s %s %s %s %s %s)" % (S(f["name"]), S(f["type"]), B(f["empty"]), rng(f["length"]), S(f["rule"]), S(f["example"])))
    cs = L(s["checks"], lambda c: "(K %s %s %s %s)" % (S(c["desc"]), S(c["type"]), S(c["rule"]), L(c["fields"], S)))
    attrs = L(s["attrs"], lambda kv: P(S(kv[0]), c11.coq_attr(kv[0], kv[1])))
    if api is not None:
        fmt = "None" if s["format"] is None else "(Some %s)" % P(S(s["format"]), attrs)
        return "(OApi %s %s %s %s)" % (Nat(api), fmt, fs, cs)
    return "(OAccepted %s %s %s %s)" % (S(s["format"]), attrs, fs, cs)


def make_case(inp):
    if inp["kind"] == "keywords":
        kw = list(keyword.kwlist)
        return {"coq": P("KeywordCase", "(OKeywords %s)" % L(kw, S)), "obs": {"keywords": kw}, "nontrivial": False, "tags": ["keywords"]}
    rows = inp["rows"]
    if inp.get("late"):
        # field format and check classes that come into being only now, after many CIDs have been read in this process
        import vcommon as _V
        _V.late_classes(inp["late"])
    if inp["kind"] == "lookup":
        obs = observe_lookup(rows, inp["names"], inp["row"])
        if "lookup" in obs:
            coq_obs = "(OLookup %s %s)" % (L(obs["lookup"][0], lambda x: O(x, Nat)), L(obs["lookup"][1], lambda x: O(x, S)))
        elif "rejected" in obs:
            coq_obs = "(ORejected %s)" % O(obs["rejected"], Nat)
        else:
            coq_obs = "OLeak"
        return {"coq": P("(LookupCase %s %s %s %s)" % (coq_env(), L(rows, lambda r: L(r, S)), L(inp["names"], S), L(inp["row"], S)), coq_obs),
                "obs": obs, "nontrivial": True, "tags": ["lookup", "row-len-ok" if inp.get("fits") else "row-len-wrong"]}
    if inp["kind"] == "api":
        obs = observe_api(rows)
        if "api" in obs:
            fr = any(x == "frac" for f in obs["api"]["fields"] for it in (f["length"] or []) for x in it)
            coq_obs = "OLeak" if fr else coq_summary(obs["api"], api=obs["refused"])
        else:
            coq_obs = "OLeak"
        return {"coq": P("(ApiCase %s %s)" % (coq_env(inp.get("late")), L(rows, lambda r: L(r, S))), coq_obs), "obs": obs,
                "nontrivial": True, "tags": ["api", "refused:%d" % min(obs.get("refused", -1), 3)] + (["api-of:" + inp["of"]] if inp.get("of") else [])}
    obs = observe(rows)
    frac = "accepted" in obs and any(x == "frac" for f in obs["accepted"]["fields"] for it in (f["length"] or []) for x in it)
    if "accepted" in obs:
        coq_obs = "OLeak" if frac else coq_summary(obs["accepted"])
    elif "rejected" in obs:
        coq_obs = "(ORejected %s)" % O(obs["rejected"], Nat)
    else:
        coq_obs = "OLeak"
    tags = [inp["kind"], "accepted" if "accepted" in obs else ("rejected" if "rejected" in obs else "leak")]
    if inp.get("defect"):
        tags.append("defect:" + inp["defect"])
    if inp.get("rewrite"):
        tags.append("rewrite:" + inp["rewrite"])
    return {"coq": P("(CidCase %s %s)" % (coq_env(inp.get("late")), L(rows, lambda r: L(r, S))), coq_obs), "obs": obs,
            "nontrivial": inp["kind"] != "base", "tags": tags}


def observe_stream(rows, consumed):
    """the CID handed over as an open text stream of which the caller has already read something (a banner line): the CID
    is what follows; also as a file the caller opened"""
    import csv
    import io
    import os
    import tempfile
    body = io.StringIO(newline="")
    csv.writer(body).writerows(rows)
    text = consumed + body.getvalue()
    out = {}
    stream = io.StringIO(text, newline="")
    stream.read(len(consumed))
    fd, path = tempfile.mkstemp(suffix=".csv")
    os.close(fd)
    try:
        with open(path, "w", encoding="utf-8", newline="") as fh:
            fh.write(text)
        with open(path, "r", encoding="utf-8", newline="") as fh:
            fh.read(len(consumed))
            for name, source in (("stream", stream), ("file", fh)):
                try:
                    out[name] = {"accepted": summary(interface.Cid(source))}
                except errors.InterfaceError as e:
                    out[name] = {"rejected": str(e)[:160]}
                except Exception as e:  # noqa
                    out[name] = {"leak": type(e).__name__ + ": " + str(e)[:120]}
    finally:
        os.remove(path)
    return out


def direct_oracle(inp, obs):
    if inp["kind"] == "keywords":
        return None
    if inp["kind"] == "base" and "accepted" in obs and not inp.get("late") and all(ord(ch) < 128 for r in inp["rows"] for c in r for ch in c):
        for consumed in ("", "a banner line, not part of the CID\r\n"):
            for name, got in observe_stream(inp["rows"], consumed).items():
                if got != {"accepted": obs["accepted"]}:
                    return "the same CID as an open %s (%d characters already read by the caller) gives %r" % (name, len(consumed), got)
    if "leak" in obs:
        if inp.get("hostile"):
            return None
        return "Cid.read raised %s (%s)" % (obs["leak"], obs["msg"])
    if inp["kind"] == "lookup":
        if "lookup" not in obs:
            return "a structurally sound CID was rejected: %s" % obs.get("msg")
        if not obs["same_objects"]:
            return "field_format_for / check_for do not return the declared objects"
        declared = inp["declared"]
        for n, i, v in zip(inp["names"], obs["lookup"][0], obs["lookup"][1]):
            want = declared.index(n) if n in declared else None
            if i != want:
                return "field_index(%r) is %r, declaration order says %r" % (n, i, want)
            if inp.get("fits") and v != (inp["row"][want] if want is not None else None):
                return "field_value_for(%r) is %r" % (n, v)
            if not inp.get("fits") and v is not None:
                return "field_value_for(%r) answered %r for a row of the wrong length" % (n, v)
        return None
    if inp["kind"] == "api":
        if obs.get("stray", [0, 0]) != [0, 0]:
            return "fields or checks were added to a CID without data format: %r" % (obs["stray"],)
        if inp.get("of") == "base":
            read = observe(inp["rows"])
            if "accepted" in read and (obs["refused"] != 0 or obs["api"] != read["accepted"]):
                return "the same rows call by call give another interface than Cid.read: %r vs %r" % (obs, read["accepted"])
        if inp.get("of") == "defect" and inp.get("inserted"):
            # one refused row added to a sound CID: skipping it gives the sound CID
            read = observe(inp["base_rows"])
            if "accepted" in read and (obs["refused"] != 1 or obs["api"] != read["accepted"]):
                return "a refused call left a trace: %r vs %r" % (obs, read["accepted"])
        return None
    if inp["kind"] == "base":
        return None if "accepted" in obs else "a structurally sound CID was rejected: %s" % obs.get("msg")
    if inp["kind"] == "rewrite":
        if "accepted" not in obs:
            return "harmless decoration (%s) got the CID rejected: %s" % (inp["rewrite"], obs.get("msg"))
        base = observe(inp["base_rows"])
        if "accepted" not in base:
            return None
        a, b = obs["accepted"], base["accepted"]
        if inp["rewrite"] == "blanks":
            # examples are kept verbatim; everything else must agree
            for f in a["fields"] + b["fields"]:
                f["example"] = f["example"].strip()
        if a != b:
            return "harmless decoration (%s) changed the parsed interface: %r vs %r" % (inp["rewrite"], a, b)
        return None
    if inp["kind"] == "defect":
        if "accepted" in obs:
            return "defect %r at row %s was accepted" % (inp["defect"], inp.get("at"))
        at = inp.get("at")
        if at is not None and obs["rejected"] is not None and obs["rejected"] != at:
            return "defect %r at row %d was reported for row %d: %s" % (inp["defect"], at + 1, obs["rejected"] + 1, obs["msg"])
        if at is not None and obs["rejected"] is None:
            return "the error text for defect %r at row %d names no row: %s" % (inp["defect"], at + 1, obs["msg"])
    return None


def classify(inp, obs, msg):
    return None


# ------------------------------------------------------------------ valid CIDs

TYPE_SPECS = [
    ("Integer", lambda rnd: rnd.choice(["", "0...99", "-5...5", "1...", "10...99, 200"]), lambda rule: {"": "12", "0...99": "7", "-5...5": "-3", "1...": "400", "10...99, 200": "200"}[rule]),
    ("Decimal", lambda rnd: rnd.choice(["", "0...1", "-1.5...1.5"]), lambda rule: "0.5"),
    ("Choice", lambda rnd: rnd.choice(["red, green", '"a b", c', "1, 2"]), lambda rule: {"red, green": "green", '"a b", c': "a b", "1, 2": "2"}[rule]),
    ("Constant", lambda rnd: rnd.choice(["x", '"ab"']), lambda rule: {"x": "x", '"ab"': "ab"}[rule]),
    ("DateTime", lambda rnd: rnd.choice(["DD.MM.YYYY", "YYYY-MM-DD hh:mm:ss", "hh:mm"]), lambda rule: {"DD.MM.YYYY": "01.02.2003", "YYYY-MM-DD hh:mm:ss": "2003-02-01 04:05:06", "hh:mm": "23:59"}[rule]),
    ("Pattern", lambda rnd: rnd.choice(["a*", "?x", "*"]), lambda rule: ""),
    ("RegEx", lambda rnd: rnd.choice(["abc", "a b", "x_1"]), lambda rule: ""),
    ("Text", lambda rnd: "", lambda rule: "some"),
    ("", lambda rnd: "", lambda rule: ""),
]
NAMES = ["customer_id", "name", "x", "dateOfBirth", "f2", "branch", "amount_1", "Zip"]


def gen_valid(rnd, fmt=None):
    fmt = fmt or rnd.choice(["delimited", "fixed", "excel", "ods"])
    rows = [["D", "Format", fmt]]
    props = [["Header", str(rnd.randint(0, 3))], ["Encoding", rnd.choice(["utf-8", "latin-1", "cp1252"])], ["Allowed characters", rnd.choice(["32...", "32...126, 160..."])]]
    if fmt == "delimited":
        props += [["Item delimiter", rnd.choice([";", ",", "tab", "124"])], ["Quote character", rnd.choice(['"', "'"])], ["Line delimiter", rnd.choice(["any", "lf", "crlf"])],
                  ["Decimal separator", "."], ["Thousands separator", rnd.choice(["", ","])], ["Quoting", rnd.choice(["all", "minimal"])], ["Skip initial space", rnd.choice(["true", "False"])]]
    elif fmt == "fixed":
        props += [["Line delimiter", rnd.choice(["any", "lf", "none"])]]
    else:
        props += [["Sheet", str(rnd.randint(1, 3))]]
    rnd.shuffle(props)
    for p in props[:rnd.randint(0, len(props))]:
        rows.append(["D"] + p)
    names = rnd.sample(NAMES, rnd.randint(1, 6))
    for n in names:
        ftype, rule_fn, ex_fn = rnd.choice(TYPE_SPECS)
        rule = rule_fn(rnd)
        example = ex_fn(rule) if rnd.random() < 0.5 else ""
        empty = rnd.random() < 0.3
        if ftype == "Constant" and empty:
            empty = False
        if fmt == "fixed":
            length = str(max(len(example), 2 if ftype != "Constant" else len(ex_fn(rule))) + (0 if ftype == "Constant" else rnd.randint(0, 3)))
            if ftype == "Integer" and rule:
                length = "12"
        else:
            length = rnd.choice(["", "", "1...", "...40", "1...40"]) if ftype not in ("Constant",) else ""
            if ftype == "Integer" and rule:
                length = ""
        rows.append(["F", n, example, "X" if empty else "", length, ftype, rule])
    for k in range(rnd.randint(0, 3)):
        if rnd.random() < 0.6:
            rows.append(["C", "check %d" % k, "IsUnique", ", ".join(rnd.sample(names, rnd.randint(1, min(3, len(names)))))])
        else:
            rows.append(["C", "check %d" % k, "DistinctCount", "%s %s %d" % (rnd.choice(names), rnd.choice(["<", "<=", "==", "!=", ">=", ">"]), rnd.randint(0, 9))])
    return rows


# ------------------------------------------------------------------ (a) rewrites


def swapcase_some(rnd, s):
    return "".join(c.swapcase() if rnd.random() < 0.5 else c for c in s)


def rewrites(rnd, rows):
    n = len(rows)
    for pos in range(n + 1):
        comment = rnd.choice([[""], ["", "a comment", "x"], [], [" ", "note"], ["", "D", "Format", "fixed"]])
        yield "comment-row", rows[:pos] + [comment] + rows[pos:]
    for i, r in enumerate(rows):
        limit = {"D": 3, "F": 7, "C": 4}[r[0].upper()]
        padded = r + [""] * (limit - len(r)) + ["trailing", "cells"]
        yield "trailing-cells", rows[:i] + [padded] + rows[i + 1:]
    out = []
    for r in rows:
        r = list(r)
        r[0] = swapcase_some(rnd, r[0])
        if r[0].upper() == "D":
            r[1] = swapcase_some(rnd, r[1])
            if r[1].lower() in ("format", "quoting", "skip initial space", "line delimiter"):
                r[2] = swapcase_some(rnd, r[2])
        if r[0].upper() == "F" and len(r) > 3:
            r[3] = swapcase_some(rnd, r[3])
        out.append(r)
    yield "case", out
    out = []
    for r in rows:
        r = list(r)
        r[0] = rnd.choice(["", " ", "\t"]) + r[0] + rnd.choice(["", " "])
        if r[0].strip().upper() == "F":
            for k in (1, 3, 4, 5, 6):
                if k < len(r) and (k != 4 or r[k] != ""):
                    r[k] = rnd.choice(["", " ", "  "]) + r[k] + rnd.choice(["", " "])
        out.append(r)
    yield "blanks", out


def defects(rnd, rows):
    """yield (name, defective rows, row index named or None)"""
    fmt = rows[0][2]
    d_idx = [i for i, r in enumerate(rows) if r[0] == "D"]
    f_idx = [i for i, r in enumerate(rows) if r[0] == "F"]
    c_idx = [i for i, r in enumerate(rows) if r[0] == "C"]

    def with_row(i, new):
        return rows[:i] + [new] + rows[i + 1:]

    def mod(i, k, v):
        r = list(rows[i]) + [""] * (7 - len(rows[i]))
        r[k] = v
        return with_row(i, r)

    yield "no-format-row", [r for r in rows if r[0] != "D"], f_idx[0] - len(d_idx)
    yield "first-d-row-not-format", [["D", "Header", "1"]] + rows, 0
    yield "unknown-format", with_row(0, ["D", "Format", "xml"]), 0
    yield "empty-format", with_row(0, ["D", "Format", ""]), 0
    # letters that merely look like, or fold to, the letters of a known name are not a case variant of it
    for alike in ("\ufb01xed", "c\u017fv", "od\u017f", "del\u0131m\u0131ted", "\uff23\uff33\uff36", "exce\u217c"):
        yield "format-lookalike:" + alike, with_row(0, ["D", "Format", alike]), 0
    yield "property-name-lookalike", rows[:1] + [["D", "allowed character\u017f", "0..."]] + rows[1:], 1
    yield "property-name-lookalike", rows[:1] + [["D", "\uff28eader", "1"]] + rows[1:], 1
    yield "row-marker-lookalike", rows[:1] + [["\uff24", "Header", "1"]] + rows[1:], 1
    yield "empty-mark-lookalike", mod(f_idx[0], 3, "\uff38"), f_idx[0]
    for i in d_idx:
        yield "format-twice", rows[:i + 1] + [["D", "Format", fmt]] + rows[i + 1:], i + 1
        yield "empty-property-name", rows[:i + 1] + [["D", "", "x"]] + rows[i + 1:], i + 1
        yield "unknown-property", rows[:i + 1] + [["D", "Colour", "x"]] + rows[i + 1:], i + 1
        yield "header-negative", rows[:i + 1] + [["D", "Header", "-1"]] + rows[i + 1:], i + 1
        yield "header-not-a-number", rows[:i + 1] + [["D", "Header", "two"]] + rows[i + 1:], i + 1
        inapplicable = ["D", "Sheet", "1"] if fmt in ("delimited", "fixed") else ["D", "Item delimiter", ";"]
        yield "property-not-applicable", rows[:i + 1] + [inapplicable] + rows[i + 1:], i + 1
    yield "no-fields", [r for r in rows if r[0] == "D"], None
    yield "field-before-format", [rows[f_idx[0]]] + rows, 0
    yield "unknown-row-marker", rows[:1] + [["X", "y"]] + rows[1:], 1
    for i in f_idx:
        for bad in ("", "1abc", "a-b", "a b", "class", "größe", "_x", "a.b", "None", " class", "if ", "\tlambda ", " 1abc "):
            yield "field-name:%s" % bad, mod(i, 1, bad), i
        if i != f_idx[0]:
            yield "duplicate-field-name", mod(i, 1, rows[f_idx[0]][1]), i
        for bad in ("y", "xx", "0", "-"):
            yield "empty-mark:%s" % bad, mod(i, 3, bad), i
        for bad in ("Foo", "Inte ger", "Integer.", ".Integer", "1nteger", "integer", "Text-", "Abstract", "fields.Abstract", "FieldFormat", "IntegerFieldFormat", ""[0:0] + "AbstractFieldFormat"):
            yield "field-type:%s" % bad, mod(i, 5, bad), i
        for bad in ("x", "1...2...3", "3...2", "1,,"[:2] + "..", "-2...-1", "1...5, 5...9", "4, 4"):
            yield "length:%s" % bad, mod(i, 4, bad), i
        if fmt == "fixed":
            yield "fixed-no-length", mod(i, 4, ""), i
            yield "fixed-length-range", mod(i, 4, "2...9"), i
            yield "fixed-length-open", mod(i, 4, "2..."), i
            yield "fixed-length-zero", mod(i, 4, "0"), i
            for bad_len in ("", "...5", "...3, 9"):
                r = list(rows[i]) + [""] * (7 - len(rows[i]))
                r[2], r[4] = (r[2] or "ab"), bad_len      # an example is there, the length has no lower limit
                yield "fixed-length-without-lower-limit-and-example", with_row(i, r), i
            yield "fixed-length-exact-then-open-below", mod(i, 4, "3, ...2"), i
            yield "fixed-length-open-below-then-exact", mod(i, 4, "...2, 3"), i
            yield "fixed-length-exact-then-open-above", mod(i, 4, "3, 5..."), i
            yield "fixed-length-two-exact", mod(i, 4, "3, 5"), i
            yield "fixed-length-two-exact-descending", mod(i, 4, "5, 3"), i
            yield "fixed-length-three-exact-descending", mod(i, 4, "6, 4, 2"), i
            yield "fixed-length-exact-between-others", mod(i, 4, "4, 9, 2"), i
            yield "fixed-length-same-number-twice", mod(i, 4, "5, 5"), i
            yield "fixed-length-touching-items", mod(i, 4, "5...5, 5"), i
        ftype = rows[i][5]
        bad_rule = {"Integer": "1...x", "Decimal": "1...a", "Choice": "a,,b", "Constant": "a b"}.get(ftype)
        if bad_rule:
            yield "rule:%s" % ftype, mod(i, 6, bad_rule), i
        if ftype == "Choice":
            yield "rule:Choice-trailing-comma", mod(i, 6, "a, b,"), i
        if ftype == "Integer" and fmt != "fixed":
            r = list(rows[i]); r[4] = "1"; r[6] = "10...99"; r[2] = ""
            yield "length-inconsistent-with-rule", with_row(i, r), i
        bad_example = {"Integer": "x", "Decimal": "abc", "Choice": "nope", "Constant": "nope", "DateTime": "32.13.2000"}.get(ftype)
        if bad_example and not (ftype == "Integer" and False):
            yield "example-rejected", mod(i, 2, bad_example), i
    # white space around an example is part of the example (it is significant in delimited, Excel and ODS data): a
    # Text field of length 2 does not accept " ab "
    last_f = f_idx[-1]
    if fmt != "fixed":
        yield "example-padded-too-long", rows[:last_f + 1] + [["F", "padded_example", " ab ", "", "2", "Text"]] + rows[last_f + 1:], last_f + 1
        yield "example-only-blanks-for-integer", rows[:last_f + 1] + [["F", "padded_example", "  ", "", "", "Integer"]] + rows[last_f + 1:], last_f + 1
        yield "example-padded-choice", rows[:last_f + 1] + [["F", "padded_example", " x", "", "", "Choice", "x, y"]] + rows[last_f + 1:], last_f + 1
    first_f = f_idx[0]
    yield "check-before-fields", rows[:first_f] + [["C", "early", "IsUnique", rows[first_f][1]]] + rows[first_f:], first_f
    names = [rows[i][1] for i in f_idx]
    end = len(rows)
    extra = [("check-empty-description", ["C", "", "IsUnique", names[0]]), ("check-unknown-type", ["C", "k", "IsSorted", names[0]]),
             ("check-type-with-blank", ["C", "k", " IsUnique", names[0]]), ("check-undeclared-field", ["C", "k", "IsUnique", "no_such_field"]),
             ("check-undeclared-field-second", ["C", "k", "IsUnique", names[0] + ", no_such_field"]), ("check-empty-rule", ["C", "k", "IsUnique", ""]),
             ("check-duplicate-field", ["C", "k", "IsUnique", names[0] + ", " + names[0]]), ("check-missing-comma", ["C", "k", "IsUnique", names[0] + " " + names[0]]),
             ("check-rule-starts-with-number", ["C", "k", "DistinctCount", "3 < " + names[0]]), ("check-distinct-undeclared-field", ["C", "k", "DistinctCount", "nope < 3"]),
             ("check-no-type", ["C", "k"]), ("check-type-beyond-parsed-columns", ["C", "k", "", "", "", "", "", "IsUnique", names[0]]),
             ("check-rule-beyond-parsed-columns", ["C", "k", "", "", "", "", "IsUnique", names[0]]), ("check-type-beyond-parsed-columns-2", ["C", "k", "", "", "", "", "", "", "", "IsUnique", names[0]]), ("check-type-abstract", ["C", "k", "Abstract", names[0]]), ("check-type-class-name", ["C", "k", "IsUniqueCheck", names[0]]), ("check-rule-leading-blank", ["C", "k", "IsUnique", " " + names[0]])]
    for name, row in extra:
        yield name, rows + [row], end
    for i in c_idx:
        yield "check-duplicate-description", rows + [["C", rows[i][1], "IsUnique", names[0]]], end


def gen_inputs(tier, rnd):
    yield {"kind": "keywords"}
    n = 8 if tier == "quick" else 60
    for k in range(n):
        rows = gen_valid(rnd, fmt=["delimited", "fixed", "excel", "ods"][k % 4])     # every format in every run
        yield {"kind": "base", "rows": rows}
        # the same CID with one more field and one more check of plugin types created at this moment: a known type is
        # whatever class exists when the CID is read
        late = "Late%d" % rnd.randrange(10 ** 9)
        names = [r[1].strip() for r in rows if r and r[0].strip().lower() == "f"]
        first_c = min([i for i, r in enumerate(rows) if r and r[0].strip().lower() == "c"] or [len(rows)])
        fixed = any(len(r) > 2 and r[0].strip().lower() == "d" and r[2].strip().lower() == "fixed" for r in rows)
        late_rows = rows[:first_c] + [["F", "late_field", "", "X", "3" if fixed else "", late, "a|b"]] + rows[first_c:] + [["C", "late check", late, "accept"]]
        yield {"kind": "base", "rows": late_rows, "late": late}
        # an example with white space around it that its field accepts as it stands is kept as it stands
        if not fixed:
            last_f = max(i for i, r in enumerate(rows) if r and r[0].strip().lower() == "f")
            yield {"kind": "base", "rows": rows[:last_f + 1] + [["F", "padded_example", " ab ", "", "4", "Text"]] + rows[last_f + 1:]}
        if not fixed:
            # a rule limit of 15 digits just below a power of ten under a length that it just fits / just misses
            last_f = max(i for i, r in enumerate(rows) if r and r[0].strip().lower() == "f")
            yield {"kind": "base", "rows": rows[:last_f + 1] + [["F", "big_number", "", "", "1...15", "Integer", "0...999999999999999"]] + rows[last_f + 1:]}
            yield {"kind": "defect", "defect": "rule-limit-shorter-than-exact-length", "at": last_f + 1,
                   "rows": rows[:last_f + 1] + [["F", "big_number", "", "", "16", "Integer", "999999999999999"]] + rows[last_f + 1:]}
            yield {"kind": "defect", "defect": "rule-limit-longer-than-length", "at": last_f + 1,
                   "rows": rows[:last_f + 1] + [["F", "big_number", "", "", "1...15", "Integer", "0...1000000000000000"]] + rows[last_f + 1:]}
        for name, rw in rewrites(rnd, rows):
            yield {"kind": "rewrite", "rewrite": name, "rows": rw, "base_rows": rows}
        yield {"kind": "api", "of": "base", "rows": rows}
        probe = names + [names[0].upper(), names[-1] + "_", "", " " + names[0]]
        rnd.shuffle(probe)
        cells = ["v%d" % i for i in range(len(names))]
        yield {"kind": "lookup", "rows": rows, "names": probe, "row": cells, "declared": names, "fits": True}
        yield {"kind": "lookup", "rows": rows, "names": probe, "row": cells + ["extra"], "declared": names, "fits": False}
        yield {"kind": "api", "of": "late", "rows": late_rows, "late": late}
        all_defects = list(defects(rnd, rows))
        for k, (name, bad, at) in enumerate(all_defects):
            yield {"kind": "defect", "defect": name, "rows": bad, "at": at}
            if k % 2 == 0:
                # the same rows handed over call by call, refused calls skipped
                inserted = at is not None and len(bad) == len(rows) + 1 and bad[:at] + bad[at + 1:] == rows
                yield {"kind": "api", "of": "defect", "defect": name, "rows": bad, "inserted": inserted, "base_rows": rows}
            if k % 7 == 0 and at is not None:
                # two defects: the refused row of another defect as well
                name2, bad2, at2 = all_defects[rnd.randrange(len(all_defects))]
                if at2 is not None and at2 < len(bad2):
                    pos = rnd.randrange(len(bad) + 1)
                    yield {"kind": "api", "of": "two-defects", "defect": name + "+" + name2, "rows": bad[:pos] + [bad2[at2]] + bad[pos:]}
            if k % 4 == 0 and at is not None and at >= 1:
                # the same defect behind a row without cells / a comment row: the row named moves along
                filler = rnd.choice([[], [""], ["", "comment"]])
                yield {"kind": "defect", "defect": name + "+empty-row-before", "rows": bad[:1] + [filler] + bad[1:], "at": at + 1}
