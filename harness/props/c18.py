"""C18 - the command line's exit code reflects the validation outcome: cutplace.applications.main run in-process on
generated CID and data files, against Model/Cli.v (run_cli) and, directly, against the programmatic API."""
import io
import itertools
import os
import subprocess
import sys

from cutplace import validio

import vcommon as V
import clicommon as CLI
from common import B, L, Nat, O, P, S, Zn

MODEL_FILES = ["Model/Validio.v", "Model/ValidioInst.v", "Model/Cli.v", "Corr/Obs.v"]
HEADER = V.HEADER + """From CP Require Import Model.Cli.
Definition run (i : option Z * cid_status * cid cstate * list data_file) : Z :=
  let '(u, cs, c, fs) := i in run_cli u cs c fs."""
CASE_TYPE = "(option Z * cid_status * cid cstate * list data_file) * Z"
MODEL = "run"
EQB = "Z.eqb"
SHARD = 300
RULE = ("CID in {valid, rejected, missing} x every list of 0..3 data files over {accepted, rejected by a field, rejected "
        "by IsUnique, sharing keys with a sibling file, missing, directory} in every order (and, under a CID whose DistinctCount end check fails on zero rows, lists over {accepted, rejected by the end check, rejected by IsUnique, missing, directory}; and under CIDs with 1 and 2 header rows with --until 0..4) x --until in {absent, -1, 0, "
        "1, 2, -2, x}; in-process main() (both tiers) and `python -m cutplace.applications` as a subprocess for a sample "
        "(thorough). The exit code is compared with the model and with the verdicts cutplace.validate gives each file "
        "on a freshly loaded CID. Non-trivial: at least two data files. Distinct = distinct case.")
EXHAUSTIVE = {"quick": False, "thorough": True}
TRUSTED = ["argparse turns unusable arguments into SystemExit(2)", "a missing path or a directory raises OSError when opened"]
ASSUMPTIONS = ["readable data files are delimited text (files that cannot be read: all four formats); CID files are CSV"]

SPEC = {"format": "delimited", "header": 0,
        "fields": [{"name": "k", "empty": False, "type": "Text", "choices": [], "length": None},
                   {"name": "v", "empty": False, "type": "Choice", "choices": ["x", "y"], "length": None}],
        "checks": [{"kind": "unique", "cols": [0]}]}
# the same CID with an end check that fails on zero rows: an unreadable file must still exit 3, not 1
SPEC_LOWER = dict(SPEC, checks=[{"kind": "unique", "cols": [0]}, {"kind": "distinct", "col": 0, "op": ">=", "n": 2}])
# the same CID with header rows: --until N counts them exactly like the API's validation limit does
SPECS = {"plain": SPEC, "lower": SPEC_LOWER, "header1": dict(SPEC, header=1), "header2": dict(SPEC, header=2),
         # the other formats, for files that cannot be read at all (what a readable container holds is C15 / C16 / C13)
         "ods": dict(SPEC, format="ods"), "excel": dict(SPEC, format="excel"),
         "fixed": dict(SPEC, format="fixed", fields=[dict(SPEC["fields"][0], length=[[3, 3]]), dict(SPEC["fields"][1], length=[[1, 1]])])}
FILES = {
    "accepted": [["a", "x"], ["b", "y"]],
    "field": [["a", "x"], ["b", "zz"], ["c", "x"]],
    "unique": [["a", "x"], ["b", "y"], ["a", "y"]],
    "sibling": [["b", "x"], ["a", "y"], ["c", "y"]],   # shares keys with the others but is fine on its own
    "single": [["a", "x"]],                            # rejected by the end check of SPEC_LOWER only
    "empty": [],                                       # a file of zero bytes: no rows, which the end checks judge like any data
    "missing": None,
    "dir": None,
}
UNTILS = [None, -1, 0, 1, 2, -2, "x"]


def make_case(inp):
    cid_kind, files, until = inp["cid"], inp["files"], inp["until"]
    SPEC = SPECS[inp.get("spec", "plain")]
    with CLI.Workdir() as w:
        if cid_kind == "missing":
            # a CID that is not there, or a folder of that name; the name decides which reader is asked
            cid_path = w.directory(inp["cid_name"]) if inp.get("cid_dir") else w.missing(inp.get("cid_name", "nocid.csv"))
        elif inp.get("cid_damage"):
            # a CID that is refused because its container is broken (the programmatic API reports a data format error)
            name, blob = {"quote": ("cid.csv", b'D,Format,Delimited\nF,"k\n'), "utf8": ("cid.csv", b"D,Format,Delimited\nF,k\xff\xfe\n"),
                          "notzip": ("cid.ods", b"D,Format,Delimited\nF,k\n"), "notxls": ("cid.xls", b"D,Format,Delimited\nF,k\n"),
                          "notxlsx": ("cid.xlsx", b"PK\x03\x04 not a workbook")}[inp["cid_damage"]]
            cid_path = os.path.join(w.path, name)
            with open(cid_path, "wb") as fh:
                fh.write(blob)
        else:
            cid_path = w.write_cid(SPEC, broken=(cid_kind == "rejected"))
        paths = []
        coq_files = []
        fresh = []
        cid_for_rows = V.build_cid(SPEC)
        for i, f in enumerate(files):
            if f == "missing":
                paths.append(w.missing("nodata%d.csv" % i))
                coq_files.append("Unreadable")
                fresh.append("unreadable")
            elif f == "dir":
                paths.append(w.directory("dir%d" % i))
                coq_files.append("Unreadable")
                fresh.append("unreadable")
            else:
                text = V.encode(SPEC, FILES[f])
                paths.append(w.write_data((inp.get("names") or {}).get(str(i), "data%d.csv" % i), text))
                raws, fault = V.raw_rows(cid_for_rows, SPEC, text)
                coq_files.append("(Readable %s %s)" % (L(raws, lambda r: L(r, S)), B(fault)))
                fresh.append(text)
        for name, kind in (inp.get("siblings") or {}).items():
            # further files in the same folder that are not named on the command line
            w.write_data(name, V.encode(SPEC, FILES[kind]))
        if inp.get("drop") is not None:
            paths = [p for k, p in enumerate(paths) if k not in inp["drop"]]
        argv = ([] if until is None else ["-u" if inp.get("short") else "--until", str(until)]) + (["--log", inp["log"]] if inp.get("log") else []) \
            + (["--plugins", w.directory("plugins")] if inp.get("plugins") else []) + [cid_path] + paths
        if inp.get("subprocess"):
            p = subprocess.run([sys.executable, "-m", "cutplace.applications"] + argv, stdout=subprocess.DEVNULL, stderr=subprocess.DEVNULL,
                               env=dict(os.environ, PYTHONPATH="/repo"))
            code = p.returncode
        else:
            code = CLI.run_main(argv)
    u = "None" if until is None else ("(Some %s)" % Zn(until) if isinstance(until, int) else None)
    cs = {"valid": "CidOk", "rejected": "CidRejected", "missing": "CidUnreadable"}[cid_kind]
    obs = {"exit": code, "fresh": fresh}
    if u is None:
        # a non-numeric --until is refused by argparse itself: modelled as an unusable argument list
        coq = P(P("(Some (-5)%Z)", cs, V.coq_cid(SPEC), L(coq_files, str)), Zn(code if isinstance(code, int) else 99))
    else:
        coq = P(P(u, cs, V.coq_cid(SPEC), L(coq_files, str)), Zn(code if isinstance(code, int) else 99))
    tags = ["cid-" + cid_kind, "until-" + str(until), "files%d" % len(files)] + (["subprocess"] if inp.get("subprocess") else [])
    return {"coq": coq, "obs": obs, "nontrivial": len(files) >= 2, "tags": tags}


def direct_oracle(inp, obs):
    """the exit code against the programmatic API: every file judged on a freshly loaded CID"""
    code = obs["exit"]
    until = inp["until"]
    SPEC = SPECS[inp.get("spec", "plain")]
    if not isinstance(code, int):
        return "main() let %s escape" % code
    if code == 4:
        return "exit code 4"
    if not (until is None or (isinstance(until, int) and until >= -1)):
        return None if code == 2 else "unusable --until %r must exit 2, got %d" % (until, code)
    if inp["cid"] == "missing":
        return None if code == 3 else "missing CID must exit 3, got %d" % code
    if inp["cid"] == "rejected":
        return None if code == 1 else "rejected CID must exit 1, got %d" % code
    limit = None if until in (None, -1) else until
    verdicts = []
    for f in obs["fresh"]:
        if f == "unreadable":
            verdicts.append("unreadable")
            continue
        # the command line validates with Reader.validate_rows(): all rows are read, `limit` rows validated
        r = V.run_reader(V.build_cid(SPEC), SPEC, f, "raise", limit)
        verdicts.append("accepted" if r["raised"] is None else "rejected")
    want = 3 if "unreadable" in verdicts else (1 if "rejected" in verdicts else 0)
    if code != want:
        return "exit code %d but per-file API verdicts on fresh CIDs are %r (expected %d)" % (code, verdicts, want)
    return None


def classify(inp, obs, msg):
    """the open finding: a data file of an ODS interface that cannot be read is answered with 1"""
    if inp.get("spec") == "ods" and inp["cid"] == "valid" and obs["exit"] == 1 and "unreadable" in obs["fresh"] \
            and (inp["until"] is None or (isinstance(inp["until"], int) and inp["until"] >= -1)):
        return "C18/ods-unreadable-file-exit-1"
    return None


def gen_inputs(tier, rnd):
    for spec_name in ("ods", "excel", "fixed"):
        for files in (["missing"], ["dir"], ["missing", "dir"], ["dir", "missing", "missing"]):
            for until in (None, 0, 2):
                yield {"cid": "valid", "files": files, "until": until, "spec": spec_name}
        yield {"cid": "valid", "files": [], "until": None, "spec": spec_name}
    for cid_name in ("nocid.ods", "nocid.xls", "nocid.xlsx", "nocid.txt", "nocid"):
        for files in ([], ["accepted"], ["missing"]):
            yield {"cid": "missing", "files": files, "until": None, "cid_name": cid_name}
            yield {"cid": "missing", "files": files, "until": None, "cid_name": cid_name, "cid_dir": True}
    for damage in ("quote", "utf8", "notzip", "notxls", "notxlsx"):
        for files in ([], ["accepted"], ["missing"], ["field"]):
            yield {"cid": "rejected", "files": files, "until": None, "cid_damage": damage}
    kinds = [k for k in FILES if k != "single"]
    lists = [[]] + [list(p) for n in (1, 2, 3) for p in itertools.product(kinds, repeat=n)]
    if tier == "quick":
        lists = [[]] + [list(p) for n in (1, 2) for p in itertools.product(kinds, repeat=n)] + [list(p) for p in rnd.sample(list(itertools.product(kinds, repeat=3)), 60)]
    for files in lists:
        for until in UNTILS:
            if tier == "quick" and len(files) == 3 and until not in (None, 0, 2):
                continue
            yield {"cid": "valid", "files": files, "until": until}
    lower_lists = [list(p) for n in (1, 2) for p in itertools.product(["accepted", "single", "unique", "missing", "dir", "empty"], repeat=n)]
    if tier != "quick":
        lower_lists += [list(p) for p in itertools.product(["accepted", "single", "field", "missing", "dir"], repeat=3)]
    for files in lower_lists:
        for until in ((None, 1) if tier == "quick" else (None, 0, 1, 2)):
            yield {"cid": "valid", "files": files, "until": until, "spec": "lower"}
    for spec_name in ("header1", "header2"):
        for files in [list(p) for n in (1, 2) for p in itertools.product(["accepted", "field", "unique", "missing"], repeat=n)]:
            for until in ((None, 1, 2, 3) if tier == "quick" else (None, -1, 0, 1, 2, 3, 4)):
                if tier == "quick" and len(files) == 2 and until in (None, 3):
                    continue
                yield {"cid": "valid", "files": files, "until": until, "spec": spec_name}
    # how much is logged does not change the verdict
    for level in ("debug", "info", "warning", "error", "critical"):
        for files in (["accepted"], ["field"], ["unique", "accepted"], ["accepted", "missing"]):
            yield {"cid": "valid", "files": files, "until": None, "log": level}
        yield {"cid": "rejected", "files": ["accepted"], "until": None, "log": level}
    # the other spellings and options: -u for --until, a plugin folder (without plugins)
    for files in (["accepted"], ["field", "accepted"], ["unique"], ["missing"]):
        for until in (0, 1, 2, -1):
            yield {"cid": "valid", "files": files, "until": until, "short": True}
        yield {"cid": "valid", "files": files, "until": None, "plugins": True}
    # names that a shell would read as patterns are names: the file that is named is judged, not its neighbours
    yield {"cid": "valid", "files": ["field"], "until": None, "names": {"0": "data[1].csv"}, "siblings": {"data1.csv": "accepted"}}
    yield {"cid": "valid", "files": ["accepted"], "until": None, "names": {"0": "what?.csv"}, "siblings": {"whatX.csv": "field"}}
    yield {"cid": "valid", "files": ["accepted", "unique"], "until": None, "names": {"0": "a*.csv", "1": "b[ab].csv"}, "siblings": {"abc.csv": "field", "ba.csv": "accepted"}}
    yield {"cid": "valid", "files": ["accepted"], "until": 1, "names": {"0": "[x].csv"}, "siblings": {"x.csv": "field"}}
    for cid in ("rejected", "missing"):
        for files in ([], ["accepted"], ["missing"], ["field", "accepted"]):
            for until in UNTILS:
                yield {"cid": cid, "files": files, "until": until}
    if tier == "thorough":
        for files in rnd.sample(lists, 25):
            yield {"cid": "valid", "files": files, "until": rnd.choice([None, 0, 2]), "subprocess": True}
        yield {"cid": "missing", "files": [], "until": None, "subprocess": True}
        yield {"cid": "rejected", "files": ["accepted"], "until": None, "subprocess": True}
