"""C04 - a row is accepted iff all cells and row checks pass; errors name the culprit."""
from readercase import *  # noqa
import vcommon as V

RULE = ("random CIDs (1..5 fields of types Text/Choice with empty flag, length, allowed characters; 0..3 checks IsUnique/"
        "DistinctCount; header 0..2; delimited and fixed) x tables of 0..8 rows with ragged widths, rejected cells and "
        "duplicates, read with on_error='yield'; per output: the row or (error family, row, column, field named in the "
        "message, see-also location), read after the iteration finished; 15 % of the cases are the second pass of a Reader that has already read the same data once (row numbers start at 1 again). Second family: errors.Location itself - random flags, paths and sequences of advance_line/advance_cell/set_cell/advance_column/advance_sheet/copy - its printed text (or the AssertionError of a guarded operation) against Model/Location.v. Non-trivial: at least one data row after the "
        "header. Distinct = distinct (CID, table).")


# ---- a second family of cases: errors.Location itself (counters, operations with their asserts, printed text)
import copy as _copy
from cutplace import errors as _errors
import readercase as _RC
from common import B, L, Nat, O, P, S

MODEL_FILES = _RC.MODEL_FILES + ["Model/Location.v"]
HEADER = _RC.HEADER + """
From CP Require Import Model.Location.
Inductive c04in := CRun (i : cid cstate * bool * mode * option nat * list (list text) * bool)
                 | CLoc (path : text) (has_column has_cell has_sheet : bool) (ops : list lop).
Inductive c04obs := ORun (o : run_obs) | OLoc (t : option text).
Definition run4 (i : c04in) : c04obs :=
  match i with
  | CRun x => ORun (run x)
  | CLoc p a b c ops => OLoc (option_map loc_text (lsteps (new_location p a b c) ops))
  end.
Definition c04_eqb (a b : c04obs) : bool :=
  match a, b with
  | ORun x, ORun y => run_obs_eqb x y
  | OLoc x, OLoc y => option_eqb text_eqb x y
  | _, _ => false
  end."""
CASE_TYPE = "c04in * c04obs"
MODEL = "run4"
EQB = "c04_eqb"
LOC_PATHS = ["data.csv", "some/dir/data.csv", "/abs/x.ods", "<io>", "dir/", "odd (R9C9).csv", "a/b/(R1C1)", "x"]


def location_case(inp):
    loc = _errors.Location(inp["path"], has_column=inp["flags"][0], has_cell=inp["flags"][1], has_sheet=inp["flags"][2])
    text = None
    try:
        for op, k in inp["ops"]:
            if op == "column":
                loc.advance_column(k)
            elif op == "cell":
                loc.advance_cell(k)
            elif op == "set":
                loc.set_cell(k)
            elif op == "line":
                loc.advance_line(k)
            elif op == "sheet":
                loc.advance_sheet()
            else:
                loc = _copy.copy(loc)
        text = str(loc)
    except AssertionError:
        text = None
    names = {"column": "LAdvColumn", "cell": "LAdvCell", "set": "LSetCell", "line": "LAdvLine"}
    ops = [o for o in inp["ops"] if o[0] != "copy"]
    coq_ops = L(ops, lambda o: "LAdvSheet" if o[0] == "sheet" else "(%s %s)" % (names[o[0]], Nat(o[1])))
    coq_in = "(CLoc %s %s %s %s %s)" % (S(inp["path"]), B(inp["flags"][0]), B(inp["flags"][1]), B(inp["flags"][2]), coq_ops)
    return {"coq": P(coq_in, "(OLoc %s)" % O(text, S)), "obs": {"text": text}, "nontrivial": text is not None and len(ops) >= 2,
            "tags": ["location", "asserted" if text is None else "printed"]}


def make_case(inp):
    if inp.get("kind") == "location":
        return location_case(inp)
    c = _RC.make_case(inp)
    # "(in, obs)" -> "(CRun in, ORun obs)": the reader case is a pair printed by P
    assert c["coq"].startswith("(") and c["coq"].endswith(")")
    depth, i = 0, 1
    while True:
        ch = c["coq"][i]
        depth += ch == "("
        depth -= ch == ")"
        i += 1
        if depth == 0:
            break
    c["coq"] = "(CRun %s, ORun %s)" % (c["coq"][1:i], c["coq"][i + 2:-1])
    return c


def gen_locations(tier, rnd):
    for _ in range(150 if tier == "quick" else 3000):
        flags = [rnd.random() < 0.3, rnd.random() < 0.8, rnd.random() < 0.3]
        ops = []
        for _k in range(rnd.randint(0, 7)):
            op = rnd.choice(["cell", "set", "line", "line", "sheet", "column", "copy"])
            k = rnd.choice([0, 1, 1, 2, 3, 9, 10, 99, 100, 4321]) if op != "line" else rnd.choice([0, 1, 1, 1, 2, 8, 9, 10, 98, 99, 999])
            ops.append([op, k])
        yield {"kind": "location", "path": rnd.choice(LOC_PATHS), "flags": flags, "ops": ops}


def gen_inputs(tier, rnd):
    yield from gen_locations(tier, rnd)
    # the second pass of one Reader whose first pass was ended by its first data row (on_error='raise'), under header rows:
    # rows are numbered from the start again
    for header in (1, 2, 3):
        for k in range(6 if tier == "quick" else 40):
            spec = V.gen_spec(rnd, fmt="delimited", header=header)
            width = len(spec["fields"])
            good = V.gen_table(rnd, spec, nrows=3, ragged=False)
            table = [["h"] * width] * header + [["x"] * (width + 1)] + good + [["y"] * (width + 2)]
            yield {"spec": spec, "table": table, "mode": "raise", "prepass": True}
            yield {"spec": spec, "table": table[:header] + good[:1] + table[header:], "mode": "raise", "prepass": True}
    n = 700 if tier == "quick" else 8000
    for _ in range(n):
        spec = V.gen_spec(rnd)
        table = V.gen_table(rnd, spec)
        if rnd.random() < 0.3:
            spec, table = V.builtin_variant(rnd, spec, table)     # one column of another built-in type (numbers, dates, patterns)
        yield {"spec": spec, "table": table, "mode": "yield", "prepass": rnd.random() < 0.15}


def direct_oracle(inp, obs):
    if inp.get("kind") == "location":
        return None
    # the text of an error names the 1-based row and column of its location
    for o in obs["outs"]:
        if "err" in o and o["err"].get("text") and o["err"]["family"] != "FDataFormat":
            want = "(R%dC%d)" % (o["err"]["line"] + 1, o["err"]["cell"] + 1)
            if want not in o["err"]["text"]:
                return "error text %r does not name %s" % (o["err"]["text"], want)
    # location must name the input: StringIO sources are reported as '<io>'
    for o in obs["outs"]:
        if "err" in o and o["err"].get("path") not in ("<io>", None):
            return "error location names %r instead of the input" % o["err"].get("path")
        if "err" in o and o["err"]["family"] == "FLeak":
            return "non-cutplace exception yielded"
    return None
