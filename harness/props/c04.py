"""C04 - a row is accepted iff all cells and row checks pass; errors name the culprit."""
from readercase import *  # noqa
import vcommon as V

RULE = ("random CIDs (1..5 fields of types Text/Choice with empty flag, length, allowed characters; 0..3 checks IsUnique/"
        "DistinctCount; header 0..2; delimited and fixed) x tables of 0..8 rows with ragged widths, rejected cells and "
        "duplicates, read with on_error='yield'; per output: the row or (error family, row, column, field named in the "
        "message, see-also location), read after the iteration finished. Non-trivial: at least one data row after the "
        "header. Distinct = distinct (CID, table).")


def gen_inputs(tier, rnd):
    n = 700 if tier == "quick" else 8000
    for _ in range(n):
        spec = V.gen_spec(rnd)
        yield {"spec": spec, "table": V.gen_table(rnd, spec), "mode": "yield"}


def direct_oracle(inp, obs):
    # location must name the input: StringIO sources are reported as '<io>'
    for o in obs["outs"]:
        if "err" in o and o["err"].get("path") not in ("<io>", None):
            return "error location names %r instead of the input" % o["err"].get("path")
        if "err" in o and o["err"]["family"] == "FLeak":
            return "non-cutplace exception yielded"
    return None
