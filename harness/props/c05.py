"""C05 - uniqueness and distinct-count checks are decided over the whole data set."""
import itertools

from readercase import *  # noqa
import vcommon as V

RULE = ("all row sequences of 0..5 rows (quick; 0..6 thorough, longer ones sampled up to 10) over a 3-symbol key alphabet "
        "plus one symbol a Choice field rejects, so that duplicates and field-rejected rows occur at every pair of "
        "positions; key sets of 1..3 fields; IsUnique and/or DistinctCount with every comparison operator and "
        "thresholds 0..4 sampled; the three modes. The expected verdicts are recomputed independently in Python "
        "(duplicate of an earlier row that passed, rows that reached the check) and compared with the implementation. "
        "Non-trivial: a check is declared and there are at least 2 data rows. Distinct = distinct (CID, table, mode).")


def spec_for(nkeys, cols, distinct, order):
    fields = [{"name": "k%d" % i, "empty": False, "type": "Choice", "choices": ["a", "b", "c"], "length": None} for i in range(nkeys)]
    checks = []
    u = {"kind": "unique", "cols": cols} if cols else None
    d = {"kind": "distinct", "col": distinct[0], "op": distinct[1], "n": distinct[2]} if distinct else None
    for c in ((u, d) if order == 0 else (d, u)):
        if c:
            checks.append(c)
    return {"format": "delimited", "header": 0, "fields": fields, "checks": checks}


def gen_inputs(tier, rnd):
    ops = list(V.OPS)
    maxrows = 5 if tier == "quick" else 6
    # one key field, exhaustive sequences over {a, b, c, z(rejected by the field)}
    for n in range(0, maxrows + 1):
        for seq in itertools.product("abz" if n >= 5 else "abcz", repeat=n):
            table = [[s] for s in seq]
            i = sum(ord(ch) for ch in seq) + n
            mode = ("yield", "continue", "raise")[i % 3] if n > 3 else None
            for m in ([mode] if mode else ["yield", "continue", "raise"]):
                yield {"spec": spec_for(1, [0], (0, ops[i % 6], i % 5), i % 2), "table": table, "mode": m}
    for _ in range(300 if tier == "quick" else 5000):
        nkeys = rnd.randint(1, 3)
        cols = rnd.sample(range(nkeys), rnd.randint(1, nkeys)) if rnd.random() < 0.85 else None
        distinct = (rnd.randrange(nkeys), rnd.choice(ops), rnd.randint(0, 4)) if rnd.random() < 0.7 else None
        spec = spec_for(nkeys, cols, distinct, rnd.randint(0, 1))
        nrows = rnd.randint(0, 6 if tier == "quick" else 10)
        table = [[rnd.choice("aabbcz") for _ in range(nkeys)] for _ in range(nrows)]
        if rnd.random() < 0.1 and table:
            table[rnd.randrange(len(table))] = table[0][:-1] if nkeys > 1 else ["a", "a"]
        case = {"spec": spec, "table": table, "mode": rnd.choice(["yield", "yield", "continue", "raise"])}
        if rnd.random() < 0.3:
            # a second data set sharing keys is read with the same CID after this reader was constructed
            case["decoy"] = [[rnd.choice("abc") for _ in range(nkeys)] for _ in range(rnd.randint(1, 4))]
        yield case
    # several IsUnique checks of equal arity over different fields whose values overlap (each check must keep its own
    # bookkeeping), and several DistinctCount checks
    for _ in range(250 if tier == "quick" else 3000):
        nkeys = rnd.randint(2, 3)
        fields = [{"name": "k%d" % i, "empty": False, "type": "Choice", "choices": ["a", "b", "c"], "length": None} for i in range(nkeys)]
        checks = []
        arity = rnd.randint(1, 2)
        for _c in range(rnd.randint(2, 3)):
            if rnd.random() < 0.75:
                checks.append({"kind": "unique", "cols": rnd.sample(range(nkeys), arity)})
            else:
                checks.append({"kind": "distinct", "col": rnd.randrange(nkeys), "op": rnd.choice(ops), "n": rnd.randint(0, 4)})
        table = [[rnd.choice("aabbcz") for _ in range(nkeys)] for _ in range(rnd.randint(2, 6 if tier == "quick" else 9))]
        yield {"spec": {"format": "delimited", "header": 0, "fields": fields, "checks": checks}, "table": table, "mode": rnd.choice(["yield", "yield", "continue", "raise"])}
    for table in ([["a", "b"], ["b", "c"]], [["a", "b"], ["b", "a"]], [["a", "b"], ["c", "a"], ["b", "c"]], [["a", "a"], ["b", "b"]]):
        fields = [{"name": "k%d" % i, "empty": False, "type": "Choice", "choices": ["a", "b", "c"], "length": None} for i in range(2)]
        for cols in ([[0], [1]], [[1], [0]], [[0, 1], [1, 0]]):
            yield {"spec": {"format": "delimited", "header": 0, "fields": fields, "checks": [{"kind": "unique", "cols": c} for c in cols]}, "table": table, "mode": "yield"}

    # keys of several fields whose values differ only in where a character stands - at the end of one value or at the
    # start of the next - are different keys, whatever that character is
    text_fields = [{"name": "k%d" % i, "empty": True, "type": "Text", "choices": [], "length": None} for i in range(3)]
    for sep in ["\udcff", "\x1f", "\x1e", "|", "\t", " ", ";", "\uffff", "\ue000", "\x01", "'", "(", "\\", "/", "-"]:
        for ncols in (2, 3):
            pad = ["x"] * (ncols - 2)
            table = [["a" + sep, "b"] + pad, ["a", sep + "b"] + pad, ["a" + sep, "b"] + pad, [sep, ""] + pad, ["", sep] + pad, ["a", "b" + sep] + pad[:0] + ([sep + "x"] if pad else [])]
            table = [r for r in table if len(r) == ncols]
            for cols in ([0, 1], [1, 0]) + (([0, 1, 2], [1, 2]) if ncols == 3 else ()):
                yield {"spec": {"format": "delimited", "header": 0, "fields": text_fields[:ncols], "checks": [{"kind": "unique", "cols": list(cols)}]},
                       "table": table, "mode": "yield"}

    # rows whose cells are all empty are rows like any other (fields that may be empty): they have a key, they count
    for ncols in (2, 3):          # (a row of one empty cell is an empty line in delimited data: no items at all)
        blank = [""] * ncols
        some = ["a"] + [""] * (ncols - 1)
        for table in ([blank, blank], [some, blank, some, blank], [blank, some, blank], [blank], [some, blank]):
            for n in (0, 1, 2):
                for op in ("<", "==", ">="):
                    yield {"spec": {"format": "delimited", "header": 0, "fields": text_fields[:ncols],
                                    "checks": [{"kind": "unique", "cols": list(range(ncols))}, {"kind": "distinct", "col": 0, "op": op, "n": n}]},
                           "table": [list(r) for r in table], "mode": "yield"}
                    yield {"spec": {"format": "delimited", "header": 0, "fields": text_fields[:ncols],
                                    "checks": [{"kind": "distinct", "col": ncols - 1, "op": op, "n": n}]},
                           "table": [list(r) for r in table], "mode": "continue"}


def direct_oracle(inp, obs):
    """independent recomputation of the property's right-hand side for on_error='yield'"""
    if inp["mode"] != "yield":
        return None
    spec, table = inp["spec"], inp["table"]
    n = len(spec["fields"])
    seen = [dict() for _ in spec["checks"]]            # per check: key -> row number of the first row that passed it
    values = [set() for _ in spec["checks"]]
    expected = []
    for rno, row in enumerate(table):
        ok_fields = len(row) == n and all(f["type"] == "Text" or c in ("a", "b", "c") for f, c in zip(spec["fields"], row))
        verdict = "row"
        if not ok_fields:
            verdict = "rejected-before-checks"
        else:
            for ci, c in enumerate(spec["checks"]):
                if c["kind"] == "unique":
                    key = tuple(row[i] for i in c["cols"])
                    if key in seen[ci]:
                        verdict = ("dup", seen[ci][key])
                        break
                    seen[ci][key] = rno
                else:
                    values[ci].add(row[c["col"]])
        expected.append(verdict)
    got = obs["outs"]
    if len(got) != len(expected):
        return "expected one output per row"
    for rno, (e, o) in enumerate(zip(expected, got)):
        if e == "row" and "row" not in o:
            return "row %d must be accepted but is rejected: %r" % (rno + 1, o)
        if e == "rejected-before-checks" and ("err" not in o or o["err"]["family"] == "FCheck"):
            return "row %d must be rejected by item count or field" % (rno + 1)
        if isinstance(e, tuple):
            if "err" not in o or o["err"]["family"] != "FCheck":
                return "row %d duplicates the key of accepted row %d but is not rejected by the check" % (rno + 1, e[1] + 1)
            if o["err"]["line"] != rno or o["err"]["see"] is None or o["err"]["see"][0] != e[1]:
                return "duplicate in row %d: error located at row %d, refers back to %r; expected row %d referring to row %d" % (
                    rno + 1, o["err"]["line"] + 1, o["err"]["see"], rno + 1, e[1] + 1)
    d = [(ci, c) for ci, c in enumerate(spec["checks"]) if c["kind"] == "distinct"]
    if d:
        all_hold = True
        for ci, c in d:
            count = len(values[ci])
            holds = {"<": count < c["n"], "<=": count <= c["n"], "==": count == c["n"], "!=": count != c["n"], ">=": count >= c["n"], ">": count > c["n"]}[c["op"]]
            all_hold = all_hold and holds
        failed = obs["raised"] is not None and obs["raised"]["family"] == "FCheck"
        if failed != (not all_hold):
            return "distinct counts are %r for the rules %r: finishing %s but must %s" % (
                [len(values[ci]) for ci, _ in d], ["count %s %d" % (c["op"], c["n"]) for _, c in d], "failed" if failed else "passed", "pass" if all_hold else "fail")
    return None
