"""C01 - range descriptions accept exactly the values they describe.
Three kinds of cases: the tokenizer front end (Model/Lex.v against Python 3.12's tokenize through
_tools.generated_tokens), integer ranges (Model/RangeParse.v + Model/Ranges.v against ranges.Range) and decimal ranges
(Model/DecRange.v against ranges.DecimalRange)."""
import decimal
import itertools

from cutplace import errors, ranges

import lexcommon as LX
from common import B, L, O, P, S, Zn

MODEL_FILES = ["Model/Lex.v", "Model/RangeParse.v", "Model/Ranges.v", "Model/DecRange.v", "Model/RangeStr.v"]
HEADER = "From CP Require Import Model.Base Model.Ranges Model.Lex Model.RangeParse Model.Dec Model.DecRange Model.RangeStr.\n" + LX.LEX_HEADER + """
Inductive tcase :=
| LexCase (s : text)
| RangeCase (desc : text) (probes : list Z)
| DecCase (desc : text) (probes : list (bool * N * Z))       (* probe = sign, coefficient, exponent *)
| StrCase (its : list item).                                 (* str(range) for a range with these items *)
Inductive robs :=
| RLex (r : lres)
| RRange (items : list item) (lower upper : option Z) (verdicts : list bool)
| REmpty (verdicts : list bool)                                (* empty description: no items at all *)
| RDec (items : list (option dec * option dec)) (lower upper : option dec) (scale precision : Z) (verdicts : list bool)
| RStr (t : text)
| RInterface | RLeak.
Definition run (c : tcase) : option robs :=      (* None = outside the model's domain *)
  match c with
  | LexCase s => match generated_tokens s with LOutOfDomain => None | r => Some (RLex r) end
  | RangeCase d probes =>
      match range_of_text d with
      | POk None => Some (REmpty (map (range_validate None) probes))
      | POk (Some its) => Some (RRange its (lower_limit (Some its)) (upper_limit (Some its)) (map (range_validate (Some its)) probes))
      | PInterface => Some RInterface | PLeak => Some RLeak | POutOfDomain => None
      end
  | StrCase its => Some (RStr (range_str (Some its)))
  | DecCase d probes =>
      match decrange_of_text d with
      | DOk None _ _ => Some (REmpty (map (fun _ => true) probes))
      | DOk (Some its) sc pr => Some (RDec its (dec_lower_limit its) (dec_upper_limit its) sc pr (map (fun p => decrange_validate (Some its) (mkdec p)) probes))
      | DInterface => Some RInterface | DLeak => Some RLeak | DOutOfDomain => None
      end
  end.
Definition oz_eqb := option_eqb Z.eqb.
Definition item_eqb (a b : item) : bool := oz_eqb (fst a) (fst b) && oz_eqb (snd a) (snd b).
Definition od_eqb := option_eqb dec_same.
Definition ditem_eqb (a b : option dec * option dec) : bool := od_eqb (fst a) (fst b) && od_eqb (snd a) (snd b).
Definition robs_eqb (m : option robs) (e : robs) : bool :=
  match m with
  | None => true
  | Some m' =>
    match m', e with
    | RLex a, RLex b => lres_eqb a b
    | RRange i l u v, RRange i' l' u' v' => list_eqb item_eqb i i' && oz_eqb l l' && oz_eqb u u' && list_eqb Bool.eqb v v'
    | REmpty v, REmpty v' => list_eqb Bool.eqb v v'
    | RDec i l u s p v, RDec i' l' u' s' p' v' =>
        list_eqb ditem_eqb i i' && od_eqb l l' && od_eqb u u' && Z.eqb s s' && Z.eqb p p' && list_eqb Bool.eqb v v'
    | RStr a, RStr b => text_eqb a b
    | RInterface, RInterface | RLeak, RLeak => true
    | _, _ => false
    end
  end."""
CASE_TYPE = "tcase * robs"
MODEL = "run"
EQB = "robs_eqb"
SHARD = 1500
RULE = ("(a) tokenizer: all strings up to length 3 (quick) / 4 (thorough) over the hostile alphabet 10x.e_-:, \"a'(#\\+A plus "
        "random longer strings; (b) integer ranges: the bounded-exhaustive sweep of the property text - all 1-2 item "
        "descriptions with limits in {-2..2, none}, the three separator spellings, against all values -4..4 - plus "
        "random grammar-derived descriptions of 1-6 items (decimal, 0x-hex, quoted characters, symbolic names, minus "
        "signs, every separator spelling, free blanks) probed at every item boundary and its neighbours, and a "
        "malformed stream (doubled ellipsis, missing limits, lower > upper, overlaps, trailing hyphen, floats, unknown "
        "names, unbalanced quotes and brackets); (c) decimal ranges likewise with 0-4 fractional digits. "
        "Observed: accepted?, items, lower/upper limit, (scale, precision), verdict of every probe. "
        "Non-trivial: a range case with at least one item. Distinct = distinct case.")
EXHAUSTIVE = {"quick": True, "thorough": True}
TRUSTED = ["Model/Lex.v as a model of Python 3.12 tokenize for one-line inputs (validated exhaustively on short strings on every run)",
           "int(text, 0), decimal.Decimal(text) and the unicode_escape codec for the literal forms in the model's domain"]
ASSUMPTIONS = ["descriptions are single-line texts over tab, printable ASCII and non-ASCII characters (others are counted as out of domain)"]

SEPS = ["...", ":", "\u2026"]
ALPHA = "10x.e_-:, \"a'(#\\+A"


def lex_case(s):
    obs = LX.observe_tokens(s)
    return {"coq": P("(LexCase %s)" % S(s), "(RLex %s)" % LX.coq_lres(obs)) if obs[0] != "other" else P("(LexCase %s)" % S(s), "RLeak"),
            "obs": {"lex": obs}, "nontrivial": False, "tags": ["lex", obs[0]]}


class TypeMismatch(Exception):
    pass


def range_case(desc, probes):
    try:
        r = ranges.Range(desc)
        if r.items is None:
            verdicts = [verdict(r, v) for v in probes]
            obs = {"kind": "empty", "verdicts": verdicts}
            coq = "(REmpty %s)" % L(verdicts, B)
        else:
            verdicts = [verdict(r, v) for v in probes]
            obs = {"kind": "range", "items": [list(i) for i in r.items], "lower": r.lower_limit, "upper": r.upper_limit, "verdicts": verdicts}
            # a range is a value: what other code does with it (an Integer field derives its value range from a length,
            # messages print it) leaves its items, limits and verdicts as they are
            before = (obs["items"], obs["lower"], obs["upper"], verdicts, str(r))
            try:
                ranges.create_range_from_length(r)
            except Exception:  # noqa - lengths that make no sense are refused; the argument must still be untouched
                pass
            after = ([list(i) for i in r.items], r.lower_limit, r.upper_limit, [verdict(r, v) for v in probes], str(r))
            if after != before:
                obs = {"kind": "mutated", "what": "after create_range_from_length(range) the range %r is %r, before %r" % (desc, after[:3], before[:3])}
                raise TypeMismatch(obs["what"])
            coq = "(RRange %s %s %s %s)" % (L(r.items, lambda i: P(O(i[0], Zn), O(i[1], Zn))), O(r.lower_limit, Zn), O(r.upper_limit, Zn), L(verdicts, B))
    except errors.InterfaceError:
        obs, coq = {"kind": "interface"}, "RInterface"
    except TypeMismatch as e:
        obs, coq = {"kind": "mutated", "what": str(e)}, "RLeak"
    except Exception as e:  # noqa
        obs, coq = {"kind": "leak", "type": type(e).__name__}, "RLeak"
    return {"coq": P("(RangeCase %s %s)" % (S(desc), L(probes, Zn)), coq), "obs": obs,
            "nontrivial": obs["kind"] == "range" and len(obs["items"]) >= 1, "tags": ["range", obs["kind"]]}


def str_case(desc):
    """the text a range prints for itself, and that this text describes the same range again"""
    try:
        r = ranges.Range(desc)
        items = [list(i) for i in (r.items or [])]
        text = str(r)
        again = ranges.Range(text).items if r.items else None
        obs = {"kind": "str", "text": text, "items": items, "again": None if again is None else [list(i) for i in again]}
        coq = "(RStr %s)" % S(text)
    except errors.InterfaceError:
        items, obs, coq = [], {"kind": "interface"}, "(RStr %s)" % S("None")
    except Exception as e:  # noqa
        items, obs, coq = [], {"kind": "leak", "type": type(e).__name__}, "RLeak"
    return {"coq": P("(StrCase %s)" % L(items, lambda i: P(O(i[0], Zn), O(i[1], Zn))), coq), "obs": obs,
            "nontrivial": obs["kind"] == "str" and len(items) >= 1, "tags": ["range-str", obs["kind"]]}


def verdict(r, v):
    try:
        r.validate("x", v)
        return True
    except errors.RangeValueError:
        return False


def dec_tuple(d):
    sign, digits, exp = d.as_tuple()
    return (sign == 1, int("".join(map(str, digits))), exp)


def coq_dec(d):
    neg, coef, exp = dec_tuple(d)
    return "(mkdec (%s, %d%%N, %s))" % (B(neg), coef, Zn(exp))


def dec_case(desc, probes):
    try:
        r = ranges.DecimalRange(desc)
        verdicts = [verdict(r, decimal.Decimal(p)) for p in probes]
        # the value may be handed over as text or as int as well: the same number, the same verdict
        as_text = [verdict(r, p) for p in probes]
        as_int = [verdict(r, int(decimal.Decimal(p))) if decimal.Decimal(p) == int(decimal.Decimal(p)) and abs(decimal.Decimal(p)) < 10 ** 40 else v for p, v in zip(probes, verdicts)]
        if as_text != verdicts or as_int != verdicts:
            bad = [p for p, a, b, c in zip(probes, verdicts, as_text, as_int) if a != b or a != c]
            raise TypeMismatch("values %r get different verdicts as Decimal / str / int" % (bad[:3],))
        if r.items is None:
            obs = {"kind": "empty", "verdicts": verdicts}
            coq = "(REmpty %s)" % L(verdicts, B)
        else:
            obs = {"kind": "dec", "items": [[str(a) if a is not None else None, str(b) if b is not None else None] for a, b in r.items],
                   "lower": str(r.lower_limit), "upper": str(r.upper_limit), "scale": r.scale, "precision": r.precision, "verdicts": verdicts}
            coq = "(RDec %s %s %s %s %s %s)" % (L(r.items, lambda i: P(O(i[0], coq_dec), O(i[1], coq_dec))), O(r.lower_limit, coq_dec),
                                                  O(r.upper_limit, coq_dec), Zn(r.scale), Zn(r.precision), L(verdicts, B))
    except errors.InterfaceError:
        obs, coq = {"kind": "interface"}, "RInterface"
    except TypeMismatch as e:
        obs, coq = {"kind": "type-mismatch", "what": str(e)}, "RLeak"
    except Exception as e:  # noqa
        obs, coq = {"kind": "leak", "type": type(e).__name__}, "RLeak"
    pr = L([dec_tuple(decimal.Decimal(p)) for p in probes], lambda t: P(B(t[0]), "%d%%N" % t[1], Zn(t[2])))
    return {"coq": P("(DecCase %s %s)" % (S(desc), pr), coq), "obs": obs,
            "nontrivial": obs["kind"] == "dec", "tags": ["decimal-range", obs["kind"]]}


def make_case(inp):
    if inp["kind"] == "lex":
        return lex_case(inp["text"])
    if inp["kind"] == "range":
        return range_case(inp["desc"], inp["probes"])
    if inp["kind"] == "str":
        return str_case(inp["desc"])
    return dec_case(inp["desc"], inp["probes"])


# ------------------------------------------------------------------ spec-level oracle (independent of the model)


def inside(items, v):
    return any((lo is None or lo <= v) and (hi is None or v <= hi) for lo, hi in items)


def direct_oracle(inp, obs):
    if inp["kind"] == "str":
        if obs["kind"] == "leak":
            return "printing the range %r raised %s" % (inp["desc"], obs["type"])
        if obs["kind"] == "str" and obs["items"] and obs["again"] != obs["items"]:
            return "the range %r prints itself as %r, which reads back as %r instead of %r" % (inp["desc"], obs["text"], obs["again"], obs["items"])
        return None
    if inp["kind"] == "lex" or "den" not in inp:
        return None
    den = inp["den"]       # denotation of a well-formed, non-overlapping description, computed from its AST
    if inp["kind"] == "dec":
        D = decimal.Decimal
        den = [[None if a is None else D(a), None if b is None else D(b)] for a, b in den]
        probes = [D(p) for p in inp["probes"]]
        if obs["kind"] == "type-mismatch":
            return "%r: %s" % (inp["desc"], obs["what"])
        if obs["kind"] != "dec":
            return "well-formed decimal range %r was not accepted (%s)" % (inp["desc"], obs)
        items = [[None if a is None else D(a), None if b is None else D(b)] for a, b in obs["items"]]
        lower = None if obs["lower"] == "None" else D(obs["lower"])
        upper = None if obs["upper"] == "None" else D(obs["upper"])
    else:
        probes = inp["probes"]
        if obs["kind"] == "mutated":
            return obs["what"]
        if obs["kind"] != "range":
            return "well-formed range %r was not accepted (%s)" % (inp["desc"], obs)
        items, lower, upper = obs["items"], obs["lower"], obs["upper"]
    if items != den:
        return "%r: items are %r, expected %r" % (inp["desc"], items, den)
    for v, got in zip(probes, obs["verdicts"]):
        if got != inside(den, v):
            return "%r: value %s is %s but lies %s the described items" % (inp["desc"], v, "accepted" if got else "rejected", "inside" if inside(den, v) else "outside")
    want_lower = None if any(a is None for a, _ in den) else min(a for a, _ in den)
    want_upper = None if any(b is None for _, b in den) else max(b for _, b in den)
    if lower != want_lower or upper != want_upper:
        return "%r: overall limits are (%s, %s), expected (%s, %s)" % (inp["desc"], lower, upper, want_lower, want_upper)
    return None


# ------------------------------------------------------------------ generators


def spell_int(rnd, v):
    """one of the documented spellings of an integer limit"""
    forms = [str(v)]
    if v < 0:
        forms.append("-" + rnd.choice(["", " "]) + str(-v))
        forms.append("-0x%x" % -v)
    else:
        forms.append("0x%X" % v if rnd.random() < 0.5 else "0x%x" % v)
        if 32 < v < 127 and chr(v) not in "\\'\"":
            forms.append(rnd.choice(["'%s'", '"%s"']) % chr(v))
        if v == 39:         # the quote characters themselves: in the other kind of quotes, or escaped
            forms += ['"\'"', "'\\''"]
        if v == 34:
            forms += ["'\"'", '"\\""']
        if v == 92:
            forms += ["'\\\\'", '"\\\\"']
        if 0 <= v < 256 and rnd.random() < 0.3:
            forms.append(rnd.choice(["'\\x%02x'", '"\\x%02X"']) % v)
        names = {9: "tab", 10: "lf", 11: "vt", 12: "ff", 13: "cr"}
        if v in names:
            n = names[v]
            forms.append(rnd.choice([n, n.upper(), n.capitalize()]))
    return rnd.choice(forms)


def ws(rnd):
    return rnd.choice(["", "", " ", "  ", "\t"])


def gen_items(rnd, n, lo=-300, hi=300):
    """n non-overlapping items in random order: list of (lower, upper) with None for open sides"""
    cuts = sorted(rnd.sample(range(lo, hi), 2 * n))
    items = []
    for i in range(n):
        a, b = cuts[2 * i], cuts[2 * i + 1]
        k = rnd.random()
        if k < 0.25:
            items.append([a, a])
        else:
            items.append([a, b])
    if rnd.random() < 0.25:
        items[0][0] = None
    if rnd.random() < 0.25 and not (n == 1 and items[0][0] is None):
        items[-1][1] = None
    for it in items:                      # an item open on one side is written with a separator, never as a single value
        if it[0] is None or it[1] is None:
            pass
    rnd.shuffle(items)
    return items


def render(rnd, items, spell):
    parts = []
    for a, b in items:
        sep = rnd.choice(SEPS)
        if a is not None and a == b and rnd.random() < 0.7:
            parts.append(ws(rnd) + spell(rnd, a) + ws(rnd))
        else:
            parts.append(ws(rnd) + ("" if a is None else spell(rnd, a)) + ws(rnd) + sep + ws(rnd) + ("" if b is None else spell(rnd, b)) + ws(rnd))
    return ",".join(parts)


def probes_for(items, step=1):
    ps = set()
    for a, b in items:
        for x in (a, b):
            if x is not None:
                ps.update([x - step, x, x + step])
    ps.update([-10 ** 6, 10 ** 6, 0])
    return sorted(ps)


MALFORMED = ["1......3", "1...", "...", "..", "1...2...3", "5...1", "1...5, 3", "1...5, 3...9", "1-", "-", "1 2", "1.5...3", "1e3", "abc", "1...x",
             "'ab'", "'a", "(1...3", "1...3)", "1,,2", ",", ",1", "1,", "1:::3", "0x", "01", "1_", "--1", "-tab", "tab", "TAB...lf", "'\\t'", "'\\x41'...'\\x5a'",
             "'\\x4'", "\"\\\"\"", "1...3 # c", "1;3", "[1]", "1...3,1...3", "0...0", "-0", "00", "1 ... 3", " ", "", "\t", "1\u20263", "\u2026", "\u20263", "1\u2026",
             "'\u2026'", "\"...\"", "'a'...'z', 'A':'Z'", "é", "'é'", "1...2, tab", "9, tab", "- 5", "-5...-1", "-1...-5", "0b11", "0o17", "1j", "1.", ".5", "1__0", "0x_f"]


def gen_inputs(tier, rnd):
    # (a) tokenizer
    maxlen = 3 if tier == "quick" else 4
    for k in range(0, maxlen + 1):
        for t in itertools.product(ALPHA, repeat=k):
            yield {"kind": "lex", "text": "".join(t)}
    for _ in range(1500 if tier == "quick" else 15000):
        yield {"kind": "lex", "text": "".join(rnd.choice(ALPHA + "b9\u2026é\t)[]{}$?!`~*/<>=%&|^@;jJE") for _ in range(rnd.randint(4, 14)))}
    # (b) bounded-exhaustive sweep of the property text
    lims = [None, -2, -1, 0, 1, 2]
    singles = []
    for a in lims:
        for b in lims:
            if a is None and b is None:
                continue
            if a is not None and b is not None and a > b:
                continue
            singles.append((a, b))
    probes = list(range(-4, 5))

    def text_of(it, sep):
        a, b = it
        if a is not None and a == b and sep == "...":
            return str(a)
        return ("" if a is None else str(a)) + sep + ("" if b is None else str(b))

    for sep in SEPS:
        for it in singles:
            yield {"kind": "range", "desc": text_of(it, sep), "probes": probes, "den": [list(it)]}
    for s1, s2 in itertools.product(SEPS, repeat=2):
        for i1, i2 in itertools.product(singles, repeat=2):
            # overlapping pairs are part of the sweep too (must be refused or at least decide membership alike); only
            # non-overlapping ones carry an expected denotation
            a1, b1 = i1
            a2, b2 = i2
            lo1, hi1 = (a1 if a1 is not None else -99), (b1 if b1 is not None else 99)
            lo2, hi2 = (a2 if a2 is not None else -99), (b2 if b2 is not None else 99)
            disjoint = hi1 < lo2 or hi2 < lo1
            inp = {"kind": "range", "desc": text_of(i1, s1) + ", " + text_of(i2, s2), "probes": probes}
            if disjoint:
                inp["den"] = [list(i1), list(i2)]
            if s1 == s2 or disjoint or tier != "quick":
                yield inp
    # random grammar-derived descriptions
    for _ in range(1200 if tier == "quick" else 15000):
        items = gen_items(rnd, rnd.randint(1, 6 if rnd.random() < 0.2 else 4))
        yield {"kind": "range", "desc": render(rnd, items, spell_int), "probes": probes_for(items), "den": items}
        if rnd.random() < 0.3:
            yield {"kind": "str", "desc": render(rnd, items, spell_int)}
    for desc in ("", " ", "5", "-5, ...-10, 0...99, 1000...", "0x10:0x20", "'a'...'z', tab"):
        yield {"kind": "str", "desc": desc}
    # the quote characters and the backslash as quoted limits (in the other kind of quotes or escaped), in front of
    # every separator spelling: the ellipsis pre-processing has to know where a quoted text ends
    for code, forms in ((39, ['"\'"', "'\\''", "'\\x27'"]), (34, ["'\"'", '"\\""', '"\\x22"']), (92, ["'\\\\'", '"\\\\"'])):
        for form in forms:
            for sep in SEPS:
                fam = [(form + sep + "'z'", [[code, 122]]), ("1" + sep + "9, " + form + sep, [[1, 9], [code, None]]), (sep + form, [[None, code]])]
                if code < 92:
                    fam.append((form + ", 'a'" + sep + "'z'", [[code, code], [97, 122]]))
                for desc, items in fam:
                    yield {"kind": "range", "desc": desc, "probes": probes_for(items), "den": items}
    # descriptions that differ only in the case of their letters: symbolic names and hex digits denote the same in
    # either case, quoted characters do not ('a' is 97, 'A' is 65)
    for lo, hi in (("a", "z"), ("b", "y"), ("k", "k"), ("x", "z")):
        for sep in SEPS:
            for swap in (False, True):
                for first_upper in (False, True):
                    a, b = (lo.upper(), hi.upper()) if first_upper != swap else (lo, hi)
                    desc = ("'%s'%s'%s'" % (a, sep, b)) if a != b else "'%s'" % a
                    for d, items in ((desc, [[ord(a), ord(b)]]), ("tab, " + desc if not first_upper else "TAB, " + desc, [[9, 9], [ord(a), ord(b)]]),
                                     (("0x1f, " if not first_upper else "0X1F, ") + desc, [[31, 31], [ord(a), ord(b)]])):
                        yield {"kind": "range", "desc": d, "probes": probes_for(items), "den": items}
    # quoted characters that Unicode normalisation or case folding would replace by another character: a quoted limit
    # denotes the code point that is written, nothing else
    for code in (0x212A, 0x212B, 0x2126, 0x2000, 0x2001, 0x037E, 0x0340, 0x0387, 0x2329, 0xF900, 0x2F800, 0x0130, 0x00DF, 0x1E9E, 0x01C5, 0xFB01):
        ch = chr(code)
        for sep in SEPS:
            for desc, items in (("'%s'" % ch, [[code, code]]), ('"%s"%s' % (ch, sep), [[code, None]]), ("%s'%s'" % (sep, ch), [[None, code]]),
                                ("1%s9, '%s'" % (sep, ch), [[1, 9], [code, code]])):
                yield {"kind": "range", "desc": desc, "probes": probes_for(items), "den": items}
    # malformed stream
    for m in MALFORMED:
        yield {"kind": "range", "desc": m, "probes": [0, 1, 65]}
    for _ in range(400 if tier == "quick" else 5000):
        items = gen_items(rnd, rnd.randint(1, 3))
        d = render(rnd, items, spell_int)
        if d:
            p = rnd.randrange(len(d))
            k = rnd.random()
            c = rnd.choice("0123456789-.:,…'\"x ()_eabtf")
            d = d[:p] + d[p + 1:] if k < 0.33 else (d[:p] + c + d[p:] if k < 0.66 else d[:p] + c + d[p + 1:])
        yield {"kind": "range", "desc": d, "probes": probes_for(items)}
    # (c) decimal ranges
    def spell_dec(rnd2, v):
        q = decimal.Decimal(v).scaleb(-rnd2.randint(0, 4)) if False else None
        return v

    for _ in range(800 if tier == "quick" else 8000):
        n = rnd.randint(1, 4)
        scale = rnd.randint(0, 4)
        items = gen_items(rnd, n, -3000, 3000)
        ditems = []
        for a, b in items:
            ditems.append([None if a is None else str(decimal.Decimal(a).scaleb(-scale)), None if b is None else str(decimal.Decimal(b).scaleb(-scale))])

        def sp(rnd2, x):
            s = x
            if s.startswith("-") and rnd2.random() < 0.3:
                s = "- " + s[1:]
            if "." in s and rnd2.random() < 0.2:
                s = s + "0"
            return s
        desc = render(rnd, ditems, sp)
        ps = set()
        for a, b in ditems:
            for x in (a, b):
                if x is not None:
                    d = decimal.Decimal(x)
                    eps = decimal.Decimal(1).scaleb(-scale - 1)
                    ps.update([str(d - eps), str(d), str(d + eps)])
                    tiny = decimal.Decimal(1).scaleb(-31)      # beyond the 28 digits of the default arithmetic context
                    with decimal.localcontext() as ctx:
                        ctx.prec = 200
                        ps.update([str(d - tiny), str(d + tiny)])
        ps.update(["0", "-100000", "100000", "1E+2", "0.5"])
        yield {"kind": "dec", "desc": desc, "probes": sorted(ps), "den": ditems}
    # limits with more digits than the 28 of the default arithmetic context (cutplace's own default decimal range has 31),
    # values inside, outside and on the limits: refusing a value means printing such limits
    long_descs = ["-9999999999999999999.999999999999...9999999999999999999.999999999999", "0...12345678901234567890.123456789",
                  "1, 100000000000000000000000000000...", "...-123456789012345678901234567890.5", "0.0000000000000000000000000000001...0.5",
                  "-1...1, 99999999999999999999999999999999...100000000000000000000000000000000"]
    for desc in long_descs:
        yield {"kind": "dec", "desc": desc, "probes": ["0", "-1", "2", "0.75", "1E+20", "-1E+20", "99999999999999999999", "9999999999999999999.999999999999",
                                                        "9999999999999999999.9999999999991", "12345678901234567890.1234567891", "1E+40", "-1E+40",
                                                        "100000000000000000000000000000", "99999999999999999999999999999", "1E-40"]}
    for m in MALFORMED + ["1.5...1.4", "1e2...2e2", "0x10...0x20", "'a'...'z'", "tab", "1.5, 1.5", "0.5...1.5, 1...2", ",1", "1,,2", "1_0.5", "1.5.3", "NaN", "Infinity", "1E+3...5"]:
        yield {"kind": "dec", "desc": m, "probes": ["0", "1", "1.5", "65"]}
