"""C16 - Excel cells render as documented text and the requested sheet is read.
Workbooks are produced with xlsxwriter used directly (independent of cutplace): every cell kind, 1..3 sheets; read with
rowio.excel_rows and through cutplace.rows with a CID carrying the Sheet property.  String tables are written with
cutplace's own XlsxRowWriter and read back.  Model/Excel.v is evaluated on the same abstract workbook."""
import datetime
import io
import os
import shutil

import xlsxwriter

import cutplace
from cutplace import errors, interface, rowio

import common as C
from common import B, L, Nat, P, S, Zn

MODEL_FILES = ["Model/Excel.v"]
HEADER = """From CP Require Import Model.Base Model.Lex Model.FieldTypes Model.Excel.
Inductive eo := ERows (r : list (list text)) | EDataFormat | ELeak.
Definition run (i : list sheet * nat) : eo :=
  match excel_rows (fst i) (snd i) with Some r => ERows r | None => EDataFormat end.
Definition eo_eqb (m e : eo) : bool :=
  match m, e with
  | ERows r, ERows r' => list_eqb (list_eqb text_eqb) r r'
  | EDataFormat, EDataFormat => true
  | _, _ => false
  end."""
CASE_TYPE = "(list sheet * nat) * eo"
MODEL = "run"
EQB = "eo_eqb"
SHARD = 150
RULE = ("workbooks written with xlsxwriter: 1..3 sheets of 0..6 rows x 0..6 cells mixing strings (blanks, tabs, line breaks, "
        "XML-special, non-ASCII, non-BMP, '_x0041_', leading '='), numbers (whole numbers up to 2^53 incl. negative and -0.0, "
        "powers of ten 1e15..1e22, random finite floats with exponents -300..300, short decimals), booleans, date-times "
        "sampled over 1900-03-01..9999-12-31 (every field boundary; a quarter of them with a fraction of a second, which xlrd's tuple rounds away), dates without time, pure times (every hour/minute/second "
        "boundary and random seconds of the day) and gaps; read as sheet 1..4 with rowio.excel_rows and - for sheets that "
        "exist - through cutplace.rows with a CID whose Sheet property requests it; string tables as in C15 written with "
        "XlsxRowWriter (write_rows and write_row) and read back. Observed: the rows, or DataFormatError, or another exception. "
        "Direct oracle: every cell text equals the expected rendering computed by the harness from the value it stored, every row "
        "has the sheet's width, the CID path returns the same rows. Non-trivial: a sheet with at least one non-string cell, or "
        "a writer round trip with at least one row. Distinct = distinct case.")
EXHAUSTIVE = {"quick": False, "thorough": False}
TRUSTED = ["xlsxwriter stores and xlrd 1.2.0 delivers the cells (type, float value, date tuple) the harness wrote; "
           "repr(float) is Python's shortest round-trip text",
           "harness/props/c16.py"]
ASSUMPTIONS = ["a table written with XlsxRowWriter reads back padded to its widest row and without trailing rows that have no cells "
               "(the spreadsheet cannot represent them); for rectangular tables that is the identical table",
               "dates before 1900-03-01 (ambiguous in the 1900 date system) and error cells are outside the property's quantifier"]

TMP = os.path.join(C.BUILD, "C16", "tmp")
STR_ALPHABET = ["a", "b", "Z", "0", " ", "\t", "\n", "<", "&", '"', ">", "'", "ä", "€", "\U0001d11e", ".", "="]

# cell: ["s", text] | ["n", float] | ["b", bool] | ["dt", y,m,d,H,M,S] | ["d", y,m,d] | ["t", H,M,S] | ["none"]


def rounded(c):
    """a date-time / time cell with a fraction of a second is delivered rounded to the whole second (xldate_as_tuple)"""
    if c[0] == "dtf":
        t = datetime.datetime(*c[1:7]) + datetime.timedelta(microseconds=c[7] + 500000)
        return ["dt", t.year, t.month, t.day, t.hour, t.minute, t.second]
    if c[0] == "tf":
        t = datetime.datetime(2000, 1, 1, *c[1:4]) + datetime.timedelta(microseconds=c[4] + 500000)
        return ["t", t.hour, t.minute, t.second]
    return c


def expected_text(c):
    c = rounded(c)
    k = c[0]
    if k == "s":
        return c[1]
    if k == "none":
        return ""
    if k == "b":
        return "1" if c[1] else "0"
    if k == "n":
        f = c[1]
        r = repr(f)
        return r[:-2] if r.endswith(".0") else r
    if k == "dt":
        return "%04d-%02d-%02d %02d:%02d:%02d" % tuple(c[1:7])
    if k == "d":
        return "%04d-%02d-%02d 00:00:00" % tuple(c[1:4])
    return "%02d:%02d:%02d" % tuple(c[1:4])


def coq_cell(c):
    c = rounded(c)
    k = c[0]
    if k == "s":
        return "(XStr %s)" % S(c[1])
    if k == "none":
        return "XNone"
    if k == "b":
        return "(XBool %s)" % B(c[1])
    if k == "n":
        return "(XNum %s)" % S(repr(c[1]))
    if k == "dt":
        return "(XDate %s)" % " ".join(Zn(x) for x in c[1:7])
    if k == "d":
        return "(XDate %s 0 0 0)" % " ".join(Zn(x) for x in c[1:4])
    return "(XDate 0 0 0 %s)" % " ".join(Zn(x) for x in c[1:4])


def write_book(path, sheets):
    wb = xlsxwriter.Workbook(path)
    dfmt = wb.add_format({"num_format": "yyyy-mm-dd hh:mm:ss"})
    dofmt = wb.add_format({"num_format": "yyyy-mm-dd"})
    tfmt = wb.add_format({"num_format": "hh:mm:ss"})
    for sh in sheets:
        ws = wb.add_worksheet()
        for y, row in enumerate(sh):
            for x, c in enumerate(row):
                k = c[0]
                if k == "s":
                    ws.write_string(y, x, c[1])
                elif k == "n":
                    ws.write_number(y, x, c[1])
                elif k == "b":
                    ws.write_boolean(y, x, c[1])
                elif k == "dt":
                    ws.write_datetime(y, x, datetime.datetime(*c[1:7]), dfmt)
                elif k == "d":
                    ws.write_datetime(y, x, datetime.date(*c[1:4]), dofmt)
                elif k == "t":
                    ws.write_datetime(y, x, datetime.time(*c[1:4]), tfmt)
                elif k == "dtf":
                    ws.write_datetime(y, x, datetime.datetime(*c[1:8]), dfmt)
                elif k == "tf":
                    ws.write_datetime(y, x, datetime.time(*c[1:5]), tfmt)
    wb.close()


def read_rows(fn):
    try:
        return {"rows": [list(r) for r in fn()]}
    except errors.DataFormatError as e:
        return {"dataformat": str(e)[:100]}
    except Exception as e:  # noqa
        return {"leak": type(e).__name__, "msg": str(e)[:100]}


def via_cid(path, sheet, width):
    rows = [["D", "Format", "Excel"], ["D", "Sheet", str(sheet)]]
    for i in range(width):
        rows.append(["F", "f%d" % i, "", "X", "", "Text"])
    cid = interface.Cid()
    cid.read("<c16>", rows)
    return [list(r) for r in cutplace.rows(cid, path)]


def normalized(table):
    """what a spreadsheet can keep of a table: padded to the widest row, no trailing rows without cells"""
    t = [list(r) for r in table]
    while t and not t[-1]:
        t.pop()
    w = max([len(r) for r in t] or [0])
    return [r + [""] * (w - len(r)) for r in t]


def make_case(inp):
    os.makedirs(TMP, exist_ok=True)
    path = os.path.join(TMP, "case_%d.xlsx" % os.getpid())
    if inp["kind"] == "book":
        write_book(path, inp["sheets"])
        sheets = inp["sheets"]
    else:
        w = rowio.XlsxRowWriter(path)
        if inp.get("calls"):
            # the table handed over in portions: a list of rows goes to write_rows, a single row to write_row
            i = 0
            for n in inp["calls"]:
                if n == 0:
                    w.write_row(inp["table"][i])
                    i += 1
                else:
                    w.write_rows(inp["table"][i:i + n])
                    i += n
            assert i == len(inp["table"])
        elif inp["kind"] == "write_rows":
            w.write_rows(inp["table"])
        else:
            for r in inp["table"]:
                w.write_row(r)
        w.close()
        sheets = [[[["s", v] for v in r] for r in inp["table"]]]
    obs = read_rows(lambda: rowio.excel_rows(path, inp["sheet"]))
    if "rows" in obs and obs["rows"] and inp.get("cid"):
        try:
            obs["via_cid"] = via_cid(path, inp["sheet"], len(obs["rows"][0]))
        except Exception as e:  # noqa
            obs["via_cid"] = "%s: %s" % (type(e).__name__, str(e)[:100])
    os.remove(path)
    if "rows" in obs:
        coq_obs = "(ERows %s)" % L(obs["rows"], lambda r: L(r, lambda v: S(v) if isinstance(v, str) else "[0%N;0%N]"))
    elif "dataformat" in obs:
        coq_obs = "EDataFormat"
    else:
        coq_obs = "ELeak"
    coq_in = P(L(sheets, lambda sh: L(sh, lambda r: L(r, coq_cell))), Nat(inp["sheet"]))
    kinds = sorted({c[0] for sh in sheets for r in sh for c in r})
    tags = [inp["kind"], "rows" if "rows" in obs else ("dataformat" if "dataformat" in obs else "leak")] + ["cell-" + k for k in kinds]
    nontrivial = ("rows" in obs and len(obs["rows"]) > 0 and (inp["kind"] != "book" or any(k != "s" for k in kinds)))
    return {"coq": P(coq_in, coq_obs), "obs": obs, "nontrivial": nontrivial, "tags": tags}


def direct_oracle(inp, obs):
    if "leak" in obs:
        return "excel_rows raised %s (%s)" % (obs["leak"], obs["msg"])
    if inp["kind"] == "book":
        sheets = inp["sheets"]
    else:
        sheets = [[[["s", v] for v in r] for r in inp["table"]]]
    if inp["sheet"] > len(sheets):
        return None if "dataformat" in obs else "requesting sheet %d of %d did not fail with a DataFormatError" % (inp["sheet"], len(sheets))
    if "dataformat" in obs:
        return "reading an existing sheet failed: %s" % obs["dataformat"]
    want = normalized([[expected_text(c) for c in r] for r in sheets[inp["sheet"] - 1]])
    if obs["rows"] != want:
        for y, (a, b) in enumerate(zip(obs["rows"], want)):
            if a != b:
                return "sheet %d row %d was read as %r but holds %r" % (inp["sheet"], y + 1, a, b)
        return "sheet %d was read with %d rows but holds %d" % (inp["sheet"], len(obs["rows"]), len(want))
    if "via_cid" in obs and obs["via_cid"] != obs["rows"]:
        return "cutplace.rows with Sheet %d returned %r but the sheet holds %r" % (inp["sheet"], obs["via_cid"], obs["rows"])
    return None


def rnd_float(rnd):
    k = rnd.randrange(8)
    if k == 0:
        return float(rnd.choice([0, 1, -1, 7, 10, 255, 2 ** 31, 2 ** 53, -(2 ** 53), 2 ** 53 - 1, 10 ** 15, 10 ** 16 - 2, rnd.randint(-10 ** 6, 10 ** 6)]))
    if k == 1:
        return float(10 ** rnd.randint(0, 22)) * rnd.choice([1, -1])
    if k == 2:
        return rnd.choice([-0.0, 0.1, 0.5, 1.5, 2.25, 1e-7, 1.5e20, 2.5e-10, 1e100, 123456789.125, 0.30000000000000004, 1 / 3])
    if k == 3:
        return round(rnd.uniform(-1000, 1000), rnd.randint(0, 6))
    if k == 4:
        return rnd.uniform(-1, 1) * 10.0 ** rnd.randint(-300, 300)
    if k == 5:
        return float(rnd.randint(1, 99)) * 10.0 ** rnd.randint(16, 40)
    if k == 6:
        return float(rnd.randint(-10 ** 15, 10 ** 15))
    return rnd.random()


DATE_POINTS = [(1900, 3, 1), (1900, 12, 31), (1999, 12, 31), (2000, 1, 1), (2000, 2, 29), (2024, 2, 29), (2100, 2, 28), (9999, 12, 31), (1970, 1, 1), (2038, 1, 19)]
TIME_POINTS = [(0, 0, 0), (0, 0, 1), (0, 1, 0), (1, 0, 0), (11, 59, 59), (12, 0, 0), (23, 59, 59), (9, 5, 3)]


FRACTIONS = [250000, 123000, 750000, 900000, 2000, 333000]      # microseconds; none near a rounding tie


def rnd_cell(rnd):
    k = rnd.random()
    if k < 0.2:
        return ["s", "".join(rnd.choice(STR_ALPHABET) for _ in range(rnd.randint(0, 6)))]
    if k < 0.25:
        return ["s", rnd.choice(["_x0041_", "=1+1", "1.0", "12.0", "TRUE", "2000-01-01", " 00:00:00", "x" * 300])]
    if k < 0.55:
        return ["n", float("%.16G" % rnd_float(rnd))]      # xlsx stores numbers with 16 significant digits
    if k < 0.62:
        return ["b", rnd.random() < 0.5]
    if k < 0.8:
        y, m, d = rnd.choice(DATE_POINTS) if rnd.random() < 0.4 else (rnd.randint(1900, 9999), rnd.randint(1, 12), rnd.randint(1, 28))
        if (y, m, d) < (1900, 3, 1):
            y = 1901
        H, M, S = rnd.choice(TIME_POINTS) if rnd.random() < 0.4 else (rnd.randint(0, 23), rnd.randint(0, 59), rnd.randint(0, 59))
        if rnd.random() < 0.25 and (H, M, S) != (23, 59, 59) and y < 9000:
            return ["dtf", y, m, d, H, M, S, rnd.choice(FRACTIONS)]     # e.g. the stored result of =NOW()
        return ["dt", y, m, d, H, M, S] if rnd.random() < 0.8 else ["d", y, m, d]
    if k < 0.92:
        H, M, S = rnd.choice(TIME_POINTS) if rnd.random() < 0.4 else (rnd.randint(0, 23), rnd.randint(0, 59), rnd.randint(0, 59))
        if rnd.random() < 0.2 and (H, M, S) != (23, 59, 59):
            return ["tf", H, M, S, rnd.choice(FRACTIONS)]
        return ["t", H, M, S]
    return ["none"]


def rnd_sheet(rnd):
    rows = []
    for _ in range(rnd.randint(0, 6)):
        row = [rnd_cell(rnd) for _c in range(rnd.randint(0, 6))]
        while row and row[-1] == ["none"]:      # a gap only exists between written cells
            row.pop()
        rows.append(row)
    return rows


def gen_inputs(tier, rnd):
    import props.c15 as c15
    shutil.rmtree(TMP, ignore_errors=True)
    n = 150 if tier == "quick" else 1500
    for i in range(n):
        sheets = [rnd_sheet(rnd) for _ in range(rnd.randint(1, 3))]
        for sheet in range(1, len(sheets) + 2):
            yield {"kind": "book", "sheets": sheets, "sheet": sheet, "cid": i % 3 == 0}
    # every cell kind alone on each of three sheets, each sheet requested through the CID path
    for kind_cell in (["s", "x"], ["n", 42.0], ["n", 4.25], ["b", True], ["dt", 2001, 2, 3, 4, 5, 6], ["d", 2001, 2, 3], ["t", 4, 5, 6],
                      ["dtf", 2020, 1, 1, 12, 0, 0, 250000], ["dtf", 2020, 1, 1, 12, 0, 59, 750000], ["tf", 4, 5, 6, 250000]):
        sheets = [[[["s", "sheet%d" % (k + 1)], kind_cell]] for k in range(3)]
        for sheet in (1, 2, 3, 4):
            yield {"kind": "book", "sheets": sheets, "sheet": sheet, "cid": True}
    for i in range(n // 2):
        table = c15.rnd_table(rnd)
        yield {"kind": "write_rows" if i % 2 else "write_row", "table": table, "sheet": 1, "cid": False}
    for i in range(n // 3):
        table = c15.rnd_table(rnd)
        calls, left = [], len(table)
        while left > 0:
            k = rnd.choice([0, 0, 1, 2, 3])
            k = min(k, left)
            calls.append(k)
            left -= max(k, 1)
        yield {"kind": "write_rows", "table": table, "sheet": 1, "cid": False, "calls": calls}
    for table in ([], [[]], [[], ["a"]], [["a"], []], [["a", ""], ["b", ""]], [["", ""], ["", ""]], [[""]], [["a", "b", "c"], ["d"]]):
        yield {"kind": "write_rows", "table": table, "sheet": 1, "cid": False}
