"""C13 - fixed-width reading is lossless and aligned: correspondence of rowio.fixed_rows with
Model/Fixed.v and a direct, independent decomposition oracle on the implementation."""
import io
import itertools
import os
import zlib

from cutplace import errors, rowio

from common import B, L, S, Nat, P

MODEL_FILES = ["Model/Fixed.v"]
HEADER = "From CP Require Import Model.Base Model.Fixed.\n" \
    "Definition obs_eqb (m : option (list row * bool)) (e : list row * bool) : bool :=\n" \
    "  match m with None => false | Some (r, ok) => Bool.eqb ok (snd e) && list_eqb (list_eqb text_eqb) r (fst e) end.\n" \
    "Definition run (i : ld * list nat * text) := let '(d, ws, s) := i in fixed_rows d ws s."
CASE_TYPE = "(ld * list nat * text) * (list row * bool)"
MODEL = "run"
EQB = "obs_eqb"
SHARD = 2500
RULE = ("exhaustive: all strings up to length n over {a,b,CR,LF} x width lists (1..3 fields of width 1..3, "
        "sampled per tier) x the five line-delimiter settings; all strings up to length 3 (4) over {a, LF, c} containing c for each of 12 special characters c (byte order mark, NUL, U+2028, NEL, Ctrl-Z, tab, blank, FF, VT, FS, a non-BMP character, U+FFFE); plus random longer well-formed files with one "
        "character deleted/inserted/replaced. A fifth of the cases run right after another fixed-width read was abandoned (one row taken, then dropped) and while two further reads are suspended half way. A sixth of the cases (and all with special characters) are also stored in a file and read by path: same result required. A case is non-trivial when the text is non-empty; distinct = distinct "
        "(setting, widths, text).")
EXHAUSTIVE = {"quick": False, "thorough": False}
TRUSTED = ["io.StringIO(newline='').read(n) returns the next n characters unchanged (modelled by firstn/skipn)"]
ASSUMPTIONS = ["the character stream is delivered by read(n) as written (no newline translation)"]

import common as _C
TMP = os.path.join(_C.BUILD, "C13", "tmp")
LD = [(None, "LdNone"), ("\n", "LdLF"), ("\r", "LdCR"), ("\r\n", "LdCRLF"), ("any", "LdAny")]
LDN = dict((n, v) for v, n in LD)
DELIMS = {"LdNone": [""], "LdLF": ["\n"], "LdCR": ["\r"], "LdCRLF": ["\r\n"], "LdAny": ["\n", "\r", "\r\n"]}
ALPHA = "ab\r\n"
SPECIALS = ["\ufeff", "\x00", "\u2028", "\x85", "\x1a", "\t", " ", "\x0c", "\x0b", "\x1c", "\U0001d11e", "\ufffe",
            "%", "{", "\\", "'"]      # characters that formatting a message about them may stumble over


def impl(ldn, widths, text):
    rows = []
    try:
        for r in rowio.fixed_rows(io.StringIO(text, newline=""), "utf-8", [("f%d" % i, w) for i, w in enumerate(widths)], LDN[ldn]):
            rows.append(list(r))
        return [rows, True]
    except errors.DataFormatError:
        return [rows, False]
    except Exception as e:  # a leak is never a permitted outcome
        return [rows, "leak:" + type(e).__name__]


def impl_path(ldn, widths, text, tail=b""):
    """the same characters stored in a file (UTF-8) and read by path; [tail]: bytes appended that are no UTF-8"""
    os.makedirs(TMP, exist_ok=True)
    path = os.path.join(TMP, "fixed_%d.txt" % os.getpid())
    with open(path, "wb") as fh:
        fh.write(text.encode("utf-8", "surrogatepass") + tail)
    rows = []
    try:
        for r in rowio.fixed_rows(path, "utf-8", [("f%d" % i, w) for i, w in enumerate(widths)], LDN[ldn]):
            rows.append(list(r))
        return [rows, True]
    except errors.DataFormatError:
        return [rows, False]
    except Exception as e:  # noqa
        return [rows, "leak:" + type(e).__name__]
    finally:
        os.remove(path)


def disturb():
    """reads that are abandoned half way, and two reads advanced in turns: what another read left behind (a character
    read ahead after a bare CR, a half consumed record) must not show up in the read under observation"""
    g = rowio.fixed_rows(io.StringIO("ab\rcd\ref", newline=""), "utf-8", [("x", 2)], "any")
    next(g)
    del g
    g1 = rowio.fixed_rows(io.StringIO("ab\rcd\ref\r", newline=""), "utf-8", [("x", 1), ("y", 1)], "any")
    g2 = rowio.fixed_rows(io.StringIO("1\r\n2\n3", newline=""), "utf-8", [("x", 1)], "any")
    next(g1), next(g2), next(g1)
    return g1, g2


def make_case(inp):
    ldn, widths, text = inp
    crc = zlib.crc32(repr(inp).encode("utf-8"))
    disturbed = None
    try:
        pending = disturb() if crc % 5 == 0 else None
    except Exception as e:  # noqa - the other reads are well-formed: they must not fail either
        pending, disturbed = None, "a well-formed read running beside others failed: %s: %s" % (type(e).__name__, str(e)[:80])
    obs = impl(ldn, widths, text)
    if pending is not None:
        try:
            rest = [[list(r) for r in g] for g in pending]
            if rest != [[["e", "f"]], [["2"], ["3"]]]:
                disturbed = "reads suspended while another read ran continued with %r" % (rest,)
        except Exception as e:  # noqa
            disturbed = "a well-formed read suspended while another read ran failed: %s: %s" % (type(e).__name__, str(e)[:80])
    if disturbed:
        obs = obs + [{"by_path": disturbed}]
    if len(obs) == 2 and (crc % 6 == 0 or any(c in text for c in SPECIALS)):
        by_path = impl_path(ldn, widths, text)
        if by_path != obs:
            obs = obs + [{"by_path": by_path}]
        elif crc % 12 == 0:
            # the file goes on with bytes that cannot be decoded (right behind a record, where a delimiter is due, or
            # inside one): a data-format error after the rows read so far, nothing else
            broken = impl_path(ldn, widths, text, tail=b"\xc3" if crc % 24 else b"\xff\n")
            if broken[1] is not False or broken[0] != obs[0][:len(broken[0])]:
                obs = obs + [{"by_path": "with undecodable bytes appended to the file the read gives %r (rows of the intact part: %r)" % (broken, obs[0])}]
    ok = obs[1] is True
    coq = P(P(ldn, L(widths, Nat), S(text)), P(L(obs[0], lambda r: L(r, S)), B(ok)))
    return {"coq": coq, "obs": obs, "nontrivial": text != "", "tags": [ldn, "ok" if ok else "error", "len%d" % min(len(text), 10)]}


def decompositions(ldn, widths, text):
    """independent spec-level oracle: every way to split text into aligned records and permitted
    delimiters (the last delimiter optional). Returns a list of (rows, delimiters)."""
    n = sum(widths)
    out = []

    def go(pos, rows, delims):
        if pos == len(text):
            out.append((list(rows), list(delims)))
            return
        if pos + n > len(text):
            return
        rec, p, row = text[pos:pos + n], 0, []
        for w in widths:
            row.append(rec[p:p + w])
            p += w
        rest = pos + n
        if rest == len(text):
            out.append((rows + [row], list(delims)))
            return
        for d in DELIMS[ldn]:
            if text.startswith(d, rest):
                go(rest + len(d), rows + [row], delims + [d])

    go(0, [], [])
    return out


def is_greedy(rows, delims):
    """under 'any' CR LF is one delimiter: no record starting with LF directly after a bare CR"""
    for i, d in enumerate(delims):
        if d == "\r" and i + 1 < len(rows) and "".join(rows[i + 1]).startswith("\n"):
            return False
    return True


def direct_oracle(inp, obs):
    ldn, widths, text = inp
    if len(obs) == 3:
        if isinstance(obs[2]["by_path"], str):
            return obs[2]["by_path"]
        return "the same characters read from a file by path give %r but from a stream %r" % (obs[2]["by_path"], obs[:2])
    rows, ok = obs
    if ok not in (True, False):
        return "non-cutplace exception escaped fixed_rows: %s" % ok
    decs = decompositions(ldn, widths, text)
    if ok:
        if any(len(r) != len(widths) for r in rows) or any(len(item) != w for r in rows for item, w in zip(r, widths)):
            return "returned row is not aligned with the declared widths"
        if rows not in [d[0] for d in decs]:
            return "accepted, but the rows plus permitted delimiters do not reproduce the input"
    elif decs:
        # a deterministic reader cannot accept both parses of CR LF; only greedy decompositions are required
        if ldn == "LdAny" and not any(is_greedy(r, d) for r, d in decs):
            return None
        return "well-formed input rejected with DataFormatError"
    return None


def width_lists():
    for k in (1, 2, 3):
        for ws in itertools.product((1, 2, 3), repeat=k):
            yield list(ws)


def gen_inputs(tier, rnd):
    all_ws = list(width_lists())
    maxlen = 5 if tier == "quick" else 7
    ws_sample = [[1], [2], [3], [1, 1], [2, 1], [1, 2], [2, 2], [1, 1, 1], [2, 1, 2]] if tier == "quick" else all_ws
    maxlen_for = lambda ws: maxlen if (tier == "quick" or len(ws) == 1 or ws in ([1, 1], [2, 1], [1, 2], [2, 2], [1, 1, 1])) else 6
    for _, ldn in LD:
        for ws in ws_sample:
            for n in range(0, maxlen_for(ws) + 1):
                for t in itertools.product(ALPHA, repeat=n):
                    yield [ldn, ws, "".join(t)]
    # characters that text processing tends to treat specially (byte order mark, NUL, Unicode line separators, other
    # control characters, blanks, non-BMP): to the reader they are data like any other - at the start, inside, at the end
    for special in SPECIALS:
        for _, ldn in LD:
            for ws in ([1], [2], [1, 1]):
                for n in range(1, 4 if tier == "quick" else 5):
                    for t in itertools.product("a\n" + special, repeat=n):
                        if special in t:
                            yield [ldn, ws, "".join(t)]
    # random longer well-formed files with one mutation at every offset
    for _ in range(40 if tier == "quick" else 400):
        _, ldn = rnd.choice(LD)
        ws = rnd.choice(all_ws)
        rows = ["".join(rnd.choice("ab" if rnd.random() < 0.9 else ALPHA) for _ in range(sum(ws))) for _ in range(rnd.randint(1, 6))]
        text = "".join(r + rnd.choice(DELIMS[ldn]) for r in rows)
        if rnd.random() < 0.5 and DELIMS[ldn] != [""]:
            text = text[: len(text) - len(rnd.choice(DELIMS[ldn]))] if text else text
        yield [ldn, ws, text]
        for p in range(len(text) + 1):
            k = rnd.randrange(3)
            c = rnd.choice(ALPHA)
            if k == 0 and p < len(text):
                yield [ldn, ws, text[:p] + text[p + 1:]]
            elif k == 1:
                yield [ldn, ws, text[:p] + c + text[p:]]
            elif p < len(text):
                yield [ldn, ws, text[:p] + c + text[p + 1:]]


def classify(inp, obs, msg):
    return None
