"""C19 - generated SQL DDL mirrors the CID: correspondence of SqlFactory.create_table_statement with
Model/Sql.v (ladders regenerated from the source) and a direct capacity oracle on the implementation."""
import io
import itertools
import re

from cutplace import errors, interface, sql

from common import B, L, O, S, Zn, P

MODEL_FILES = ["Model/Sql.v"]
HEADER = """From Coq Require Import String.
From CP Require Import Model.Base Model.Sql.
Definition oz_eqb := option_eqb Z.eqb.
Definition col_eqb (c : column) (e : text * text * option Z * option Z * bool) : bool :=
  let '(n, t, l, p, nn) := e in
  text_eqb (c_name c) n && text_eqb (c_type c) t && oz_eqb (c_len c) l && oz_eqb (c_prec c) p && Bool.eqb (c_notnull c) nn.
Fixpoint cols_eqb (cs : list column) (es : list (text * text * option Z * option Z * bool)) : bool :=
  match cs, es with [], [] => true | c :: cs', e :: es' => col_eqb c e && cols_eqb cs' es' | _, _ => false end.
Definition run (i : dialect * list sfield) := create_table_columns (fst i) (snd i).
Definition F (n : text) (e : bool) (k : sqlkind) := {| sf_name := n; sf_empty_ok := e; sf_kind := k |}."""
CASE_TYPE = "(dialect * list sfield) * list (text * text * option Z * option Z * bool)"
MODEL = "run"
EQB = "cols_eqb"
SHARD = 300
RULE = ("generated CIDs (1..6 fields: Integer with bounded rule, Decimal, Text/Choice with length, DateTime; names drawn "
        "from a pool containing keywords of each dialect; empty flag varied) x the four dialects; Integer limits "
        "exhaustively over all ordered pairs of the boundary set {0, +-2^k + {-1,0,1} : k in 7,8,15,16,31,32,63}. "
        "The DDL text is parsed back into columns. Non-trivial: the CID has at least one Integer field with a limit "
        "within 1 of a type boundary or a keyword name; distinct = distinct (dialect, field list).")
EXHAUSTIVE = {"quick": False, "thorough": False}
TRUSTED = ["capacity table of SQL integer types in Spec/SqlSpec.v (tinyint 0..255, smallint, int/integer, bigint, decimal/number(p): |v| < 10^p)",
           "ANSI 'int' has implementation-defined precision and is treated as unbounded (assumption; ANSI is excluded from int_fits)"]
ASSUMPTIONS = ["DecimalRange computes scale/precision from the rule (that is C01); here the expected digits are computed by the harness from the literals it generated"]

DIALECTS = [("Ansi", sql.ANSI_SQL_DIALECT), ("Db2", sql.DB2_SQL_DIALECT), ("Transact", sql.TRANSACT_SQL_DIALECT), ("PlSql", sql.PL_SQL_DIALECT)]
DMAP = dict(DIALECTS)
BOUNDS = sorted({0} | {s * (2 ** k) + d for k in (7, 8, 15, 16, 31, 32, 63) for s in (1, -1) for d in (-1, 0, 1)})
NAMES = ["c1", "amount", "select", "Select", "USER", "date", "zone", "absolute", "comment", "name", "size", "level",
         "writetext", "rowid", "after", "x_1", "Number", "add", "value", "a",
         # keywords that are not purely alphabetic, and near misses of them
         "current_date", "CURRENT_DATE", "session_user", "bit_length", "identity_insert", "lc_ctype", "like2", "ub4", "size_t",
         "timezone_hour", "round_half_up", "current_dat", "like3", "user_1"]
COL = re.compile(r'^    (\S+) ([a-z0-9]+)(?:\((\d+)(?:, (\d+))?\))?( not null)?$')


def field_row(f):
    """CID row for a field descriptor"""
    kind = f["kind"]
    name, empty = f["name"], ("X" if f["empty"] else "")
    if kind == "int":
        return ["F", name, "", empty, "", "Integer", int_rule(f)]
    if kind == "dec":
        return ["F", name, "", empty, "", "Decimal", "%s...%s" % (f["lo"], f["hi"])]
    if kind == "date":
        return ["F", name, "", empty, "", "DateTime", "DD.MM.YYYY"]
    if kind == "text":
        return ["F", name, "", empty, f["length"], "Text", ""]
    if kind == "choice":
        return ["F", name, "", empty, f["length"], "Choice", "red, green"]
    raise ValueError(kind)


def int_rule(f):
    """the bounded range lo...hi, written as one item or - "parts" - as several items in some order whose overall
    limits are lo and hi (the column must store both whatever way the rule spells the range)"""
    lo, hi = f["lo"], f["hi"]
    parts = f.get("parts")
    if not parts or hi - lo < 4:
        return "%d...%d" % (lo, hi)
    mid = lo + (hi - lo) // 2
    if parts == "inner-first":       # a small item first, then one that reaches beyond it at both ends
        return "%d...%d, %d...%d" % (mid, mid + 1, lo, hi)
    if parts == "descending":
        return "%d...%d, %d...%d" % (mid + 1, hi, lo, mid - 1)
    if parts == "three":
        return "%d, %d...%d, %d" % (mid, mid + 2, hi, lo)
    return "%d...%d, %d...%d" % (lo, mid - 1, mid + 1, hi)


def dec_digits(lit):
    lit = lit.lstrip("-")
    ip, _, fp = lit.partition(".")
    coef = str(int(ip + fp))
    return len(coef) - len(fp), len(fp)


def expected_kind(f):
    """what Model/Sql.v's sqlkind should be, computed by the harness from what it generated"""
    kind = f["kind"]
    if kind == "int":
        return "SInteger %s %s" % (Zn(f["lo"]), Zn(f["hi"])), None
    if kind == "dec":
        b1, a1 = dec_digits(f["lo"])
        b2, a2 = dec_digits(f["hi"])
        after, before = max(a1, a2), max(b1, b2, 0)
        return "SDecimal %s %s" % (Zn(before + after), Zn(after)), (before + after, after)
    if kind == "date":
        return "SDate", None
    up = length_upper(f["length"])
    return "SVarchar %s" % O(up, Zn), up


def length_upper(text):
    text = text.strip()
    if text == "":
        return None
    if "..." in text:
        hi = text.split("...")[1].strip()
        return int(hi) if hi else None
    return int(text)


def ddl(dialect_name, fields):
    rows = [["D", "Format", "Delimited"]] + [field_row(f) for f in fields]
    cid = interface.Cid()
    cid.read("<c19>", rows)
    factory = sql.SqlFactory(cid, "t", DMAP[dialect_name])
    first = factory.create_table_statement()
    # the statement mirrors the CID every time it is asked for, and after the column descriptions were looked at
    list(factory.sql_fields())
    again = factory.create_table_statement()
    if again != first:
        return "-- asked a second time, the same factory answered differently:\n" + again
    # how much the application logs does not change the statement
    import logging
    logger = logging.getLogger("cutplace")
    before = logger.level
    try:
        for level in (logging.DEBUG, logging.CRITICAL):
            logger.setLevel(level)
            chatty = sql.SqlFactory(cid, "t", DMAP[dialect_name]).create_table_statement()
            if chatty != first:
                return "-- with the log level %s the statement is different:\n%s" % (logging.getLevelName(level), chatty)
    finally:
        logger.setLevel(before)
    return first


def parse(statement):
    lines = statement.split("\n")
    if lines[0] != "create table t (" or lines[-1] != ");":
        return None
    body = "\n".join(lines[1:-1])
    cols = []
    for line in body.split(",\n"):
        m = COL.match(line)
        if not m:
            return None
        cols.append([m.group(1), m.group(2), None if m.group(3) is None else int(m.group(3)),
                     None if m.group(4) is None else int(m.group(4)), bool(m.group(5))])
    return cols


def make_case(inp):
    dname, fields = inp
    try:
        try:
            text = ddl(dname, fields)
        except errors.InterfaceError:
            # a rule whose later item reaches around an earlier one may be refused as overlapping: then the plain spelling counts
            if not any(f.get("parts") == "inner-first" for f in fields):
                raise
            text = ddl(dname, [dict(f, parts=None) for f in fields])
        cols = parse(text)
        obs = {"columns": cols, "ddl": text if cols is None else None}
    except Exception as e:
        cols = None
        obs = {"columns": None, "error": "%s: %s" % (type(e).__name__, e)}
    fcoq = L(fields, lambda f: "(F %s %s (%s))" % (S(f["name"]), B(f["empty"]), expected_kind(f)[0]))
    if cols is None:
        ecoq = "[]"  # never equal to a model result for >= 1 field
    else:
        ecoq = L(cols, lambda c: P(S(c[0]), S(c[1]), O(c[2], Zn), O(c[3], Zn), B(c[4])))
    near = any(f["kind"] == "int" and any(abs(abs(v) - 2 ** k) <= 1 for v in (f["lo"], f["hi"]) for k in (7, 8, 15, 16, 31, 32, 63)) for f in fields)
    kw = any(DMAP[dname].is_keyword(f["name"]) for f in fields)
    tags = [dname] + sorted({f["kind"] for f in fields}) + (["keyword-name"] if kw else []) + (["boundary"] if near else [])
    return {"coq": P(P(dname, fcoq), ecoq), "obs": obs, "nontrivial": near or kw, "tags": tags}


def fits(ty, ln, v):
    if ty == "tinyint":
        return 0 <= v <= 255
    if ty == "smallint":
        return -2 ** 15 <= v <= 2 ** 15 - 1
    if ty in ("int", "integer"):
        return -2 ** 31 <= v <= 2 ** 31 - 1
    if ty == "bigint":
        return -2 ** 63 <= v <= 2 ** 63 - 1
    if ty in ("decimal", "number"):
        return ln is not None and len(str(abs(v))) <= ln  # |v| < 10^ln without computing the power
    return False


def failures(inp, obs):
    """list of (field index, message, known-class) for every way the statement deviates from the property"""
    dname, fields = inp
    cols = obs["columns"]
    if cols is None:
        return [(-1, "statement could not be generated or parsed: %s" % (obs.get("error") or obs.get("ddl")), None)]
    out = []
    if len(cols) != len(fields):
        return [(-1, "statement has %d columns for %d fields" % (len(cols), len(fields)), None)]
    for i, (f, c) in enumerate(zip(fields, cols)):
        kw = f["name"].lower() in DMAP[dname].keywords
        want_name = '"%s"' % f["name"] if kw else f["name"]
        if c[0] != want_name:
            out.append((i, "column %d is named %s, expected %s (order / keyword quoting)" % (i, c[0], want_name), None))
        if c[4] != (not f["empty"]):
            out.append((i, "column %s: NOT NULL is %s but field empty flag is %s" % (c[0], c[4], f["empty"]), None))
        if f["kind"] == "int" and dname != "Ansi":
            # the printed statement omits the length of integer types; decimal/number print it
            for v in (f["lo"], f["hi"]):
                if not fits(c[1], c[2], v):
                    known = "C19/transact/tinyint/negative-lower" if (dname == "Transact" and c[1] == "tinyint" and v < 0) else None
                    out.append((i, "Integer %d...%d got column type %s%s which cannot store %d" % (f["lo"], f["hi"], c[1], "" if c[2] is None else "(%d)" % c[2], v), known))
        if f["kind"] == "dec":
            want = expected_kind(f)[1]
            if (c[2], c[3]) != want:
                out.append((i, "Decimal %s...%s got (%s, %s) digits, expected %s" % (f["lo"], f["hi"], c[2], c[3], want), None))
        if f["kind"] in ("text", "choice"):
            if c[2] != expected_kind(f)[1]:
                out.append((i, "text column %s has length %s, expected upper length limit %s" % (c[0], c[2], expected_kind(f)[1]), None))
    return out


def direct_oracle(inp, obs):
    fs = failures(inp, obs)
    return "; ".join(m for _, m, _ in fs) if fs else None


def classify(inp, obs, msg):
    fs = failures(inp, obs)
    kinds = {k for _, _, k in fs}
    if fs and len(kinds) == 1 and None not in kinds:
        return kinds.pop()
    return None


def gen_inputs(tier, rnd):
    # exhaustive boundary sweep: one Integer field, all ordered pairs, all dialects
    for dname, _ in DIALECTS:
        for lo, hi in itertools.combinations_with_replacement(BOUNDS, 2):
            yield [dname, [{"kind": "int", "name": "n", "empty": False, "lo": lo, "hi": hi}]]
            if (lo + hi) % 3 == 0:
                for parts in ("inner-first", "descending", "three", "ascending"):
                    yield [dname, [{"kind": "int", "name": "n", "empty": False, "lo": lo, "hi": hi, "parts": parts}]]
    # decimal limits of every shape: below 0.1 (leading zeros behind the point), trailing zeros, whole numbers, negative
    from decimal import Decimal as _D
    lits = ["0.005", "0.05", "0.5", "-0.05", "0.0004", "0.01", "5.25", "100", "99.999", "0", "-7.5", "0.10", "1.50", "-0.001", "12345678.1234", "0.000"]
    for dname, _ in DIALECTS:
        for x, y in itertools.combinations(lits, 2):
            if _D(x) > _D(y):
                x, y = y, x
            if _D(x) < _D(y):
                yield [dname, [{"kind": "dec", "name": "d", "empty": False, "lo": x, "hi": y}]]
    # keyword pool: every name alone under every dialect
    for dname, _ in DIALECTS:
        for nm in NAMES:
            yield [dname, [{"kind": "text", "name": nm, "empty": rnd.random() < 0.5, "length": rnd.choice(["", "5", "2...7", "...10", "3..."])}]]
    n = 150 if tier == "quick" else 2500
    for _ in range(n):
        dname = rnd.choice(DIALECTS)[0]
        names = rnd.sample(NAMES, rnd.randint(1, 6))
        fields = []
        for nm in names:
            kind = rnd.choice(["int", "int", "dec", "text", "choice", "date"])
            f = {"kind": kind, "name": nm, "empty": rnd.random() < 0.4}
            if kind == "int":
                a, b = sorted(rnd.choice(BOUNDS) + rnd.choice([0, 0, rnd.randint(-3, 3)]) for _ in range(2))
                if rnd.random() < 0.3:
                    a, b = sorted(rnd.randint(-10 ** rnd.randint(1, 25), 10 ** rnd.randint(1, 25)) for _ in range(2))
                f.update(lo=a, hi=b)
            elif kind == "dec":
                def lit():
                    ip = str(rnd.randint(0, 10 ** rnd.randint(1, 8)))
                    fp = "".join(rnd.choice("0123456789") for _ in range(rnd.randint(0, 4)))
                    return ip + ("." + fp if fp else "")
                x, y = lit(), lit()
                from decimal import Decimal
                if Decimal(x) > Decimal(y):
                    x, y = y, x
                if rnd.random() < 0.3:
                    x = "-" + lit()
                f.update(lo=x, hi=y)
            elif kind in ("text", "choice"):
                f["length"] = rnd.choice(["", "5", "3...5", "...7", "3...", " 4 ... 6 "]) if kind == "text" else rnd.choice(["", "3...5", "...5"])
            fields.append(f)
        yield [dname, fields]
