"""C15 - ODS sheets are read as the logical table they contain.
The harness owns an ODF encoder that is independent of cutplace: it builds an element tree for every table (random
choice of every optional encoding feature per row / cell / run of characters), serialises content.xml itself, zips it,
and lets rowio.ods_rows read the file.  Model/Ods.v is evaluated on the same tree."""
import io
import os
import shutil
import zipfile

from cutplace import errors, rowio

import common as C
from common import L, Nat, O, P, S

MODEL_FILES = ["Model/Ods.v"]
HEADER = """From CP Require Import Model.Base Model.Lex Model.FieldTypes Model.Ods.
Inductive eo := EO (r : ores) | ELeak.
Definition run (i : container * nat) : eo := EO (ods_rows (fst i) (snd i)).
Definition eo_eqb (m e : eo) : bool :=
  match m, e with
  | EO OOut, _ => true
  | EO (ORows r f), EO (ORows r' f') => list_eqb (list_eqb text_eqb) r r' && Bool.eqb f f'
  | _, _ => false
  end.
Definition ood (i : container * nat) : nat := match run i with EO OOut => 1%nat | _ => 0%nat end.
Definition cell (rep : option text) (ps : list (list inl)) : ocell := {| oc_rep := rep; oc_paras := ps |}.
Definition row (rep : option text) (cs : list ocell) : orow := {| or_rep := rep; or_cells := cs |}."""
CASE_TYPE = "(container * nat) * eo"
MODEL = "run"
EQB = "eo_eqb"
OOD = "ood"
SHARD = 150
RULE = ("tables of 0..6 rows x 0..8 cells over an alphabet with blanks, tabs, line breaks, XML-special, non-ASCII and "
        "non-BMP characters, runs of equal cells and duplicate adjacent rows; written by the harness's own ODF encoder "
        "with every optional feature chosen at random per place (column runs, row runs, text:s with/without text:c, "
        "text:tab, text:line-break or paragraph boundaries, nested spans, ignored attributes and table:table-column "
        "elements); 1..3 sheets x requested sheet 1..4; content.xml in UTF-8, UTF-16 and ISO-8859-1; fault stream: "
        "repeat counts 0, -1, x, '', 1.5, ' 2 ', +2 on cells, rows and text:s, archive truncated at every 64th byte, "
        "content.xml cut at every tag boundary (thorough: every; quick: every 3rd), no content.xml, not a zip, "
        "unsupported declared encoding. Observed: the rows delivered and whether reading ended in a DataFormatError "
        "(any other exception = leak). Direct oracle: the rows equal the logical table the encoder was given; every "
        "fault ends in DataFormatError. Non-trivial: a readable sheet with at least one row, or a fault. Distinct = distinct case.")
EXHAUSTIVE = {"quick": False, "thorough": False}
TRUSTED = ["zipfile and xml.etree deliver the element tree the harness serialised (the model starts from the tree)",
           "harness/props/c15.py: independent ODF encoder and XML serialiser"]
ASSUMPTIONS = ["literal blanks, tabs and line breaks inside text:p are kept as they are (ODF consumers would collapse them; "
               "cutplace does not, and a conforming producer writes them as text:s / text:tab / text:line-break)",
               "rows inside table:table-row-group / table:table-header-rows and covered (merged) cells are outside the property"]

TMP = os.path.join(C.BUILD, "C15", "tmp")
NS = ('xmlns:office="urn:oasis:names:tc:opendocument:xmlns:office:1.0" '
      'xmlns:table="urn:oasis:names:tc:opendocument:xmlns:table:1.0" '
      'xmlns:text="urn:oasis:names:tc:opendocument:xmlns:text:1.0" '
      'xmlns:style="urn:oasis:names:tc:opendocument:xmlns:style:1.0"')
ALPHABET = ["a", "b", "Z", "0", " ", " ", "\t", "\n", "<", "&", '"', ">", "'", "ä", "€", "\U0001d11e"]

# ------------------------------------------------------------------ the harness's own tree + serialiser
# inline nodes: ["t", text] | ["s", count_attr or None] | ["tab"] | ["br"] | ["span", [inline...]] | ["mark"] (empty element)


def esc(t, attr=False):
    t = t.replace("&", "&amp;").replace("<", "&lt;").replace(">", "&gt;")
    if attr:
        t = t.replace('"', "&quot;")
    return t.replace("\r", "&#13;")


def xml_inl(n):
    k = n[0]
    if k == "t":
        return esc(n[1])
    if k == "s":
        return "<text:s/>" if n[1] is None else '<text:s text:c="%s"/>' % esc(n[1], True)
    if k == "tab":
        return "<text:tab/>"
    if k == "br":
        return "<text:line-break/>"
    if k == "mark":
        return '<text:bookmark text:name="b1"/>'
    return '<text:span text:style-name="T1">' + "".join(xml_inl(x) for x in n[1]) + "</text:span>"


def xml_cell(c):
    a = "" if c["rep"] is None else ' table:number-columns-repeated="%s"' % esc(c["rep"], True)
    if c["paras"]:
        a += ' office:value-type="string"'
    # white space between the paragraphs of a cell (pretty printed XML) is no part of any text
    glue = c.get("glue", "")
    body = glue.join("<text:p>" + "".join(xml_inl(n) for n in p) + "</text:p>" for p in c["paras"])
    if body and glue:
        body = glue + body + glue
    if c.get("note"):
        # a cell comment as office suites store it: its paragraphs are no part of the cell's text
        body = "<office:annotation><text:p>%s</text:p><text:p>second line</text:p></office:annotation>" % esc(c["note"]) + body
    return "<table:table-cell%s>%s</table:table-cell>" % (a, body) if body else "<table:table-cell%s/>" % a


def xml_row(r):
    a = "" if r["rep"] is None else ' table:number-rows-repeated="%s"' % esc(r["rep"], True)
    return '<table:table-row table:style-name="ro1"%s>%s</table:table-row>' % (a, "".join(xml_cell(c) for c in r["cells"]))


def xml_doc(tables, encoding):
    out = ['<?xml version="1.0" encoding="%s"?>' % encoding, "<office:document-content %s office:version=\"1.2\">" % NS,
           "<office:automatic-styles/>", "<office:body>", "<office:spreadsheet>"]
    for i, t in enumerate(tables):
        out.append('<table:table table:name="Sheet%d"><table:table-column table:number-columns-repeated="3"/>' % (i + 1))
        out.extend(xml_row(r) for r in t)
        out.append("</table:table>")
    out += ["</office:spreadsheet>", "</office:body>", "</office:document-content>"]
    return "".join(out)


def coq_inl(n):
    k = n[0]
    if k == "t":
        return "(IText %s)" % S(n[1])
    if k == "s":
        return "(IS %s)" % O(n[1], S)
    if k == "tab":
        return "ITab"
    if k == "br":
        return "IBreak"
    if k == "mark":
        return "(ISpan [])"         # an element without content, like an empty span
    return "(ISpan %s)" % L(n[1], coq_inl)


def coq_tables(tables):
    return L(tables, lambda t: L(t, lambda r: "(row %s %s)" % (O(r["rep"], S), L(r["cells"], lambda c: "(cell %s %s)" % (
        O(c["rep"], S), L(c["paras"], lambda p: L(p, coq_inl)))))))


# ------------------------------------------------------------------ encoder (random choices, inverse of reading)


def merge_text(nodes):
    """adjacent text nodes are one text node in XML"""
    out = []
    for n in nodes:
        if n[0] == "t" and out and out[-1][0] == "t":
            out[-1] = ["t", out[-1][1] + n[1]]
        elif n[0] == "t" and n[1] == "":
            continue
        else:
            out.append(n)
    return out


def enc_line(rnd, line):
    nodes, i = [], 0
    while i < len(line):
        ch = line[i]
        if ch == " ":
            j = i
            while j < len(line) and line[j] == " ":
                j += 1
            n = j - i
            mode = rnd.randrange(4)
            if mode == 0:
                nodes.append(["t", " " * n])
            elif mode == 1:
                nodes.append(["s", str(n) if (n > 1 or rnd.random() < 0.5) else None])
            elif mode == 2 and n > 1:
                nodes += [["t", " "], ["s", str(n - 1) if (n > 2 or rnd.random() < 0.5) else None]]
            else:
                nodes += [["s", None] for _ in range(n)]
            i = j
        elif ch == "\t":
            nodes.append(["tab"] if rnd.random() < 0.7 else ["t", "\t"])
            i += 1
        elif ch == "\n":
            nodes.append(["br"] if rnd.random() < 0.8 else ["t", "\n"])
            i += 1
        else:
            nodes.append(["t", ch])
            i += 1
    nodes = merge_text(nodes)
    # wrap random stretches into (possibly nested) spans
    for _ in range(rnd.randrange(3)):
        if nodes and rnd.random() < 0.6:
            a = rnd.randrange(len(nodes))
            b = rnd.randrange(a, len(nodes)) + 1
            nodes = nodes[:a] + [["span", nodes[a:b]]] + nodes[b:]
    # elements without any content (an empty span, a bookmark) anywhere between the others: they add nothing
    if rnd.random() < 0.3:
        for _ in range(rnd.randint(1, 2)):
            target = nodes
            if rnd.random() < 0.4:
                spans = [n for n in nodes if n[0] == "span"]
                if spans:
                    target = rnd.choice(spans)[1]
            target.insert(rnd.randint(0, len(target)), rnd.choice([["span", []], ["mark"]]))
    return nodes


def enc_cell_text(rnd, v):
    if v == "" and rnd.random() < 0.5:
        return []
    if "\n" in v and rnd.random() < 0.5:
        return [enc_line(rnd, line) for line in v.split("\n")]
    return [enc_line(rnd, v)]


def enc_runs(rnd, items, p):
    """group equal adjacent items into runs with probability p per opportunity"""
    runs = []
    for it in items:
        if runs and runs[-1][0] == it and rnd.random() < p:
            runs[-1][1] += 1
        else:
            runs.append([it, 1])
    return runs


def rep_attr(rnd, n):
    if n == 1:
        return rnd.choice([None, None, "1"])
    return str(n)


def enc_table(rnd, table):
    rows = []
    for row, n in enc_runs(rnd, [tuple(r) for r in table], 0.8):
        cells = [{"rep": rep_attr(rnd, k), "paras": enc_cell_text(rnd, v)} for v, k in enc_runs(rnd, list(row), 0.8)]
        for c in cells:
            if rnd.random() < 0.15:
                c["glue"] = rnd.choice(["\n", "\n      ", " ", "\t\n  "])
            if rnd.random() < 0.08:
                c["note"] = rnd.choice(["a comment", "x", "1", "check <this>"])
        rows.append({"rep": rep_attr(rnd, n), "cells": cells})
    return rows


def rnd_text(rnd):
    k = rnd.random()
    if k < 0.15:
        return ""
    if k < 0.3:
        return rnd.choice(["a", "b", "x y", "  ", " a ", "1"])
    return "".join(rnd.choice(ALPHABET) for _ in range(rnd.randint(1, 7)))


def rnd_table(rnd):
    n_rows, n_cols = rnd.randint(0, 6), rnd.randint(0, 8)
    table = []
    for _ in range(n_rows):
        if table and rnd.random() < 0.35:
            table.append(list(table[-1]))
            continue
        row = []
        for _c in range(n_cols if rnd.random() < 0.8 else rnd.randint(0, 8)):
            row.append(row[-1] if row and rnd.random() < 0.4 else rnd_text(rnd))
        table.append(row)
    return table


# ------------------------------------------------------------------ cases


def write_ods(path, xml_bytes, with_content=True):
    with zipfile.ZipFile(path, "w", zipfile.ZIP_DEFLATED) as z:
        z.writestr("mimetype", "application/vnd.oasis.opendocument.spreadsheet")
        if with_content:
            z.writestr("content.xml", xml_bytes)
        z.writestr("META-INF/manifest.xml", "<manifest/>")


def observe_source(source, sheet):
    rows = []
    try:
        for r in rowio.ods_rows(source, sheet):
            rows.append(list(r))
            r.append("mine now")        # a row that was handed out belongs to the consumer: changing it changes nothing else
        return {"rows": rows, "failed": False}
    except errors.DataFormatError as e:
        return {"rows": rows, "failed": True, "msg": str(e)[:100]}
    except Exception as e:  # noqa
        return {"rows": rows, "leak": type(e).__name__, "msg": str(e)[:100]}


_N_OBSERVED = [0]


def observe(path, sheet):
    res = observe_source(path, sheet)
    _N_OBSERVED[0] += 1
    if _N_OBSERVED[0] % 3 == 0:
        # the same document handed over as an open binary stream, from which another sheet has been read before
        with open(path, "rb") as fh:
            observe_source(fh, 1)
            again = observe_source(fh, sheet)
        if (again.get("rows"), again.get("failed"), again.get("leak")) != (res.get("rows"), res.get("failed"), res.get("leak")):
            res["stream_mismatch"] = "read from an open stream (second read of that stream) gives %r but by path %r" % (
                (again.get("rows"), again.get("failed"), again.get("leak"), again.get("msg")), (res.get("rows"), res.get("failed")))
    return res


def file_bytes(inp):
    """the bytes of the data file for a case"""
    kind = inp["kind"]
    if kind == "notzip":
        return inp["bytes"].encode("latin-1")
    enc = inp.get("encoding", "UTF-8")
    xml = xml_doc(inp["tables"], inp.get("declared", enc))
    data = xml.encode("utf-16" if enc == "UTF-16" else enc, "xmlcharrefreplace")
    if kind == "cutxml":
        cut = inp["cut"]
        data = xml[:cut].encode("utf-8")
    bio = io.BytesIO()
    write_ods(bio, data, with_content=(kind != "nocontent"))
    blob = bio.getvalue()
    if kind == "truncated":
        blob = blob[:inp["at"]]
    return blob


def make_case(inp):
    os.makedirs(TMP, exist_ok=True)
    path = os.path.join(TMP, "case_%d.ods" % os.getpid())
    with open(path, "wb") as fh:
        fh.write(file_bytes(inp))
    obs = observe(path, inp["sheet"])
    os.remove(path)
    kind = inp["kind"]
    if kind in ("notzip", "truncated"):
        cont = "CNotZip"
    elif kind == "nocontent":
        cont = "CNoContent"
    elif kind in ("cutxml", "badencoding"):
        cont = "CBadXml"
    else:
        cont = "(CDoc %s)" % coq_tables(inp["tables"])
    if "leak" in obs:
        coq_obs = "ELeak"
    else:
        coq_obs = "(EO (ORows %s %s))" % (L(obs["rows"], lambda r: L(r, lambda v: S(v) if isinstance(v, str) else "[0%N; 0%N; 0%N]")), "true" if obs["failed"] else "false")
    tags = [kind, "failed" if obs.get("failed") else ("leak" if "leak" in obs else "read"), "sheet-%d-of-%d" % (inp["sheet"], len(inp.get("tables", [])))]
    return {"coq": P(P(cont, Nat(inp["sheet"])), coq_obs), "obs": obs,
            "nontrivial": kind != "doc" or (not obs.get("failed") and len(obs["rows"]) > 0), "tags": tags}


def direct_oracle(inp, obs):
    if obs.get("stream_mismatch"):
        return obs["stream_mismatch"]
    if "leak" in obs:
        return "ods_rows raised %s (%s) instead of a DataFormatError" % (obs["leak"], obs["msg"])
    kind = inp["kind"]
    if kind in ("notzip", "truncated", "nocontent", "cutxml", "badencoding"):
        if not obs["failed"]:
            return "a broken container (%s) was read without a DataFormatError" % kind
        return None
    if kind == "doc":
        logical = inp["logical"]
        if inp["sheet"] > len(logical):
            return None if obs["failed"] and not obs["rows"] else "requesting a missing sheet did not fail with a DataFormatError"
        if obs["failed"]:
            return "reading a well-formed sheet failed: %s" % obs["msg"]
        if obs["rows"] != logical[inp["sheet"] - 1]:
            return "sheet %d was read as %r but contains %r" % (inp["sheet"], obs["rows"], logical[inp["sheet"] - 1])
    if kind == "badcount":
        if not obs["failed"]:
            return "a repeat count of %r did not fail with a DataFormatError" % inp["bad"]
    return None


def classify(inp, obs, msg):
    return None


BAD_COUNTS = ["0", "-1", "x", "", "1.5", "0x2", "1e1", "²", "16777217", "99999999999999999999", "-99999999999999999999"]
ODD_COUNTS = [" 2 ", "+2", "02", "1_0", "٢"]


def gen_inputs(tier, rnd):
    shutil.rmtree(TMP, ignore_errors=True)
    n = 250 if tier == "quick" else 2500
    for i in range(n):
        logical = [rnd_table(rnd) for _ in range(rnd.randint(1, 3))]
        tables = [enc_table(rnd, t) for t in logical]
        enc = "UTF-8" if i % 5 else rnd.choice(["UTF-16", "ISO-8859-1", "US-ASCII"])
        for sheet in range(1, len(logical) + 2):
            if sheet > 1 and rnd.random() < 0.5 and sheet <= len(logical):
                continue
            yield {"kind": "doc", "tables": tables, "logical": logical, "sheet": sheet, "encoding": enc}
    # long runs of empty rows between data rows (spreadsheet applications write them): every one of them is a row of the table
    def plain(v, rep=None):
        return {"rep": rep, "paras": [[["t", v]]] if v else []}
    for n in (2, 999, 1000, 1001, 1500):
        for empty_cells, width in (([plain("", "2")], 2), ([], 0), ([plain("")], 1)):
            tables = [[{"rep": None, "cells": [plain("a"), plain("b")]}, {"rep": str(n), "cells": empty_cells}, {"rep": None, "cells": [plain("c"), plain("d")]}]]
            logical = [[["a", "b"]] + [[""] * width for _ in range(n)] + [["c", "d"]]]
            yield {"kind": "doc", "tables": tables, "logical": logical, "sheet": 1, "encoding": "UTF-8"}
    # repeat counts that are not positive integers, at each of the three places; and odd but valid spellings
    for bad in BAD_COUNTS + ODD_COUNTS:
        for place in ("cell", "row", "s"):
            for pos in (0, 1, 2):
                logical = [[["a", "b"], ["c", "d"], ["e", "f"]]]
                tables = [enc_table(rnd, t) for t in logical]
                t = tables[0]
                # make sure the row at pos stands alone
                tables[0] = [{"rep": None, "cells": [{"rep": None, "paras": [[["t", v]]]} for v in r]} for r in logical[0]]
                t = tables[0]
                if place == "cell":
                    t[pos]["cells"][1]["rep"] = bad
                elif place == "row":
                    t[pos]["rep"] = bad
                else:
                    t[pos]["cells"][1]["paras"] = [[["t", "d"], ["s", bad], ["t", "!"]]]
                kind = "badcount" if bad in BAD_COUNTS else "oddcount"
                yield {"kind": kind, "tables": tables, "sheet": 1, "bad": bad, "place": place}
    # container faults
    logical = [[["a", "b<"], ["c", " d"]], [["x"]]]
    tables = [enc_table(rnd, t) for t in logical]
    blob = file_bytes({"kind": "doc", "tables": tables, "sheet": 1})
    step = 64
    for at in range(0, len(blob), step):
        yield {"kind": "truncated", "tables": tables, "sheet": 1, "at": at}
    yield {"kind": "truncated", "tables": tables, "sheet": 1, "at": len(blob) - 1}
    xml = xml_doc(tables, "UTF-8")
    cuts = [i for i, ch in enumerate(xml) if ch == "<" and i > 0] + [i + 1 for i, ch in enumerate(xml) if ch == ">" and i + 1 < len(xml)]
    for k, cut in enumerate(sorted(set(cuts))):
        if tier == "quick" and k % 3:
            continue
        yield {"kind": "cutxml", "tables": tables, "sheet": 1, "cut": cut}
    yield {"kind": "nocontent", "tables": tables, "sheet": 1}
    for b in ["", "PK", "this is not a zip archive", "PK\x03\x04" + "\x00" * 40]:
        yield {"kind": "notzip", "bytes": b, "sheet": 1}
    for declared in ["Shift_JIS", "x-no-such-encoding", "utf-7", "EBCDIC-CP-US"]:
        yield {"kind": "badencoding", "tables": tables, "sheet": 1, "declared": declared}
