"""C14 - a validating writer emits only conforming rows; its output validates again."""
import csv
import io
import os

from cutplace import validio

import vcommon as V
from common import B, L, Nat, O, P, S

MODEL_FILES = ["Model/Validio.v", "Model/ValidioInst.v", "Model/History.v", "Model/Writer.v", "Corr/Obs.v"]
HEADER = V.HEADER + """From CP Require Import Model.History Model.Writer Model.Delimited.
Definition obs := (list (option err) * option text * option err)%type.   (* per call, stream text, close verdict *)
(* one call of the Writer: write_row(row) or write_rows(rows), which stops at the first rejected row *)
Inductive wop := WRow (r : list text) | WRows (rs : list (list text)).
Fixpoint rows_call (enc : N -> bool) (c : cid cstate) (w : wstate cstate) (rs : list (list text)) : wstate cstate * option err :=
  match rs with
  | [] => (w, None)
  | r :: t => let '(w', e, _) := write_row_enc enc c w r in
              match e with Some x => (w', Some x) | None => rows_call enc c w' t end
  end.
Fixpoint ops_all (enc : N -> bool) (c : cid cstate) (w : wstate cstate) (ops : list wop) : wstate cstate * list (option err) :=
  match ops with
  | [] => (w, [])
  | op :: rest =>
      let '(w', e) := match op with
                      | WRow r => let '(a, b, _) := write_row_enc enc c w r in (a, b)
                      | WRows rs => rows_call enc c w rs
                      end in
      let '(wf, es) := ops_all enc c w' rest in (wf, e :: es)
  end.
(* the target: a text stream that takes every character, or one in an encoding (ASCII, cp1252, latin-1) that cannot
   represent the characters listed in [bad] (of those that occur in the rows) *)
Definition run (i : cid cstate * bool * list nat * text * list wop * list N) : obs :=
  let '(c, fixed, ws, sep, rows, bad) := i in
  let enc := fun ch : N => negb (existsb (N.eqb ch) bad) in
  let '(wf, es) := ops_all enc c (writer_init c []) rows in
  let text := if fixed then Some (fixed_text ws sep (Validio.w_rows wf))
              else delimited_text (as_delimited_keywords 44 34 34 false) (Validio.w_rows wf) in
  let '(_, ce, _) := writer_close c wf in (es, text, ce).
Definition obs_eqb (a b : obs) : bool :=
  let '(e, t, c) := a in let '(e', t', c') := b in
  list_eqb (option_eqb err_eqb) e e' && option_eqb text_eqb t t' && option_eqb err_eqb c c'."""
CASE_TYPE = "(cid cstate * bool * list nat * text * list wop * list N) * obs"
MODEL = "run"
EQB = "obs_eqb"
SHARD = 250
RULE = ("sequences of 0..8 rows written by write_row calls or - half of the cases - by a random split into write_row and "
        "write_rows calls (a write_rows call stops at its first rejected row; calls after a rejection continue the file), mixing accepted rows, field errors, wrong item counts and duplicates x "
        "delimited and fixed CIDs (Text/Choice fields, lengths, allowed characters; line delimiter lf/cr/crlf/any/none "
        "for fixed) x header 0..3 (the header rows written by any mixture of write_row and write_rows calls) x target {text stream, stream encoded in ASCII with rows carrying a character it cannot represent, a file the writer opens itself (UTF-8) with byte order mark / Unicode line separator characters as data, read back by path} x IsUnique / DistinctCount checks; observed: outcome of every call, the final stream "
        "text, the close verdict; the produced text is then read back under a freshly loaded copy of the CID and must "
        "yield exactly the accepted rows (modulo padding) without a rejection. Non-trivial: at least one accepted and "
        "one rejected call. Distinct = distinct (CID, rows).")
TRUSTED = ["csv writer model (Model/Delimited.v, validated in C12)", "os.linesep is '\\n'"]
ASSUMPTIONS = ["header rows (written unvalidated) have the right item count and fit the field widths; otherwise FixedRowWriter asserts"]

import common as _C
TMP = os.path.join(_C.BUILD, "C14", "tmp")
SEP = {"lf": "\n", "cr": "\r", "crlf": "\r\n", "any": "\n", None: "\n", "none": ""}


def make_case(inp):
    spec, rows = inp["spec"], inp["rows"]
    cid = V.build_cid(spec)
    ascii_target = inp.get("ascii")
    if ascii_target is True:
        ascii_target = "ascii"
    file_target = bool(inp.get("file"))
    if file_target:
        # the writer is given a path: it opens the file itself, with the encoding the CID declares (UTF-8 here)
        os.makedirs(TMP, exist_ok=True)
        target = os.path.join(TMP, "out_%d.txt" % os.getpid())
    else:
        target = io.TextIOWrapper(io.BytesIO(), encoding=ascii_target, newline="") if ascii_target else io.StringIO(newline="")
    writer = validio.Writer(cid, target)
    writes = []
    ops = inp.get("ops") or [["row", r] for r in rows]
    for kind, arg in ops:
        try:
            if kind == "row":
                writer.write_row(list(arg))
            else:
                writer.write_rows([list(r) for r in arg])
            writes.append(None)
        except Exception as e:  # noqa
            writes.append(V.canon_error(e, spec))
    if ascii_target:
        target.flush()
        text = target.buffer.getvalue().decode(ascii_target)
    elif not file_target:
        text = target.getvalue()
    closed = None
    try:
        writer.close()
    except Exception as e:  # noqa
        closed = V.canon_error(e, spec)
    if file_target:
        with open(target, "r", encoding="utf-8", newline="") as fh:
            text = fh.read()
        os.remove(target)
    fixed = spec["format"] == "fixed"
    ws = V.widths(spec) if fixed else []
    sep = SEP[spec.get("line_delimiter")] if fixed else ""
    obs = {"writes": writes, "text": text, "close": closed}
    coq_ops = L(ops, lambda o: "(WRow %s)" % L(o[1], S) if o[0] == "row" else "(WRows %s)" % L(o[1], lambda r: L(r, S)))
    bad = []
    if ascii_target:
        for ch in sorted({ch for o in ops for r in ([o[1]] if o[0] == "row" else o[1]) for c in r for ch in c}):
            try:
                ch.encode(ascii_target)
            except UnicodeError:
                bad.append(ord(ch))
    coq_in = P(V.coq_cid(spec), B(fixed), L(ws, Nat), S(sep), coq_ops, L(bad, lambda n: "%d%%N" % n))
    coq_obs = P(L(writes, lambda e: O(e, V.coq_err)), "(Some %s)" % S(text), O(closed, V.coq_err))
    n_ok = sum(1 for w in writes if w is None)
    tags = [spec["format"], "header%d" % spec.get("header", 0)] + ([ascii_target + "-target"] if ascii_target else []) + (["file-target"] if file_target else []) + (["ld-" + str(spec.get("line_delimiter"))] if fixed else [])
    return {"coq": P(coq_in, coq_obs), "obs": obs, "nontrivial": 0 < n_ok < len(writes), "tags": tags}


def direct_oracle(inp, obs):
    spec, rows = inp["spec"], inp["rows"]
    header = spec.get("header", 0)
    only_single_rows = not inp.get("ops")
    accepted = [r for r, w in zip(rows, obs["writes"]) if w is None] if only_single_rows else None
    if any(w is not None and w["family"] in ("FLeak", "FInterface") for w in obs["writes"]):
        return "write_row raised a non-data error: %r" % [w for w in obs["writes"] if w is not None][:1]
    # the stream holds exactly the accepted rows, in order
    if not only_single_rows:
        want = None
    elif spec["format"] == "fixed":
        ws = V.widths(spec)
        sep = SEP[spec.get("line_delimiter")]
        want = "".join("".join(c + " " * (w - len(c)) for c, w in zip(r, ws)) + sep for r in accepted)
    else:
        s = io.StringIO(newline="")
        csv.writer(s).writerows(accepted)
        want = s.getvalue()
    if only_single_rows and obs["text"] != want:
        return "stream is %r but the accepted rows encode as %r" % (obs["text"], want)
    # reading the output back under the same CID accepts every row and returns the written values
    fresh = V.build_cid(spec)
    if inp.get("file"):
        # through a file again: written as the CID's encoding says, read by path
        os.makedirs(TMP, exist_ok=True)
        path = os.path.join(TMP, "back_%d.txt" % os.getpid())
        with open(path, "w", encoding="utf-8", newline="") as fh:
            fh.write(obs["text"])
        outs, raised = [], None
        try:
            for r in validio.rows(fresh, path, on_error="yield"):
                outs.append(r)
        except Exception as e:  # noqa
            raised = e
        os.remove(path)
        back = {"outs": [{"err": V.canon_error(o, spec)} if isinstance(o, Exception) else {"row": list(o)} for o in outs],
                "raised": None if raised is None else V.canon_error(raised, spec)}
    else:
        back = V.run_reader(fresh, spec, obs["text"], "yield", None)
    got = [o.get("row") for o in back["outs"]]
    if any("err" in o for o in back["outs"]) or (back["raised"] is not None and back["raised"]["family"] != "FCheck"):
        return "reading the written data back is rejected: %r" % ([o for o in back["outs"] if "err" in o][:1] or back["raised"])
    if not only_single_rows:
        return None
    exp = accepted[header:]
    if spec["format"] == "fixed":
        got = [[c.rstrip(" ") if c.strip(" ") else c.strip(" ") for c in r] for r in got]
        exp = [[c.rstrip(" ") if c.strip(" ") else c.strip(" ") for c in r] for r in exp]
    if got != exp:
        return "read back %r but wrote %r" % (got, exp)
    return None


PLAIN = {"format": "delimited", "header": 0, "checks": [],
         "fields": [{"name": "a", "empty": True, "type": "Text", "choices": [], "length": None}, {"name": "b", "empty": True, "type": "Text", "choices": [], "length": None}]}
PLAIN_FIXED = {"format": "fixed", "header": 0, "checks": [], "line_delimiter": "lf",
               "fields": [{"name": "a", "empty": True, "type": "Text", "choices": [], "length": [[6, 6]]}, {"name": "b", "empty": True, "type": "Text", "choices": [], "length": [[3, 3]]}]}


def gen_inputs(tier, rnd):
    # rows the target's encoding refuses between rows it takes, shorter and longer ones: each row stands for itself
    for spec in (PLAIN, PLAIN_FIXED):
        for rows in ([["abcdef", "x\u00e4"], ["a", "b"], ["\u00e4", "b"], ["abc", "d"]], [["a", "\u20ac"], ["abcdef", "xyz"], ["b", ""]],
                     [["abcdef", "xy\u00e4"], ["abcdef", "xyz"], ["", "\u00e4"], ["", ""]], [["\u00e4b", "c"], ["a", "c"], ["\u00e4", ""], ["ab", "c"]]):
            yield {"spec": spec, "rows": rows, "ascii": True}
            yield {"spec": spec, "rows": rows, "ascii": True, "ops": [["rows", rows[:2]], ["row", rows[2]], ["rows", rows[3:]]]}
        # encodings that have the composed letter but no combining mark, the euro sign or not: what cannot be written as
        # it stands is refused, not respelled
        for enc in ("cp1252", "latin-1", "cp437"):
            for rows in ([["Ame\u0301l", "ie"], ["Am\u00e9l", "ie"], ["a", "\u20ac"], ["abc", "d"]], [["a", "o\u0308"], ["a", "\u00f6"], ["\u0152", "x"], ["", ""]],
                         [["\u212b", "x"], ["\u00c5", "x"], ["A\u030a", "x"], ["\ufb01", "y"]]):
                yield {"spec": spec, "rows": rows, "ascii": enc}
    # records of several thousand characters: a row is written as a whole or not at all, however wide it is
    wide = {"format": "fixed", "header": 0, "checks": [], "line_delimiter": "lf",
            "fields": [{"name": "a", "empty": True, "type": "Text", "choices": [], "length": [[4090, 4090]]},
                       {"name": "b", "empty": True, "type": "Text", "choices": [], "length": [[8, 8]]},
                       {"name": "c", "empty": True, "type": "Text", "choices": [], "length": [[6, 6]]}]}
    for enc in (True, "cp1252"):
        yield {"spec": wide, "rows": [["a" * 10, "x", "1"], ["b" * 4090, "caf\u0301e", "2"], ["c", "y\u20ac" if enc is True else "\u0152\u0301", "3"], ["d", "z", "4"]], "ascii": enc}
    for _ in range(700 if tier == "quick" else 8000):
        spec = V.gen_spec(rnd, header=rnd.choice([0, 0, 1, 1, 2, 3]))
        if spec["format"] == "fixed":
            spec["line_delimiter"] = rnd.choice(["lf", "cr", "crlf", "any", "none", None])
            if spec["line_delimiter"] is None:
                del spec["line_delimiter"]
        n = len(spec["fields"])
        rows = []
        for i in range(rnd.randint(0, 8)):
            if i < spec["header"]:
                row = [("h%d" % j)[: (f["length"][0][0] if spec["format"] == "fixed" else 9)] for j, f in enumerate(spec["fields"])]
            else:
                row = [V.gen_cell(rnd, spec, f) for f in spec["fields"]]
                if spec["format"] == "fixed":
                    row = [c.rstrip(" ") if rnd.random() < 0.8 else c for c in row]
                    if rnd.random() < 0.1:
                        j = rnd.randrange(n)
                        row[j] = row[j] + "xx"
                if rnd.random() < 0.1:
                    row = row[:-1] if rnd.random() < 0.5 and n > 1 else row + ["x"]
                if rows and rnd.random() < 0.25:
                    row = list(rnd.choice(rows[spec["header"]:] or [row]))
            rows.append(row)
        case = {"spec": spec, "rows": rows}
        if rnd.random() < 0.2:
            # the target is a file the writer opens itself (encoding UTF-8 as declared); characters that some decoders
            # treat specially are data like any other, also at the very start of the file
            case["file"] = True
            spec["encoding"] = "utf-8"
            for i in range(spec["header"], len(rows)):
                if rows[i] and rnd.random() < 0.5:
                    rows[i] = list(rows[i])
                    j = 0 if rnd.random() < 0.7 else rnd.randrange(len(rows[i]))
                    special = rnd.choice(["\ufeff", "\ufeff", "\u2028", "\x85", "\ufffe"])
                    rows[i][j] = special + rows[i][j][1:] if rows[i][j] else special
        elif rnd.random() < 0.25:
            # the target is a stream encoded in ASCII; some rows carry a character it cannot represent, mostly not in
            # the first item: such a row is refused as a whole
            case["ascii"] = rnd.choice([True, True, "cp1252", "latin-1"])
            for i in range(spec["header"], len(rows)):
                if rows[i] and rnd.random() < 0.4:
                    j = rnd.randrange(1, len(rows[i])) if len(rows[i]) > 1 and rnd.random() < 0.8 else rnd.randrange(len(rows[i]))
                    rows[i] = list(rows[i])
                    rows[i][j] = (rows[i][j][:-1] if rows[i][j] else "") + rnd.choice(["ä", "€", "ÿ", "e\u0301", "\u0308", "\u212b"])
        if rnd.random() < 0.5 and rows:
            ops, i = [], 0
            while i < len(rows):
                if rnd.random() < 0.5:
                    ops.append(["row", rows[i]])
                    i += 1
                else:
                    k = rnd.randint(1, 4)
                    ops.append(["rows", rows[i:i + k]])
                    i += k
            case["ops"] = ops
        yield case


def classify(inp, obs, msg):
    """signatures of the two open findings about fixed-width padding (DESIGN.md section 9)"""
    spec, rows = inp["spec"], inp["rows"]
    if spec["format"] != "fixed" or not msg or not msg.startswith("reading the written data back is rejected"):
        return None
    if inp.get("ops"):
        # which rows were emitted: replay the calls row by row on a fresh CID (a write_rows call stops at its first rejection)
        accepted = []
        w = validio.Writer(V.build_cid(spec), io.StringIO(newline=""))
        for kind, arg in inp["ops"]:
            for r in ([arg] if kind == "row" else arg):
                try:
                    w.write_row(list(r))
                    accepted.append(r)
                except Exception:  # noqa
                    break
    else:
        accepted = [r for r, w in zip(rows, obs["writes"]) if w is None]
    accepted = accepted[spec.get("header", 0):]
    ws = V.widths(spec)
    if "must be an allowed character" in msg and "U+0020" in msg:
        allowed = spec.get("allowed")
        blank_ok = allowed is None or any((lo is None or lo <= 32) and (hi is None or 32 <= hi) for lo, hi in allowed)
        if not blank_ok and any(len(c) < w for r in accepted for c, w in zip(r, ws)):
            return "C14/fixed/padding-blank-not-an-allowed-character"
    if "must be unique" in msg:
        for c in spec["checks"]:
            if c["kind"] == "unique":
                raw = [tuple(r[i] for i in c["cols"]) for r in accepted]
                padded = [tuple(r[i] + " " * (ws[i] - len(r[i])) for i in c["cols"]) for r in accepted]
                if len(set(raw)) == len(raw) and len(set(padded)) < len(padded):
                    return "C14/fixed/unique-keys-differ-only-by-padding"
    return None
