"""C03 - empty, length and allowed-character guards hold for every field type: AbstractFieldFormat.validated of all
eight built-in types under all four formats against Model/Fields.v, the type-specific hook being replayed from what
the implementation's own validated_value did (so only the guards are compared here; the hooks are C02)."""
import itertools

from cutplace import errors, interface

import vcommon as V
from common import B, L, O, P, S

MODEL_FILES = ["Model/Fields.v"]
HEADER = """From CP Require Import Model.Base Model.Ranges Model.Fields.
Definition obs := (bool * option text)%type.   (* accepted?, argument validated_value was called with *)
Definition run (i : bool * range * bool * range * option (text * bool) * text) : obs :=
  let '(fixed, allowed, empty_ok, len, hook, cell) := i in
  let f := {| f_name := []; f_empty_ok := empty_ok; f_length := len;
              f_hook := fun v => match hook with Some (arg, ok) => text_eqb v arg && ok | None => false end |} in
  let r := validated {| df_fixed := fixed; df_excel := false; df_allowed := allowed |} f cell in
  (v_ok r, v_hook r).
Definition obs_eqb (a b : obs) : bool := Bool.eqb (fst a) (fst b) && option_eqb text_eqb (snd a) (snd b)."""
CASE_TYPE = "(bool * range * bool * range * option (text * bool) * text) * obs"
MODEL = "run"
EQB = "obs_eqb"
SHARD = 1500
RULE = ("all 8 built-in field types x {empty allowed, not allowed} x length declarations (none, exact, lower-only, "
        "upper-only, multi-item; exact width for fixed) x 4 allowed-character ranges (half of the declarations stand behind the field row, after an earlier wider declaration under which the field's example was validated) x formats {delimited, fixed, excel, "
        "ods} x cells {empty, blanks only (blank, tab, NBSP mixes), a good value, too short, too long, a good value "
        "with one disallowed character at every position}; enumerated completely. Observed: accepted?, and the argument "
        "validated_value received (recorded by wrapping the method). Non-trivial: the cell is non-empty. "
        "Distinct = distinct (type, flags, length, allowed, format, cell).")
EXHAUSTIVE = {"quick": True, "thorough": True}
TRUSTED = ["the hook outcome is replayed from the implementation (C02 decides the hooks)"]
ASSUMPTIONS = ["for fixed data a blank-only cell in a field that may be empty is also subject to the width guard and to the allowed-characters guard (a blank outside the allowed characters is rejected first); documented in DESIGN.md"]

TYPES = {
    "Integer": ("", "12"), "Decimal": ("", "1.5"), "Choice": ("ab, 12, abc", "ab"), "Constant": ("ab", "ab"),
    "DateTime": ("DD.MM.YY", "01.02.03"), "Pattern": ("?*", "abc"), "RegEx": (".+", "abc"), "Text": ("", "abc"),
    # the same types with a rule that bounds the value: the length guard counts characters, whatever the rule says
    "Integer:bounded": ("0...999", "12"), "Decimal:bounded": ("0...999.5", "1.5"),
}
SPELLINGS = ["0042", "+12", "00000012", "012", "-0", "1_2", "12.0", "1.50", "0001.5", "+1.5"]
LENGTHS = [None, [[2, 2]], [[3, 3]], [[2, None]], [[None, 3]], [[1, 2], [8, 8]],
           [[0, 0]], [[None, 0]], [[None, 1], [3, None]]]      # a column that must stay empty; open at both ends with a gap
ALLOWED = [None, [[32, 126]], [[46, 57], [97, 122]], [[0, 97]]]    # the last one excludes letters of the good values
FORMATS = ["delimited", "fixed", "excel", "ods"]
BLANKS = [" ", "   ", "\t ", "  "]


def build_field(fmt, ftype, empty, length, allowed, late=False):
    """late: the 'Allowed characters' row stands behind the field row (data format rows may stand anywhere after Format)"""
    rule = TYPES[ftype][0]
    rows = [["D", "Format", fmt]]
    if allowed is not None and not late:
        rows.append(["D", "Allowed characters", V.items_text(allowed)])
    example = ""
    if allowed is not None and late:
        # an earlier, wider declaration under which the field's example is validated; the later one is what counts
        rows.append(["D", "Allowed characters", "0..."])
        good = TYPES[ftype][1]
        fits = (len(good) <= length[0][0]) if fmt == "fixed" else (length is None or any((lo is None or lo <= len(good)) and (hi is None or len(good) <= hi) for lo, hi in length))
        if ftype.startswith("Decimal") and fmt == "fixed":
            fits = False
        example = good if fits else ""
    rows.append(["F", "f", example, "X" if empty else "", V.items_text(length), ftype.split(":")[0], rule])
    if allowed is not None and late:
        rows.append(["D", "Allowed characters", V.items_text(allowed)])
    cid = interface.Cid()
    cid.read("<c03>", rows)
    return cid.field_formats[0]


def observe(field, cell):
    calls = []
    original = field.validated_value

    def recording(value):
        try:
            result = original(value)
            calls.append([value, True])
            return result
        except errors.FieldValueError:
            calls.append([value, False])
            raise

    field.validated_value = recording
    try:
        value = field.validated(cell)
        ok, leak = True, None
    except errors.FieldValueError:
        value, ok, leak = None, False, None
    except Exception as e:  # noqa
        value, ok, leak = None, False, type(e).__name__
    finally:
        del field.validated_value
    return {"ok": ok, "calls": calls, "leak": leak, "is_empty_value": ok and not calls and value == field.empty_value}


def make_case(inp):
    fmt, ftype, empty, length, allowed, cell = inp
    try:
        import zlib
        field = build_field(fmt, ftype, empty, length, allowed, late=bool(zlib.crc32(repr(inp).encode("utf-8")) & 1))
    except errors.InterfaceError as e:
        obs = {"declaration_refused": str(e)[:120]}
        return {"coq": P(P("false", "None", "true", "None", "None", "[]"), P("true", "None")), "obs": obs, "nontrivial": False, "tags": ["declaration-refused"]}
    obs = observe(field, cell)
    hook = obs["calls"][0] if obs["calls"] else None
    hook_coq = "None" if hook is None else "(Some (%s, %s))" % (S(hook[0]), B(hook[1]))
    coq_in = P(B(fmt == "fixed"), V.coq_range(allowed), B(empty), V.coq_range(length), hook_coq, S(cell))
    coq_obs = P(B(obs["ok"]), O(hook[0] if hook else None, S))
    tags = [fmt, ftype, "accepted" if obs["ok"] else "rejected", "hook-called" if hook else "hook-not-called"]
    return {"coq": P(coq_in, coq_obs), "obs": obs, "nontrivial": cell != "", "tags": tags}


def inside(items, v):
    return items is None or any((lo is None or lo <= v) and (hi is None or v <= hi) for lo, hi in items)


def direct_oracle(inp, obs):
    if "declaration_refused" in obs:
        return None
    fmt, ftype, empty, length, allowed, cell = inp
    if obs["leak"]:
        return "non-cutplace exception %s from validated()" % obs["leak"]
    if len(obs["calls"]) > 1:
        return "validated_value called %d times" % len(obs["calls"])
    bad_char = any(not inside(allowed, ord(ch)) for ch in cell)
    blank = (cell.strip() == "") if fmt == "fixed" else (cell == "")
    if bad_char:
        if obs["ok"] or obs["calls"]:
            return "cell with a disallowed character was accepted or reached the type's rule"
        return None
    if blank:
        if obs["calls"]:
            return "the rule was consulted for an empty cell"
        width_ok = fmt != "fixed" or length is None or len(cell) <= length[0][0]
        if obs["ok"] != (empty and width_ok):
            return "empty cell %r: accepted=%s although the field %s be empty" % (cell, obs["ok"], "may" if empty else "must not")
        if obs["ok"] and not obs["is_empty_value"]:
            return "accepted empty cell did not yield the type's empty value"
        return None
    too = (len(cell) > length[0][0]) if (fmt == "fixed" and length is not None) else not inside(length, len(cell))
    if ftype.startswith("Decimal") and fmt != "fixed":
        too = not inside(length, len(cell))
    if too and (obs["ok"] or obs["calls"]):
        return "cell %r of length %d outside the declared length was accepted or reached the type's rule" % (cell, len(cell))
    if not too and not obs["calls"]:
        return "cell %r passed all guards but the type's rule was not consulted" % cell
    return None


def gen_inputs(tier, rnd):
    for fmt, ftype, empty, allowed in itertools.product(FORMATS, TYPES, (False, True), ALLOWED):
        lengths = [[[3, 3]], [[8, 8]], [[2, 2]]] if fmt == "fixed" else LENGTHS
        for length in lengths:
            good = TYPES[ftype][1]
            cells = ["", good, good[:1], good + "x" * 9] + BLANKS
            if ftype.split(":")[0] in ("Integer", "Decimal"):
                cells += SPELLINGS     # other spellings of numbers the rule accepts: longer or shorter than the value
            for p in range(len(good)):
                cells.append(good[:p] + "~" + good[p + 1:])
                cells.append(good[:p] + "\x7f" + good[p:])
            if fmt == "fixed":
                w = length[0][0]
                cells += [(good + " " * w)[:max(w, len(good))], " " * w, " " * (w + 1), good + " ",
                          " " + good, (" " * w + good)[-max(w, len(good)):], "\t" + good[:1] + " "]
            for cell in cells:
                yield [fmt, ftype, empty, length, allowed, cell]
