"""C08 - validation outcomes do not depend on what the CID was used for before."""
import io
import itertools

import os

from cutplace import interface, rowio, validio

import vcommon as V
from common import B, L, Nat, O, P, S

MODEL_FILES = ["Model/Validio.v", "Model/ValidioInst.v", "Model/History.v", "Corr/Obs.v"]
HEADER = V.HEADER + """From CP Require Import Model.History.
Definition run (i : cid cstate * list op) : list outcome_obs :=
  let '(c, h) := i in map outcome_obs_of (run_history c (resets (c_checks c)) h)."""
CASE_TYPE = "(cid cstate * list op) * list outcome_obs"
MODEL = "run"
EQB = "(list_eqb outcome_obs_eqb)"
SHARD = 150
RULE = ("all sequences of up to 3 (quick) / 4 (thorough) operations over a 9-operation alphabet - read clean file, read "
        "file with a duplicate (raise and yield), read and abandon after 1 or 2 outputs, read without close, write rows "
        "with a duplicate (with and without close), validate with limit 0 - plus five 'late finalisation' operations (an abandoned reader or an open writer is closed only after j outputs of the next run), alone and before/after every other operation - and, under CIDs with a header row, every operation followed by a run whose validation limit ends inside the header - on one CID (key field, IsUnique, "
        "DistinctCount count <= 2) over data sets sharing key values, exhaustively; plus random longer histories over "
        "random CIDs. A variant constructs all Reader objects before the first operation runs (construction must not touch the checks). Every operation's outcome is also compared with the same operation on a freshly loaded CID in "
        "the implementation itself. Non-trivial: a history of at least 2 operations. Distinct = distinct history.")
EXHAUSTIVE = {"quick": True, "thorough": True}
TRUSTED = ["row readers deliver the logical rows (C12/C13)", "generator finalisation (GeneratorExit at the yield inside `with Reader`) behaves as CPython 3.12 does"]
ASSUMPTIONS = ["operations are the public API calls cutplace.rows / cutplace.validate / Reader.rows / Writer on one shared Cid object"]

SPEC = {"format": "delimited", "header": 0,
        "fields": [{"name": "k", "empty": False, "type": "Text", "choices": [], "length": None},
                   {"name": "v", "empty": True, "type": "Choice", "choices": ["x", "y"], "length": None}],
        "checks": [{"kind": "unique", "cols": [0]}, {"kind": "distinct", "col": 0, "op": "<=", "n": 2}]}
CLEAN = [["a", "x"], ["b", "y"]]
DUP = [["a", "x"], ["b", "x"], ["a", "y"]]
THREE = [["a", "x"], ["b", "y"], ["c", "x"]]   # end check fails (3 distinct keys)
ALPHABET = [
    {"op": "rows", "mode": "raise", "limit": None, "table": CLEAN},
    {"op": "rows", "mode": "raise", "limit": None, "table": DUP},
    {"op": "rows", "mode": "yield", "limit": None, "table": DUP},
    {"op": "abandon", "mode": "raise", "limit": None, "table": THREE, "k": 1},
    {"op": "abandon", "mode": "yield", "limit": None, "table": DUP, "k": 2},
    {"op": "noclose", "mode": "raise", "limit": None, "table": THREE},
    {"op": "write", "rows": [["a", "x"], ["a", "y"], ["b", "q"], ["c", "x"]], "close": False},
    {"op": "write", "rows": [["b", "x"], ["c", "y"], ["d", "x"]], "close": True},
    {"op": "validate", "limit": 0, "table": CLEAN},
    {"op": "write", "rows": [], "close": True},      # an empty export: the end check sees no rows at all
    {"op": "rows", "mode": "yield", "limit": None, "table": [["k" * 300, "x"], ["b", "y"], ["k" * 300, "y"]]},   # very long key values
]
# an earlier run left unfinished and finalized in the middle of this one (after j outputs)
LATE = [
    {"op": "late", "first": {"kind": "read", "mode": "raise", "limit": None, "table": THREE, "k": 1}, "mode": "yield", "limit": None, "table": DUP, "j": 1},
    {"op": "late", "first": {"kind": "read", "mode": "yield", "limit": None, "table": DUP, "k": 2}, "mode": "raise", "limit": None, "table": DUP, "j": 2},
    {"op": "late", "first": {"kind": "write", "rows": [["a", "x"], ["b", "y"]]}, "mode": "yield", "limit": None, "table": DUP, "j": 2},
    {"op": "late", "first": {"kind": "read", "mode": "raise", "limit": None, "table": CLEAN, "k": 1}, "mode": "raise", "limit": None, "table": THREE, "j": 2},
    {"op": "late", "first": {"kind": "write", "rows": [["a", "x"]]}, "mode": "continue", "limit": None, "table": THREE, "j": 1},
]


# the same with one header row: a validation limit that ends inside the header validates nothing, yet the run is a run
# like any other (checks reset at its start, end checks on what it saw - nothing)
SPEC_H = dict(SPEC, header=1)
LIMITED = [
    {"op": "rows", "mode": "raise", "limit": 1, "table": THREE},
    {"op": "validate", "limit": 1, "table": THREE},
    {"op": "rows", "mode": "yield", "limit": 1, "table": DUP},
    {"op": "noclose", "mode": "raise", "limit": 1, "table": THREE},
]
SPEC_GE = dict(SPEC, header=1, checks=[{"kind": "unique", "cols": [0]}, {"kind": "distinct", "col": 0, "op": ">=", "n": 2}])


def canon_outs(outs, spec):
    return [{"err": V.canon_error(o, spec)} if isinstance(o, Exception) else {"row": list(o)} for o in outs]


def prepare(cid, spec, op):
    """construct the Reader of a read operation ahead of time (construction must have no effect on the checks)"""
    if op["op"] not in ("rows", "noclose"):
        return None
    text = V.encode(spec, op["table"], broken_tail=op.get("fault", False))
    stream = io.StringIO(text, newline="")
    reader = validio.Reader(cid, stream, on_error=op["mode"], validate_until=op["limit"])
    reader._c08_stream = stream
    return reader


def do_op(cid, spec, op, pre=None):
    res = {"outs": [], "raised": None, "writes": [], "emitted": []}
    kind = op["op"]
    if kind in ("rows", "abandon", "noclose", "validate", "late", "byhand"):
        text = V.encode(spec, op["table"], broken_tail=op.get("fault", False))
        stream = io.StringIO(text, newline="")
    try:
        if kind == "rows" and pre is not None:
            outs = []
            try:
                with pre:
                    for r in pre.rows():
                        outs.append(r)
            finally:
                res["outs"] = canon_outs(outs, spec)
        elif kind == "rows":
            outs = []
            try:
                for r in validio.rows(cid, stream, on_error=op["mode"], validate_until=op["limit"]):
                    outs.append(r)
            finally:
                res["outs"] = canon_outs(outs, spec)
        elif kind == "validate":
            validio.validate(cid, stream, validate_until=op["limit"])
        elif kind == "abandon":
            gen = validio.rows(cid, stream, on_error=op["mode"], validate_until=op["limit"])
            outs = []
            try:
                for r in itertools.islice(gen, op["k"]):
                    outs.append(r)
            finally:
                res["outs"] = canon_outs(outs, spec)
            gen.close()
        elif kind == "noclose":
            reader = pre if pre is not None else validio.Reader(cid, stream, on_error=op["mode"], validate_until=op["limit"])
            if pre is None:
                reader._c08_stream = stream
            res["reader"] = reader
            outs = []
            try:
                for r in reader.rows():
                    outs.append(r)
            finally:
                res["outs"] = canon_outs(outs, spec)
        elif kind == "byhand":
            # a Reader used without `with`: the pass (also one that cannot start), then close() by hand
            reader = validio.Reader(cid, stream, on_error=op["mode"], validate_until=op["limit"])
            outs = []
            try:
                for r in reader.rows():
                    outs.append(r)
            except Exception as e:  # noqa
                res["raised"] = V.canon_error(e, spec)
            res["outs"] = canon_outs(outs, spec)
            try:
                reader.close()
                res["writes"].append(None)
            except Exception as e:  # noqa
                res["writes"].append(V.canon_error(e, spec))
            return res
        elif kind == "late":
            first = op["first"]
            if first["kind"] == "read":
                text1 = V.encode(spec, first["table"])
                gen1 = validio.rows(cid, io.StringIO(text1, newline=""), on_error=first["mode"], validate_until=first["limit"])
                try:
                    for _ in itertools.islice(gen1, first["k"]):
                        pass
                except Exception:  # noqa
                    pass
                finalize = gen1.close
            else:
                writer1 = validio.Writer(cid, io.StringIO())
                for row in first["rows"]:
                    try:
                        writer1.write_row(list(row))
                    except Exception:  # noqa
                        pass

                def finalize():
                    try:
                        writer1.close()
                    except Exception:  # noqa
                        pass
            gen2 = validio.rows(cid, stream, on_error=op["mode"], validate_until=op["limit"])
            outs = []
            try:
                for r in itertools.islice(gen2, op["j"]):
                    outs.append(r)
                finalize()      # the earlier run is finalized only now, in the middle of this one
                for r in gen2:
                    outs.append(r)
            finally:
                res["outs"] = canon_outs(outs, spec)
                finalize()
        elif kind == "write":
            target = io.StringIO()
            writer = validio.Writer(cid, target)
            for row in op["rows"]:
                try:
                    writer.write_row(list(row))
                    res["writes"].append(None)
                except Exception as e:  # noqa
                    res["writes"].append(V.canon_error(e, spec))
            text = target.getvalue()
            if op["close"]:
                try:
                    writer.close()
                except Exception as e:  # noqa
                    res["raised"] = V.canon_error(e, spec)
            res["emitted"] = [list(r) for r in rowio.delimited_rows(io.StringIO(text, newline=""), cid.data_format)]
    except Exception as e:  # noqa
        res["raised"] = V.canon_error(e, spec)
    return res


def coq_op(spec, op):
    kind = op["op"]
    if kind == "write":
        return "(OpWrite %s %s)" % (L(op["rows"], lambda r: L(r, S)), B(op["close"]))
    cid = V.build_cid(spec)
    raws, fault = V.raw_rows(cid, spec, V.encode(spec, op["table"], broken_tail=op.get("fault", False)))
    R = L(raws, lambda r: L(r, S))
    if kind == "rows":
        return "(OpRows %s %s %s %s)" % (V.MODES[op["mode"]], O(op["limit"], Nat), R, B(fault))
    if kind == "validate":
        return "(OpValidate %s %s %s)" % (O(op["limit"], Nat), R, B(fault))
    if kind == "late":
        first = op["first"]
        if first["kind"] == "read":
            raws1, _ = V.raw_rows(cid, spec, V.encode(spec, first["table"]))
            F = "(LFRead %s %s %s %s)" % (V.MODES[first["mode"]], O(first["limit"], Nat), L(raws1, lambda r: L(r, S)), Nat(first["k"]))
        else:
            F = "(LFWrite %s)" % L(first["rows"], lambda r: L(r, S))
        return "(OpLate %s %s %s %s %s %s)" % (F, V.MODES[op["mode"]], O(op["limit"], Nat), R, B(fault), Nat(op["j"]))
    if kind == "byhand":
        return "(OpByHand %s %s %s %s)" % (V.MODES[op["mode"]], O(op["limit"], Nat), R, B(fault))
    if kind == "abandon":
        return "(OpAbandon %s %s %s %s %s)" % (V.MODES[op["mode"]], O(op["limit"], Nat), R, B(fault), Nat(op["k"]))
    return "(OpNoClose %s %s %s %s)" % (V.MODES[op["mode"]], O(op["limit"], Nat), R, B(fault))


def coq_outcome(o):
    return P(L(o["outs"], V.coq_out), O(o["raised"], V.coq_err), L(o["writes"], lambda e: O(e, V.coq_err)), L(o["emitted"], lambda r: L(r, S)))


def ods_file(path, sheets):
    """an ODS document with the given sheets (lists of rows of plain text cells)"""
    import props.c15 as c15
    def cell(v):
        return {"rep": None, "paras": [[("t", v)]] if v else []}
    tables = [[{"rep": None, "cells": [cell(v) for v in row]} for row in sheet] for sheet in sheets]
    c15.write_ods(path, c15.xml_doc(tables, "UTF-8").encode("utf-8"))


def container_run(cid, path):
    """a Reader on a spreadsheet document, used without `with`: the rows, the error that ended reading, and what
    close() - called by hand, also after a failed pass - says"""
    res = {"outs": [], "raised": None, "closed": None}
    reader = validio.Reader(cid, path, on_error="yield")
    try:
        for r in reader.rows():
            res["outs"].append(type(r).__name__ if isinstance(r, Exception) else list(r))
    except Exception as e:  # noqa
        res["raised"] = type(e).__name__
    try:
        reader.close()
    except Exception as e:  # noqa
        res["closed"] = type(e).__name__
    return res


def container_history(inp):
    """histories over spreadsheet documents of which some cannot be read (the sheet the CID names is missing)"""
    import common as C
    tmp = os.path.join(C.BUILD, "C08", "tmp")
    os.makedirs(tmp, exist_ok=True)
    rows = [["D", "Format", inp["fmt"]], ["D", "Sheet", "2"], ["F", "k"], ["F", "v"], ["C", "enough", "DistinctCount", "k >= 2"], ["C", "once", "IsUnique", "k"]]
    def cid():
        c = interface.Cid()
        c.read("<c08>", [list(r) for r in rows])
        return c
    paths = []
    for i, sheets in enumerate(inp["files"]):
        p = os.path.join(tmp, "h%d_%d.ods" % (os.getpid(), i))
        ods_file(p, sheets)
        paths.append(p)
    shared = cid()
    got = [container_run(shared, p) for p in paths]
    fresh = [container_run(cid(), p) for p in paths]
    for p in paths:
        os.remove(p)
    return got, fresh


def late_check(inp):
    """a CID built through the API that gets a further check after a Reader for it exists; another run in between; then
    that Reader's run: it is a run like any other over the CID as it is now"""
    base = [["D", "Format", "Delimited"], ["F", "k"], ["F", "v"]]
    check = list(inp["check"])

    def run(reader):
        res = {"outs": [], "raised": None, "closed": None}
        try:
            for r in reader.rows():
                res["outs"].append(type(r).__name__ if isinstance(r, Exception) else list(r))
        except Exception as e:  # noqa
            res["raised"] = type(e).__name__
        try:
            reader.close()
        except Exception as e:  # noqa
            res["closed"] = type(e).__name__
        return res

    def text(table):
        return "".join(",".join(r) + "\n" for r in table)
    cid = interface.Cid()
    cid.read("<c08>", [list(r) for r in base])
    early = validio.Reader(cid, io.StringIO(text(inp["a"]), newline=""), on_error="yield")
    cid.add_check_row(list(check))
    if inp.get("between") is not None:
        between = validio.Reader(cid, io.StringIO(text(inp["between"]), newline=""), on_error="yield")
        if inp.get("between_closed"):
            run(between)
        else:
            for _ in between.rows():
                pass
    got = run(early)
    fresh_cid = interface.Cid()
    fresh_cid.read("<c08>", [list(r) for r in base] + [["C"] + check])
    fresh = run(validio.Reader(fresh_cid, io.StringIO(text(inp["a"]), newline=""), on_error="yield"))
    return [got], [fresh]


def make_case(inp):
    if inp.get("kind") == "latecheck":
        got, fresh = late_check(inp)
        return {"coq": P(P(V.coq_cid(SPEC), "[]"), "[]"), "obs": {"got": got, "fresh": fresh}, "nontrivial": True, "tags": ["check-added-after-reader"]}
    if inp.get("kind") == "container":
        got, fresh = container_history(inp)
        return {"coq": P(P(V.coq_cid(SPEC), "[]"), "[]"), "obs": {"got": got, "fresh": fresh}, "nontrivial": True, "tags": ["container-history", inp["fmt"]]}
    spec, history = inp["spec"], inp["history"]
    cid = V.build_cid(spec)
    pres = [prepare(cid, spec, op) if inp.get("pre") and not op.get("same_reader") else None for op in history]
    outcomes = []
    last_reader = None
    for op, pre in zip(history, pres):
        if op.get("same_reader") and last_reader is not None:
            # the Reader of the previous operation reads its data another time (rows() says it may): the stream is
            # rewound, everything else is left as the previous pass left it
            last_reader._c08_stream.seek(0)
            pre = last_reader
        oc = do_op(cid, spec, op, pre)
        last_reader = oc.pop("reader", None)
        outcomes.append(oc)
    coq = P(P(V.coq_cid(spec), L(history, lambda op: coq_op(spec, op))), L(outcomes, coq_outcome))
    tags = ["len%d" % len(history)] + sorted({op["op"] for op in history}) + (["readers-preconstructed"] if inp.get("pre") else []) + (["same-reader-again"] if any(op.get("same_reader") for op in history) else [])
    return {"coq": coq, "obs": outcomes, "nontrivial": len(history) >= 2, "tags": tags}


def strip(o):
    return repr({k: v for k, v in o.items()}).replace("'text': ", "'t': ")


def plain(o):
    def e(x):
        return None if x is None else (x["family"], x["line"], x["cell"], x["field"], tuple(x["see"]) if x["see"] else None)
    return ([("row", tuple(x["row"])) if "row" in x else ("err", e(x["err"])) for x in o["outs"]], e(o["raised"]),
            [e(w) for w in o["writes"]], o["emitted"])


def direct_oracle(inp, obs):
    if inp.get("kind") == "latecheck":
        if obs["got"] != obs["fresh"]:
            return "a Reader created before the check %r was added: %r; a run on a fresh CID with that check: %r" % (inp["check"], obs["got"][0], obs["fresh"][0])
        return None
    if inp.get("kind") == "container":
        for i, (a, b) in enumerate(zip(obs["got"], obs["fresh"])):
            if a != b:
                return "spreadsheet run %d after this history: %r; on a fresh CID: %r" % (i, a, b)
        return None
    spec = inp["spec"]
    for i, (op, oc) in enumerate(zip(inp["history"], obs)):
        fresh = do_op(V.build_cid(spec), spec, op)
        fresh.pop("reader", None)
        if plain(fresh) != plain(oc):
            return "operation %d (%s) after this history: %r; on a fresh CID: %r" % (i, op["op"], plain(oc), plain(fresh))
    return None


def gen_inputs(tier, rnd):
    maxlen = 3 if tier == "quick" else 4
    for n in range(1, maxlen + 1):
        for hist in itertools.product(ALPHABET, repeat=n):
            yield {"spec": SPEC, "history": list(hist)}
            if n <= 2 or (tier != "quick" and n <= 3):
                yield {"spec": SPEC, "history": list(hist), "pre": True}
    for spec in (SPEC_H, SPEC_GE):
        for first in ALPHABET:
            for second in LIMITED:
                yield {"spec": spec, "history": [first, second]}
                yield {"spec": spec, "history": [first, second, first]}
    # a check added to the CID after a Reader for it was created
    one, three, dupk = [["a", "1"], ["a", "2"]], [["a", "1"], ["b", "2"], ["c", "3"]], [["a", "1"], ["b", "2"], ["a", "3"]]
    for check in (["enough", "DistinctCount", "k >= 2"], ["few", "DistinctCount", "k < 3"], ["once", "IsUnique", "k"]):
        for a in (one, three, dupk, []):
            for between, closed in ((None, False), (three, True), (three, False), (one, True), (dupk, False)):
                yield {"kind": "latecheck", "check": check, "a": a, "between": between, "between_closed": closed}
    # spreadsheet documents, some of which cannot be read (the CID names sheet 2): a failed pass is a run like any other
    two = [[["x", "1"]], [["a", "1"], ["b", "2"]]]
    one = [[["a", "1"], ["b", "2"]]]
    dup = [[["x", "1"]], [["a", "1"], ["a", "2"], ["b", "3"]]]
    few = [[["x", "1"]], [["a", "1"]]]
    for files in ([two, one], [two, one, two], [one, two], [dup, one, few], [few, one, one, two], [two, few, one]):
        yield {"kind": "container", "fmt": "ods", "files": files}
    # one Reader reading its data several times (header x limit x mode): every pass is a run like the first
    for spec in (SPEC, SPEC_H, dict(SPEC, header=2), SPEC_GE):
        for limit in (None, 0, 1, 2, 3, 4, 5, 6):
            for mode in ("yield", "continue", "raise"):
                for table in (DUP, THREE):
                    table = [["head", "x"]] * spec.get("header", 0) + table      # the header rows stand before the data
                    one = {"op": "noclose", "mode": mode, "limit": limit, "table": table}
                    again = dict(one, same_reader=True)
                    yield {"spec": spec, "history": [one, again, again]}
    # a Reader used without `with` and closed by hand, also when its pass cannot even start (an unterminated quote in
    # the first row): the end checks are judged on what this pass saw
    hand = [{"op": "byhand", "mode": m, "limit": None, "table": t, "fault": f}
            for m in ("raise", "yield") for t, f in (([], True), (CLEAN, False), (DUP, False), (THREE, False), (THREE, True), ([], False))]
    for spec in (SPEC, SPEC_GE):
        for one in hand:
            yield {"spec": spec, "history": [one]}
            for other in ALPHABET[:6]:
                yield {"spec": spec, "history": [other, one]}
                yield {"spec": spec, "history": [other, one, other]}
    for late in LATE:
        yield {"spec": SPEC, "history": [late]}
        for other in ALPHABET:
            yield {"spec": SPEC, "history": [other, late]}
            yield {"spec": SPEC, "history": [late, other]}
    for _ in range(60 if tier == "quick" else 1500):
        spec = V.gen_spec(rnd, fmt="delimited", header=rnd.choice([0, 0, 1]))
        hist = []
        for _ in range(rnd.randint(2, 6 if tier == "quick" else 12)):
            k = rnd.choice(["rows", "rows", "validate", "abandon", "noclose", "write", "late", "byhand"])
            if k == "late":
                if rnd.random() < 0.6:
                    first = {"kind": "read", "mode": rnd.choice(["raise", "yield", "continue"]), "limit": rnd.choice([None, None, 1]),
                             "table": V.gen_table(rnd, spec), "k": rnd.randint(0, 3)}
                else:
                    first = {"kind": "write", "rows": V.gen_table(rnd, spec, ragged=True)}
                hist.append({"op": "late", "first": first, "mode": rnd.choice(["raise", "yield", "continue"]), "limit": rnd.choice([None, None, 2]),
                             "table": V.gen_table(rnd, spec), "fault": rnd.random() < 0.15, "j": rnd.randint(0, 4)})
            elif k == "write":
                hist.append({"op": "write", "rows": [r for r in V.gen_table(rnd, spec, ragged=True) if True], "close": rnd.random() < 0.5})
            else:
                op = {"op": k, "mode": rnd.choice(["raise", "yield", "continue"]), "limit": rnd.choice([None, None, 0, 1, 3]),
                      "table": V.gen_table(rnd, spec), "fault": rnd.random() < 0.15}
                if k == "abandon":
                    op["k"] = rnd.randint(0, 4)
                hist.append(op)
                if k == "noclose" and rnd.random() < 0.5:
                    hist.append(dict(op, same_reader=True))
        yield {"spec": spec, "history": hist, "pre": rnd.random() < 0.3}
