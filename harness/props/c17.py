"""C17 - the storage format of CID and data does not change the verdict.
One case = one logical CID (rows of text cells, as C09 generates them) and one logical table of text cells.
The CID is stored as CSV, ODS (the harness's ODF encoder of C15) and XLSX (xlsxwriter) and loaded with cutplace.Cid(path);
the table is stored as delimited text, ODS and XLSX and validated with cutplace.rows(on_error='yield') under CIDs that differ
only in their Format property.  Model: cid_read on the logical rows (Model/Cid.v) for the CID part, guards + type hooks
(Model/Fields.v, Model/FieldTypes.v) per cell and format for the data part."""
import csv
import io
import os
import shutil

import xlsxwriter

import cutplace
from cutplace import errors, interface

import common as C
import props.c02 as c02
import props.c09 as c09
import props.c15 as c15
from common import B, L, Nat, O, P, S

MODEL_FILES = ["Model/Cid.v", "Model/FieldTypes.v", "Model/Fields.v"]
HEADER = c09.HEADER.replace("Definition ood", "Definition ood09") + """
From CP Require Import Model.Dec Model.DecRange.
(* ----- data part: per format kind, per row, per cell *)
Inductive cres := CAccEmpty | CHook (r : hres) | CRejected.
Definition cell_result (k : fmtkind) (allowed : range) (d : fdecl) (cell : text) : option cres :=
  match declare {| fd_type := fd_type d; fd_kind := k; fd_df := fd_df d; fd_empty := fd_empty d; fd_length := fd_length d; fd_rule := fd_rule d |} with
  | DeclOk h =>
      match (match fd_type d with TDecimal => Some None | _ => match range_of_text (fd_length d) with POk r => Some r | _ => None end end) with
      | None => None
      | Some len =>
          (* Decimal fields substitute a DecimalRange for the length; the cases only use the empty length for them *)
          let v := validated {| df_fixed := false; df_excel := false; df_allowed := allowed |}
                             {| f_name := []; f_empty_ok := fd_empty d; f_length := len; f_hook := fun _ => true |} cell in
          if negb (v_ok v) then Some CRejected
          else match v_hook v with None => Some CAccEmpty | Some arg => Some (CHook (h arg)) end
      end
  | _ => None
  end.
Inductive dcase := DataCase (allowed : range) (decls : list fdecl) (table : list (list text)).
Definition run_data (c : dcase) : list (list (list (option cres))) :=
  match c with DataCase allowed decls table =>
    map (fun k => map (fun row => map (fun p => cell_result k allowed (fst p) (snd p)) (combine decls row)) table) [KDelimited; KOds; KExcel]
  end.
Definition value_eqb (a b : value) : bool :=
  match a, b with
  | VInt x, VInt y => Z.eqb x y
  | VDec x, VDec y => dec_same x y
  | VInf x, VInf y => Bool.eqb x y
  | VTime a1 a2 a3 a4 a5 a6, VTime b1 b2 b3 b4 b5 b6 => Z.eqb a1 b1 && Z.eqb a2 b2 && Z.eqb a3 b3 && Z.eqb a4 b4 && Z.eqb a5 b5 && Z.eqb a6 b6
  | VStr x, VStr y => text_eqb x y
  | _, _ => false
  end.
Definition cres_eqb (m : option cres) (e : cres) : bool :=
  match m with
  | None => true
  | Some (CHook HOut) => true
  | Some CAccEmpty => match e with CAccEmpty => true | _ => false end
  | Some CRejected => match e with CRejected => true | CHook HReject => true | _ => false end
  | Some (CHook HReject) => match e with CRejected => true | CHook HReject => true | _ => false end
  | Some (CHook (HOk x)) => match e with CHook (HOk y) => value_eqb x y | _ => false end
  | Some (CHook HLeak) => match e with CHook HLeak => true | _ => false end
  end.
Fixpoint list_eqb2 {A B} (f : A -> B -> bool) (a : list A) (b : list B) : bool :=
  match a, b with
  | [], [] => true
  | x :: a', y :: b' => f x y && list_eqb2 f a' b'
  | _, _ => false
  end.
Inductive c17case := CidPart (c : tcase) | DataPart (c : dcase).
Inductive c17obs := OCid (stored : list tobs) | OData (cells : list (list (list cres))).
Definition run17 (c : c17case) : c17case := c.
Definition obs17_eqb (c : c17case) (e : c17obs) : bool :=
  match c, e with
  | CidPart t, OCid stored => forallb (tobs_eqb (run t)) stored
  | DataPart d, OData cells => list_eqb2 (list_eqb2 (list_eqb2 cres_eqb)) (run_data d) cells
  | _, _ => false
  end.
Definition ood (c : c17case) : nat := match c with CidPart t => ood09 t | DataPart _ => 0%nat end."""
CASE_TYPE = "c17case * c17obs"
MODEL = "run17"
EQB = "obs17_eqb"
OOD = "ood"
SHARD = 60
RULE = ("(a) CID part: the valid CIDs, every rewrite family and a sample of the defect catalogue of C09, each logical CID stored as "
        "CSV (Python csv module), ODS (the C15 encoder with random encoding choices) and XLSX (xlsxwriter, numeric looking cells "
        "stored as numbers half of the time) and loaded with cutplace.Cid(path), the CSV text also through create_cid_from_string() and Cid(stream): the loaded interfaces (or the rows named by "
        "the rejections) are compared with the model's single evaluation on the logical rows and with each other; "
        "(b) data part: CIDs over all field types except Pattern/RegEx with format-neutral properties, tables with accepted cells, "
        "mutated cells, empty cells, numbers written in several spellings, dates incl. the Excel ' 00:00:00' form, stored as "
        "delimited text, ODS and XLSX, validated with cutplace.rows(on_error='yield') under CIDs differing only in Format; per cell the "
        "verdict and native value (field.validated) under the three formats against the model; per row the verdicts across formats. "
        "Non-trivial: a CID part whose three loads all happened, or a data part with at least one accepted and one rejected cell. "
        "Distinct = distinct case.")
EXHAUSTIVE = {"quick": False, "thorough": False}
TRUSTED = ["Python's csv module, the C15 ODF encoder and xlsxwriter store the logical cells; rowio readers are C12/C15/C16",
           "Model/Cid.v (C09), Model/FieldTypes.v (C02), Model/Fields.v (C03) as validated by their own checks"]
ASSUMPTIONS = ["Pattern and RegEx fields are compared across formats by the direct oracle only (their hooks need a syntax tree in the model; see C02)",
               "the documented Excel rule (date-only DateTime ignores a trailing ' 00:00:00') is recorded as known finding C17/excel-date-only-suffix"]

TMP = os.path.join(C.BUILD, "C17", "tmp")


# ------------------------------------------------------------------ storing logical rows


def store_csv(path, rows):
    with open(path, "w", newline="", encoding="utf-8") as fh:
        csv.writer(fh).writerows(rows)


def store_ods(path, rows, rnd):
    tables = [c15.enc_table(rnd, rows)]
    xml = c15.xml_doc(tables, "UTF-8")
    c15.write_ods(path, xml.encode("utf-8"))


def looks_numeric(v):
    return v.isdigit() and (v == "0" or not v.startswith("0")) and len(v) < 15


def store_xlsx(path, rows, rnd, numbers=True):
    wb = xlsxwriter.Workbook(path)
    ws = wb.add_worksheet()
    for y, row in enumerate(rows):
        for x, v in enumerate(row):
            if numbers and looks_numeric(v) and rnd.random() < 0.5:
                ws.write_number(y, x, int(v))
            else:
                ws.write_string(y, x, v)
    wb.close()


def load_cid(path):
    return load_cid_with(lambda: interface.Cid(path))


def load_cid_with(loader):
    try:
        cid = loader()
        return {"accepted": c09.summary(cid)}
    except errors.InterfaceError as e:
        m = c09.ROW_RE.search(str(e))
        return {"rejected": int(m.group(1)) - 1 if m else None, "msg": str(e)[:160]}
    except Exception as e:  # noqa
        return {"leak": type(e).__name__, "msg": str(e)[:160]}


def coq_tobs(obs):
    if "accepted" in obs:
        return c09.coq_summary(obs["accepted"])
    if "rejected" in obs:
        return "(ORejected %s)" % O(obs["rejected"], Nat)
    return "OLeak"


# ------------------------------------------------------------------ data part

DATA_TYPES = {
    "Integer": (["", "0...99", "-5...5"], ["12", "7", "-3", "+4", " 5", "007", "1_0", "100", "x", "1.0", "", "99999999999"]),
    "Decimal": (["", "0...10", "-1.5...1.5"], ["0.5", "2.50", "1,5", "1,000.5", "10", "10.01", "-1.5", "1e1", "NaN", "", "abc", "٣", "2.0", "1.00"]),
    "Choice": (["red, green", '"a b", c', '"1.0", "2"'], ["red", "Red", "green", "a b", "c", "", "blue", " red", "1.0", "1", "2", "2.0"]),
    "Constant": (["x"], ["x", "X", "", "xx"]),
    "DateTime": (["DD.MM.YYYY", "YYYY-MM-DD", "YYYY-MM-DD hh:mm:ss", "hh:mm"], ["01.02.2003", "2003-02-01", "2003-02-01 00:00:00", "01.02.2003 00:00:00",
                                                                                "2003-02-01 04:05:06", "23:59", "29.02.2001", "31.04.2000", "", "x", "00:00:00", "23:59 00:00:00"]),
    "Text": ([""], ["some", " ", "ä€", "", "a\nb", "a\rb", "a\r\nb", "x" * 50, "1.0", "v2.0", "7", "TRUE", "2003-02-01"]),
}


def gen_data_case(rnd):
    n = rnd.randint(1, 5)
    decls = []
    for i in range(n):
        ftype = rnd.choice(list(DATA_TYPES))
        rule = rnd.choice(DATA_TYPES[ftype][0])
        empty = rnd.random() < 0.4 and ftype != "Constant"
        length = "" if ftype in ("Decimal", "Constant") or (ftype == "Integer" and rule) else rnd.choice(["", "", "1...", "...10", "2...12"])
        decls.append({"name": "f%d" % i, "type": ftype, "rule": rule, "empty": empty, "length": length})
    allowed = rnd.choice([None, None, "32...", "32...126"])
    header = rnd.choice([0, 0, 1, 2])
    table = []
    for _ in range(rnd.randint(1, 6)):
        table.append([rnd.choice(DATA_TYPES[d["type"]][1]) for d in decls])
    return {"decls": decls, "allowed": allowed, "header": header, "table": table, "multiline_header": header > 0 and rnd.random() < 0.5}


def cid_rows_for(fmt, case):
    rows = [["D", "Format", fmt], ["D", "Encoding", "utf-8"]]
    if case["header"]:
        rows.append(["D", "Header", str(case["header"])])
    if case["allowed"]:
        rows.append(["D", "Allowed characters", case["allowed"]])
    for d in case["decls"]:
        rows.append(["F", d["name"], "", "X" if d["empty"] else "", d["length"], d["type"], d["rule"]])
    return rows


def observe_data(case, rnd):
    out = {}
    # header rows are rows, not lines: a title cell may hold a line break
    stored = [[("title\nof h%d" if case.get("multiline_header") else "h%d") % i for i in range(len(case["decls"]))]] * case["header"] + case["table"]
    for fmt, ext in (("delimited", "csv"), ("ods", "ods"), ("excel", "xlsx")):
        path = os.path.join(TMP, "data_%d.%s" % (os.getpid(), ext))
        if fmt == "delimited":
            store_csv(path, stored)
        elif fmt == "ods":
            store_ods(path, stored, rnd)
        else:
            store_xlsx(path, stored, rnd, numbers=False)
        rec = {"rows": [], "cells": []}
        try:
            cid = interface.Cid()
            cid.read("c17", cid_rows_for(fmt, case))
            for r in cutplace.rows(cid, path, on_error="yield"):
                if isinstance(r, Exception):
                    rec["rows"].append(["err", type(r).__name__])
                else:
                    rec["rows"].append(["ok", list(r)])
                    r.append("mine now")      # what a consumer does with a row it was handed changes nothing else
            for row in case["table"]:
                rec["cells"].append([cell_outcome(cid.field_formats[i], v) for i, v in enumerate(row)])
        except Exception as e:  # noqa
            rec["failure"] = "%s: %s" % (type(e).__name__, str(e)[:120])
        os.remove(path)
        out[fmt] = rec
    return out


def cell_outcome(field, cell):
    try:
        v = field.validated(cell)
        if cell == "":
            return ["empty"]
        return ["ok", c02.canon_value(v)]
    except errors.FieldValueError:
        return ["reject"]
    except Exception as e:  # noqa
        return ["leak", type(e).__name__]


def coq_cres(o):
    if o[0] == "empty":
        return "CAccEmpty"
    if o[0] == "reject":
        return "CRejected"
    return "(CHook %s)" % c02.coq_hres(o)


def coq_fdecl(d):
    return ("{| fd_type := T%s; fd_kind := KDelimited; fd_df := {| dsep := [46%%N]; tsep := [] |}; fd_empty := %s; fd_length := %s; fd_rule := %s |}"
            % (d["type"], B(d["empty"]), S(d["length"]), S(d["rule"])))


def allowed_items(text):
    if not text:
        return "None"
    items = []
    for part in text.split(","):
        lo, hi = part.strip().split("...")
        items.append("(%s, %s)" % ("(Some (%s)%%Z)" % lo if lo else "None", "(Some (%s)%%Z)" % hi if hi else "None"))
    return "(Some [%s])" % "; ".join(items)


# ------------------------------------------------------------------ cases


def make_case(inp):
    os.makedirs(TMP, exist_ok=True)
    import random
    rnd = random.Random(inp["seed"])
    if inp["kind"] == "cid":
        rows = inp["rows"]
        obs = {}
        for ext in ("csv", "ods", "xlsx"):
            # the suffix names the container whatever its spelling (CID.ODS, Cid.Xlsx); a third of the cases each
            spelled = (ext, ext.upper(), ext.capitalize())[rnd.randrange(3)]
            path = os.path.join(TMP, "cid_%d.%s" % (os.getpid(), spelled))
            if ext == "csv":
                store_csv(path, rows)
            elif ext == "ods":
                store_ods(path, rows, rnd)
            else:
                store_xlsx(path, rows, rnd)
            obs[ext] = load_cid(path)
            os.remove(path)
        if not any("\r" in c for r in rows for c in r):
            # the other ways to hand over the same CSV text: as a string and as an open text stream
            buf = io.StringIO(newline="")
            csv.writer(buf, lineterminator="\n").writerows(rows)
            obs["csv-string"] = load_cid_with(lambda: interface.create_cid_from_string(buf.getvalue()))
            obs["csv-stream"] = load_cid_with(lambda: interface.Cid(io.StringIO(buf.getvalue(), newline="")))
        coq_in = "(CidPart (CidCase %s %s))" % (c09.coq_env(), L(rows, lambda r: L(r, S)))
        coq_obs = "(OCid %s)" % L([obs["csv"], obs["ods"], obs["xlsx"]], coq_tobs)
        kinds = sorted({("accepted" if "accepted" in o else "rejected" if "rejected" in o else "leak") for o in obs.values()})
        return {"coq": P(coq_in, coq_obs), "obs": obs, "nontrivial": all("leak" not in o for o in obs.values()), "tags": ["cid"] + kinds + [inp.get("what", "")]}
    obs = observe_data(inp["case"], rnd)
    case = inp["case"]
    coq_in = "(DataPart (DataCase %s %s %s))" % (allowed_items(case["allowed"]), L(case["decls"], coq_fdecl), L(case["table"], lambda r: L(r, S)))
    cells = [obs[f].get("cells", []) for f in ("delimited", "ods", "excel")]
    coq_obs = "(OData %s)" % L(cells, lambda t: L(t, lambda r: L(r, coq_cres)))
    flat = [c[0] for t in cells for r in t for c in r]
    return {"coq": P(coq_in, coq_obs), "obs": obs, "nontrivial": "ok" in flat and "reject" in flat, "tags": ["data"] + sorted(set(flat))}


def direct_oracle(inp, obs):
    if inp["kind"] == "cid":
        for ext, o in obs.items():
            if "leak" in o and not inp.get("hostile"):
                return "loading the CID stored as %s raised %s (%s)" % (ext, o["leak"], o["msg"])
        keys = []
        for ext in ("csv", "ods", "xlsx", "csv-string", "csv-stream"):
            if ext in obs:
                o = obs[ext]
                keys.append(("accepted", o["accepted"]) if "accepted" in o else ("rejected", o.get("rejected")))
        if any(k != keys[0] for k in keys):
            return "the same CID loads differently from csv / ods / xlsx / CSV text as string / as stream: %r" % (keys,)
        return None
    for fmt, rec in obs.items():
        if "failure" in rec:
            return "validating the table stored as %s failed: %s" % (fmt, rec["failure"])
    base = obs["delimited"]
    for fmt in ("ods", "excel"):
        rec = obs[fmt]
        if [r[0] for r in rec["rows"]] != [r[0] for r in base["rows"]] or rec["rows"] != base["rows"]:
            return "rows of the same table get different verdicts as delimited and as %s: %r vs %r" % (fmt, base["rows"], rec["rows"])
        if rec["cells"] != base["cells"]:
            for y, (a, b) in enumerate(zip(base["cells"], rec["cells"])):
                for x, (ca, cb) in enumerate(zip(a, b)):
                    if ca != cb:
                        return "cell %r of field %s (%s %r) is judged %r as delimited but %r as %s" % (
                            inp["case"]["table"][y][x], inp["case"]["decls"][x]["name"], inp["case"]["decls"][x]["type"], inp["case"]["decls"][x]["rule"], ca, cb, fmt)
    return None


def classify(inp, obs, msg):
    """the open finding: a date-ONLY DateTime rule, a text cell ending in ' 00:00:00', accepted under Excel and rejected under
    the other two formats - and nothing else differs"""
    if inp["kind"] != "data" or not isinstance(msg, str) or any("failure" in r for r in obs.values()):
        return None
    case = inp["case"]
    differing = 0
    for y, row in enumerate(case["table"]):
        for x, v in enumerate(row):
            d, o, e = obs["delimited"]["cells"][y][x], obs["ods"]["cells"][y][x], obs["excel"]["cells"][y][x]
            if d == o == e:
                continue
            decl = case["decls"][x]
            date_only = decl["type"] == "DateTime" and not any(t in decl["rule"] for t in ("hh", "mm", "ss"))
            if not (date_only and v.endswith(" 00:00:00") and d == o == ["reject"] and e[0] == "ok"):
                return None
            differing += 1
    return "C17/excel-date-only-suffix" if differing else None


def gen_inputs(tier, rnd):
    shutil.rmtree(TMP, ignore_errors=True)
    n = 6 if tier == "quick" else 50
    k = 0
    for _ in range(n):
        rows = c09.gen_valid(rnd, fmt=["delimited", "fixed", "excel", "ods"][k % 4])
        k += 1
        yield {"kind": "cid", "rows": rows, "seed": k, "what": "valid"}
        for name, rw in c09.rewrites(rnd, rows):
            if rnd.random() < 0.35:
                k += 1
                yield {"kind": "cid", "rows": rw, "seed": k, "what": "rewrite"}
        for name, bad, at in c09.defects(rnd, rows):
            if rnd.random() < 0.12:
                k += 1
                yield {"kind": "cid", "rows": bad, "seed": k, "what": "defect"}
                if at is not None and at >= 1 and rnd.random() < 0.6:
                    # the same with rows without content before the offending row: every storage names the same row
                    k += 1
                    fill = [[], [""], ["", ""]][k % 3]
                    yield {"kind": "cid", "rows": bad[:1] + [fill, []] + bad[1:], "seed": k, "what": "defect+empty-rows"}
    # every rule of every type against its whole cell pool, one column (systematic), then random multi-column tables
    for ftype, (rules, cells) in DATA_TYPES.items():
        for rule in rules:
            for empty in (False, True):
                if ftype == "Constant" and empty:
                    continue
                k += 1
                yield {"kind": "data", "seed": k, "case": {"decls": [{"name": "f0", "type": ftype, "rule": rule, "empty": empty, "length": ""}],
                                                           "allowed": None, "header": 0, "table": [[c] for c in cells]}}
    m = 60 if tier == "quick" else 600
    for _ in range(m):
        k += 1
        yield {"kind": "data", "case": gen_data_case(rnd), "seed": k}
    # the known finding's minimal input is replayed by the driver; keep one deterministic instance in the stream too
    yield {"kind": "data", "seed": 0, "case": {"decls": [{"name": "f0", "type": "DateTime", "rule": "DD.MM.YYYY", "empty": False, "length": ""}],
                                               "allowed": None, "header": 0, "table": [["01.02.2003 00:00:00"], ["01.02.2003"]]}}
