"""C20 - user-defined field formats and checks are driven by the documented call protocol: the call log of
recording plugin classes (vcommon.RecFieldFormat / RecCheck, resolved by class name through the CID) must equal the
log of Model/Validio.v."""
import io

from cutplace import validio

import vcommon as V
from common import B, L, Nat, O, P, S

MODEL_FILES = ["Model/Validio.v", "Model/ValidioInst.v", "Corr/Obs.v"]
HEADER = V.HEADER + """Inductive run_spec := RRead (m : mode) (limit : option nat) (raws : list (list text)) (fault : bool)
                    | RValidate (limit : option nat) (raws : list (list text)) (fault : bool)   (* cutplace.validate(...) *)
                    | RWrite (rows : list (list text)) (do_close : bool)
                    | RWriteRows (portions : list (list (list text))) (do_close : bool).   (* one write_rows call per portion *)
Fixpoint wlog (c : cid cstate) (w : wstate cstate) (rows : list (list text)) : wstate cstate * list event :=
  match rows with
  | [] => (w, [])
  | row :: rest => let '(w', _, evs) := write_row c w row in let '(wf, evs') := wlog c w' rest in (wf, evs ++ evs')
  end.
(* Writer.write_rows(rows): write_row for each row; the first rejected row ends the call *)
Fixpoint rows_call_log (c : cid cstate) (w : wstate cstate) (rs : list (list text)) : wstate cstate * list event :=
  match rs with
  | [] => (w, [])
  | r :: t => let '(w', e, evs) := write_row c w r in
              match e with
              | Some _ => (w', evs)
              | None => let '(wf, evs') := rows_call_log c w' t in (wf, evs ++ evs')
              end
  end.
Fixpoint plog (c : cid cstate) (w : wstate cstate) (ps : list (list (list text))) : wstate cstate * list event :=
  match ps with
  | [] => (w, [])
  | p :: rest => let '(w', evs) := rows_call_log c w p in let '(wf, evs') := plog c w' rest in (wf, evs ++ evs')
  end.
Definition run_log (c : cid cstate) (r : run_spec) : list event :=
  match r with
  | RRead m limit raws fault => r_log (api_rows c m limit [] raws fault)
  | RValidate limit raws fault => r_log (validate_api c limit [] raws fault)
  | RWrite rows do_close =>
      let '(wf, evs) := wlog c (writer_init c []) rows in
      reset_events (length (c_checks c)) 0 ++ evs ++ (if do_close then snd (writer_close c wf) else [])
  | RWriteRows ps do_close =>
      let '(wf, evs) := plog c (writer_init c []) ps in
      reset_events (length (c_checks c)) 0 ++ evs ++ (if do_close then snd (writer_close c wf) else [])
  end.
Definition run (i : cid cstate * list run_spec) : list event := flat_map (run_log (fst i)) (snd i)."""
CASE_TYPE = "(cid cstate * list run_spec) * list event"
MODEL = "run"
EQB = "(list_eqb event_eqb)"
SHARD = 200
RULE = ("recording plugin field format and check classes defined in the harness process and resolved by class name "
        "('Rec') like built-ins - a tenth of the cases with classes created only at that moment, after many CIDs have been read in the process, a few supplied by a plugin folder scanned with interface.import_plugins - x CIDs with 1..4 such fields (empty flag, length, allowed characters varied; delimited "
        "and fixed) and 0..3 such checks (accepting, vetoing a row, failing at the end) x tables of 0..6 rows x header "
        "0..2 x validation limit x the three modes x reader and writer (write_row calls, or write_rows calls on portions of the rows) x 1..3 repeated runs on one CID; the recorded "
        "call sequence (reset / validated_value / check_row / check_at_end / cleanup with their arguments) must equal "
        "the model's log. Non-trivial: the log contains a validated_value or check_row call. Distinct = distinct case.")
TRUSTED = ["row readers deliver the logical rows (C12/C13)"]
ASSUMPTIONS = ["plugin classes are direct subclasses of AbstractFieldFormat / AbstractCheck registered before the CID is created"]


import os
import common as _C
PLUGIN_TMP = os.path.join(_C.BUILD, "C20", "plugins")


def canon_log(log, spec):
    names = [f["name"] for f in spec["fields"]]
    out = []
    for e in log:
        if e[0] == "value":
            out.append("(EValue %s %s)" % (Nat(names.index(e[1])), S(e[2])))
        else:
            i = V.check_index(e[1])
            if e[0] == "reset":
                out.append("(EReset %s)" % Nat(i))
            elif e[0] == "check_row":
                out.append("(ECheckRow %s %s)" % (Nat(i), L(e[2], S)))
            elif e[0] == "at_end":
                out.append("(EAtEnd %s)" % Nat(i))
            else:
                out.append("(ECleanup %s)" % Nat(i))
    return out


def make_case(inp):
    spec = inp["spec"]
    try:
        cid = V.build_cid(spec)
    except Exception as e:  # noqa
        # a CID that names existing plugin classes must load
        return {"coq": P(P(V.coq_cid(spec), "[]"), "[]"), "obs": [["declaration-refused", "%s: %s" % (type(e).__name__, str(e)[:200])]],
                "nontrivial": False, "tags": ["declaration-refused"]}
    del V.LOG[:]   # construction of the checks is not part of a run's protocol
    specs = []
    for r in inp["runs"]:
        if r["kind"] == "read":
            text = V.encode(spec, r["table"], broken_tail=r.get("fault", False))
            raws, fault = V.raw_rows(V.build_cid(spec), spec, text)
            del_before = len(V.LOG)
            if r.get("api") == "validate":
                # the validate-only function: it stops after `limit` data rows
                try:
                    validio.validate(cid, io.StringIO(text, newline=""), validate_until=r["limit"])
                except Exception:  # noqa
                    pass
                specs.append("(RValidate %s %s %s)" % (O(r["limit"], Nat), L(raws, lambda x: L(x, S)), B(fault)))
                continue
            try:
                for _ in validio.rows(cid, io.StringIO(text, newline=""), on_error=r["mode"], validate_until=r["limit"]):
                    pass
            except Exception:  # noqa
                pass
            specs.append("(RRead %s %s %s %s)" % (V.MODES[r["mode"]], O(r["limit"], Nat), L(raws, lambda x: L(x, S)), B(fault)))
            _ = del_before
        elif r.get("portions") is not None:
            writer = validio.Writer(cid, io.StringIO())
            for portion in r["portions"]:
                try:
                    writer.write_rows([list(row) for row in portion])
                except Exception:  # noqa
                    pass
            if r["close"]:
                try:
                    writer.close()
                except Exception:  # noqa
                    pass
            specs.append("(RWriteRows %s %s)" % (L(r["portions"], lambda p: L(p, lambda x: L(x, S))), B(r["close"])))
            continue
        else:
            writer = validio.Writer(cid, io.StringIO())
            for row in r["rows"]:
                try:
                    writer.write_row(list(row))
                except Exception:  # noqa
                    pass
            if r["close"]:
                try:
                    writer.close()
                except Exception:  # noqa
                    pass
            specs.append("(RWrite %s %s)" % (L(r["rows"], lambda x: L(x, S)), B(r["close"])))
    log = [list(e) for e in V.LOG]
    # one Reader reading its data a second time drives the same calls as the first time (header and limit count from the
    # start again); done after the observed runs, on the same CID
    second_pass = None
    reads = [r for r in inp["runs"] if r["kind"] == "read" and r.get("api") != "validate"]
    if reads and (spec.get("header", 0) or reads[0]["limit"] is not None):
        r = reads[0]
        stream = io.StringIO(V.encode(spec, r["table"], broken_tail=r.get("fault", False)), newline="")
        reader = validio.Reader(cid, stream, on_error=r["mode"], validate_until=r["limit"])
        passes = []
        for _k in (0, 1):
            del V.LOG[:]
            stream.seek(0)
            try:
                for _ in reader.rows():
                    pass
            except Exception:  # noqa
                pass
            passes.append([list(e) for e in V.LOG])
        del V.LOG[:]
        if passes[0] != passes[1]:
            second_pass = "the second pass of one Reader drives other calls than the first: %r instead of %r" % (passes[1][:8], passes[0][:8])
    # the log of building a throw-away CID for raw_rows must not be counted: it only constructs, never runs
    coq = P(P(V.coq_cid(spec), L(specs, str)), L(canon_log(log, spec), str))
    nontrivial = any(e[0] in ("value", "check_row") for e in log)
    tags = [spec["format"]] + sorted({r["kind"] + ":" + r.get("mode", "w") for r in inp["runs"]}) + ["runs%d" % len(inp["runs"])]
    if second_pass:
        log = log + [["second-pass-differs", second_pass]]
    return {"coq": coq, "obs": log, "nontrivial": nontrivial, "tags": tags}


def direct_oracle(inp, obs):
    """protocol facts that need no model: validated_value never sees an empty or unstripped (fixed) value"""
    fixed = inp["spec"]["format"] == "fixed"
    if obs and obs[0][0] == "declaration-refused":
        return "the CID naming the plugin classes %r was refused: %s" % (inp["spec"].get("rec_name", "Rec"), obs[0][1])
    for e in obs:
        if e[0] == "second-pass-differs":
            return e[1]
        if e[0] == "value" and (e[2] == "" or (fixed and e[2] != e[2].strip())):
            return "validated_value was called with %r" % e[2]
    return None


def gen_inputs(tier, rnd):
    for _ in range(1500 if tier == "quick" else 12000):
        spec = V.gen_spec(rnd, nfields=rnd.randint(1, 4), rec=True, header=rnd.choice([0, 0, 1, 2]))
        runs = []
        for _ in range(rnd.choice([1, 1, 2, 3])):
            if rnd.random() < 0.7:
                table = V.gen_table(rnd, spec, nrows=rnd.randint(0, 6))
                runs.append({"kind": "read", "mode": rnd.choice(["raise", "yield", "continue"]),
                             "limit": rnd.choice([None, None, 0, 1, 2, 4]), "table": table, "fault": rnd.random() < 0.1})
                if rnd.random() < 0.25:
                    runs[-1]["api"] = "validate"
            elif spec["format"] == "delimited" or True:
                rows = V.gen_table(rnd, spec, nrows=rnd.randint(0, 5), ragged=spec["format"] != "fixed")
                if spec["format"] == "fixed":
                    rows = [[c.rstrip() or c for c in r] for r in rows]
                if rnd.random() < 0.4 and (spec["format"] != "fixed" or all(len(r) == len(spec["fields"]) for r in rows)):
                    # the same rows handed over in portions, one write_rows call each (header rows first, if any)
                    hdr = [[("h%d" % j)[: (f["length"][0][0] if spec["format"] == "fixed" else 9)] for j, f in enumerate(spec["fields"])] for _h in range(spec["header"])]
                    allrows, portions, i = hdr + rows, [], 0
                    while i < len(allrows):
                        k = rnd.randint(1, 3)
                        portions.append(allrows[i:i + k])
                        i += k
                    runs.append({"kind": "write", "portions": portions, "rows": allrows, "close": rnd.random() < 0.7})
                else:
                    runs.append({"kind": "write", "rows": rows, "close": rnd.random() < 0.7})
        if rnd.random() < 0.1:
            # plugin classes that come into being only now, long after the first CID of this process was read
            spec["rec_name"] = "Late%d" % rnd.randrange(10 ** 9)
        elif rnd.random() < 0.03:
            # ... or are supplied by a plugin folder that cutplace scans (interface.import_plugins)
            spec["rec_name"] = "Plug%d" % rnd.randrange(10 ** 9)
            spec["plugin_folder"] = PLUGIN_TMP
        yield {"spec": spec, "runs": runs}
