"""C02 - each field type accepts exactly the values its rule describes.
One case = one field declaration (type, data format, empty flag, length, rule) plus a list of non-empty cells.
The implementation's field object is built with the real DataFormat; validated_value is called on every cell.
Model/FieldTypes.v computes the same (declaration verdict, Integer valid_range items, per-cell value / rejection)."""
import decimal
import itertools
import time

from cutplace import data, errors, fields

from common import B, L, Nn, O, P, S, Zn

MODEL_FILES = ["Model/FieldTypes.v"]
HEADER = """From CP Require Import Model.Base Model.Ranges Model.Lex Model.RangeParse Model.Dec Model.DecRange Model.FieldTypes.
Inductive eobs := EDecl (code : nat) | ECells (rng : option (option (list item))) (rs : list hres).
Definition run (i : fdecl * list text) : option eobs :=
  let '(d, cells) := i in
  let rng := match fd_type d with
             | TInteger => match range_of_text (fd_length d) with
                           | POk len => match integer_valid_range (fd_kind d) (fd_length d) (fd_rule d) len with
                                        | DeclOk r => Some r | _ => None end
                           | _ => None end
             | _ => None end in
  match declare d with
  | DeclOk h => Some (ECells rng (map h cells))
  | DeclInterface => Some (EDecl 1)
  | DeclLeak => Some (EDecl 2)
  | DeclOut => None
  end.
Definition oz_eqb := option_eqb Z.eqb.
Definition item_eqb (a b : item) : bool := oz_eqb (fst a) (fst b) && oz_eqb (snd a) (snd b).
Definition value_eqb (a b : value) : bool :=
  match a, b with
  | VInt x, VInt y => Z.eqb x y
  | VDec x, VDec y => dec_same x y
  | VInf x, VInf y => Bool.eqb x y
  | VTime a1 a2 a3 a4 a5 a6, VTime b1 b2 b3 b4 b5 b6 => Z.eqb a1 b1 && Z.eqb a2 b2 && Z.eqb a3 b3 && Z.eqb a4 b4 && Z.eqb a5 b5 && Z.eqb a6 b6
  | VStr x, VStr y => text_eqb x y
  | _, _ => false
  end.
Definition hres_eqb (m e : hres) : bool :=
  match m, e with
  | HOut, _ => true                   (* outside the model's domain: counted, not compared *)
  | HOk x, HOk y => value_eqb x y
  | HReject, HReject | HLeak, HLeak => true
  | _, _ => false
  end.
Definition eobs_eqb (m : option eobs) (e : eobs) : bool :=
  match m with
  | None => true
  | Some (EDecl a) => match e with EDecl b => Nat.eqb a b | _ => false end
  | Some (ECells r rs) => match e with
                          | ECells r' rs' => option_eqb (option_eqb (list_eqb item_eqb)) r r' && list_eqb hres_eqb rs rs'
                          | _ => false end
  end.
Definition ood (i : fdecl * list text) : nat :=
  match run i with
  | None => S (length (snd i))
  | Some (ECells _ rs) => length (filter (fun r => match r with HOut => true | _ => false end) rs)
  | _ => 0%nat
  end."""
CASE_TYPE = "(fdecl * list text) * eobs"
MODEL = "run"
EQB = "eobs_eqb"
OOD = "ood"
SHARD = 250
RULE = ("field declarations per type from rule grammars - Integer: length x rule x format, incl. length-only declarations "
        "for every length range over 0..5 (and two-item, open and fixed-width ones); Decimal: both separator conventions, "
        "no thousands separator, excel/ods, rules with 0-3 fractional digits; Choice/Constant: names, numbers, quoted "
        "texts, non-ASCII names, malformed lists; DateTime: 20 layouts incl. separator-free, blank-separated, date-only, "
        "time-only, two-digit years, a literal %, a letter literal; Pattern/RegEx: random globs / regular expressions of "
        "the modelled subset (the rule text is re-printed from the syntax tree inside Coq and must equal the text the "
        "implementation was given) - x formats {delimited, fixed, excel, ods} x cells generated from the rule (must "
        "accept), boundary values +-1, and single-character mutations of accepted cells, spellings of numbers (sign, "
        "blanks, underscores, leading zeros, exponent, NaN, Infinity). Observed: declaration accepted / InterfaceError / "
        "other exception; Integer valid_range.items; per cell the native value or FieldValueError or other exception. "
        "Direct oracle on the implementation: length-only Integer declarations swept over all integers of up to 4 (quick) "
        "/ 6 (thorough) characters: accepted iff the length of str(v) is inside the declared length. "
        "Non-trivial: the declaration is accepted and at least one cell is accepted and one rejected. Distinct = distinct case.")
EXHAUSTIVE = {"quick": False, "thorough": False}
TRUSTED = ["Model/FieldTypes.v models of int(text), decimal.Decimal(text), time.strptime for %d %m %Y %y %H %M %S %%, "
           "fnmatch.translate + re for globs, re for the regex subset (validated by this correspondence on every run)",
           "the rule text of Pattern/RegEx cases is printed from the syntax tree by harness and model independently and compared"]
ASSUMPTIONS = ["ASCII case folding only: DateTime/Pattern/RegEx cases with non-ASCII characters and numbers written with "
               "non-ASCII digits are outside the model's domain (counted in out_of_domain)",
               "regex subset: literals, '.', character sets of alphanumeric ranges, groups with '|', '*', '+', '?' on operands "
               "that cannot match the empty text"]

KINDS = {"delimited": "KDelimited", "fixed": "KFixed", "excel": "KExcel", "ods": "KOds"}
TYPES = {"Integer": fields.IntegerFieldFormat, "Decimal": fields.DecimalFieldFormat, "Choice": fields.ChoiceFieldFormat,
         "Constant": fields.ConstantFieldFormat, "DateTime": fields.DateTimeFieldFormat, "Pattern": fields.PatternFieldFormat,
         "RegEx": fields.RegExFieldFormat, "Text": fields.TextFieldFormat}

# ------------------------------------------------------------------ syntax trees of globs and regular expressions

RE_SPECIAL = ".^$*+?{}[]\\|()"


def pr_crange(r):
    return chr(r[0]) if r[0] == r[1] else chr(r[0]) + "-" + chr(r[1])


def print_sre(t):
    k = t[0]
    if k == "chr":
        return ("\\" if chr(t[1]) in RE_SPECIAL else "") + chr(t[1])
    if k == "any":
        return "."
    if k == "set":
        return "[" + ("^" if t[1] else "") + "".join(pr_crange(r) for r in t[2]) + "]"
    if k == "seq":
        return "".join(print_sre(x) for x in t[1])
    if k == "alt":
        return "(" + print_sre(t[1]) + "|" + print_sre(t[2]) + ")"
    atom = print_sre(t[1]) if t[1][0] in ("chr", "any", "set", "alt") else "(" + print_sre(t[1]) + ")"
    return atom + {"star": "*", "plus": "+", "opt": "?"}[k]


def coq_crange(r):
    return P(Nn(r[0]), Nn(r[1]))


def coq_sre(t):
    k = t[0]
    if k == "chr":
        return "(SChr %s)" % Nn(t[1])
    if k == "any":
        return "SAny"
    if k == "set":
        return "(SSet %s %s)" % (B(t[1]), L(t[2], coq_crange))
    if k == "seq":
        return "(SSeq %s)" % L(t[1], coq_sre)
    if k == "alt":
        return "(SAlt %s %s)" % (coq_sre(t[1]), coq_sre(t[2]))
    return "(%s %s)" % ({"star": "SStar", "plus": "SPlus", "opt": "SOpt"}[k], coq_sre(t[1]))


def print_glob(g):
    out = []
    for t in g:
        if t[0] == "chr":
            out.append(chr(t[1]))
        elif t[0] == "one":
            out.append("?")
        elif t[0] == "star":
            out.append("*")
        else:
            out.append("[" + ("!" if t[1] else "") + "".join(pr_crange(r) for r in t[2]) + "]")
    return "".join(out)


def coq_glob(g):
    def one(t):
        if t[0] == "chr":
            return "(GChr %s)" % Nn(t[1])
        if t[0] == "one":
            return "GOne"
        if t[0] == "star":
            return "GStar"
        return "(GSet %s %s)" % (B(t[1]), L(t[2], coq_crange))
    return L(g, one)


# ------------------------------------------------------------------ implementation side


def data_format(inp):
    df = data.DataFormat(inp["fmt"])
    if inp["fmt"] in ("delimited", "fixed"):
        if inp["tsep"] != df.thousands_separator or inp["dsep"] != df.decimal_separator:
            # set in an order that never makes the two equal on the way
            df.set_property(data.KEY_THOUSANDS_SEPARATOR, "")
            df.set_property(data.KEY_DECIMAL_SEPARATOR, inp["dsep"])
            df.set_property(data.KEY_THOUSANDS_SEPARATOR, inp["tsep"])
    df.validate()
    return df


def canon_value(v):
    if isinstance(v, bool):
        return ["other", repr(v)]
    if isinstance(v, int):
        return ["int", v]
    if isinstance(v, decimal.Decimal):
        sign, digits, exp = v.as_tuple()
        if exp == "F":
            return ["inf", sign == 1]
        if exp in ("n", "N"):
            return ["nan"]
        return ["dec", sign == 1, int("".join(map(str, digits))), exp]
    if isinstance(v, time.struct_time):
        return ["time"] + list(v[:6])
    if isinstance(v, str):
        return ["str", v]
    return ["other", repr(v)]


def coq_hres(o):
    if o[0] == "reject":
        return "HReject"
    if o[0] == "leak":
        return "HLeak"
    v = o[1]
    if v[0] == "int":
        return "(HOk (VInt %s))" % Zn(v[1])
    if v[0] == "dec":
        return "(HOk (VDec (mkdec (%s, %s, %s))))" % (B(v[1]), Nn(v[2]), Zn(v[3]))
    if v[0] == "inf":
        return "(HOk (VInf %s))" % B(v[1])
    if v[0] == "time":
        return "(HOk (VTime %s))" % " ".join(Zn(x) for x in v[1:7])
    if v[0] == "str":
        return "(HOk (VStr %s))" % S(v[1])
    return "HLeak"   # a value of an unexpected type never equals a model value


def coq_type(inp):
    t = inp["type"]
    if t == "Pattern":
        return "(TPattern %s)" % coq_glob(inp["ast"])
    if t == "RegEx":
        return "(TRegEx %s)" % coq_sre(inp["ast"])
    return "T" + t


def coq_decl(inp):
    return ("{| fd_type := %s; fd_kind := %s; fd_df := {| dsep := %s; tsep := %s |}; fd_empty := %s; fd_length := %s; fd_rule := %s |}"
            % (coq_type(inp), KINDS[inp["fmt"]], S(inp["dsep"]), S(inp["tsep"]), B(inp["empty"]), S(inp["length"]), S(inp["rule"])))


def observe(inp):
    df = data_format(inp)
    try:
        f = TYPES[inp["type"]]("f", inp["empty"], inp["length"], inp["rule"], df)
    except errors.InterfaceError as e:
        return {"decl": "interface", "msg": str(e)[:100]}
    except Exception as e:  # noqa
        return {"decl": "leak", "type": type(e).__name__, "msg": str(e)[:100]}
    obs = {"decl": "ok", "cells": []}
    if inp["type"] == "Integer":
        its = f.valid_range.items
        obs["range"] = None if its is None else [list(i) for i in its]
    for cell in inp["cells"]:
        obs["cells"].append(outcome(f.validated_value, cell))
    # end to end through validated(): a fixed-width cell is the value padded with blanks on either side
    obs["e2e"] = []
    if inp["fmt"] == "fixed" and f.length.items is not None:
        width = int(f.length.lower_limit)
        for cell, direct in zip(inp["cells"], obs["cells"]):
            if cell == cell.strip() and len(cell) < width and direct[0] != "leak":
                for padded in (cell.ljust(width), cell.rjust(width), " " + cell):
                    got = outcome(f.validated, padded)
                    if got != direct:
                        obs["e2e"].append([padded, got, direct])
    return obs


def outcome(fn, cell):
    try:
        return ["ok", canon_value(fn(cell))]
    except errors.FieldValueError:
        return ["reject"]
    except Exception as e:  # noqa
        return ["leak", type(e).__name__]


def make_case(inp):
    obs = observe(inp)
    if obs["decl"] == "interface":
        coq_obs = "(EDecl 1)"
    elif obs["decl"] == "leak":
        coq_obs = "(EDecl 2)"
    else:
        rng = "None"
        if inp["type"] == "Integer":
            r = obs["range"]
            rng = "(Some %s)" % ("None" if r is None else "(Some %s)" % L(r, lambda it: P(O(it[0], Zn), O(it[1], Zn))))
        coq_obs = "(ECells %s %s)" % (rng, L(obs["cells"], coq_hres))
    n_ok = sum(1 for c in obs.get("cells", []) if c[0] == "ok")
    n_rej = sum(1 for c in obs.get("cells", []) if c[0] == "reject")
    tags = [inp["type"], inp["fmt"], "decl-" + obs["decl"]]
    tags += ["cell-" + c[0] for c in obs.get("cells", [])]
    return {"coq": P(P(coq_decl(inp), L(inp["cells"], S)), coq_obs), "obs": obs,
            "nontrivial": obs["decl"] == "ok" and n_ok > 0 and n_rej > 0, "tags": tags}


# ------------------------------------------------------------------ direct oracle (restates the property on the implementation)

SWEEP = {"chars": 4}


def inside(items, v):
    return items is None or any((lo is None or lo <= v) and (hi is None or v <= hi) for lo, hi in items)


def length_items(text):
    """parse the simple length descriptions this harness generates: 'a', 'a...b', 'a...', '...b', comma separated"""
    items = []
    for part in text.split(","):
        part = part.strip()
        if not part:
            continue
        if "..." in part:
            lo, hi = part.split("...")
            items.append((int(lo) if lo.strip() else None, int(hi) if hi.strip() else None))
        else:
            items.append((int(part), int(part)))
    return items or None


def direct_oracle(inp, obs):
    if obs["decl"] != "ok":
        if inp.get("canonical"):
            return "the DateTime layout %r (items and literal separators only) was refused: %s" % (inp["rule"], obs.get("msg"))
        return None
    if obs.get("e2e"):
        padded, got, direct = obs["e2e"][0]
        return "fixed-width cell %r is judged %r but its value is judged %r" % (padded, got, direct)
    for cell, o in zip(inp["cells"], obs["cells"]):
        if o[0] == "leak" and not inp.get("hostile"):
            return "validated_value(%r) raised %s instead of a FieldValueError" % (cell, o[1])
    for m in inp.get("must_accept", []):
        got = obs["cells"][inp["cells"].index(m)]
        if got != ["ok", ["str", m]]:
            return "%s rule %r: the value %r was generated from the rule (ignoring case) and must be accepted but gave %r" % (inp["type"], inp["rule"], m, got)
    for text, want in inp.get("canonical", []):
        if text in inp["cells"]:
            got = obs["cells"][inp["cells"].index(text)]
            if got != ["ok", ["time"] + want]:
                return "DateTime layout %r: the canonically written value %r must be accepted as %r but gave %r" % (inp["rule"], text, want, got)
    if inp["type"] == "Integer" and inp["rule"].strip() == "" and inp["length"].strip() != "" and inp.get("sweep"):
        lens = length_items(inp["length"])
        if inp["fmt"] == "fixed":
            lens = [(1, lens[0][1])]
        n = SWEEP["chars"]
        items = obs["range"]
        for v in range(-(10 ** (n - 1)) + 1, 10 ** n):
            want = inside(lens, len(str(v)))
            got = inside(items, v)
            if want != got:
                return "Integer field with length %r: value %d (text length %d) is %s" % (
                    inp["length"], v, len(str(v)), "accepted" if got else "rejected")
    if inp["type"] == "Integer" and inp["rule"].strip() == "" and inp["length"].strip() == "":
        if obs["range"] != [[-2 ** 31, 2 ** 31 - 1]]:
            return "Integer field without length and rule does not use the signed 32 bit range: %r" % (obs["range"],)
    return None


def classify(inp, obs, msg):
    if inp["type"] == "Decimal" and obs.get("decl") == "ok":
        for cell, o in zip(inp["cells"], obs["cells"]):
            if o[0] == "leak" and o[1] == "InvalidOperation":
                return "C02/decimal/nan-cell-invalid-operation"
    return None


# ------------------------------------------------------------------ generators

INT_CELLS = ["0", "7", "12", "-12", "+12", " 12", "12 ", "\t12\n", "0012", "-007", "1_2", "1__2", "_12", "12_", "1.0", "1e2", "0x10",
             "-", "+-1", "- 1", "1 2", "\x1c12", "12a", "2147483647", "2147483648", "-2147483648", "-2147483649", "99999999999999999999",
             "١٢", "１"]
INT_LENGTHS = ["", "1", "2", "3", "5", "1...3", "2...3", "2...", "...3", "0...1", "1...", "0...", "4...5", "...2, 4...", "1, 3", "1...2, 5",
               "5, 1...", "3, ...1", "2, 4...5", "0", "0...0", "-1...2", "3...2", "x", "1...15", "15", "16", "17", "16...", "...16", "18", "20"]
INT_RULES = ["", "0...9", "-5...5", "1...", "...-1", "10...99, 200", "0x10...0x20", "-100...-10, 10...100", "5", "1...2...3", "a...b", "1:3",
             "1…3", "'a'...'z'", "-2147483648...2147483647", "12345",
             # limits that are exactly 0 (a limit of 0 is a limit), on either side and in the middle of several items
             "-10...0", "0...0", "0", "0...", "...0", "-99...-50, -10...0, 20...30", "0...0, 5",
             # limits of 15 and more digits just below and at a power of ten (their length counts in characters)
             "0...999999999999999", "999999999999999", "...9999999999999999", "-99999999999999999...0", "1000000000000000...", "99999999999999999999"]


def base(ftype, fmt="delimited", length="", rule="", cells=(), empty=False, dsep=".", tsep=",", **kw):
    d = {"type": ftype, "fmt": fmt, "dsep": dsep, "tsep": tsep, "empty": empty, "length": length, "rule": rule, "cells": list(cells)}
    d.update(kw)
    return d


def boundary_cells(rule_items):
    out = []
    for lo, hi in rule_items:
        for x in (lo, hi):
            if x is not None:
                out += [str(x - 1), str(x), str(x + 1)]
    return out


def gen_integer(tier, rnd):
    for fmt in ("delimited", "fixed", "excel", "ods"):
        lengths = ["1", "2", "3", "5", "9"] if fmt == "fixed" else INT_LENGTHS
        for length in lengths:
            rules = INT_RULES if (fmt in ("delimited", "fixed") or length in ("", "2...3")) else ["", "0...9"]
            for rule in rules:
                cells = list(INT_CELLS)
                for n in (0, 1, 2, 3, 4, 5, 6):
                    for sign in (1, -1):
                        for x in (10 ** n - 1, 10 ** n, 10 ** n + 1):
                            cells.append(str(sign * x))
                yield base("Integer", fmt, length, rule, sorted(set(cells)), sweep=(rule == ""))
    # all length ranges over 0..5 (the property's exhaustive sweep), length only
    for lo in (None, 0, 1, 2, 3, 4, 5):
        for hi in (None, 1, 2, 3, 4, 5):
            if lo is not None and hi is not None and lo > hi:
                continue
            if lo is None and hi is None:
                continue
            text = ("" if lo is None else str(lo)) + "..." + ("" if hi is None else str(hi))
            yield base("Integer", "delimited", text, "", ["0", "9", "10", "-1", "-9", "-10", "99", "100", "-99", "-100", "99999", "100000", "-9999", "-10000"], sweep=True)
    n = 40 if tier == "quick" else 400
    for _ in range(n):
        items, cur = [], rnd.randint(-300, 50)
        for _i in range(rnd.randint(1, 4)):
            lo = cur + rnd.randint(1, 40)
            hi = lo + rnd.choice([0, 0, 1, 5, 100, 10 ** rnd.randint(2, 12)])
            items.append([lo, hi])
            cur = hi
        if rnd.random() < 0.3:
            items[0][0] = None
        if rnd.random() < 0.3:
            items[-1][1] = None
        sep = rnd.choice(["...", ":", "…", " ... "])
        rule = ", ".join((str(lo) if lo is not None and lo == hi else ("" if lo is None else str(lo)) + sep + ("" if hi is None else str(hi)))
                         for lo, hi in items)
        cells = boundary_cells(items) + [rnd.choice(["+", " ", "00", ""]) + str(rnd.randint(-400, 400)) for _i in range(4)]
        yield base("Integer", rnd.choice(["delimited", "excel", "ods"]), "", rule, sorted(set(c for c in cells if c)))


DEC_CELLS = ["1.5", "1,5", "1,000.5", "1.000,5", "1,0,0", "1..5", "1.5.", ".5", "5.", "-0", "+1", "1e3", "1E-2", "1e", "e5", "1e+", "NaN", "nan",
             "sNaN", "nan1", "Infinity", "-inf", "+Inf", "infinit", "1_0", "_1_", "_", " 1 ", "\x1c1\x1f", "abc", "1,5,", "1.2,3", "1,2.3", ",", ".",
             "-", "0", "0.0", "-0.50", "007", "1 000", "99999999999999999999", "9999999999999999999.999999999999", "10000000000000000000",
             "0.0000000000001", "1e400", "1e9999999", "٣", "1\x00", "--1", "+-1", "1.5e1.5", "1,,5", "1.,5", "1,.5"]
DEC_RULES = ["", "0...1", "-1.5...1.5", "0.001...", "...100", "1...2, 5.5...7.25", "0...", "...0", "1.50...1.75", "-10...-1, 1...10", "1...a", "1.5.2"]
DEC_FORMATS = [("delimited", ".", ","), ("delimited", ",", "."), ("delimited", ".", ""), ("fixed", ",", "."), ("fixed", ".", ","), ("excel", ".", ","), ("ods", ".", ",")]


def render_decimal(rnd, dsep, tsep):
    ip = str(rnd.choice([0, 1, 7, 12, 999, 1000, 1234567, 10 ** rnd.randint(0, 20) - rnd.randint(0, 1)]))
    if tsep and rnd.random() < 0.5:
        groups = []
        while ip:
            groups.insert(0, ip[-3:])
            ip = ip[:-3]
        ip = tsep.join(groups)
    fp = rnd.choice(["", "0", "5", "25", "999", "000001"])
    s = rnd.choice(["", "", "-", "+"]) + ip
    if fp or rnd.random() < 0.1:
        s += dsep + fp
    return s


def mutate(rnd, s, alphabet):
    if not s:
        return alphabet[0]
    p = rnd.randrange(len(s))
    k = rnd.randrange(4)
    if k == 0:
        return s[:p] + s[p + 1:] or alphabet[0]
    if k == 1:
        return s[:p] + rnd.choice(alphabet) + s[p:]
    if k == 2:
        return s[:p] + rnd.choice(alphabet) + s[p + 1:]
    return s[:p] + s[p] + s[p:]


def gen_decimal(tier, rnd):
    for (fmt, dsep, tsep), rule in itertools.product(DEC_FORMATS, DEC_RULES):
        if rule not in ("", "-1.5...1.5", "0...") and (fmt, dsep) != ("delimited", "."):
            continue
        yield base("Decimal", fmt, "", rule, DEC_CELLS, dsep=dsep, tsep=tsep, hostile=True)
    for length in ("3", "1...4", "x", "2...1"):
        yield base("Decimal", "delimited", length, "", ["1.5", "12345"])
    n = 30 if tier == "quick" else 300
    for _ in range(n):
        fmt, dsep, tsep = rnd.choice(DEC_FORMATS)
        rule = rnd.choice(["", "0...1000000", "-1000.5...1000.5", "0.5...", "...999.999"])
        eff = (dsep, tsep) if fmt in ("delimited", "fixed") else (".", "")
        cells = []
        for _i in range(12):
            c = render_decimal(rnd, *eff)
            cells.append(c)
            cells.append(mutate(rnd, c, "0159.,-+e_ "))
        yield base("Decimal", fmt, "", rule, sorted(set(cells)), dsep=dsep, tsep=tsep)


CHOICE_RULES = ["red, green, blue", '"red", "Green"', "1, 2, 10", "a,b,", ",a", "a b", '"a b", c', "grün, rot", "", "x", "a,,b", '"", a',
                "'it''s'", '"x', "a, (b", "1.5, 2", "-1", "A, a", '"a\\"b"', "a , b ,c", "True, None", "a;b", "a, b c"]


def gen_choice(tier, rnd):
    for rule, empty, fmt in itertools.product(CHOICE_RULES, (False, True), ("delimited", "fixed", "excel")):
        if fmt != "delimited" and rule not in ("red, green, blue", '"a b", c'):
            continue
        cells = ["red", "Red", "RED", "green", "Green", "blue", "blu", "bluee", " red", "red ", "1", "2", "10", "01", "a", "b", "c", "a b",
                 "grün", "GRÜN", "rot", "x", "X", '"red"', "it''s", "it's", "1.5", "-1", "-", "A", 'a"b', 'a\\"b', "True", "None", ",", "a;b", ";"]
        yield base("Choice", fmt, "", rule, cells, empty=empty)
    # long lists of choices, the same field asked again after it has rejected cells: what it accepts is what the rule lists
    for n in (21, 30, 64):
        rule = ", ".join("c%02d" % i for i in range(n))
        last = "c%02d" % (n - 1)
        for fmt in ("delimited", "excel"):
            yield base("Choice", fmt, "", rule, [last, "nope", last, "c20", "c00", "c19", "zz", "c%02d" % (n // 2), last, "C00", "c00"], empty=True)
    for rule, empty, length in itertools.product(["x", '"some text"', "12", "", "  ", "a b", "a,", '"x', "'y'", "ä"], (False, True), ("", "1", "2", "9", "1...")):
        cells = ["x", "X", "some text", "Some text", "12", "012", "a", "y", "'y'", " x", "ä", "Ä"]
        yield base("Constant", "delimited", length, rule, cells, empty=empty)
    yield base("Constant", "fixed", "5", "ab", ["ab", "ab   ", "Ab"])
    yield base("Constant", "fixed", "2", "ab", ["ab", "ba"])
    for fmt in ("delimited", "fixed", "excel", "ods"):
        yield base("Text", fmt, "" if fmt != "fixed" else "4", "", ["a", " ", "äö", "x" * 40, "1", "\t"])


ADJACENT_LAYOUTS = ["MMmm", "hhMMmm", "DDMMmmss", "YYMMDDhhmmss", "mmMM", "ssmm", "DDMM%mm"]
LAYOUTS = ["DD.MM.YYYY", "YYYY-MM-DD", "DD/MM/YY", "hh:mm:ss", "YYYY-MM-DD hh:mm:ss", "DDMMYYYY", "MM/DD", "DD.MM", "hh:mm", "YYYYMMDDhhmmss",
           "DD. MM. YYYY", "YYYY", "MM", "DD", "ss", "YY-MM-DD", "DD.MM.YYYY hh:mm", "YYYY-MM-DDThh:mm:ss", "DD%MM", "hh.mm.ss YYYY/MM/DD"]
ODD_LAYOUTS = ["DD.DD", "MMm", "DD MMm", "D.M.Y", "", "YYYYY", "YYY", "hhh", "DD\tMM", "%d.%m", "DD.MM.YYYY YY", "dd.mm.yyyy", "DD.MM.YYYYä"]


def render_layout(layout, y, mo, d, h, mi, s, pad=True):
    out = layout
    for tok, val, w in (("YYYY", y, 4), ("YY", y % 100, 2), ("DD", d, 2), ("MM", mo, 2), ("hh", h, 2), ("mm", mi, 2), ("ss", s, 2)):
        out = out.replace(tok, ("%0*d" % (w, val)) if pad else str(val))
    return out


def expected_tuple(layout, y, mo, d, h, mi, s):
    """what a canonical rendering of this date in this layout denotes (fields that are not in the layout take strptime's defaults)"""
    has = lambda tok: tok in layout  # noqa
    if has("YYYY"):
        year = y
    elif has("YY"):
        yy = y % 100
        year = 2000 + yy if yy <= 68 else 1900 + yy
    else:
        year = 1900
    return [year, mo if has("MM") else 1, d if has("DD") else 1, h if has("hh") else 0, mi if has("mm") else 0, s if has("ss") else 0]


DATE_POINTS = [(2000, 2, 29), (1900, 2, 29), (1904, 2, 29), (2100, 2, 29), (2023, 2, 28), (2023, 4, 30), (2023, 4, 31), (2023, 12, 31), (2023, 1, 1),
               (2023, 0, 10), (2023, 13, 10), (2023, 6, 0), (2023, 6, 32), (1968, 5, 5), (1969, 5, 5), (2068, 5, 5), (2069, 5, 5), (1, 1, 1),
               (0, 1, 1), (9999, 12, 31), (2024, 2, 29), (2023, 7, 4), (2023, 10, 10), (2023, 11, 30), (2023, 11, 31)]
TIME_POINTS = [(0, 0, 0), (23, 59, 59), (24, 0, 0), (12, 60, 0), (12, 0, 60), (12, 0, 61), (12, 0, 62), (7, 5, 3), (19, 30, 45)]


def gen_datetime(tier, rnd):
    for layout, fmt in itertools.product(LAYOUTS + ADJACENT_LAYOUTS, ("delimited", "excel", "ods", "fixed")):
        if fmt == "fixed" and layout not in ("DD.MM.YYYY", "hh:mm"):
            continue
        cells = []
        for (y, mo, d), (h, mi, s) in zip(DATE_POINTS, itertools.cycle(TIME_POINTS)):
            c = render_layout(layout, y, mo, d, h, mi, s)
            cells += [c, c + " 00:00:00"]
        for (h, mi, s) in TIME_POINTS:
            cells.append(render_layout(layout, 2023, 7, 4, h, mi, s))
        c = render_layout(layout, 2023, 7, 4, 9, 5, 3, pad=False)
        c2 = render_layout(layout, 2023, 7, 4, 19, 30, 45)
        cells += [c, c2, c2 + "x", "x" + c2, c2[:-1], c2.lower(), c2.upper(), " " + c2, c2 + " ", c2.replace(" ", "  "), c2.replace(".", ". "),
                  c2.replace("0", " ", 1), c2 + " 00:00:00 00:00:00", " 00:00:00", "1", "a"]
        for _ in range(10 if tier == "quick" else 60):
            cells.append(mutate(rnd, c2, "0123456789 .:-/"))
        canonical = [[render_layout(layout, y, mo, d, h, mi, sec), expected_tuple(layout, y, mo, d, h, mi, sec)]
                     for (y, mo, d), (h, mi, sec) in zip([(2023, 7, 4), (2000, 2, 29), (1999, 12, 31), (2068, 1, 1), (1969, 11, 30)], [(0, 0, 0), (23, 59, 59), (7, 5, 3), (19, 30, 45), (12, 0, 59)])]
        yield base("DateTime", fmt, "" if fmt != "fixed" else str(len(layout) + 2), layout, sorted(set(x for x in cells if x)), canonical=canonical)
    for layout in ODD_LAYOUTS:
        cells = ["01.02", "1.2.3", "0707", "07 07m", "07 %M", "%M", "2023", "20233", "01.02.2023 23", "01\t02", "01  02", "01.02.2023", "x", "%d.%m", "07"]
        yield base("DateTime", "delimited", "", layout, cells, hostile=True)
    n = 20 if tier == "quick" else 300
    for _ in range(n):
        layout = rnd.choice(LAYOUTS)
        cells = []
        for _i in range(10):
            y, mo, d = rnd.choice([rnd.randint(1, 9999), rnd.randint(1890, 2110)]), rnd.randint(1, 12), rnd.randint(1, 31)
            c = render_layout(layout, y, mo, d, rnd.randint(0, 23), rnd.randint(0, 59), rnd.randint(0, 61), pad=rnd.random() < 0.8)
            cells += [c, mutate(rnd, c, "0123456789 .:-/")]
        yield base("DateTime", rnd.choice(["delimited", "excel", "ods"]), "", layout, sorted(set(x for x in cells if x)))


ALNUM = "abcxyzABCXYZ0189"
LITS = "abcxyzABZ019 .-_/(+$^|\\{]"
NON_ASCII_LITS = "äÄéÉяЯ"      # outside the model's domain; judged by the must-accept oracle only


def rnd_crange(rnd):
    a = rnd.choice(ALNUM)
    if rnd.random() < 0.5:
        return [ord(a), ord(a)]
    pool = [c for c in "abcdefghijklmnopqrstuvwxyzABCDEFGHIJKLMNOPQRSTUVWXYZ0123456789" if c >= a and c.isalpha() == a.isalpha() and c.isupper() == a.isupper()]
    return [ord(a), ord(rnd.choice(pool))]


def rnd_sre(rnd, depth):
    k = rnd.random()
    if depth <= 0 or k < 0.35:
        r = rnd.random()
        if r < 0.65:
            return ["chr", ord(rnd.choice(LITS if rnd.random() < 0.9 else NON_ASCII_LITS))]
        if r < 0.8:
            return ["any"]
        return ["set", rnd.random() < 0.3, [rnd_crange(rnd) for _ in range(rnd.randint(1, 3))]]
    if k < 0.65:
        return ["seq", [rnd_sre(rnd, depth - 1) for _ in range(rnd.randint(2, 4))]]
    if k < 0.8:
        return ["alt", rnd_sre(rnd, depth - 1), rnd_sre(rnd, depth - 1)]
    return [rnd.choice(["star", "plus", "opt"]), rnd_sre(rnd, depth - 1)]


def in_set(ranges, ch):
    return any(lo <= ord(x) <= hi for x in {ch, ch.swapcase()} if len(x) == 1 for lo, hi in ranges)


def sample_sre(rnd, t, dotall=False):
    """a text in the language of the expression (letters possibly in the other case)"""
    k = t[0]
    if k == "chr":
        c = chr(t[1])
        return c.swapcase() if rnd.random() < 0.3 and len(c.swapcase()) == 1 else c
    if k in ("any", "one"):
        return rnd.choice("aZ0 .-\n" if dotall else "aZ0 .-")
    if k == "set":
        if t[1]:
            pool = [c for c in "aZ0 .-qQ5m" if not in_set(t[2], c)]
            return rnd.choice(pool) if pool else "\x01"
        r = rnd.choice(t[2])
        c = chr(rnd.randint(r[0], r[1]))
        return c.swapcase() if rnd.random() < 0.3 else c
    if k == "seq":
        return "".join(sample_sre(rnd, x, dotall) for x in t[1])
    if k == "alt":
        return sample_sre(rnd, rnd.choice([t[1], t[2]]), dotall)
    n = {"star": rnd.randint(0, 3), "plus": rnd.randint(1, 3), "opt": rnd.randint(0, 1)}[k]
    return "".join(sample_sre(rnd, t[1], dotall) for _ in range(n))


def gen_regex(tier, rnd):
    n = 60 if tier == "quick" else 600
    for _ in range(n):
        t = rnd_sre(rnd, 3)
        rule = print_sre(t)
        cells, must = [], []
        for _i in range(8):
            c = sample_sre(rnd, t)
            must += [c, c + "tail"]
            cells += [c, c + "tail", mutate(rnd, c, LITS + "\n"), c[:-1], c[1:]]
        cells = sorted(set(x for x in cells if x))[:24]
        yield base("RegEx", rnd.choice(["delimited", "excel"]), "", rule, cells, ast=t, must_accept=[m for m in must if m in cells])
    for _ in range(n):
        g = []
        for _i in range(rnd.randint(1, 6)):
            r = rnd.random()
            if r < 0.5:
                g.append(["chr", ord(rnd.choice("abcxyzABZ019 .-_/(+$^|\\{]!" if rnd.random() < 0.9 else NON_ASCII_LITS))])
            elif r < 0.65:
                g.append(["one"])
            elif r < 0.85:
                g.append(["star"])
            else:
                g.append(["set", rnd.random() < 0.3, [rnd_crange(rnd) for _ in range(rnd.randint(1, 3))]])
        rule = print_glob(g)
        cells, must = [], []
        for _i in range(8):
            parts = []
            for t in g:
                if t[0] == "chr":
                    parts.append(chr(t[1]).swapcase() if rnd.random() < 0.3 else chr(t[1]))
                elif t[0] == "one":
                    parts.append(sample_sre(rnd, t, dotall=True))
                elif t[0] == "star":
                    parts.append("".join(rnd.choice("abZ01 .\n") for _j in range(rnd.randint(0, 3))))
                else:
                    parts.append(sample_sre(rnd, t, dotall=True))
            c = "".join(parts)
            must.append(c)
            cells += [c, c + "t", mutate(rnd, c, "abcxyzABZ019 .-\n"), c[:-1], c[1:]]
        cells = sorted(set(x for x in cells if x))[:24]
        yield base("Pattern", rnd.choice(["delimited", "ods"]), "", rule, cells, ast=g, must_accept=[m for m in must if m in cells])


def gen_inputs(tier, rnd):
    SWEEP["chars"] = 4 if tier == "quick" else 6
    yield from gen_integer(tier, rnd)
    yield from gen_decimal(tier, rnd)
    yield from gen_choice(tier, rnd)
    yield from gen_datetime(tier, rnd)
    yield from gen_regex(tier, rnd)
