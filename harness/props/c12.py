"""C12 - delimited data round-trips through write and read for every accepted format.
Correspondence at two levels: Python's csv module against Model/Delimited.v (writer output, reader rows, errors), and
rowio.DelimitedRowWriter / rowio.delimited_rows end to end under DataFormats accepted by DataFormat.validate."""
import csv
import io
import os
import itertools

from cutplace import data, errors, rowio

from common import B, L, O, P, S
import common as _C
TMP = os.path.join(_C.BUILD, "C12", "tmp")

MODEL_FILES = ["Model/Delimited.v"]
HEADER = """From CP Require Import Model.Base Model.Delimited.
Definition D (dl q : N) (e : option N) (db qa : bool) : dialect := {| delim := dl; quote := q; esc := e; dbl := db; qall := qa |}.
Inductive tcase :=
| WCase (d : dialect) (t : list (list text))          
| RCase (d : dialect) (s : text)                      
| RTCase (dl q e : N) (qa : bool) (t : list (list text)).   (* DelimitedRowWriter + delimited_rows under a DataFormat *)
Definition obs := (option text * list (list text) * bool)%type.   (* written text, rows read, reading ended without error *)
Definition run (c : tcase) : obs :=
  match c with
  | WCase d t => (w_rows d t, [], true)
  | RCase d s => let '(r, ok) := csv_read d s in (None, r, ok)
  | RTCase dl q e qa t =>
      let d := as_delimited_keywords dl q e qa in
      match w_rows d t with
      | Some s => let '(r, ok) := csv_read d s in (Some s, r, ok)
      | None => (None, [], false)
      end
  end.
Definition obs_eqb (a b : obs) : bool :=
  let '(w, r, ok) := a in let '(w', r', ok') := b in
  option_eqb text_eqb w w' && list_eqb (list_eqb text_eqb) r r' && Bool.eqb ok ok'."""
CASE_TYPE = "tcase * obs"
MODEL = "run"
EQB = "obs_eqb"
SHARD = 400
RULE = ("(a) csv level: random dialects from cutplace's option space (11 delimiters x 20 quote characters x 2 escape "
        "characters x 2 quotings), writer on random tables and reader on writer output, mutated writer output and "
        "arbitrary strings over the special characters; (b) end to end: DataFormats built through set_property from 14 "
        "item delimiter spellings x 20 quote characters x 2 escape characters x 2 quotings x 4 line delimiters and "
        "accepted by validate(), tables of 0..5 rows x 1..4 columns over an alphabet containing every configured "
        "special character, blanks, CR and LF: written with DelimitedRowWriter, read back with delimited_rows, "
        "must be identical. Non-trivial: some cell contains a configured special character. Distinct = distinct case.")
TRUSTED = ["Model/Delimited.v is a hand-written model of CPython 3.12 _csv (writer and strict reader) for the dialect options cutplace passes; validated against the csv module on every run"]
ASSUMPTIONS = ["skip_initial_space is off (as the property states)", "io.StringIO(newline='') delivers the characters unchanged; line splitting is the reader's universal newline handling",
               "cells are shorter than csv.field_size_limit() (131072); beyond that limit the implementation deviates from the model: open known finding"]

QUOTES = sorted("!\"#$%&'*+-/:;=?\\^_`~")
ESCAPES = ['"', "\\"]
DELIM_SPELLINGS = [",", ";", "|", "tab", "9", "0x20", "' '", ":", "a", "'\\\\'", "'\"'", "\"'\"", "!", "lf"]
LINE_DELIMS = ["any", "lf", "cr", "crlf"]


def dialect_coq(dl, q, esc, dbl, qall):
    return "(D %d%%N %d%%N %s %s %s)" % (ord(dl), ord(q), "None" if esc is None else "(Some %d%%N)" % ord(esc), B(dbl), B(qall))


def T(t):
    return L(t, lambda r: L(r, S))


def coq_obs(w, rows, ok):
    return P(O(w, S), T(rows), B(ok))


def make_format(dspell, q, e, quoting, ld, encoding=None):
    df = data.DataFormat(data.FORMAT_DELIMITED)
    if encoding:
        df.set_property(data.KEY_ENCODING, encoding)
    df.set_property(data.KEY_ITEM_DELIMITER, dspell)
    df.set_property(data.KEY_QUOTE_CHARACTER, q)
    df.set_property(data.KEY_ESCAPE_CHARACTER, e)
    df.set_property(data.KEY_QUOTING, quoting)
    df.set_property(data.KEY_LINE_DELIMITER, ld)
    df.validate()
    return df


CHILD = r"""
import json, sys
repo, = sys.argv[1:2]
sys.path.insert(0, repo)
import warnings
warnings.simplefilter("ignore")
from cutplace import data, rowio
p = json.load(sys.stdin)
df = data.DataFormat(data.FORMAT_DELIMITED)
df.set_property(data.KEY_ENCODING, "utf-8")
df.set_property(data.KEY_ITEM_DELIMITER, p["d"])
df.set_property(data.KEY_QUOTE_CHARACTER, p["q"])
df.set_property(data.KEY_ESCAPE_CHARACTER, p["e"])
df.set_property(data.KEY_QUOTING, p["quoting"])
df.set_property(data.KEY_LINE_DELIMITER, p["ld"])
df.validate()
try:
    with rowio.DelimitedRowWriter(p["path"], df) as writer:
        writer.write_rows(p["table"])
    rows = [list(r) for r in rowio.delimited_rows(p["path"], df)]
    print(json.dumps({"rows": rows}))
except Exception as e:
    print(json.dumps({"error": type(e).__name__ + ": " + str(e)[:100]}))
"""
_N_CHILD = [0]


def other_locale(inp, table):
    """the same file round trip in a process whose locale is C (no UTF-8 mode): the data format names the encoding, the
    environment has no say; returns a message or None"""
    import json
    import subprocess
    import sys
    path = os.path.join(TMP, "rt_child_%d.csv" % os.getpid())
    env = dict(os.environ, LC_ALL="C", LANG="C", PYTHONUTF8="0", PYTHONCOERCECLOCALE="0", PYTHONIOENCODING="utf-8")
    params = {"d": inp["delim_spelling"], "q": inp["quote"], "e": inp["escape"], "quoting": inp["quoting"], "ld": inp["line_delimiter"], "table": table, "path": path}
    p = subprocess.run([sys.executable, "-c", CHILD, _C.REPO], input=json.dumps(params), stdout=subprocess.PIPE, stderr=subprocess.PIPE, text=True, env=env, encoding="utf-8")
    try:
        os.remove(path)
    except OSError:
        pass
    try:
        out = json.loads(p.stdout.strip().splitlines()[-1])
    except Exception:  # noqa
        return "the round trip in a process with the C locale failed: %s" % (p.stderr.strip()[-200:],)
    if out.get("rows") != [list(r) for r in table]:
        return "in a process with the C locale the table does not come back: %r" % (out,)
    return None


def make_case(inp):
    kind = inp["kind"]
    if kind in ("w", "r"):
        dl, q, e, qall = inp["delim"], inp["quote"], inp["escape"], inp["qall"]
        dbl, esc = (True, None) if e == q else (False, e)
        kw = dict(delimiter=dl, doublequote=dbl, escapechar=esc, quotechar=q, quoting=csv.QUOTE_ALL if qall else csv.QUOTE_MINIMAL,
                  skipinitialspace=False, strict=True)
        dc = dialect_coq(dl, q, esc, dbl, qall)
        if kind == "w":
            s = io.StringIO(newline="")
            try:
                csv.writer(s, **kw).writerows(inp["table"])
                w = s.getvalue()
            except csv.Error:
                w = None
            obs = {"written": w, "rows": [], "ok": True}
            return {"coq": P("(WCase %s %s)" % (dc, T(inp["table"])), coq_obs(w, [], True)), "obs": obs, "tags": ["csv-writer"], "nontrivial": True}
        rows, ok = [], True
        try:
            for r in csv.reader(io.StringIO(inp["text"], newline=""), **kw):
                rows.append(r)
        except csv.Error:
            ok = False
        obs = {"written": None, "rows": rows, "ok": ok}
        return {"coq": P("(RCase %s %s)" % (dc, S(inp["text"])), coq_obs(None, rows, ok)), "obs": obs, "tags": ["csv-reader", "ok" if ok else "csv-error"], "nontrivial": True}
    # end to end
    try:
        df = make_format(inp["delim_spelling"], inp["quote"], inp["escape"], inp["quoting"], inp["line_delimiter"], "utf-8" if inp.get("file") else None)
    except errors.InterfaceError:
        obs = {"refused": True}
        # a refused format is outside the property; compare a trivial case so that the shard stays aligned
        return {"coq": P("(WCase (D 44%N 34%N None true false) [])", coq_obs("", [], True)), "obs": obs, "tags": ["format-refused"], "nontrivial": False}
    table = inp["table"]
    use_file = bool(inp.get("file"))
    if use_file:
        # through a file both ways: the writer and the reader open the path themselves (encoding UTF-8 as declared)
        os.makedirs(TMP, exist_ok=True)
        target = os.path.join(TMP, "rt_%d.csv" % os.getpid())
    else:
        target = io.StringIO(newline="")
    w = None
    rows, ok = [], False
    try:
        if inp.get("ascii"):
            # a target that cannot take every character: the rows it refuses are skipped by the caller, the others
            # must come back exactly
            target = io.TextIOWrapper(io.BytesIO(), encoding="ascii", newline="")
            writer = rowio.DelimitedRowWriter(target, df)
            accepted = []
            for row in table:
                try:
                    writer.write_row(row)
                    accepted.append(row)
                except errors.DataFormatError:
                    pass
            target.flush()
            w = target.buffer.getvalue().decode("ascii")
            table = accepted
            inp = dict(inp, table=accepted)
            target = io.StringIO(w, newline="")
        elif use_file:
            with rowio.DelimitedRowWriter(target, df) as writer:
                writer.write_rows(table)
            with open(target, "r", encoding="utf-8", newline="") as fh:
                w = fh.read()
        elif not inp.get("ascii"):
            rowio.DelimitedRowWriter(target, df).write_rows(table)
            w = target.getvalue()
        ok = True
        try:
            for r in rowio.delimited_rows(target if use_file else io.StringIO(w, newline=""), df):
                rows.append(list(r))
        except errors.DataFormatError as e2:
            ok = False
            read_error = str(e2)[:120]
    except Exception as e:  # noqa  (csv.Error while writing, ...)
        obs_err = "%s: %s" % (type(e).__name__, e)
        obs = {"written": None, "rows": [], "ok": False, "error": obs_err, "delim": df.item_delimiter}
        c = "(RTCase %d%%N %d%%N %d%%N %s %s)" % (ord(df.item_delimiter), ord(df.quote_character), ord(df.escape_character), B(df.quoting == csv.QUOTE_ALL), T(table))
        return {"coq": P(c, coq_obs(None, [], False)), "obs": obs, "tags": ["rt", "write-error"], "nontrivial": True}
    obs = {"written": w, "rows": rows, "ok": ok, "delim": df.item_delimiter}
    if not ok:
        obs["read_error"] = read_error
    if use_file and ok and any(ord(ch) > 127 for r in table for cell in r for ch in cell):
        _N_CHILD[0] += 1
        if _N_CHILD[0] % 7 == 1 and _N_CHILD[0] < 150:
            msg = other_locale(inp, table)
            if msg:
                obs["locale_mismatch"] = msg
    if inp.get("ascii"):
        obs["accepted_table"] = table
    c = "(RTCase %d%%N %d%%N %d%%N %s %s)" % (ord(df.item_delimiter), ord(df.quote_character), ord(df.escape_character), B(df.quoting == csv.QUOTE_ALL), T(table))
    specials = {df.item_delimiter, df.quote_character, df.escape_character, "\r", "\n"}
    nontrivial = any(ch in specials for r in table for cell in r for ch in cell)
    return {"coq": P(c, coq_obs(w, rows, ok)), "obs": obs, "tags": ["rt", "escape=quote" if df.escape_character == df.quote_character else "escapechar"], "nontrivial": nontrivial}


def classify(inp, obs, msg):
    """the open finding: Python's csv module refuses fields longer than csv.field_size_limit() (131072 by default)"""
    if inp.get("kind") == "rt" and "field larger than field limit" in (obs.get("read_error") or "") and any(len(c) > 131072 for r in inp["table"] for c in r):
        return "C12/cell-longer-than-csv-field-limit"
    return None


def extra_oracle(inp, obs):
    return obs.get("locale_mismatch")


def direct_oracle(inp, obs):
    if inp["kind"] != "rt" or obs.get("refused"):
        return None
    if obs.get("error"):
        return "writing the table failed: %s" % obs["error"]
    if not obs["ok"] or obs["rows"] != obs.get("accepted_table", inp["table"]):
        return "table does not round-trip: wrote %r, read back %r%s" % (obs["written"], obs["rows"], "" if obs["ok"] else " then DataFormatError")
    return None


def gen_table(rnd, alpha, maxrows=5, empty_rows=False):
    t = [["".join(rnd.choice(alpha) for _ in range(rnd.choice([0, 0, 1, 1, 2, 3]))) for _ in range(rnd.randint(1, 4))] for _ in range(rnd.randint(0, maxrows))]
    if empty_rows and rnd.random() < 0.3:
        # rows without any cell are written as blank lines and read back as rows without any cell - anywhere in the table
        for _ in range(rnd.randint(1, 2)):
            t.insert(rnd.choice([len(t), len(t), rnd.randint(0, len(t))]), [])
    return t


def gen_inputs(tier, rnd):
    n_csv = 1500 if tier == "quick" else 12000
    for _ in range(n_csv):
        q = rnd.choice(QUOTES)
        e = rnd.choice(ESCAPES)
        dl = rnd.choice([",", ";", "|", "\t", ":", "a", " ", "\\", '"', "'", "!"])
        if dl == q:
            continue
        qall = rnd.random() < 0.5
        alpha = [dl, q, e, " ", "\n", "\r", "x", "y", '"', "\\"]
        if rnd.random() < 0.5:
            yield {"kind": "w", "delim": dl, "quote": q, "escape": e, "qall": qall, "table": gen_table(rnd, alpha, 3)}
        else:
            if rnd.random() < 0.5:
                dbl, esc = (True, None) if e == q else (False, e)
                s = io.StringIO(newline="")
                try:
                    csv.writer(s, delimiter=dl, doublequote=dbl, escapechar=esc, quotechar=q, quoting=csv.QUOTE_ALL if qall else csv.QUOTE_MINIMAL).writerows(gen_table(rnd, alpha, 3))
                    text = s.getvalue()
                except csv.Error:
                    text = "x"
                if rnd.random() < 0.5 and text:
                    p = rnd.randrange(len(text))
                    text = text[:p] + rnd.choice(alpha) + text[p + 1:]
            else:
                text = "".join(rnd.choice(alpha) for _ in range(rnd.randint(0, 10)))
            yield {"kind": "r", "delim": dl, "quote": q, "escape": e, "qall": qall, "text": text}
    combos = list(itertools.product(DELIM_SPELLINGS, QUOTES, ESCAPES, ["minimal", "all"], LINE_DELIMS))
    if tier == "quick":
        combos = rnd.sample(combos, 1400)
        per = 1
    else:
        per = 3
    for dsp, q, e, quoting, ld in combos:
        try:
            df = make_format(dsp, q, e, quoting, ld)
            specials = [df.item_delimiter, q, e]
        except errors.InterfaceError:
            specials = [q, e]
        alpha = specials + [" ", "\n", "\r", "x", "y", '"', "\\", ","]
        for _ in range(per):
            if rnd.random() < 0.1:
                table = gen_table(rnd, alpha, maxrows=6)
                for r in table:
                    if rnd.random() < 0.4:
                        j = rnd.randrange(len(r))
                        r[j] = r[j] + rnd.choice(["\u00e4", "\u20ac"]) * rnd.randint(1, 3)
                yield {"kind": "rt", "delim_spelling": dsp, "quote": q, "escape": e, "quoting": quoting, "line_delimiter": ld, "table": table, "ascii": True}
            elif rnd.random() < 0.25:
                # through files, with characters some decoders treat specially as data (also at the very start of the file)
                table = gen_table(rnd, alpha + ["\ufeff", "\u2028", "\x85", "\ufeff"])
                if table and table[0] and rnd.random() < 0.5:
                    table[0][0] = "\ufeff" + table[0][0]
                yield {"kind": "rt", "delim_spelling": dsp, "quote": q, "escape": e, "quoting": quoting, "line_delimiter": ld, "table": table, "file": True}
            else:
                yield {"kind": "rt", "delim_spelling": dsp, "quote": q, "escape": e, "quoting": quoting, "line_delimiter": ld, "table": gen_table(rnd, alpha, empty_rows=True)}
