"""C11 - data-format properties mean what the CID says; contradictions are refused: DataFormat.set_property /
validate against Model/DataFormat.v (attribute table and check_distinct pairs regenerated from the source)."""
import codecs
import csv
import itertools

from cutplace import data, errors, interface, ranges

from common import B, L, O, P, S, Zn

MODEL_FILES = ["Model/DataFormat.v"]
HEADER = """From CP Require Import Model.Base Model.Ranges Model.Lex Model.RangeParse Model.DataFormat.
Inductive tcase :=
| SetCase (fmt name value : text) (encoding_known : bool)
| ValidateCase (fmt : text) (settings : list (text * text))
| DefaultsCase (fmt : text).
Inductive tobs :=
| OAttr (v : aval) | OInterface | OLeak
| OValidated (ok : bool)
| ODefaults (attrs : list (text * aval)).
Definition oz_eqb := option_eqb Z.eqb.
Definition item_eqb (a b : item) : bool := oz_eqb (fst a) (fst b) && oz_eqb (snd a) (snd b).
Definition aval_eqb (a b : aval) : bool :=
  match a, b with
  | AText x, AText y => option_eqb text_eqb x y
  | ABool x, ABool y => Bool.eqb x y
  | AInt x, AInt y => Z.eqb x y
  | AQuoting x, AQuoting y => Bool.eqb x y
  | ARange x, ARange y => option_eqb (list_eqb item_eqb) x y
  | AOther, AOther => true
  | _, _ => false
  end.
Fixpoint set_all (d : dformat) (l : list (text * text)) : set_res :=
  match l with
  | [] => SetOk d
  | (n, v) :: r => match set_property d n v true with SetOk d' => set_all d' r | e => e end
  end.
Definition run (c : tcase) : option tobs :=
  match c with
  | SetCase fmt name value known =>
      match new_format fmt with
      | None => Some OInterface
      | Some d => match set_property d name value known with
                  | SetOk d' => match get_attr (df_attrs d') (replace_blanks name) with Some v => Some (OAttr v) | None => None end
                  | SetInterface => Some OInterface | SetLeak => Some OLeak | SetOutOfDomain => None
                  end
      end
  | ValidateCase fmt settings =>
      match new_format fmt with
      | None => Some OInterface
      | Some d => match set_all d settings with
                  | SetOk d' => Some (OValidated (validate_format d'))
                  | SetInterface => Some OInterface | SetLeak => Some OLeak | SetOutOfDomain => None
                  end
      end
  | DefaultsCase fmt => match new_format fmt with Some d => Some (ODefaults (df_attrs d)) | None => Some OInterface end
  end.
Definition tobs_eqb (m : option tobs) (e : tobs) : bool :=
  match m with
  | None => true
  | Some m' =>
      match m', e with
      | OAttr a, OAttr b => aval_eqb a b
      | OInterface, OInterface | OLeak, OLeak => true
      | OValidated a, OValidated b => Bool.eqb a b
      | ODefaults a, ODefaults b => list_eqb (fun x y => text_eqb (fst x) (fst y) && aval_eqb (snd x) (snd y)) a b
      | _, _ => false
      end
  end."""
CASE_TYPE = "tcase * tobs"
MODEL = "run"
EQB = "tobs_eqb"
SHARD = 1500
RULE = ("every data-format property x every format x a pool of values: for character properties every spelling (literal, "
        "decimal code, hex code, single- and double-quoted with and without escapes, symbolic name in three cases, "
        "surrounded by blanks) of every code point in a pool (printable ASCII, tab, CR, LF, NUL, selected non-ASCII) plus "
        "malformed spellings; for the others their documented values in several cases plus near misses; "
        "all pairs of consistency-relevant settings followed by validate(); the defaults of every format. Enumerated "
        "completely. Observed: the attribute value after set_property or the error family; validate() verdict. "
        "Non-trivial: a set_property case whose value is non-empty. Distinct = distinct case.")
EXHAUSTIVE = {"quick": True, "thorough": True}
TRUSTED = ["whether a name is a text encoding the runtime knows is asked of the runtime (codecs.lookup succeeds and ''.encode(name) works) and handed to the model", "Model/Lex.v (tokenizer) as in C01"]
ASSUMPTIONS = ["property names are passed lower-case, as Cid.add_data_format_row does"]

FORMATS = ["delimited", "fixed", "excel", "ods", "csv"]
PROPS = ["allowed characters", "encoding", "header", "escape character", "item delimiter", "quote character", "quoting", "skip initial space",
         "decimal separator", "line delimiter", "thousands separator", "sheet", "format", "is valid", "allowed_characters", "unknown", ""]
CODEPOINTS = [0, 9, 10, 13, 32, 33, 34, 35, 39, 44, 48, 49, 57, 58, 59, 65, 92, 95, 97, 124, 126, 127, 160, 233, 8230, 0x10FFFF]
NAMES = {9: "tab", 10: "lf", 11: "vt", 12: "ff", 13: "cr"}


def spellings(cp):
    ch = chr(cp)
    out = [ch, " %s " % ch, str(cp), " %d" % cp, "%d " % cp, "0x%x" % cp, "0X%X" % cp] + ([] if ch in "'\\" else ["'%s'" % ch]) + ([] if ch in '"\\' else ['"%s"' % ch]) + [ "'\\x%02x'" % cp if cp < 256 else "'\\u%04x'" % cp if cp < 65536 else str(cp),
           "'\\u%04x'" % cp if cp < 65536 else str(cp)]
    if cp in NAMES:
        n = NAMES[cp]
        out += [n, n.upper(), n.capitalize(), " %s " % n]
    esc = {9: "'\\t'", 10: "'\\n'", 13: "'\\r'", 92: "'\\\\'", 39: "'\\''", 34: '"\\""'}
    if cp in esc:
        out.append(esc[cp])
    return out


MALFORMED_CHARS = ["", " ", "  ", "ab", "'ab'", "'a", "a'", "((", "1 2", "1,", ",", ",,", "--", "-1", "1.5", "1e3", "0x", "0x110000", "1114112", "99999999999999999999", "tabb", "TAB",
                   "'\\x4'", "'\\q'", "'\\101'", "'\\0'", "'''a'''", "''", "\"\"", "01", "00", "0_9", "1_0", "'…'", "#", "a#", "\\", "'\\'", " 9", "9 ", " tab", "\t,", "0b1001", "0o11", "é", "ab c"]
OTHER_VALUES = {
    "encoding": ["utf-8", "UTF-8", "latin-1", "cp1252", "ascii", "iso-8859-15", "nope", "", "utf 8", "utf_8", "a\x00b", "idna", "rot13", "hex", "base64", "zlib", "undefined", "utf-16", "punycode", "unicode_escape"],
    "header": ["0", "1", "17", " 3 ", "+2", "-1", "-0", "1.0", "x", "", "1_0", "0x1", "١", "1e2", " ", "00", "007", "10", "10.0", "10.", "300.00", "100", "1.5"],
    "sheet": ["0", "1", "2", " 3 ", "+2", "-1", "x", "", "1.0", "1_0", "00", "01", "10", "20.0", "10.", "100"],
    "quoting": ["all", "ALL", "All", "minimal", "Minimal", "none", "", " all", "nonnumeric"],
    "skip initial space": ["true", "True", "TRUE", "false", "False", "yes", "1", "", " true"],
    "line delimiter": ["any", "ANY", "lf", "LF", "cr", "Cr", "crlf", "CRLF", "none", "None", "", "\\n", "lfcr", " lf"],
    "decimal separator": [".", ",", ";", "", " ", "..", " ."],
    "thousands separator": [".", ",", "", " ", ";", "'"],
    "escape character": ['"', "\\", "'", "", "\\\\", " \""],
    "quote character": list("!\"#$%&'*+-/:;=?\\^_`~") + ["", ",", "a", "|", "\"\"", " '"],
    "allowed characters": ["", "32...126", "a...z, 0...9", "'a':'z'", "...127", "32...", "5...1", "abc", "1,", "(", "tab, lf, cr, 32...", "0x20...0x7e"],
}


def canon_attr(v):
    if v is None:
        return ("AText", None)
    if isinstance(v, bool):
        return ("ABool", v)
    if isinstance(v, int):
        return ("AInt", v)
    if isinstance(v, str):
        return ("AText", v)
    if isinstance(v, ranges.Range):
        return ("ARange", None if v.items is None else [list(i) for i in v.items])
    return ("AOther", None)


def coq_attr(name, c):
    kind, v = c
    if name == "quoting" and kind == "AInt":
        return "(AQuoting %s)" % B(v == csv.QUOTE_ALL)
    if kind == "AText":
        return "(AText %s)" % O(v, S)
    if kind == "ABool":
        return "(ABool %s)" % B(v)
    if kind == "AInt":
        return "(AInt %s)" % Zn(v)
    if kind == "ARange":
        return "(ARange %s)" % ("None" if v is None else "(Some %s)" % L(v, lambda i: P(O(i[0], Zn), O(i[1], Zn))))
    return "AOther"


def encoding_known(value):
    try:
        codecs.lookup(value)
        "".encode(value)        # a codec that converts text to bytes ('rot13', 'hex', 'zlib' are codecs but no encodings)
        return True
    except Exception:  # noqa
        return False


def make_case(inp):
    kind = inp["kind"]
    if kind == "set":
        fmt, name, value = inp["format"], inp["name"], inp["value"]
        known = encoding_known(value)
        try:
            d = data.DataFormat(fmt)
            d.set_property(name, value)
            attr = "_" + name.replace(" ", "_")
            c = canon_attr(d.__dict__[attr])
            obs, coq = {"attr": c}, "(OAttr %s)" % coq_attr(name.replace(" ", "_"), c)
        except errors.InterfaceError as e:
            obs, coq = {"interface": str(e)[:100]}, "OInterface"
        except Exception as e:  # noqa
            obs, coq = {"leak": type(e).__name__}, "OLeak"
        # the same property as a CID says it: a data format row read by the CID loader
        try:
            cid = interface.Cid()
            cid.read("c11", [["D", "Format", fmt], ["D", name, value], ["F", "a", "", "", "3" if fmt == "fixed" else ""]])
            obs["via_cid"] = {"attr": canon_attr(cid.data_format.__dict__["_" + name.replace(" ", "_")])}
        except errors.InterfaceError as e:
            # refused at the property row, or - no row named - as a contradiction when the CID was completed
            obs["via_cid"] = {"interface": True} if "(R2C" in str(e) else {"completion": True}
        except Exception as e:  # noqa
            obs["via_cid"] = {"leak": type(e).__name__}
        return {"coq": P("(SetCase %s %s %s %s)" % (S(fmt), S(name), S(value), B(known)), coq), "obs": obs, "nontrivial": value != "",
                "tags": ["set", name, "ok" if "attr" in obs else ("refused" if "interface" in obs else "leak")]}
    if kind == "validate":
        fmt, settings = inp["format"], inp["settings"]
        try:
            d = data.DataFormat(fmt)
            for n, v in settings:
                d.set_property(n, v)
            try:
                d.validate()
                obs, coq = {"validated": True}, "(OValidated true)"
            except errors.InterfaceError as e:
                obs, coq = {"validated": False, "message": str(e)[:100]}, "(OValidated false)"
        except errors.InterfaceError as e:
            obs, coq = {"interface": str(e)[:100]}, "OInterface"
        except Exception as e:  # noqa
            obs, coq = {"leak": type(e).__name__}, "OLeak"
        return {"coq": P("(ValidateCase %s %s)" % (S(fmt), L(settings, lambda nv: P(S(nv[0]), S(nv[1])))), coq), "obs": obs, "nontrivial": True,
                "tags": ["validate", "accepted" if obs.get("validated") else "refused"]}
    fmt = inp["format"]
    try:
        d = data.DataFormat(fmt)
        attrs = [(k[1:], canon_attr(v)) for k, v in d.__dict__.items() if k != "_format"]
        obs = {"defaults": attrs}
        coq = "(ODefaults %s)" % L(attrs, lambda kv: P(S(kv[0]), coq_attr(kv[0], kv[1])))
    except errors.InterfaceError:
        obs, coq = {"interface": True}, "OInterface"
    return {"coq": P("(DefaultsCase %s)" % S(fmt), coq), "obs": obs, "nontrivial": True, "tags": ["defaults"]}


DOC_APPLIES = {
    "delimited": {"allowed_characters", "encoding", "header", "escape_character", "item_delimiter", "quote_character", "quoting", "skip_initial_space",
                  "decimal_separator", "line_delimiter", "thousands_separator"},
    "fixed": {"allowed_characters", "encoding", "header", "decimal_separator", "line_delimiter", "thousands_separator"},
    "excel": {"allowed_characters", "encoding", "header", "sheet"},
    "ods": {"allowed_characters", "encoding", "header", "sheet"},
}
DOC_APPLIES["csv"] = DOC_APPLIES["delimited"]


def direct_oracle(inp, obs):
    """the documented behaviour, restated independently for the parts that need no tokenizer"""
    if "leak" in obs:
        return "non-cutplace exception %s" % obs["leak"]
    if inp["kind"] == "set":
        via = obs.get("via_cid", {})
        if "leak" in via:
            return "the CID loader raised %s for this data format row" % via["leak"]
        if "attr" in via and ("attr" not in obs or obs["attr"] != via["attr"]) and inp["name"].strip() == inp["name"]:
            return "read from a CID row the property is %r, set directly it is %r" % (via["attr"], obs.get("attr", "refused"))
        if "interface" in via and "attr" in obs and inp["name"].strip() == inp["name"]:
            return "the CID loader refuses the value that DataFormat.set_property accepts as %r" % (obs["attr"],)
        name = inp["name"].replace(" ", "_")
        if name not in DOC_APPLIES[inp["format"]] and "attr" in obs:
            return "property %r does not apply to format %s but was accepted" % (inp["name"], inp["format"])
        if "spelling_of" in inp and name == "item_delimiter" and inp["format"] in ("delimited", "csv"):
            cp = inp["spelling_of"]
            v = inp["value"]
            # demanded of the documented spellings only: no surrounding blanks (a leading blank is refused, see DESIGN.md),
            # the literal spelling only for characters that survive strip(), no raw control characters inside quotes
            if v != v.strip() or v == "" or any(ord(c) < 32 for c in v) or (len(v) == 1 and v.isdigit()):
                return None
            if cp == 0:
                return None if "interface" in obs else "item delimiter 0 must be refused"
            if "attr" not in obs or obs["attr"] != ("AText", chr(cp)):
                return "spelling %r of U+%04X gave %r" % (inp["value"], cp, obs)
    if inp["kind"] == "validate" and "validated" in obs and inp["format"] in ("delimited", "csv"):
        s = {"item delimiter": ",", "quote character": '"', "escape character": '"', "line delimiter": "any", "decimal separator": ".", "thousands separator": ""}
        s.update(dict(inp["settings"]))
        ch = {"lf": "\n", "cr": "\r"}.get(s["item delimiter"], s["item delimiter"])
        ld = {"lf": "\n", "cr": "\r", "crlf": "\r\n", "any": "any"}[s["line delimiter"].lower()]
        contradiction = ch == s["quote character"] or ch in ("\n", "\r") or ch == ld or s["decimal separator"] == s["thousands separator"] or ch == s["escape character"]
        if contradiction == obs["validated"]:
            return "settings %r: validate %s but the settings are %s" % (inp["settings"], "accepted" if obs["validated"] else "refused", "contradictory" if contradiction else "consistent")
    return None


def gen_inputs(tier, rnd):
    # the same property declared twice: the last declaration counts, also when it puts the default back
    for first, second, others in (("thousands separator", [".", ""], [["decimal separator", "."]]), ("thousands separator", [",", ""], [["decimal separator", ","]]),
                                  ("thousands separator", ["", "."], [["decimal separator", "."]]), ("decimal separator", [",", "."], [["thousands separator", ","]]),
                                  ("item delimiter", ["\"", ";"], []), ("quote character", [";", "\""], [["item delimiter", ";"]]),
                                  ("escape character", ["\\", "\""], [["item delimiter", "\\"]]), ("line delimiter", ["lf", "any"], [])):
        for fmt in ("delimited", "fixed"):
            for pre in (True, False):
                settings = ([list(o) for o in others] if pre else []) + [[first, v] for v in second] + ([] if pre else [list(o) for o in others])
                yield {"kind": "validate", "format": fmt, "settings": settings}
    for fmt in FORMATS:
        yield {"kind": "defaults", "format": fmt}
    yield {"kind": "defaults", "format": "nope"}
    for fmt, name in itertools.product(FORMATS, PROPS):
        values = list(OTHER_VALUES.get(name, []))
        if name in ("item delimiter",):
            for cp in CODEPOINTS:
                for sp in spellings(cp):
                    yield {"kind": "set", "format": fmt, "name": name, "value": sp, "spelling_of": cp}
            values += MALFORMED_CHARS
        if not values:
            values = ["x", "", "1"]
        if fmt not in ("delimited", "csv") and name in OTHER_VALUES:
            values = values[:4]
        for v in values:
            yield {"kind": "set", "format": fmt, "name": name, "value": v}
    delims = [",", ";", '"', "'", "\\", "lf", "cr", "tab", "!", "."]
    quotes = ['"', "'", "\\", "!", ";"]
    escapes = ['"', "\\"]
    lds = ["any", "lf", "cr", "crlf"]
    for dl, q, e, ld in itertools.product(delims, quotes, escapes, lds):
        yield {"kind": "validate", "format": "delimited", "settings": [["item delimiter", dl], ["quote character", q], ["escape character", e], ["line delimiter", ld]]}
    for ds, ts in itertools.product([".", ","], [".", ",", ""]):
        for fmt in ("delimited", "fixed"):
            yield {"kind": "validate", "format": fmt, "settings": [["decimal separator", ds], ["thousands separator", ts]]}
    for fmt in ("excel", "ods", "fixed"):
        yield {"kind": "validate", "format": fmt, "settings": []}
