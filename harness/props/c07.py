"""C07 - header rows are skipped; the validation limit bounds validation, not data."""
from readercase import *  # noqa
import vcommon as V
import clicommon as CLI

RULE = ("exhaustive: header 0..3 x limit in {none, 0..rows+1} x tables of 0..5 rows with a single bad row at every "
        "position (including inside the header) or none x {rows() with on_error yield, validate()}; one Choice field, "
        "optionally an IsUnique check with the bad row being a duplicate instead; header rows that are blank lines; plus random CIDs/tables with random "
        "header and limit. For validate() cases the command line is run with --until N on the same files and must "
        "agree with the API; clean tables also with a container fault (unterminated quote) behind the last row. Non-trivial: the table has a bad row. Distinct = distinct (CID, table, limit, api).")
EXHAUSTIVE = {"quick": True, "thorough": True}


def base_spec(header, unique):
    spec = {"format": "delimited", "header": header, "checks": [],
            "fields": [{"name": "k", "empty": False, "type": "Choice", "choices": ["a", "b", "c", "d", "e", "f"], "length": None}]}
    if unique:
        spec["checks"].append({"kind": "unique", "cols": [0]})
    return spec


def gen_inputs(tier, rnd):
    good = ["a", "b", "c", "d", "e", "f"]
    for nrows in range(0, 6):
        for bad in [None] + list(range(nrows)):
            for header in range(0, 4):
                for limit in [None] + list(range(0, nrows + 2)):
                    for unique in (False, True):
                        table = [[good[i]] for i in range(nrows)]
                        if bad is not None:
                            if unique and bad > 0:
                                table[bad] = list(table[bad - 1])
                            else:
                                table[bad] = ["zz"]
                        for api in ("rows", "validate"):
                            yield {"spec": base_spec(header, unique), "table": table, "mode": "yield", "limit": limit, "api": api}
                            if api == "rows" and nrows >= 2 and (nrows + header + (limit or 0)) % 3 == 0:
                                # the same Reader object reads its data a second time: header and limit count from the start again
                                yield {"spec": base_spec(header, unique), "table": table, "mode": "yield", "limit": limit, "api": api, "prepass": True}
                            if api == "rows" and header >= 1 and nrows > header and (bad is None or bad >= header) and (limit is None or limit >= header):
                                # a header row may be anything, also a blank line (a row without any items)
                                for k in range(header):
                                    blank = [list(r) for r in table]
                                    blank[k] = []
                                    yield {"spec": base_spec(header, unique), "table": blank, "mode": "yield", "limit": limit, "api": api}
                            if bad is None and not unique:
                                # the container breaks behind the last row (unterminated quote): the validate-only API must
                                # not even notice when it stops before, the row API always does
                                yield {"spec": base_spec(header, unique), "table": table, "mode": "yield", "limit": limit, "api": api, "fault": True}
    for _ in range(100 if tier == "quick" else 3000):
        spec = V.gen_spec(rnd, header=rnd.randint(0, 3))
        table = V.gen_table(rnd, spec)
        limit = rnd.choice([None] + list(range(0, len(table) + 2)))
        api = rnd.choice(["rows", "validate"])
        yield {"spec": spec, "table": table, "mode": rnd.choice(["yield", "continue", "raise"]), "limit": limit, "api": api, "prepass": api == "rows" and rnd.random() < 0.2}


def interleaved(spec, text, mode, limit, k):
    """one Reader whose rows() is called a second time while the first iterator is in use (nothing is done with the
    second one): what the first iterator produces - rows and rejections, in order - is what an undisturbed pass produces"""
    import io
    from cutplace import validio
    reader = validio.Reader(V.build_cid(spec), io.StringIO(text, newline=""), on_error=mode, validate_until=limit)
    it = reader.rows()
    outs = []
    try:
        for _ in range(k):
            outs.append(next(it))
    except StopIteration:
        pass
    reader.rows()
    outs.extend(it)
    return [("err",) if isinstance(o, Exception) else ("row", tuple(o)) for o in outs]


def direct_oracle(inp, obs):
    spec, table, limit = inp["spec"], inp["table"], inp.get("limit")
    header = spec.get("header", 0)
    if inp.get("api") == "rows" and inp["mode"] == "yield" and not spec["checks"] and not inp.get("prepass") and not inp.get("fault") \
            and len(table) >= 2 and (len(table) + header) % 2 == 0:
        plain = [("err",) if "err" in o else ("row", tuple(o["row"])) for o in obs["outs"]]
        for k in (1, 2):
            got = interleaved(spec, V.encode(spec, table), "yield", limit, k)
            if got != plain:
                return "rows() asked again after %d outputs changes what the iterator in use produces: %r instead of %r" % (k, got, plain)
    if inp.get("api") == "rows" and inp["mode"] == "yield":
        # a rejection is reported iff the offending row's number is at most the limit; later rows come back unchanged
        data_rows = table[header:]
        if len(obs["outs"]) != len(data_rows) and obs["raised"] is None and spec["format"] == "delimited" and not inp.get("fault"):
            # (a blank line is a row - one without items - and counts like any other, in the header and behind it)
            return "number of outputs %d differs from number of data rows %d" % (len(obs["outs"]), len(data_rows))
        if spec["format"] == "delimited" and not inp.get("fault"):
            for i, o in enumerate(obs["outs"]):
                if "row" in o and i < len(data_rows) and [c for c in o["row"]] != list(data_rows[i]):
                    return "output %d is %r but data row %d is %r" % (i + 1, o["row"], i + 1, data_rows[i])
        for o in obs["outs"]:
            if "err" in o and limit is not None and o["err"]["line"] + 1 > limit:
                return "rejection reported for row %d beyond the validation limit %d" % (o["err"]["line"] + 1, limit)
            if "err" in o and o["err"]["line"] + 1 <= header:
                return "rejection reported for header row %d" % (o["err"]["line"] + 1)
    if inp.get("api") == "validate" and inp.get("fault") and limit is not None and len(table) >= header + limit and obs["raised"] is not None:
        if not spec["checks"]:
            return "validate() with limit %d raised %s although the container is broken only behind data row %d" % (limit, obs["raised"]["family"], len(table) - header)
    if inp.get("api") == "validate" and spec["format"] == "delimited" and not inp.get("fault"):
        # command line --until N must have the same effect as the API's limit
        with CLI.Workdir() as w:
            cid_path = w.write_cid(spec)
            data_path = w.write_data("data.csv", V.encode(spec, table))
            argv = ([] if limit is None else ["--until", str(limit)]) + [cid_path, data_path]
            code, looked_up = CLI.run_main_recording(argv)
            env_msg = CLI.environment_dependence(argv, code, looked_up)
            if env_msg:
                return env_msg
            # the command line validates with Reader.validate_rows (no islice): compare with the row API in raise mode
            api = V.run_reader(V.build_cid(spec), spec, V.encode(spec, table), "raise", limit)
            want = 0 if api["raised"] is None else 1
            if code != want:
                return "command line --until %s exits %s but the API with the same limit %s" % (limit, code, "accepts" if want == 0 else "rejects")
    return None
