"""C06 - error-handling modes agree with each other and account for every row."""
from readercase import *  # noqa
import vcommon as V

RULE = ("tables and CIDs as in C04 (Text/Choice fields, IsUnique/DistinctCount checks, header 0..2, delimited and fixed) "
        "x the three modes, each also with a container fault (unterminated quote / short fixed record) after the last "
        "row, i.e. at every row boundary as the table length varies 0..8; every mode is a correspondence case; the "
        "yield case additionally runs the other two modes on fresh CIDs and checks filter/prefix/counter relations "
        "directly on the implementation. Non-trivial: at least one data row. Distinct = distinct (CID, table, mode, fault).")


def gen_inputs(tier, rnd):
    n = 700 if tier == "quick" else 6000
    for _ in range(n):
        spec = V.gen_spec(rnd)
        table = V.gen_table(rnd, spec)
        if rnd.random() < 0.3:
            spec, table = V.builtin_variant(rnd, spec, table)     # one column of another built-in type (numbers, dates, patterns)
        fault = rnd.random() < 0.35
        # a quarter of the cases with a validation limit: the modes still differ in presentation only, and every row is produced
        limit = rnd.randint(0, len(table) + 1) if rnd.random() < 0.25 else None
        for mode in ("yield", "continue", "raise"):
            yield {"spec": spec, "table": table, "mode": mode, "fault": fault, "limit": limit}


def strip(o):
    if "row" in o:
        return ("row", tuple(o["row"]))
    e = o["err"]
    return ("err", e["family"], e["line"], e["cell"], e["field"], tuple(e["see"]) if e["see"] else None)


def direct_oracle(inp, obs):
    if inp["mode"] != "yield":
        return None
    spec, table, fault = inp["spec"], inp["table"], inp.get("fault", False)
    text = V.encode(spec, table, broken_tail=fault)
    y = obs
    c = V.run_reader(V.build_cid(spec), spec, text, "continue", inp.get("limit"))
    r = V.run_reader(V.build_cid(spec), spec, text, "raise", inp.get("limit"))
    ys = [strip(o) for o in y["outs"]]
    if [strip(o) for o in c["outs"]] != [o for o in ys if o[0] == "row"]:
        return "'continue' does not produce exactly the accepted rows of 'yield'"
    if (c["acc"], c["rej"]) != (y["acc"], y["rej"]):
        return "counters differ between 'yield' and 'continue'"
    prefix = []
    first = None
    for o in ys:
        if o[0] == "err":
            first = o
            break
        prefix.append(o)
    if [strip(o) for o in r["outs"]] != prefix:
        return "'raise' does not produce the rows before the first rejection"
    end_err = y["raised"]  # container fault or end check, raised after the rows
    if first is not None:
        if r["raised"] is None:
            return "'raise' did not raise although 'yield' reports a rejection"
        rr = ("err", r["raised"]["family"], r["raised"]["line"], r["raised"]["cell"], r["raised"]["field"], tuple(r["raised"]["see"]) if r["raised"]["see"] else None)
        if rr != first:
            return "'raise' raised %r but the first rejection of 'yield' is %r" % (rr, first)
    if y["acc"] != sum(1 for o in ys if o[0] == "row") or y["rej"] != sum(1 for o in ys if o[0] == "err"):
        return "counters do not count the yielded rows and errors"
    if obs["raw_fault"]:
        for name, res in (("yield", y), ("continue", c), ("raise", r)):
            if res["raised"] is None:
                return "malformed container did not stop reading in mode %s" % name
        if y["raised"]["family"] != "FDataFormat" or c["raised"]["family"] != "FDataFormat" or (first is None and r["raised"]["family"] != "FDataFormat"):
            return "malformed container must end with a data-format error"
    elif end_err is None and y["acc"] + y["rej"] != max(0, len(table) - spec.get("header", 0)) and spec["format"] == "fixed":
        return "accepted + rejected != number of data rows"
    return None
