"""Python 3.12 tokenizer observations for Model/Lex.v."""
import token
import tokenize

from cutplace import _tools

from common import L, P, S

KIND = {token.NAME: "KName", token.NUMBER: "KNumber", token.STRING: "KString", token.OP: "KOp", token.COMMENT: "KComment",
        token.INDENT: "KIndent", token.NEWLINE: "KNewline", token.DEDENT: "KDedent", token.NL: "KNl", token.ENDMARKER: "KEnd"}
LEX_HEADER = """Definition lres_eqb (a b : lres) : bool :=
  match a, b with
  | LOk x, LOk y => list_eqb (fun t u => tkind_eqb (tk t) (tk u) && text_eqb (tt t) (tt u)) x y
  | LTokenError, LTokenError => true
  | LOutOfDomain, _ => true          (* outside the model's domain: counted, not compared *)
  | _, _ => false
  end.
Definition out_of_domain (a : lres) : bool := match a with LOutOfDomain => true | _ => false end.
"""


def observe_tokens(text, filtered=False):
    """('ok', [(kind, text)]) | ('tokenerror',) | ('other', exception name)"""
    try:
        gen = _tools.tokenize_without_space(text) if filtered else _tools.generated_tokens(text)
        toks = []
        for t in gen:
            if t[0] not in KIND:
                return ("other", "token type %d" % t[0])
            toks.append((KIND[t[0]], t[1]))
        return ("ok", toks)
    except tokenize.TokenError:
        return ("tokenerror",)
    except Exception as e:  # noqa  (IndentationError, ...)
        return ("other", type(e).__name__)


def coq_lres(obs):
    if obs[0] == "ok":
        return "(LOk %s)" % L(obs[1], lambda kt: "(T %s %s)" % (kt[0], S(kt[1])))
    if obs[0] == "tokenerror":
        return "LTokenError"
    return "LOutOfDomain"   # never equal to a model answer inside the domain except via the wildcard below
