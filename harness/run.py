"""./check driver.

  ./check --setup                 regenerate coq/Generated, full build of the Coq development
  ./check Cxx quick|thorough      decide property Cxx on /repo's current working tree
  ./check Cxx --replay <file>     re-run one recorded case on implementation and model

Exit 0: the property held on everything explored.  Exit 1 + "VIOLATION property=<id> replay=<path>".
"""
import importlib
import json
import os
import random
import sys
import time
import traceback

sys.path.insert(0, os.path.dirname(os.path.abspath(__file__)))
import common as C  # noqa: E402

TRUSTED_BASE_COMMON = [
    "Coq 8.16.1 kernel and its vm_compute byte-code VM (no native_compute)",
    "tools/py2v.py: fail-closed ast translator from /repo/cutplace/*.py to coq/Generated/*.v",
    "harness/*.py: case generators, canonicalisation of implementation observations, Coq literal printer",
    "no Axiom/Parameter/Admitted in coq/ (grep gate on every run); Print Assumptions output recorded per theorem",
]


def setup():
    t0 = time.time()
    with C.BuildLock():
        ok, log = C.regenerate()
        print(log.strip())
        if not ok:
            print("translator failed")
            return 1
        ok, log = C.make(clean=True)
        print(log[-3000:])
    print("setup: build %s in %.0fs" % ("ok" if ok else "FAILED", time.time() - t0))
    return 0 if ok else 1


def stable(obs):
    """an observation without its free text (messages list what the process knows at that moment)"""
    if isinstance(obs, dict):
        return {k: stable(v) for k, v in obs.items() if k not in ("msg", "text", "detail", "decl_detail", "dataformat", "interface")}
    if isinstance(obs, (list, tuple)):
        return [stable(v) for v in obs]
    return obs


def load_prop(prop):
    return importlib.import_module("props." + prop.lower())


def replay_path(prop, tag):
    d = os.path.join(C.BUILD, "replay")
    os.makedirs(d, exist_ok=True)
    return os.path.join(d, "%s-%s.json" % (prop, tag))


def check(prop, tier, seed):
    t0 = time.time()
    mod = load_prop(prop)
    rdir = os.path.join(C.BUILD, "replay")
    if os.path.isdir(rdir):
        for f in os.listdir(rdir):
            if f.startswith(prop + "-"):
                os.remove(os.path.join(rdir, f))
    violations = []  # (replay file, no_failing_input_found)
    known_lines = []
    notes = []

    # ---- 1. translator + proof obligations
    with C.BuildLock():
        tr_ok, tr_log = C.regenerate()
        gate = C.grep_gate()
        if tier == "thorough":
            mk_ok, mk_log = C.make(clean=True)
        else:
            mk_ok, mk_log = C.make()
    theorems = C.theorems_of(prop)
    vo = os.path.join(C.COQ, "Props", prop + ".vo")
    props_built = os.path.exists(vo) and os.path.getmtime(vo) >= os.path.getmtime(vo[:-1])
    assumptions, a_log = (None, "")
    if props_built:
        assumptions, a_log = C.print_assumptions(prop, theorems)
    chk_ok, chk_summary = (True, "not run in the quick tier")
    if tier == "thorough" and props_built and assumptions is not None:
        chk_ok, chk_summary = C.coqchk(prop)
    proof_ok = tr_ok and not gate and props_built and assumptions is not None and chk_ok
    discharged = len(theorems) if proof_ok else 0
    proof_failure = None
    if not proof_ok:
        why = []
        if not tr_ok:
            why.append("translator failed: " + tr_log[-1500:])
        if gate:
            why.append("grep gate: " + "; ".join(gate[:5]))
        if not props_built:
            why.append("coq/Props/%s.vo did not build: %s" % (prop, mk_log[-3000:]))
        elif assumptions is None:
            why.append("Print Assumptions failed: " + a_log[-1500:])
        if not chk_ok:
            why.append("coqchk: " + chk_summary[-800:])
        if not mk_ok:
            errs = [ln for ln in mk_log.splitlines() if ln.startswith("File ") or "Error" in ln or ln.startswith("make")]
            why.append("make reported: " + " / ".join(errs[:12]) + " ... " + mk_log[-1500:])
        proof_failure = " | ".join(why)
    model_files_ok = all(
        os.path.exists(os.path.join(C.COQ, f[:-2] + ".vo")) for f in getattr(mod, "MODEL_FILES", [])
    )

    # ---- 2. correspondence + direct oracle on the implementation
    rnd = random.Random(seed)
    inputs = []
    corpus_dir = os.path.join(C.VERIF, "corpus", prop)
    if os.path.isdir(corpus_dir):
        for f in sorted(os.listdir(corpus_dir)):
            if f.endswith(".json"):
                inputs.append(json.load(open(os.path.join(corpus_dir, f)))["input"])
    n_corpus = len(inputs)
    escalate = (not proof_ok) and tier == "quick"
    inputs.extend(mod.gen_inputs("thorough" if escalate else tier, rnd))
    cases = []
    oracle_failures = []
    for inp in inputs:
        c = mod.make_case(inp)
        c["input"] = inp
        cases.append(c)
        msg = mod.direct_oracle(inp, c["obs"]) if hasattr(mod, "direct_oracle") else None
        if not msg and hasattr(mod, "extra_oracle"):
            msg = mod.extra_oracle(inp, c["obs"])
        if msg:
            oracle_failures.append((c, msg))
    # isolation: the observation of a case must not depend on what the process handled before it (caches keyed too
    # coarsely, state kept in classes or modules). A sample of the cases is run a second time, in reverse order, after
    # all others; a different observation is a failure of the property for that input in that context.
    n_rerun = 0
    if cases and not getattr(mod, "NO_RERUN", False):
        sample = random.Random(seed + 1).sample(range(len(cases)), min(len(cases), 120 if tier == "quick" else 600))
        flagged = {id(c) for c, _ in oracle_failures}
        for i in sorted(sample, reverse=True):
            first = cases[i]
            again = mod.make_case(first["input"])
            n_rerun += 1
            if json.dumps(stable(again["obs"]), sort_keys=True, default=str) != json.dumps(stable(first["obs"]), sort_keys=True, default=str) and id(first) not in flagged:
                again["input"] = first["input"]
                again["first_observation"] = first["obs"]
                msg = (mod.direct_oracle(first["input"], again["obs"]) if hasattr(mod, "direct_oracle") else None) or ""
                oracle_failures.append((again, "the same input gave a different observation when it was handled a second time, after %d other "
                                               "cases, in this process (first: %s) %s" % (len(cases) - 1, json.dumps(first["obs"], default=str)[:300], msg)))
    corr_bad, corr_errors = [], []
    if model_files_ok:
        corr_bad, corr_errors = C.run_shards(
            prop, mod.HEADER, mod.CASE_TYPE, mod.MODEL, mod.EQB, cases, getattr(mod, "SHARD", 400),
            ood_term=getattr(mod, "OOD", None)
        )
        if len(cases) >= 50 and C.LAST_CANARY[0][1] > 0 and C.LAST_CANARY[0][0] == 0 and not corr_errors:
            corr_errors = ["self-test: in no shard does the comparison tell two cases apart - it accepts everything or all observations are equal"]
    else:
        corr_errors = ["model files did not compile: " + mk_log[-2000:]]

    known = [k for k in C.load_known_findings() if k["property"] == prop and k["status"] == "open"]

    def signature(c, msg):
        return mod.classify(c["input"], c["obs"], msg) if hasattr(mod, "classify") else None

    seen_known = set()
    new_failures = []
    for c, msg in oracle_failures:
        sig = signature(c, msg)
        if sig and any(k["signature"] == sig for k in known):
            seen_known.add(sig)
            continue
        new_failures.append((c, msg, False))

    for i in corr_bad:
        c = cases[i]
        sig = signature(c, "correspondence")
        if sig and any(k["signature"] == sig for k in known):
            seen_known.add(sig)
            continue
        new_failures.append((c, "implementation and model disagree", True))
    # every open known finding is replayed from its recorded minimal input
    for k in known:
        c = mod.make_case(k["minimal_input"])
        msg = mod.direct_oracle(k["minimal_input"], c["obs"]) if hasattr(mod, "direct_oracle") else None
        still = bool(msg)
        line = "KNOWN-FINDING: property=%s %s [%s]%s" % (
            prop,
            k["what"],
            k["signature"],
            "" if still else " (minimal input no longer fails)",
        )
        known_lines.append(line)

    if hasattr(mod, "shrink"):
        new_failures = [(mod.shrink(c, msg), msg, corr) for c, msg, corr in new_failures[:5]] + new_failures[5:]

    for n, (c, msg, is_corr) in enumerate(new_failures[:10]):
        rp = replay_path(prop, "%s-%d" % ("corr" if is_corr else "oracle", n))
        rec = {"property": prop, "kind": "correspondence" if is_corr else "direct-oracle", "what": msg,
               "input": c["input"], "implementation_observation": c["obs"]}
        if is_corr and model_files_ok:
            rec["model_observation"] = C.eval_model(prop, mod.HEADER, mod.CASE_TYPE, mod.MODEL, c["coq"])
        C.write_json(rp, rec)
        violations.append((rp, False))
    if corr_errors:
        rp = replay_path(prop, "correspondence-broken")
        C.write_json(rp, {"property": prop, "kind": "correspondence-did-not-run", "errors": corr_errors})
        violations.append((rp, True))
    if not proof_ok:
        # the proof obligation broke; a concrete failing input may already have been found above
        if not new_failures:
            extra = mod.search_failing_input(rnd) if hasattr(mod, "search_failing_input") else None
            rp = replay_path(prop, "proof-broken")
            rec = {"property": prop, "kind": "proof-obligation-broken", "theorems": theorems, "detail": proof_failure}
            if extra:
                rec["failing_input"] = extra
            C.write_json(rp, rec)
            violations.append((rp, extra is None))
        else:
            notes.append("proof obligation broken: " + (proof_failure or "")[:500])

    # ---- 3. evidence
    nontrivial = {C.case_key(c["input"]) for c in cases if c.get("nontrivial", True)}
    dist = {}
    for c in cases:
        for k in c.get("tags", []):
            dist[k] = dist.get(k, 0) + 1
    ev = {
        "property_id": prop,
        "tier": tier,
        "seed": seed,
        "level": "proof",
        "wall_s": round(time.time() - t0, 1),
        "violations": len(violations),
        "coverage": {
            "obligations": max(1, len(theorems)),
            "discharged": discharged,
            "checker_cmd": "cd coq && coq_makefile -f _CoqProject -o Makefile && make (full .vo build; coqc 8.16.1), then coqc on Print Assumptions for: "
            + ", ".join(theorems),
            "trusted_base": TRUSTED_BASE_COMMON + getattr(mod, "TRUSTED", [])
            + ["Print Assumptions: " + (" || ".join(assumptions) if assumptions else "not available (proof broken)")]
            + ["coqchk -o CP.Props.%s: %s" % (prop, chk_summary)],
            "theorems": theorems,
            "evaluations": len(cases),
            "distinct_nontrivial": len(nontrivial),
            "rule": mod.RULE,
            "samples": [c["input"] for c in cases[n_corpus : n_corpus + 3]] + [c["input"] for c in cases[-2:]],
            "exhaustive": bool(getattr(mod, "EXHAUSTIVE", {}).get(tier, False)),
            "correspondence_mismatches": len(corr_bad),
            "out_of_domain": C.LAST_OOD[0],
            "comparison_self_test": "in %d of %d shards the model's observation for one input differs from the recorded observation of another case (the comparison can tell cases apart)" % tuple(C.LAST_CANARY[0]),
            "direct_oracle_failures": len(oracle_failures),
            "known_findings_seen": sorted(seen_known),
            "input_distribution": dist,
            "corpus_cases": n_corpus,
            "cases_run_a_second_time_for_isolation": n_rerun,
            "budget_escalated_because_proof_broke": escalate,
            "notes": notes,
        },
        "assumptions": getattr(mod, "ASSUMPTIONS", []),
    }
    C.write_json(os.path.join(C.EVIDENCE, prop + ".json"), ev)

    for line in known_lines:
        print(line)
    print(
        "%s %s: %d theorems %s; %d cases (%d distinct non-trivial), %d correspondence mismatches, %d oracle failures, %.0fs"
        % (prop, tier, len(theorems), "checked" if proof_ok else "BROKEN", len(cases), len(nontrivial), len(corr_bad),
           len(oracle_failures), time.time() - t0)
    )
    for rp, nofail in violations:
        print("VIOLATION property=%s replay=%s%s" % (prop, rp, " no-failing-input-found" if nofail else ""))
    return 1 if violations else 0


def replay(prop, path):
    mod = load_prop(prop)
    rec = json.load(open(path))
    if "input" not in rec and "failing_input" not in rec:
        print(json.dumps(rec, indent=1)[:3000])
        return 1
    inp = rec.get("input", rec.get("failing_input"))
    c = mod.make_case(inp)
    print("input:", json.dumps(inp))
    print("implementation:", json.dumps(c["obs"], default=str))
    print("model:", C.eval_model(prop, mod.HEADER, mod.CASE_TYPE, mod.MODEL, c["coq"]))
    msg = mod.direct_oracle(inp, c["obs"]) if hasattr(mod, "direct_oracle") else None
    print("direct oracle:", msg or "ok")
    bad, errs = C.run_shards(prop, mod.HEADER, mod.CASE_TYPE, mod.MODEL, mod.EQB, [c])
    print("correspondence:", "MISMATCH" if bad else ("error " + str(errs) if errs else "agree"))
    return 1 if (bad or msg or errs) else 0


def main(argv):
    if len(argv) >= 2 and argv[1] == "--setup":
        return setup()
    if len(argv) >= 4 and argv[2] == "--replay":
        return replay(argv[1], argv[3])
    if len(argv) < 3:
        print(__doc__)
        return 2
    prop, tier = argv[1], argv[2]
    tier = os.environ.get("VERIF_TIER", tier)
    seed = int(os.environ.get("VERIF_SEED", "20260929"))
    try:
        return check(prop, tier, seed)
    except Exception:
        traceback.print_exc()
        rp = replay_path(prop, "harness-crash")
        C.write_json(rp, {"property": prop, "kind": "harness-crash", "traceback": traceback.format_exc()})
        print("VIOLATION property=%s replay=%s no-failing-input-found" % (prop, rp))
        return 1


if __name__ == "__main__":
    sys.exit(main(sys.argv))
