(* Model of cutplace.sql: SqlFactory.sql_fields / create_table_statement, the dialects' sql_type and
   the field formats' sql_ansi_type.  The threshold ladders, keyword lists, MAX_* constants and
   sign_adjusted_limit come from Generated/SqlLadders.v (translated from the source on every run). *)
From Coq Require Import String.
From CP Require Import Model.Base Generated.SqlLadders.
Local Open Scope Z_scope.

Inductive dialect := Ansi | Db2 | Transact | PlSql.

(* what SQL generation reads from a field format *)
Inductive sqlkind :=
| SInteger (lo hi : Z)               (* IntegerFieldFormat with bounded valid_range limits *)
| SDecimal (scale precision : Z)     (* DecimalFieldFormat._scale / _precision *)
| SDate                              (* DateTimeFieldFormat *)
| SVarchar (upper : option Z).       (* every other type: length.upper_limit *)
Record sfield := { sf_name : text; sf_empty_ok : bool; sf_kind : sqlkind }.

(* fields.py IntegerFieldFormat.sql_ansi_type: limit = max(sign_adjusted_limit(lower), sign_adjusted_limit(upper)) *)
Definition ansi_int_limit (lo hi : Z) : Z := Z.max (sign_adjusted_limit lo) (sign_adjusted_limit hi).

(* (type name, length, precision) after `(field.sql_ansi_type() + (None, None))[:3]` *)
Definition ansi_type (k : sqlkind) : text * option Z * option Z :=
  match k with
  | SInteger lo hi => (txt "int", Some (ansi_int_limit lo hi), None)
  | SDecimal s p => (txt "decimal", Some s, Some p)
  | SDate => (txt "date", None, None)
  | SVarchar u => (txt "varchar", u, None)
  end.

(* the translated if/elif chain *)
Fixpoint ladder (rungs : list rung) (els : option (text * nat)) (limit : Z) : option (text * nat) :=
  match rungs with
  | [] => els
  | (c, b, _, name, ar) :: r => if cmp_z c limit b then Some (name, ar) else ladder r els limit
  end.

Definition via_ladder (rungs : list rung) (els : option (text * nat)) (a : text * option Z * option Z)
  : text * option Z * option Z :=
  let '(ty, len, prec) := a in
  match len with
  | Some limit =>
      match ladder rungs els limit with
      | Some (name, ar) => (name, Some limit, if Nat.eqb ar 3 then Some 0 else None)
      | None => a
      end
  | None => a
  end.

(* dialect.sql_type *)
Definition sql_type (d : dialect) (a : text * option Z * option Z) : text * option Z * option Z :=
  let '(ty, len, prec) := a in
  match d with
  | Ansi => a
  | Transact => if text_eqb ty (txt "int") then via_ladder transact_rungs transact_else a else a
  | Db2 => if text_eqb ty (txt "int") then via_ladder db2_rungs db2_else a else a
  | PlSql =>
      if text_eqb ty (txt "decimal") then (txt "number", len, prec)
      else if text_eqb ty (txt "varchar") then (txt "varchar2", len, None)
      else if text_eqb ty (txt "int") then via_ladder plsql_rungs plsql_else a
      else a
  end.

Definition keywords (d : dialect) : list text :=
  match d with Ansi => ansi_keywords | Db2 => db2_keywords | Transact => transact_keywords | PlSql => plsql_keywords end.
Definition is_keyword (d : dialect) (w : text) : bool := existsb (text_eqb (lower w)) (keywords d).

(* one column of the CREATE TABLE statement as it is printed *)
Record column := { c_name : text; c_type : text; c_len : option Z; c_prec : option Z; c_notnull : bool }.

Definition column_of (d : dialect) (f : sfield) : column :=
  let '(ty, len, prec) := sql_type d (ansi_type (sf_kind f)) in
  let is_int := existsb (text_eqb ty) INT_TYPES in
  let shown_len := if is_int then None else len in
  {| c_name := if is_keyword d (sf_name f) then (34%N :: sf_name f) ++ [34%N] else sf_name f;
     c_type := ty;
     c_len := shown_len;
     c_prec := match shown_len with Some _ => prec | None => None end;
     c_notnull := negb (sf_empty_ok f) |}.

Definition create_table_columns (d : dialect) (fs : list sfield) : list column := map (column_of d) fs.
