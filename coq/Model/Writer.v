(* What a CID-bound Writer puts on its stream: validio.Writer._padded_fixed_row + rowio.FixedRowWriter.write_row,
   and rowio.DelimitedRowWriter.write_row (through Model/Delimited.v). *)
From CP Require Import Model.Base Model.Ranges Model.Fields Model.Validio Model.History Model.Delimited.

(* _padded_fixed_row: values shorter than the field are padded with trailing blanks *)
Definition pad (w : nat) (cell : text) : text := cell ++ repeat SP (w - length cell).
Fixpoint pad_row (ws : list nat) (row : list text) : list text :=
  match ws, row with
  | w :: ws', cell :: row' => pad w cell :: pad_row ws' row'
  | _, _ => []
  end.
(* FixedRowWriter.write_row: the items, then the line separator (none for line delimiter None;
   os.linesep = "\n" for "any") *)
Definition fixed_line (ws : list nat) (sep : text) (row : list text) : text := concat (pad_row ws row) ++ sep.
Definition fixed_text (ws : list nat) (sep : text) (rows : list (list text)) : text := concat (map (fixed_line ws sep) rows).

(* the stream contents after the rows the writer emitted *)
Definition delimited_text (d : dialect) (rows : list (list text)) : option text := w_rows d rows.
