(* Model of the parts of CPython 3.12's _csv module that cutplace.rowio relies on (DelimitedRowWriter,
   delimited_rows): writer join_append_data / writerow with lineterminator "\r\n", reader
   parse_process_char in strict mode fed by universal line splitting (stream opened with newline='').
   Plus rowio._as_delimited_keywords. *)
From CP Require Import Model.Base.

Record dialect := { delim : N; quote : N; esc : option N; dbl : bool; qall : bool }.

(* rowio._as_delimited_keywords: escape character = quote character means doubling, no escapechar *)
Definition as_delimited_keywords (item_delimiter quote_character escape_character : N) (quoting_all : bool) : dialect :=
  if N.eqb escape_character quote_character
  then {| delim := item_delimiter; quote := quote_character; esc := None; dbl := true; qall := quoting_all |}
  else {| delim := item_delimiter; quote := quote_character; esc := Some escape_character; dbl := false; qall := quoting_all |}.

Definition is_esc (d : dialect) (c : N) : bool := match esc d with Some e => N.eqb c e | None => false end.
Definition is_nl (c : N) : bool := N.eqb c CR || N.eqb c LF.

(* ---------- writer. None = csv.Error "need to escape, but no escapechar set" *)
Fixpoint w_field (d : dialect) (s : text) (quoted : bool) : option (text * bool) :=
  match s with
  | [] => Some ([], quoted)
  | c :: t =>
    if N.eqb c (delim d) || is_esc d c || N.eqb c (quote d) || is_nl c then
      let '(pre, want_esc) :=
        if N.eqb c (quote d) then (if dbl d then ([quote d], false) else ([], true))
        else if is_esc d c then ([], true) else ([], false) in
      let quoted' := if want_esc then quoted else true in
      match (if want_esc then match esc d with Some e => Some [e] | None => None end else Some []) with
      | None => None
      | Some e => match w_field d t quoted' with
                  | Some (r, q) => Some (pre ++ e ++ c :: r, q) | None => None end
      end
    else match w_field d t quoted with Some (r, q) => Some (c :: r, q) | None => None end
  end.
Definition w_cell (d : dialect) (lone : bool) (s : text) : option text :=
  match w_field d s (qall d || (lone && match s with [] => true | _ => false end)) with
  | Some (r, true) => Some (quote d :: r ++ [quote d])
  | Some (r, false) => Some r
  | None => None end.
Fixpoint w_cells (d : dialect) (cells : list text) (first : bool) : option text :=
  match cells with
  | [] => Some []
  | c :: t => match w_cell d false c, w_cells d t false with
              | Some a, Some b => Some ((if first then [] else [delim d]) ++ a ++ b)
              | _, _ => None end
  end.
Definition w_row (d : dialect) (cells : list text) : option text :=
  match cells with
  | [c] => match w_cell d true c with Some a => Some (a ++ [CR; LF]) | None => None end
  | _ => match w_cells d cells true with Some a => Some (a ++ [CR; LF]) | None => None end
  end.
Fixpoint w_rows (d : dialect) (rows : list (list text)) : option text :=
  match rows with [] => Some [] | r :: t =>
    match w_row d r, w_rows d t with Some a, Some b => Some (a ++ b) | _, _ => None end end.

(* ---------- reader *)
Inductive ev := C (c : N) | EOL.
(* universal newline line splitting; EOL = end of one line handed to the parser *)
Fixpoint events (s : text) (line_open : bool) : list ev :=
  match s with
  | [] => if line_open then [EOL] else []
  | c :: t =>
    if N.eqb c LF then C c :: EOL :: events t false
    else if N.eqb c CR then
      match t with
      | c2 :: t2 => if N.eqb c2 LF then C c :: C c2 :: EOL :: events t2 false else C c :: EOL :: events t false
      | [] => C c :: EOL :: []
      end
    else C c :: events t true
  end.
Inductive st := StartRecord | StartField | EscapedChar | InField | InQuoted | EscInQuoted | QuoteInQuoted | EatCrnl | AfterEscCrnl.
Record rd := { state : st; field : text (* reversed *); fields : list text (* reversed *) }.
Definition save (r : rd) (s : st) : rd := {| state := s; field := []; fields := rev (field r) :: fields r |}.
Definition addc (r : rd) (c : N) (s : st) : rd := {| state := s; field := c :: field r; fields := fields r |}.
Definition setst (r : rd) (s : st) : rd := {| state := s; field := field r; fields := fields r |}.
Definition nl_or_eol (e : ev) := match e with EOL => true | C c => is_nl c end.
Definition after_nl (e : ev) := match e with EOL => StartRecord | _ => EatCrnl end.

Definition in_field_step (d : dialect) (r : rd) (e : ev) (cur : st) : option rd :=
  if nl_or_eol e then Some (save r (after_nl e))
  else match e with
       | C c => if is_esc d c then Some (setst r EscapedChar)
                else if N.eqb c (delim d) then Some (save r StartField)
                else Some (addc r c cur)   (* the C code falls through from AFTER_ESCAPED_CRNL and keeps that state *)
       | EOL => None end.
Definition start_field_step (d : dialect) (r : rd) (e : ev) : option rd :=
  if nl_or_eol e then Some (save r (after_nl e))
  else match e with
       | C c => if N.eqb c (quote d) then Some (setst r InQuoted)
                else if is_esc d c then Some (setst r EscapedChar)
                else if N.eqb c (delim d) then Some (save r StartField)
                else Some (addc r c InField)
       | EOL => None end.
(* None = csv.Error (strict) *)
Definition rstep (d : dialect) (r : rd) (e : ev) : option rd :=
  match state r with
  | StartRecord => match e with
                   | EOL => Some r
                   | C c => if is_nl c then Some (setst r EatCrnl) else start_field_step d r e end
  | StartField => start_field_step d r e
  | EscapedChar => match e with
                   | C c => if is_nl c then Some (addc r c AfterEscCrnl) else Some (addc r c InField)
                   | EOL => Some (addc r LF InField) end
  | AfterEscCrnl => match e with EOL => Some r | _ => in_field_step d r e AfterEscCrnl end
  | InField => in_field_step d r e InField
  | InQuoted => match e with
                | EOL => Some r
                | C c => if is_esc d c then Some (setst r EscInQuoted)
                         else if N.eqb c (quote d) then Some (setst r (if dbl d then QuoteInQuoted else InField))
                         else Some (addc r c InQuoted) end
  | EscInQuoted => match e with C c => Some (addc r c InQuoted) | EOL => Some (addc r LF InQuoted) end
  | QuoteInQuoted => match e with
                     | C c => if N.eqb c (quote d) then Some (addc r c InQuoted)
                              else if N.eqb c (delim d) then Some (save r StartField)
                              else if is_nl c then Some (save r EatCrnl) else None
                     | EOL => Some (save r StartRecord) end
  | EatCrnl => match e with C c => if is_nl c then Some r else None | EOL => Some (setst r StartRecord) end
  end.
Definition rd0 : rd := {| state := StartRecord; field := []; fields := [] |}.
(* a record is emitted each time an EOL leaves the machine in StartRecord; (rows, false) = csv.Error after rows *)
Fixpoint rrun (d : dialect) (evs : list ev) (r : rd) (acc : list (list text)) : list (list text) * bool :=
  match evs with
  | [] => match state r, field r with
          (* Reader_iternext: field_len != 0 || state == IN_QUOTED_FIELD -> strict: "unexpected end of data" *)
          | InQuoted, _ => (acc, false)
          | _, _ :: _ => (acc, false)
          | _, [] => (acc, true)
          end
  | e :: t => match rstep d r e with
              | None => (acc, false)
              | Some r' => match e, state r' with
                           | EOL, StartRecord => rrun d t rd0 (acc ++ [rev (fields r')])
                           | _, _ => rrun d t r' acc end
              end
  end.
Definition csv_read (d : dialect) (s : text) : list (list text) * bool := rrun d (events s false) rd0 [].
