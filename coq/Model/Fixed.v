(* Model of cutplace.rowio.fixed_rows (rowio.py, fixed_rows and its local
   function _has_data_after_skipped_line_delimiter).  Executable only. *)
From CP Require Import Model.Base.

Inductive ld := LdNone | LdLF | LdCR | LdCRLF | LdAny.
Definition row := list text.

(* _has_data_after_skipped_line_delimiter: SkErr = DataFormatError, SkEnd = returned False,
   SkMore pb rest = returned True with [pb] the character pushed back *)
Inductive skip_res := SkErr | SkEnd | SkMore (pb : option N) (rest : text).
Definition skip_delim (d : ld) (s : text) : skip_res :=
  match d with
  | LdNone => SkMore None s
  | LdCRLF => match s with
              | [] => SkEnd
              | a :: b :: r => if (N.eqb a CR && N.eqb b LF)%bool then SkMore None r else SkErr
              | _ => SkErr end
  | LdLF => match s with [] => SkEnd | a :: r => if N.eqb a LF then SkMore None r else SkErr end
  | LdCR => match s with [] => SkEnd | a :: r => if N.eqb a CR then SkMore None r else SkErr end
  | LdAny => match s with
             | [] => SkEnd
             | a :: r =>
               if N.eqb a CR then
                 match r with
                 | [] => SkEnd
                 | b :: r' => if N.eqb b LF then SkMore None r' else SkMore (Some b) r'
                 end
               else if N.eqb a LF then SkMore None r else SkErr
             end
  end.

(* one item, honouring the one-character push-back (the "field_length >= 2" branch) *)
Definition take_item (pb : option N) (w : nat) (s : text) : text * text :=
  match pb with
  | None => (firstn w s, skipn w s)
  | Some c => (c :: firstn (w - 1) s, skipn (w - 1) s)
  end.

Inductive row_res := RwEof | RwErr | RwOk (r : row) (rest : text).
(* fields after the first: an empty or short read is an error *)
Fixpoint read_rest (ws : list nat) (s : text) (acc : row) : row_res :=
  match ws with
  | [] => RwOk acc s
  | w :: ws' => let item := firstn w s in
                if Nat.eqb (length item) w then read_rest ws' (skipn w s) (acc ++ [item]) else RwErr
  end.
Definition read_row (ws : list nat) (pb : option N) (s : text) : row_res :=
  match ws with
  | [] => RwEof
  | w :: ws' => let '(item, s1) := take_item pb w s in
                match item with
                | [] => RwEof
                | _ => if Nat.eqb (length item) w then read_rest ws' s1 [item] else RwErr
                end
  end.

(* Some (rows, true): generator ended; Some (rows, false): DataFormatError after yielding rows;
   None: out of fuel (proved unreachable for fixed_rows) *)
Fixpoint loop (fuel : nat) (d : ld) (ws : list nat) (pb : option N) (s : text) (acc : list row)
  : option (list row * bool) :=
  match fuel with
  | O => None
  | S f =>
    match read_row ws pb s with
    | RwEof => Some (acc, true)
    | RwErr => Some (acc, false)
    | RwOk r s1 =>
      match skip_delim d s1 with
      | SkErr => Some (acc, false)          (* raised before the row is yielded *)
      | SkEnd => Some (acc ++ [r], true)
      | SkMore pb' s2 => loop f d ws pb' s2 (acc ++ [r])
      end
    end
  end.
Definition fixed_rows (d : ld) (ws : list nat) (s : text) := loop (S (length s)) d ws None s [].
