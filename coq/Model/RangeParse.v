(* Model of cutplace.ranges.Range.__init__ (the token loop), code_for_number_token / code_for_symbolic_token /
   code_for_string_token, _tokens_for_description and create_range_from_length. *)
From Coq Require Import String.
From CP Require Import Model.Base Generated.Consts Model.Ranges Model.Lex.
Local Open Scope Z_scope.

(* how a TokenError raised by the tokenizer surfaces from code that does not catch it *)
Definition token_error_family : family := FInterface.

(* ---------- int(text, 0) for NUMBER token texts *)
Definition digit_val (c : N) : Z :=
  if is_digit c then Z.of_N c - 48
  else if in_rng c 97 102 then Z.of_N c - 87
  else if in_rng c 65 70 then Z.of_N c - 55 else 0.
(* digits with single underscores between them, already checked by the tokenizer; fold into a number *)
Fixpoint digits_value (base : Z) (s : text) (acc : Z) : option Z :=
  match s with
  | [] => Some acc
  | c :: r => if N.eqb c US then digits_value base r acc
              else if is_xdigit c && (digit_val c <? base) then digits_value base r (acc * base + digit_val c)
              else None
  end.
Definition all_zero_or_us (s : text) : bool := forallb (fun c => N.eqb c 48 || N.eqb c US) s.
Definition int_base0 (s : text) : option Z :=
  match s with
  | z :: x :: r =>
      if N.eqb z 48 && (N.eqb x 120 || N.eqb x 88) then digits_value 16 r 0
      else if N.eqb z 48 && (N.eqb x 111 || N.eqb x 79) then digits_value 8 r 0
      else if N.eqb z 48 && (N.eqb x 98 || N.eqb x 66) then digits_value 2 r 0
      else if N.eqb z 48 then (if all_zero_or_us s then Some 0 else None)       (* no leading zeros: "01" is a ValueError *)
      else digits_value 10 s 0
  | _ => digits_value 10 s 0
  end.

(* ---------- value_without_quotes.encode("utf-8").decode("unicode_escape"), as far as its length and,
   for a single character, its code point matter *)
Inductive esc_res := EText (t : text) | EDecodeError | EOutOfDomain.
Definition econs (c : N) (r : esc_res) : esc_res := match r with EText t => EText (c :: t) | e => e end.
Definition hexval (s : text) : option N :=
  if forallb is_xdigit s then Some (Z.to_N (fold_left (fun a c => a * 16 + digit_val c) s 0)) else None.
Fixpoint unescape (fuel : nat) (s : text) : esc_res :=
  match fuel with
  | O => EOutOfDomain
  | S f =>
    match s with
    | [] => EText []
    | c :: r =>
        if negb (N.eqb c BSL) then
          if (c <? 128)%N then econs c (unescape f r)
          else econs 195 (econs c (unescape f r))     (* a non-ASCII character becomes at least two characters *)
        else
          match r with
          | [] => EDecodeError                          (* "\" at end of string *)
          | e :: r' =>
              if N.eqb e BSL || N.eqb e 39 || N.eqb e 34 then econs e (unescape f r')
              else if N.eqb e 97 then econs 7 (unescape f r')
              else if N.eqb e 98 then econs 8 (unescape f r')
              else if N.eqb e 102 then econs 12 (unescape f r')
              else if N.eqb e 110 then econs 10 (unescape f r')
              else if N.eqb e 114 then econs 13 (unescape f r')
              else if N.eqb e 116 then econs 9 (unescape f r')
              else if N.eqb e 118 then econs 11 (unescape f r')
              else if N.eqb e 120 then                  (* \xHH *)
                match r' with
                | h1 :: h2 :: r2 => match hexval [h1; h2] with Some v => econs v (unescape f r2) | None => EDecodeError end
                | _ => EDecodeError
                end
              else if N.eqb e 117 then                  (* \uHHHH *)
                match r' with
                | h1 :: h2 :: h3 :: h4 :: r2 =>
                    match hexval [h1; h2; h3; h4] with Some v => econs v (unescape f r2) | None => EDecodeError end
                | _ => EDecodeError
                end
              else if is_odigit e then                   (* \o, \oo, \ooo *)
                let '(ds, r2) := match r' with
                                 | d2 :: d3 :: r3 => if is_odigit d2 then (if is_odigit d3 then ([e; d2; d3], r3) else ([e; d2], d3 :: r3)) else ([e], r')
                                 | d2 :: r3 => if is_odigit d2 then ([e; d2], r3) else ([e], r')
                                 | [] => ([e], r')
                                 end in
                econs (Z.to_N (fold_left (fun a c => a * 8 + digit_val c) ds 0)) (unescape f r2)
              else if N.eqb e 85 || N.eqb e 78 then EOutOfDomain   (* \U........, \N{...} *)
              else if (e <? 128)%N then econs c (econs e (unescape f r'))   (* unknown escape: kept as it is *)
              else EOutOfDomain
          end
    end
  end.

(* result of evaluating one token as a limit *)
Inductive code_res := COk (z : Z) | CInterface | CLeak | COutOfDomain.

(* code_for_symbolic_token: errors.NAME_TO_ASCII_CODE_MAP[value.lower()] *)
Fixpoint assoc (k : text) (m : list (text * Z)) : option Z :=
  match m with [] => None | (k', v) :: r => if text_eqb k k' then Some v else assoc k r end.
Definition has_non_ascii (s : text) : bool := existsb (fun c => (128 <=? c)%N) s.
Definition code_for_symbolic (value : text) : code_res :=
  if has_non_ascii value then COutOfDomain      (* str.lower() of non-ASCII letters is not modelled *)
  else match assoc (lower value) name_to_code with Some z => COk z | None => CInterface end.
Definition code_for_number (value : text) : code_res :=
  match int_base0 value with Some z => COk z | None => CInterface end.
(* code_for_string_token: the token text including its quotes *)
Definition code_for_string (value : text) : code_res :=
  let inner := removelast (tl value) in
  match inner with
  | [c] => COk (Z.of_N c)
  | _ => match unescape (S (length inner)) inner with
         | EText [c] => COk (Z.of_N c)
         | EText _ => CInterface
         | EDecodeError => CInterface       (* UnicodeDecodeError is reported as "must be a single character" *)
         | EOutOfDomain => COutOfDomain
         end
  end.

(* ---------- description pre-processing *)
(* description.replace("...", ELLIPSIS) *)
Fixpoint replace_dots (s : text) : text :=
  match s with
  | 46%N :: 46%N :: 46%N :: r => ELLIPSIS :: replace_dots r
  | c :: r => c :: replace_dots r
  | [] => []
  end.
(* _tokens_for_description: an ellipsis outside of quoted text is handed to the tokenizer as ':' *)
Fixpoint ellipsis_to_colon (s : text) (quote : option N) (after_backslash : bool) : text :=
  match s with
  | [] => []
  | c :: r =>
      match quote with
      | None =>
          if is_quote c then c :: ellipsis_to_colon r (Some c) false
          else if N.eqb c ELLIPSIS then 58%N :: ellipsis_to_colon r None false
          else c :: ellipsis_to_colon r None false
      | Some q =>
          if after_backslash then c :: ellipsis_to_colon r quote false
          else if N.eqb c BSL then c :: ellipsis_to_colon r quote true
          else if N.eqb c q then c :: ellipsis_to_colon r None false
          else c :: ellipsis_to_colon r quote false
      end
  end.

(* ---------- the token loop *)
Inductive pres := POk (r : range) | PInterface | PLeak | POutOfDomain.

Record istate := { lo : option Z; hi : option Z; ell : bool; hyp : bool }.
Definition istate0 : istate := {| lo := None; hi := None; ell := false; hyp := false |}.

(* outcome of feeding one token of an item *)
Inductive feed := FdNext (s : istate) | FdInterface | FdLeak | FdOut.
Definition set_limit (s : istate) (v : Z) (clear_hyphen : bool) : feed :=
  let hyp' := if clear_hyphen then false else hyp s in
  if ell s then
    match hi s with
    | None => FdNext {| lo := lo s; hi := Some v; ell := true; hyp := hyp' |}
    | Some _ => FdInterface            (* "range must have at most lower and upper limit" *)
    end
  else
    match lo s with
    | None => FdNext {| lo := Some v; hi := hi s; ell := false; hyp := hyp' |}
    | Some _ => FdInterface            (* "number must be followed by ellipsis" *)
    end.
Definition feed_token (s : istate) (t : token) : feed :=
  match tk t with
  | KName => match code_for_symbolic (tt t) with
             | COk v => set_limit s v false | CInterface => FdInterface | CLeak => FdLeak | COutOfDomain => FdOut end
  | KNumber => match code_for_number (tt t) with
               | COk v => set_limit s (if hyp s then - v else v) true
               | CInterface => FdInterface | CLeak => FdLeak | COutOfDomain => FdOut end
  | KString => match code_for_string (tt t) with
               | COk v => set_limit s v false | CInterface => FdInterface | CLeak => FdLeak | COutOfDomain => FdOut end
  | _ =>
      if hyp s then FdInterface                                        (* "hyphen (-) must be followed by number" *)
      else if tkind_eqb (tk t) KOp && text_eqb (tt t) [45%N] then FdNext {| lo := lo s; hi := hi s; ell := ell s; hyp := true |}
      else if text_eqb (tt t) [ELLIPSIS] || text_eqb (tt t) [58%N] then FdNext {| lo := lo s; hi := hi s; ell := true; hyp := hyp s |}
      else FdInterface
  end.

(* "decide upon the result" for one item *)
Inductive idec := IItem (it : item) | INone | IError.
Definition decide_item (s : istate) : idec :=
  if hyp s then IError
  else match lo s, hi s with
       | None, None => if ell s then IError else INone
       | None, Some u => IItem (None, Some u)
       | Some l, u => if ell s
                      then match u with
                           | Some u' => if u' <? l then IError else IItem (Some l, Some u')
                           | None => IItem (Some l, None)
                           end
                      else IItem (Some l, Some l)
       end.

Fixpoint parse_items (ts : list token) (s : istate) (items : list item) : pres :=
  match ts with
  | [] => POutOfDomain                                 (* the stream always ends with ENDMARKER *)
  | t :: rest =>
      if is_eof t || is_comma t then
        match decide_item s with
        | IError => PInterface
        | INone => if is_eof t then POk (Some items) else parse_items rest istate0 items
        | IItem it =>
            if existsb (fun old => items_overlap old it) items then PInterface
            else if is_eof t then POk (Some (items ++ [it])) else parse_items rest istate0 (items ++ [it])
        end
      else
        match feed_token s t with
        | FdNext s' => parse_items rest s' items
        | FdInterface => PInterface
        | FdLeak => PLeak
        | FdOut => POutOfDomain
        end
  end.

Definition is_blank_text (s : text) : bool := match strip s with [] => true | _ => false end.

(* Range(description): None description is passed as the empty text by every caller modelled here *)
Definition range_of_text (description : text) : pres :=
  if is_blank_text description then POk None
  else
    match tokenize_without_space (ellipsis_to_colon (replace_dots description) None false) with
    | LOk ts => parse_items ts istate0 []
    | LTokenError => match token_error_family with FInterface => PInterface | _ => PLeak end
    | LOutOfDomain => POutOfDomain
    end.
Definition range_with_default (description default : text) : pres :=
  if is_blank_text description then range_of_text default else range_of_text description.
