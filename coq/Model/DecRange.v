(* Model of cutplace.ranges.DecimalRange: __init__ (token loop, scale/precision), validate, limits. *)
From CP Require Import Model.Base Generated.Consts Model.Ranges Model.Lex Model.RangeParse Model.Dec.
Local Open Scope Z_scope.

Definition ditem := (option dec * option dec)%type.
Definition drange := option (list ditem).

Definition ditem_contains (it : ditem) (v : dec) : bool :=
  match it with
  | (None, Some u) => dec_leb v u
  | (Some l, None) => dec_leb l v
  | (Some l, Some u) => dec_leb l v && dec_leb v u
  | (None, None) => true
  end.
Definition decrange_validate (r : drange) (v : dec) : bool :=
  match r with None => true | Some its => existsb (fun it => ditem_contains it v) its end.
Definition dopt_contains (it : ditem) (v : option dec) : bool := match v with None => false | Some x => ditem_contains it x end.
Definition ditems_overlap (some other : ditem) : bool := dopt_contains some (fst other) || dopt_contains some (snd other).

Definition dlower_step (cur : option dec) (it : ditem) : option dec :=
  match fst it with
  | None => None
  | Some l => match cur with Some c => if dec_ltb l c then Some l else cur | None => None end
  end.
Definition dupper_step (cur : option dec) (it : ditem) : option dec :=
  match snd it with
  | None => None
  | Some u => match cur with Some c => if dec_ltb c u then Some u else cur | None => None end
  end.
Definition dec_lower_limit (its : list ditem) : option dec := match its with [] => None | it :: _ => fold_left dlower_step its (fst it) end.
Definition dec_upper_limit (its : list ditem) : option dec := match its with [] => None | it :: _ => fold_left dupper_step its (snd it) end.

Inductive dres := DOk (r : drange) (scale precision : Z) | DInterface | DLeak | DOutOfDomain.

Record dstate := { dlo : option dec; dhi : option dec; dell : bool; dhyp : bool }.
Definition dstate0 : dstate := {| dlo := None; dhi := None; dell := false; dhyp := false |}.
(* digit statistics: (max digits after the dot, max digits before the dot) *)
Definition dstats := (Z * Z)%type.

Inductive dfeed := DfNext (s : dstate) (st : dstats) | DfInterface.
Definition dfeed_token (s : dstate) (st : dstats) (t : token) : dfeed :=
  match tk t with
  | KNumber =>
      match dec_of_token (tt t) with
      | None => DfInterface                       (* "number must be an decimal or integer" *)
      | Some v =>
          let after := Z.max 0 (- d_exp v) in
          let before := ndigits (d_coef v) + d_exp v in
          let st' := (Z.max (fst st) after, Z.max (snd st) before) in
          let v' := if dhyp s then dec_negate v else v in
          if dell s then
            match dhi s with
            | None => DfNext {| dlo := dlo s; dhi := Some v'; dell := true; dhyp := false |} st'
            | Some _ => DfInterface
            end
          else
            match dlo s with
            | None => DfNext {| dlo := Some v'; dhi := dhi s; dell := false; dhyp := false |} st'
            | Some _ => DfInterface
            end
      end
  | _ =>
      if dhyp s then DfInterface
      else if tkind_eqb (tk t) KOp && text_eqb (tt t) [45%N] then DfNext {| dlo := dlo s; dhi := dhi s; dell := dell s; dhyp := true |} st
      else if text_eqb (tt t) [ELLIPSIS] || text_eqb (tt t) [58%N] then DfNext {| dlo := dlo s; dhi := dhi s; dell := true; dhyp := dhyp s |} st
      else DfInterface
  end.

(* an empty item (nothing between two commas) is skipped *)
Inductive ddec := DItem (it : ditem) | DKeep | DError.
Definition ddecide (s : dstate) : ddec :=
  if dhyp s then DError
  else match dlo s, dhi s with
       | None, None => if dell s then DError else DKeep
       | None, Some u => DItem (None, Some u)
       | Some l, u => if dell s
                      then match u with
                           | Some u' => if dec_ltb u' l then DError else DItem (Some l, Some u')
                           | None => DItem (Some l, None)
                           end
                      else DItem (Some l, Some l)
       end.

Fixpoint dparse (ts : list token) (s : dstate) (st : dstats) (items : list ditem) (sp : Z * Z) : dres :=
  match ts with
  | [] => DOutOfDomain
  | t :: rest =>
      if is_eof t || is_comma t then
        match ddecide s with
        | DError => DInterface
        | DKeep => if is_eof t then DOk (Some items) (fst sp) (snd sp) else dparse rest dstate0 st items sp
        | DItem it =>
            let sp' := (snd st + fst st, fst st) in          (* (scale, precision) *)
            if existsb (fun old => ditems_overlap old it) items then DInterface
            else if is_eof t then DOk (Some (items ++ [it])) (fst sp') (snd sp')
            else dparse rest dstate0 st (items ++ [it]) sp'
        end
      else
        match dfeed_token s st t with
        | DfNext s' st' => dparse rest s' st' items sp
        | DfInterface => DInterface
        end
  end.

Definition decrange_of_text (description : text) : dres :=
  if is_blank_text description then DOk None DEFAULT_SCALE DEFAULT_PRECISION
  else
    match tokenize_without_space (ellipsis_to_colon (replace_dots description) None false) with
    | LOk ts => dparse ts dstate0 (0, 0) [] (DEFAULT_SCALE, DEFAULT_PRECISION)
    | LTokenError => match token_error_family with FInterface => DInterface | _ => DLeak end
    | LOutOfDomain => DOutOfDomain
    end.
Definition decrange_with_default (description default : text) : dres :=
  if is_blank_text description then decrange_of_text default else decrange_of_text description.
