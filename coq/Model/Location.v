(* Model of cutplace.errors.Location: the counters, the operations that move them (with the asserts that guard
   them) and the text it prints, which is how every error message names the place of a problem. *)
From CP Require Import Model.Base Model.FieldTypes Spec.FieldSpec.
Local Open Scope Z_scope.

Record location := {
  lo_path : text;
  lo_line : nat; lo_column : nat; lo_cell : nat; lo_sheet : nat;        (* all 0-based *)
  lo_has_column : bool; lo_has_cell : bool; lo_has_sheet : bool }.

Definition new_location (path : text) (has_column has_cell has_sheet : bool) : location :=
  {| lo_path := path; lo_line := 0; lo_column := 0; lo_cell := 0; lo_sheet := 0;
     lo_has_column := has_column; lo_has_cell := has_cell; lo_has_sheet := has_sheet |}.

Inductive lop := LAdvColumn (k : nat) | LAdvCell (k : nat) | LSetCell (k : nat) | LAdvLine (k : nat) | LAdvSheet.

(* None = AssertionError (amount must be positive; the kind of position must be enabled) *)
Definition lstep (l : location) (o : lop) : option location :=
  match o with
  | LAdvColumn k =>
      if Nat.ltb 0 k && lo_has_column l then
        Some {| lo_path := lo_path l; lo_line := lo_line l; lo_column := (lo_column l + k)%nat; lo_cell := lo_cell l; lo_sheet := lo_sheet l;
                lo_has_column := lo_has_column l; lo_has_cell := lo_has_cell l; lo_has_sheet := lo_has_sheet l |}
      else None
  | LAdvCell k =>
      if Nat.ltb 0 k && lo_has_cell l then
        Some {| lo_path := lo_path l; lo_line := lo_line l; lo_column := lo_column l; lo_cell := (lo_cell l + k)%nat; lo_sheet := lo_sheet l;
                lo_has_column := lo_has_column l; lo_has_cell := lo_has_cell l; lo_has_sheet := lo_has_sheet l |}
      else None
  | LSetCell k =>
      if lo_has_cell l then
        Some {| lo_path := lo_path l; lo_line := lo_line l; lo_column := lo_column l; lo_cell := k; lo_sheet := lo_sheet l;
                lo_has_column := lo_has_column l; lo_has_cell := lo_has_cell l; lo_has_sheet := lo_has_sheet l |}
      else None
  | LAdvLine k =>
      if Nat.ltb 0 k then
        Some {| lo_path := lo_path l; lo_line := (lo_line l + k)%nat; lo_column := 0; lo_cell := 0; lo_sheet := lo_sheet l;
                lo_has_column := lo_has_column l; lo_has_cell := lo_has_cell l; lo_has_sheet := lo_has_sheet l |}
      else None
  | LAdvSheet =>
      Some {| lo_path := lo_path l; lo_line := 0; lo_column := 0; lo_cell := 0; lo_sheet := S (lo_sheet l);
              lo_has_column := lo_has_column l; lo_has_cell := lo_has_cell l; lo_has_sheet := lo_has_sheet l |}
  end.
Fixpoint lsteps (l : location) (ops : list lop) : option location :=
  match ops with
  | [] => Some l
  | o :: r => match lstep l o with Some l' => lsteps l' r | None => None end
  end.

(* os.path.basename (POSIX): what follows the last slash *)
Fixpoint basename (p : text) : text :=
  match p with
  | [] => []
  | c :: r => if existsb (N.eqb 47) r then basename r else if N.eqb c 47 then r else p
  end.

(* "%d" % (counter + 1): every position is printed 1-based *)
Definition num (n : nat) : text := nat_text (Z.of_nat n + 1).
Definition SEMI : N := 59. Definition BANG : N := 33. Definition LPAR : N := 40. Definition RPAR : N := 41.
Definition CH_R : N := 82. Definition CH_C : N := 67.

(* Location.__str__ *)
Definition loc_text (l : location) : text :=
  basename (lo_path l) ++ SP :: LPAR ::
  (if lo_has_cell l then
     (if lo_has_sheet l then [83; 104; 101; 101; 116]%N ++ num (lo_sheet l) ++ [BANG] else [])
     ++ CH_R :: num (lo_line l) ++ CH_C :: num (lo_cell l)
   else num (lo_line l))
  ++ (if lo_has_column l then SEMI :: num (lo_column l) else [])
  ++ [RPAR].
