(* Model of cutplace.ranges.Range.__str__ / _repr_item: the text of a range as it appears in messages, which is again a
   range description. *)
From CP Require Import Model.Base Model.Ranges Model.FieldTypes Spec.FieldSpec.
Local Open Scope Z_scope.

Definition DOTS : text := [46; 46; 46]%N.
(* _repr_item *)
Definition item_str (it : item) : text :=
  match it with
  | (None, Some b) => DOTS ++ int_text b
  | (Some a, None) => int_text a ++ DOTS
  | (Some a, Some b) => if a =? b then int_text a else int_text a ++ DOTS ++ int_text b
  | (None, None) => []                (* never an item of a range (the code asserts it) *)
  end.
Fixpoint items_str (its : list item) : text :=
  match its with
  | [] => []
  | [it] => item_str it
  | it :: rest => item_str it ++ [44; 32]%N ++ items_str rest
  end.
(* __str__: str(None) for a range without items *)
Definition range_str (r : range) : text :=
  match r with
  | None | Some [] => [78; 111; 110; 101]%N
  | Some its => items_str its
  end.
