(* Model of cutplace.interface.Cid.read and the three add_*_row methods, fields.validated_field_name,
   _tools.validated_python_name, the rule parsing of IsUniqueCheck / DistinctCountCheck (checks.py).
   The plugin classes known to the process (names of the field format and check classes) are parameters.
   Executable definitions only. *)
From Coq Require Import String.
From CP Require Import Model.Base Generated.Consts Model.Ranges Model.Lex Model.RangeParse Model.Dec Model.DecRange
  Model.DataFormat Model.Fields Model.FieldTypes.
Local Open Scope Z_scope.

(* keyword.kwlist of Python 3.12 (compared with the runtime's list on every run) *)
Definition keywords : list text := map txt
  ["False"; "None"; "True"; "and"; "as"; "assert"; "async"; "await"; "break"; "class"; "continue"; "def"; "del"; "elif"; "else";
   "except"; "finally"; "for"; "from"; "global"; "if"; "import"; "in"; "is"; "lambda"; "nonlocal"; "not"; "or"; "pass"; "raise";
   "return"; "try"; "while"; "with"; "yield"]%string.

(* fields.validated_field_name: None = InterfaceError *)
Definition is_ascii_letter (c : N) : bool := is_alpha c.
Definition is_name_rest (c : N) : bool := is_alpha c || is_digit c || N.eqb c 95.
Definition validated_field_name (s : text) : option text :=
  let n := strip s in
  match n with
  | [] => None
  | c :: r => if existsb (text_eqb n) keywords then None
              else if is_ascii_letter c && forallb is_name_rest r then Some n else None
  end.

(* _tools.validated_python_name(name, value): the text of the single NAME token of value.strip() *)
Inductive pyname := PnOk (n : text) | PnNameError | PnTokenError | PnOut.
Definition validated_python_name (value : text) : pyname :=
  match generated_tokens (strip value) with
  | LTokenError => PnNameError          (* TokenError / IndentationError are reported as NameError *)
  | LOutOfDomain => PnOut
  | LOk [] => PnOut
  | LOk (t :: rest) =>
      if is_eof t then PnNameError
      else if negb (tkind_eqb (tk t) KName) then PnNameError
      else match rest with
           | [] => PnOut
           | t2 :: rest2 =>
               let t3 := if tkind_eqb (tk t2) KNewline && is_nil_t (tt t2)
                         then match rest2 with x :: _ => Some x | [] => None end else Some t2 in
               match t3 with
               | None => PnOut
               | Some x => if is_eof x then PnOk (tt t) else PnNameError
               end
           end
  end.

(* str.split(sep) *)
Fixpoint split_on (sep : N) (s : text) : list text :=
  match s with
  | [] => [[]]
  | c :: r => if N.eqb c sep then [] :: split_on sep r
              else match split_on sep r with l :: ls => (c :: l) :: ls | [] => [[c]] end
  end.
Definition last_part (parts : list text) : text := last parts [].

(* what the CID keeps of a field / check declaration *)
Record fsum := { fs_name : text; fs_type : text; fs_empty : bool; fs_len : range; fs_rule : text; fs_example : text }.
Record csum := { ck_desc : text; ck_type : text; ck_rule : text; ck_fields : list text }.
Record cstate := { st_fmt : option dformat; st_fields : list fsum; st_checks : list csum }.
Definition cstate0 : cstate := {| st_fmt := None; st_fields := []; st_checks := [] |}.

Inductive rowres := ROk (s : cstate) | RInterface | RLeak | ROut.

(* the process environment: known plugin class names (without the FieldFormat / Check suffix), known encodings *)
Record env := { e_field_types : list text; e_check_types : list text; e_encodings : list text }.

(* ---------- D rows *)
Definition add_data_format_row (e : env) (s : cstate) (name value : text) : rowres :=
  if is_nil_t name then RInterface
  else if has_non_ascii name || has_non_ascii value then ROut
  else
    let lname := lower name in
    match st_fmt s with
    | None =>
        if negb (text_eqb lname KEY_FORMAT) then RInterface
        else match new_format (lower value) with
             | Some d => ROk {| st_fmt := Some d; st_fields := st_fields s; st_checks := st_checks s |}
             | None => RInterface
             end
    | Some d =>
        if text_eqb lname KEY_FORMAT then RInterface
        else match set_property d lname value (existsb (text_eqb value) (e_encodings e)) with
             | SetOk d' => ROk {| st_fmt := Some d'; st_fields := st_fields s; st_checks := st_checks s |}
             | SetInterface => RInterface | SetLeak => RLeak | SetOutOfDomain => ROut
             end
    end.

(* ---------- F rows *)
Definition kind_of (d : dformat) : fmtkind :=
  if text_eqb (df_format d) FORMAT_FIXED then KFixed
  else if text_eqb (df_format d) FORMAT_EXCEL then KExcel
  else if text_eqb (df_format d) FORMAT_ODS then KOds else KDelimited.
Definition text_attr (d : dformat) (n : text) (default : text) : text :=
  match get_attr (df_attrs d) n with Some (AText (Some t)) => t | _ => default end.
Definition decfmt_of (d : dformat) : decfmt :=
  {| dsep := text_attr d KEY_DECIMAL_SEPARATOR [DOT]; tsep := text_attr d KEY_THOUSANDS_SEPARATOR [] |}.
Definition allowed_of (d : dformat) : range :=
  match get_attr (df_attrs d) KEY_ALLOWED_CHARACTERS with Some (ARange r) => r | _ => None end.

Definition is_plain_rule (s : text) : bool := forallb (fun c => is_alpha c || is_digit c || N.eqb c 32 || N.eqb c 95) s.
Definition ftype_of (name rule : text) : option ftype :=
  if text_eqb name (txt "Integer") then Some TInteger
  else if text_eqb name (txt "Decimal") then Some TDecimal
  else if text_eqb name (txt "Choice") then Some TChoice
  else if text_eqb name (txt "Constant") then Some TConstant
  else if text_eqb name (txt "DateTime") then Some TDateTime
  else if text_eqb name (txt "Text") then Some TText
  else None.

(* the field type cell: "" = Text, otherwise dotted Python names; the class is looked up by the last part *)
Inductive tyres := TyOk (class_key : text) | TyInterface | TyLeak | TyOut.
Fixpoint type_parts (parts : list text) : tyres :=
  match parts with
  | [] => TyOk []
  | p :: rest => match validated_python_name p with
                 | PnOk n => match type_parts rest with TyOk _ => TyOk n | e => e end
                 | PnNameError => TyInterface
                 | PnTokenError => TyLeak
                 | PnOut => TyOut
                 end
  end.
Definition field_type_of (cell : text) : tyres :=
  let item := strip cell in
  if is_nil_t item then TyOk (txt "Text")
  else
    let parts := split_on DOT item in
    match type_parts parts with
    | TyOk _ => match validated_python_name (last_part parts) with PnOk n => TyOk n | _ => TyOut end
    | e => e
    end.

(* the length checks of add_field_format_row; true = fine *)
Definition length_declaration_ok (k : fmtkind) (len : range) : bool :=
  if fmtkind_eqb k KFixed then
    match len with
    | None => false
    | Some _ => match lower_limit len, upper_limit len with
                | Some l, Some u => (l =? u) && negb (l <? 1)
                | _, _ => false
                end
    end
  else
    match lower_limit len with
    | Some l => negb (l <? 0)
    | None => match upper_limit len with Some u => negb (u <? 0) | None => true end
    end.

Definition add_field_format_row (e : env) (s : cstate) (items : list text) : rowres :=
  match st_fmt s with
  | None => RInterface
  | Some d =>
      let it (k : nat) := nth k items [] in
      match validated_field_name (it 0%nat) with
      | None => RInterface
      | Some name =>
          if existsb (fun f => text_eqb (fs_name f) name) (st_fields s) then RInterface
          else if has_non_ascii (it 2%nat) then ROut
          else
            let mark := lower (strip (it 2%nat)) in
            if negb (is_nil_t mark) && negb (text_eqb mark EMPTY_INDICATOR) then RInterface
            else
              let empty := negb (is_nil_t mark) in
              match field_type_of (it 4%nat) with
              | TyInterface => RInterface | TyLeak => RLeak | TyOut => ROut
              | TyOk key =>
                  if negb (existsb (text_eqb key) (e_field_types e)) then RInterface
                  else
                    let rule := strip (it 5%nat) in
                    let k := kind_of d in
                    (* the hook for the example; None = the type's hooks are not modelled here *)
                    let built : decl (option (text -> hres)) :=
                      match ftype_of key rule with
                      | Some ty => match declare {| fd_type := ty; fd_kind := k; fd_df := decfmt_of d; fd_empty := empty;
                                                    fd_length := it 3%nat; fd_rule := rule |} with
                                   | DeclOk h => DeclOk (Some h)
                                   | DeclInterface => DeclInterface | DeclLeak => DeclLeak | DeclOut => DeclOut
                                   end
                      | None =>
                          if text_eqb key (txt "Pattern") || (text_eqb key (txt "RegEx") && is_plain_rule rule)
                          then match range_of_text (it 3%nat) with
                               | POk _ => DeclOk None | PInterface => DeclInterface | PLeak => DeclLeak | POutOfDomain => DeclOut end
                          else DeclOut
                      end in
                    match built with
                    | DeclInterface => RInterface | DeclLeak => RLeak | DeclOut => ROut
                    | DeclOk hook =>
                        match range_of_text (it 3%nat) with
                        | POk len =>
                            if negb (length_declaration_ok k len) then RInterface
                            else
                              let example := it 1%nat in
                              let fs := {| fs_name := name; fs_type := key; fs_empty := empty; fs_len := len;
                                           fs_rule := if text_eqb key (txt "Decimal") then [] else rule;   (* DecimalFieldFormat keeps its rule to itself *)
                                           fs_example := example |} in
                              let ok := ROk {| st_fmt := st_fmt s; st_fields := st_fields s ++ [fs]; st_checks := st_checks s |} in
                              if is_nil_t example then ok
                              else
                                let fmt := {| df_fixed := fmtkind_eqb k KFixed; df_excel := fmtkind_eqb k KExcel; df_allowed := allowed_of d |} in
                                let probe := validated fmt {| f_name := name; f_empty_ok := empty; f_length := len; f_hook := fun _ => true |} example in
                                if negb (v_ok probe) then RInterface
                                else match v_hook probe with
                                     | None => ok
                                     | Some arg => match hook with
                                                   | None => ROut
                                                   | Some h => match h arg with
                                                               | HOk _ => ok | HReject => RInterface | HLeak => RLeak | HOut => ROut end
                                                   end
                                     end
                        | _ => ROut      (* a Decimal length that is no integer range *)
                        end
                    end
              end
      end
  end.

(* ---------- C rows *)
Fixpoint drop_blank_cells (items : list text) : list text :=      (* applied to items[1:] *)
  match items with
  | c :: r => if is_nil_t (strip c) then drop_blank_cells r else items
  | [] => []
  end.

(* IsUniqueCheck.__init__ rule loop over generated_tokens(rule) *)
Fixpoint unique_loop (ts : list token) (names : list text) (after_comma : bool) (acc : list text) : option (option (list text)) :=
  match ts with
  | [] => None                                              (* out of domain: the stream ends with ENDMARKER *)
  | t :: rest =>
      if is_eof t then Some (match acc with [] => None | _ => Some acc end)
      else if after_comma then
        if negb (tkind_eqb (tk t) KName) then Some None
        else if negb (existsb (text_eqb (tt t)) names) then Some None
        else if existsb (text_eqb (tt t)) acc then Some None
        else unique_loop rest names false (acc ++ [tt t])
      else if negb (is_comma t) then Some None
      else unique_loop rest names true acc
  end.
Definition is_cmp_op (t : token) : bool :=
  tkind_eqb (tk t) KOp && existsb (text_eqb (tt t)) (map txt ["<"; "<="; "=="; "!="; ">="; ">"]%string).

Inductive ckres := CkOk (fields : list text) | CkInterface | CkLeak | CkOut.
Definition build_check (ctype rule : text) (names : list text) : ckres :=
  match names with
  | [] => CkInterface                                      (* "field names must be specified before check" *)
  | _ =>
      match generated_tokens rule with
      | LTokenError => CkInterface        (* "rule must be a sequence of valid tokens" *)
      | LOutOfDomain => CkOut
      | LOk ts =>
          if text_eqb ctype (txt "IsUnique") then
            match unique_loop ts names true [] with
            | None => CkOut | Some None => CkInterface | Some (Some fs) => CkOk fs end
          else if text_eqb ctype (txt "DistinctCount") then
            match ts with
            | [] => CkOut
            | t :: rest =>
                if negb (tkind_eqb (tk t) KName) then CkInterface
                else if negb (existsb (text_eqb (tt t)) names) then CkInterface
                else match rest with
                     | [x] => if is_eof x then CkOk [tt t] else CkOut
                     | [op; num; x] => if is_cmp_op op && tkind_eqb (tk num) KNumber && is_eof x
                                          && match int_base0 (tt num) with Some _ => true | None => false end
                                       then CkOk [tt t] else CkOut
                     | _ => CkOut
                     end
            end
          else CkOut
      end
  end.

Definition add_check_row (e : env) (s : cstate) (items : list text) : rowres :=
  let items' := match items with d :: r => d :: drop_blank_cells r | [] => [] end in
  let it (k : nat) := nth k items' [] in
  let desc := it 0%nat in let ctype := it 1%nat in let rule := it 2%nat in
  if is_nil_t desc then RInterface
  else if negb (existsb (text_eqb ctype) (e_check_types e)) then RInterface
  else match build_check ctype rule (map fs_name (st_fields s)) with
       | CkInterface => RInterface | CkLeak => RLeak | CkOut => ROut
       | CkOk fs =>
           if existsb (fun c => text_eqb (ck_desc c) desc) (st_checks s) then RInterface
           else ROk {| st_fmt := st_fmt s; st_fields := st_fields s;
                       st_checks := st_checks s ++ [{| ck_desc := desc; ck_type := ctype; ck_rule := rule; ck_fields := fs |}] |}
       end.

(* ---------- Cid.read *)
Inductive cidres :=
| CidOk (s : cstate)
| CidInterface (row : option nat)      (* the row (0 based) the error text names *)
| CidLeak | CidOut.

Definition pad6 (l : list text) : list text := firstn 6 (l ++ repeat [] 6).

(* one CID row *)
Definition row_step (e : env) (s : cstate) (row : list text) : rowres :=
  match row with
  | [] => ROk s
  | c0 :: cells =>
      if has_non_ascii c0 then ROut
      else
        let row_type := strip (lower c0) in
        let data := pad6 cells in
        if text_eqb row_type ID_DATA_FORMAT then add_data_format_row e s (nth 0 data []) (nth 1 data [])
        else if text_eqb row_type ID_FIELD_RULE then add_field_format_row e s data
        else if text_eqb row_type ID_CHECK then add_check_row e s data
        else if is_nil_t row_type then ROk s else RInterface
  end.

(* the checks after the last row *)
Definition finish (line : nat) (s : cstate) : cidres :=
  match st_fmt s with
  | None => CidInterface (Some line)
  | Some d => if negb (validate_format d) then CidInterface None
              else match st_fields s with [] => CidInterface (Some line) | _ => CidOk s end
  end.

Fixpoint read_rows (e : env) (rows : list (list text)) (line : nat) (s : cstate) : cidres :=
  match rows with
  | [] => finish line s
  | row :: rest =>
      match row_step e s row with
      | ROk s' => read_rows e rest (S line) s'
      | RInterface => CidInterface (Some line)
      | RLeak => CidLeak
      | ROut => CidOut
      end
  end.
Definition cid_read (e : env) (rows : list (list text)) : cidres := read_rows e rows 0 cstate0.

(* a CID built call by call through add_data_format_row / add_field_format_row / add_check_row by a caller that
   reports a refused call (InterfaceError) and goes on: the refused call leaves the CID as it was *)
Fixpoint api_steps (e : env) (rows : list (list text)) (s : cstate) (refused : nat) : option (cstate * nat) :=
  match rows with
  | [] => Some (s, refused)
  | row :: rest =>
      match row_step e s row with
      | ROk s' => api_steps e rest s' refused
      | RInterface => api_steps e rest s (S refused)
      | RLeak | ROut => None
      end
  end.

(* lookups by name on the finished CID: Cid.field_index / field_value_for go through a map from name to position that
   add_field_format fills with the number of fields declared so far *)
Fixpoint index_of (n : text) (names : list text) : option nat :=
  match names with
  | [] => None
  | x :: rest => if text_eqb x n then Some 0%nat else option_map S (index_of n rest)
  end.
Definition field_index (s : cstate) (n : text) : option nat := index_of n (map fs_name (st_fields s)).
Definition field_value_for (s : cstate) (n : text) (row : list text) : option text :=
  if Nat.eqb (length row) (length (st_fields s)) then
    match field_index s n with Some i => nth_error row i | None => None end
  else None.
