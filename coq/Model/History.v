(* Histories of operations sharing one CID object (C08): the check objects, with their per-run state,
   live in the CID and are shared by every Reader and Writer created for it. *)
From CP Require Import Model.Base Model.Ranges Model.Fields Model.Validio.

Section History.
  Context {CS : Type}.

  (* a run that is left unfinished: cutplace.rows(...) after k outputs, or a Writer after these write_row calls *)
  Inductive late_first :=
  | LFRead (m : mode) (limit : option nat) (raws : list (list text)) (k : nat)
  | LFWrite (rows : list (list text)).

  Inductive op :=
  | OpRows (m : mode) (limit : option nat) (raws : list (list text)) (fault : bool)   (* cutplace.rows(...) consumed completely *)
  | OpValidate (limit : option nat) (raws : list (list text)) (fault : bool)          (* cutplace.validate(...) *)
  | OpAbandon (m : mode) (limit : option nat) (raws : list (list text)) (fault : bool) (k : nat)
      (* cutplace.rows(...): k outputs are taken, then the generator is closed *)
  | OpNoClose (m : mode) (limit : option nat) (raws : list (list text)) (fault : bool) (* Reader.rows() consumed, reader never closed *)
  | OpByHand (m : mode) (limit : option nat) (raws : list (list text)) (fault : bool)
      (* a Reader used without `with`: rows() consumed - or ended by an error -, then close() called by hand, whose own
         verdict the caller sees (it is not dropped as under `with`); reported in oc_writes *)
  | OpWrite (rows : list (list text)) (do_close : bool)                               (* Writer: write_row each, optionally close *)
  | OpLate (first : late_first) (m : mode) (limit : option nat) (raws : list (list text)) (fault : bool) (j : nat).
      (* an earlier run is left unfinished (a suspended rows() generator, an open Writer); cutplace.rows(...) is then
         started on the same CID, j outputs are taken, only now the earlier run is finalized (generator closed or
         collected, writer closed: BaseValidator.close() on the shared checks), and the rows() run is consumed to its
         end. The outcome is that of the rows() run. *)

  Record outcome := {
    oc_outs : list out;                 (* rows / yielded errors returned *)
    oc_raised : option err;             (* error that ended the run (rejection in raise mode, container fault, end check) *)
    oc_writes : list (option err);      (* per write_row call: None = accepted *)
    oc_emitted : list (list text)       (* rows the writer emitted *)
  }.

  (* advance Reader.rows() until k outputs have been produced; true = suspended at a yield (abandoned) *)
  Fixpoint run_rows_take (c : cid CS) (m : mode) (limit : option nat) (k : nat) (s : rstate CS) (raws : list (list text))
    : rstate CS * list out * option err * bool :=
    match k with
    | O => (s, [], None, true)
    | S k' =>
        match raws with
        | [] => (s, [], None, false)
        | row :: rest =>
            let '(s', so, _) := step c m limit s row in
            match so with
            | SRaise e => (s', [], Some e, false)
            | SOut (Some o) => let '(sf, outs, r, ab) := run_rows_take c m limit k' s' rest in (sf, o :: outs, r, ab)
            | SOut None => run_rows_take c m limit k s' rest
            end
        end
    end.

  (* like run_rows_take, but also returns the raw rows not yet consumed when the generator is suspended *)
  Fixpoint run_rows_split (c : cid CS) (m : mode) (limit : option nat) (k : nat) (s : rstate CS) (raws : list (list text))
    : rstate CS * list out * option err * option (list (list text)) :=
    match k with
    | O => (s, [], None, Some raws)
    | S k' =>
        match raws with
        | [] => (s, [], None, None)
        | row :: rest =>
            let '(s', so, _) := step c m limit s row in
            match so with
            | SRaise e => (s', [], Some e, None)
            | SOut (Some o) => let '(sf, outs, r, susp) := run_rows_split c m limit k' s' rest in (sf, o :: outs, r, susp)
            | SOut None => run_rows_split c m limit k s' rest
            end
        end
    end.
  Definition with_sts (s : rstate CS) (sts : list CS) : rstate CS :=
    {| rs_count := rs_count s; rs_loc := rs_loc s; rs_sts := sts; rs_acc := rs_acc s; rs_rej := rs_rej s |}.

  Definition start (c : cid CS) : rstate CS :=
    {| rs_count := 1; rs_loc := {| l_line := 0; l_cell := 0 |}; rs_sts := resets (c_checks c); rs_acc := 0; rs_rej := 0 |}.

  Fixpoint write_all (c : cid CS) (w : wstate CS) (rows : list (list text)) : wstate CS * list (option err) :=
    match rows with
    | [] => (w, [])
    | row :: rest => let '(w', e, _) := write_row c w row in
                     let '(wf, es) := write_all c w' rest in (wf, e :: es)
    end.

  Fixpoint write_all_enc (enc : N -> bool) (c : cid CS) (w : wstate CS) (rows : list (list text)) : wstate CS * list (option err) :=
    match rows with
    | [] => (w, [])
    | row :: rest => let '(w', e, _) := write_row_enc enc c w row in
                     let '(wf, es) := write_all_enc enc c w' rest in (wf, e :: es)
    end.

  (* one operation on a CID whose checks are in states [sts]: new states and what the caller observes *)
  Definition exec (c : cid CS) (sts : list CS) (o : op) : list CS * outcome :=
    match o with
    | OpRows m limit raws fault =>
        let r := api_rows c m limit sts raws fault in
        (r_sts r, {| oc_outs := r_outs r; oc_raised := r_raised r; oc_writes := []; oc_emitted := [] |})
    | OpValidate limit raws fault =>
        let r := validate_api c limit sts raws fault in
        (r_sts r, {| oc_outs := []; oc_raised := r_raised r; oc_writes := []; oc_emitted := [] |})
    | OpAbandon m limit raws fault k =>
        let '(sf, outs, r, abandoned) := run_rows_take c m limit k (start c) raws in
        if abandoned then
          (* GeneratorExit leaves the `with`: close() runs, an error of its end checks is dropped *)
          let '(sts', _, _) := close c (rs_sts sf) (rs_loc sf) in
          (sts', {| oc_outs := outs; oc_raised := None; oc_writes := []; oc_emitted := [] |})
        else
          let r' := match r with Some e => Some e | None => if fault then Some (format_error (rs_loc sf)) else None end in
          let '(sts', ce, _) := close c (rs_sts sf) (rs_loc sf) in
          (sts', {| oc_outs := outs; oc_raised := match r' with Some e => Some e | None => ce end; oc_writes := []; oc_emitted := [] |})
    | OpNoClose m limit raws fault =>
        let '(sf, outs, r, _) := reader_rows c m limit sts raws fault in
        (rs_sts sf, {| oc_outs := outs; oc_raised := r; oc_writes := []; oc_emitted := [] |})
    | OpByHand m limit raws fault =>
        let '(sf, outs, r, _) := reader_rows c m limit sts raws fault in
        let '(sts', ce, _) := close c (rs_sts sf) (rs_loc sf) in
        (sts', {| oc_outs := outs; oc_raised := r; oc_writes := [ce]; oc_emitted := [] |})
    | OpWrite rows do_close =>
        let '(wf, es) := write_all c (writer_init c sts) rows in
        if do_close then
          let '(sts', ce, _) := writer_close c wf in
          (sts', {| oc_outs := []; oc_raised := ce; oc_writes := es; oc_emitted := w_rows wf |})
        else (w_sts wf, {| oc_outs := []; oc_raised := None; oc_writes := es; oc_emitted := w_rows wf |})
    | OpLate first m limit raws fault j =>
        (* the earlier run: Some l = it is still unfinished, l being the location its close() will report *)
        let pending : option loc :=
          match first with
          | LFRead m1 l1 raws1 k =>
              let '(s1, _, _, ab) := run_rows_take c m1 l1 k (start c) raws1 in
              match k with
              | O => None                                  (* the generator was never started: closing it does nothing *)
              | S _ => if ab then Some (rs_loc s1) else None   (* ended by itself: closed before the second run starts *)
              end
          | LFWrite rows => let '(wf, _) := write_all c (writer_init c sts) rows in Some (w_loc wf)
          end in
        (* the second run resets the shared checks, whatever the first left there *)
        let '(s2, outs_a, r_a, susp) := run_rows_split c m limit j (start c) raws in
        match j, susp, pending with
        | S _, Some rest, Some l1 =>
            (* the earlier run is finalized now: its close() runs the end checks and the clean-up on the shared
               states as they are in the middle of the second run; a failing end check is dropped *)
            let '(sts_mid, _, _) := close c (rs_sts s2) l1 in
            let '(sf, outs_b, r_b, _) := run_rows c m limit (with_sts s2 sts_mid) rest in
            let r' := match r_b with Some e => Some e | None => if fault then Some (format_error (rs_loc sf)) else None end in
            let '(sts', ce, _) := close c (rs_sts sf) (rs_loc sf) in
            (sts', {| oc_outs := outs_a ++ outs_b; oc_raised := match r' with Some e => Some e | None => ce end;
                      oc_writes := []; oc_emitted := [] |})
        | _, _, _ =>
            (* nothing to interleave (j = 0: the second run has not even reset the checks when the first is
               finalized): the second run is an ordinary complete run *)
            let r := api_rows c m limit sts raws fault in
            (r_sts r, {| oc_outs := r_outs r; oc_raised := r_raised r; oc_writes := []; oc_emitted := [] |})
        end
    end.

  (* a history: the outcome of every operation, the states being threaded through the shared CID *)
  Fixpoint run_history (c : cid CS) (sts : list CS) (h : list op) : list outcome :=
    match h with
    | [] => []
    | o :: rest => let '(sts', oc) := exec c sts o in oc :: run_history c sts' rest
    end.
  Fixpoint history_state (c : cid CS) (sts : list CS) (h : list op) : list CS :=
    match h with
    | [] => sts
    | o :: rest => history_state c (fst (exec c sts o)) rest
    end.
End History.
Arguments op : clear implicits.
Arguments outcome : clear implicits.
