(* Histories of operations sharing one CID object (C08): the check objects, with their per-run state,
   live in the CID and are shared by every Reader and Writer created for it. *)
From CP Require Import Model.Base Model.Ranges Model.Fields Model.Validio.

Section History.
  Context {CS : Type}.

  Inductive op :=
  | OpRows (m : mode) (limit : option nat) (raws : list (list text)) (fault : bool)   (* cutplace.rows(...) consumed completely *)
  | OpValidate (limit : option nat) (raws : list (list text)) (fault : bool)          (* cutplace.validate(...) *)
  | OpAbandon (m : mode) (limit : option nat) (raws : list (list text)) (fault : bool) (k : nat)
      (* cutplace.rows(...): k outputs are taken, then the generator is closed *)
  | OpNoClose (m : mode) (limit : option nat) (raws : list (list text)) (fault : bool) (* Reader.rows() consumed, reader never closed *)
  | OpWrite (rows : list (list text)) (do_close : bool).                              (* Writer: write_row each, optionally close *)

  Record outcome := {
    oc_outs : list out;                 (* rows / yielded errors returned *)
    oc_raised : option err;             (* error that ended the run (rejection in raise mode, container fault, end check) *)
    oc_writes : list (option err);      (* per write_row call: None = accepted *)
    oc_emitted : list (list text)       (* rows the writer emitted *)
  }.

  (* advance Reader.rows() until k outputs have been produced; true = suspended at a yield (abandoned) *)
  Fixpoint run_rows_take (c : cid CS) (m : mode) (limit : option nat) (k : nat) (s : rstate CS) (raws : list (list text))
    : rstate CS * list out * option err * bool :=
    match k with
    | O => (s, [], None, true)
    | S k' =>
        match raws with
        | [] => (s, [], None, false)
        | row :: rest =>
            let '(s', so, _) := step c m limit s row in
            match so with
            | SRaise e => (s', [], Some e, false)
            | SOut (Some o) => let '(sf, outs, r, ab) := run_rows_take c m limit k' s' rest in (sf, o :: outs, r, ab)
            | SOut None => run_rows_take c m limit k s' rest
            end
        end
    end.

  Definition start (c : cid CS) : rstate CS :=
    {| rs_count := 1; rs_loc := {| l_line := 0; l_cell := 0 |}; rs_sts := resets (c_checks c); rs_acc := 0; rs_rej := 0 |}.

  Fixpoint write_all (c : cid CS) (w : wstate CS) (rows : list (list text)) : wstate CS * list (option err) :=
    match rows with
    | [] => (w, [])
    | row :: rest => let '(w', e, _) := write_row c w row in
                     let '(wf, es) := write_all c w' rest in (wf, e :: es)
    end.

  (* one operation on a CID whose checks are in states [sts]: new states and what the caller observes *)
  Definition exec (c : cid CS) (sts : list CS) (o : op) : list CS * outcome :=
    match o with
    | OpRows m limit raws fault =>
        let r := api_rows c m limit sts raws fault in
        (r_sts r, {| oc_outs := r_outs r; oc_raised := r_raised r; oc_writes := []; oc_emitted := [] |})
    | OpValidate limit raws fault =>
        let r := validate_api c limit sts raws fault in
        (r_sts r, {| oc_outs := []; oc_raised := r_raised r; oc_writes := []; oc_emitted := [] |})
    | OpAbandon m limit raws fault k =>
        let '(sf, outs, r, abandoned) := run_rows_take c m limit k (start c) raws in
        if abandoned then
          (* GeneratorExit leaves the `with`: close() runs, an error of its end checks is dropped *)
          let '(sts', _, _) := close c (rs_sts sf) (rs_loc sf) in
          (sts', {| oc_outs := outs; oc_raised := None; oc_writes := []; oc_emitted := [] |})
        else
          let r' := match r with Some e => Some e | None => if fault then Some (format_error (rs_loc sf)) else None end in
          let '(sts', ce, _) := close c (rs_sts sf) (rs_loc sf) in
          (sts', {| oc_outs := outs; oc_raised := match r' with Some e => Some e | None => ce end; oc_writes := []; oc_emitted := [] |})
    | OpNoClose m limit raws fault =>
        let '(sf, outs, r, _) := reader_rows c m limit sts raws fault in
        (rs_sts sf, {| oc_outs := outs; oc_raised := r; oc_writes := []; oc_emitted := [] |})
    | OpWrite rows do_close =>
        let '(wf, es) := write_all c (writer_init c sts) rows in
        if do_close then
          let '(sts', ce, _) := writer_close c wf in
          (sts', {| oc_outs := []; oc_raised := ce; oc_writes := es; oc_emitted := w_rows wf |})
        else (w_sts wf, {| oc_outs := []; oc_raised := None; oc_writes := es; oc_emitted := w_rows wf |})
    end.

  (* a history: the outcome of every operation, the states being threaded through the shared CID *)
  Fixpoint run_history (c : cid CS) (sts : list CS) (h : list op) : list outcome :=
    match h with
    | [] => []
    | o :: rest => let '(sts', oc) := exec c sts o in oc :: run_history c sts' rest
    end.
  Fixpoint history_state (c : cid CS) (sts : list CS) (h : list op) : list CS :=
    match h with
    | [] => sts
    | o :: rest => history_state c (fst (exec c sts o)) rest
    end.
End History.
Arguments op : clear implicits.
Arguments outcome : clear implicits.
