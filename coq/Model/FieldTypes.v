(* Models of the type specific parts of cutplace.fields: what each built-in field type derives from its
   declaration (length, rule, data format) and its validated_value.
     IntegerFieldFormat   fields.py  __init__ (three sources of valid_range), validated_value; ranges.create_range_from_length
     DecimalFieldFormat   separator loop, decimal.Decimal(text), DecimalRange.validate
     ChoiceFieldFormat / ConstantFieldFormat   rule tokenisation, membership
     DateTimeFieldFormat  ordered replacements, time.strptime (model of _strptime for %d %m %Y %y %H %M %S %%)
     PatternFieldFormat / RegExFieldFormat     fnmatch.translate + re.match for a glob / regex subset
     TextFieldFormat
   Executable definitions only. *)
From Coq Require Import String.
From CP Require Import Model.Base Generated.Consts Model.Ranges Model.Lex Model.RangeParse Model.Dec Model.DecRange.
Local Open Scope Z_scope.

Definition has_non_ascii_t (s : text) : bool := existsb (fun c => (128 <=? c)%N) s.

(* native values *)
Inductive value :=
| VInt (z : Z)
| VDec (d : dec)
| VInf (neg : bool)
| VTime (y m d hh mm ss : Z)
| VStr (t : text).

(* outcome of validated_value: a value, FieldValueError, another exception escaping, outside the model's domain *)
Inductive hres := HOk (v : value) | HReject | HLeak | HOut.

(* ------------------------------------------------------------------ int(text) *)
(* for an ASCII str: C isspace() is stripped, then [+-] digits with single underscores between digits *)
Definition is_c_space (c : N) : bool := in_rng c 9 13 || N.eqb c 32.
Fixpoint lstrip_by (p : N -> bool) (s : text) : text :=
  match s with c :: r => if p c then lstrip_by p r else s | [] => [] end.
Definition strip_by (p : N -> bool) (s : text) : text := rev (lstrip_by p (rev (lstrip_by p s))).

(* digits of a base 10 literal; [us_ok]: an underscore may come next (the previous character was a digit) *)
Fixpoint int_digits (s : text) (acc : Z) (us_ok : bool) : option Z :=
  match s with
  | [] => if us_ok then Some acc else None            (* must end with a digit *)
  | c :: r =>
      if is_digit c then int_digits r (acc * 10 + (Z.of_N c - 48)) true
      else if N.eqb c US && us_ok then int_digits r acc false
      else None
  end.
Inductive ires := IOk (z : Z) | IBad | IOut.
Definition py_int (s : text) : ires :=
  if has_non_ascii_t s then IOut
  else
    match strip_by is_c_space s with
    | [] => IBad
    | c :: r =>
        let '(neg, body) := if N.eqb c 45 then (true, r) else if N.eqb c 43 then (false, r) else (false, c :: r) in
        match int_digits body 0 false with
        | Some z => IOk (if neg then - z else z)
        | None => IBad
        end
    end.

(* ------------------------------------------------------------------ ranges.create_range_from_length *)
(* The code renders a range text and parses it again; the model computes the items that text denotes
   (that the two agree is part of the correspondence: valid_range.items is compared). *)
Definition pow10 (k : Z) : Z := 10 ^ k.
Inductive lres' := LItems (its : list item) | LAll | LRangeError.
Definition length_item_bad (it : item) : bool :=
  match it with
  | (lo, hi) => (match lo with Some l => l <? 0 | None => false end) || (match hi with Some u => u <? 1 | None => false end)
  end.
Definition is_small (lo : option Z) : bool := match lo with None => true | Some l => (l =? 0) || (l =? 1) end.
(* the items one length item contributes; None = an item without limits (the code appends ", ") *)
Definition items_of_length_item (it : item) : option (list item) :=
  let '(lo, hi) := it in
  if is_small lo then
    match hi with
    | None => None
    | Some u => if u =? 1 then Some [(Some 0, Some 9)]
                else Some [(Some (- (pow10 (u - 1) - 1)), Some (pow10 u - 1))]
    end
  else
    let l := match lo with Some l => l | None => 0 end in
    match hi with
    | None => Some [(None, Some (- pow10 (l - 2))); (Some (pow10 (l - 1)), None)]
    | Some u => Some [(Some (- (pow10 (u - 1) - 1)), Some (- pow10 (l - 2))); (Some (pow10 (l - 1)), Some (pow10 u - 1))]
    end.
(* an item without limits makes the function return Range("") at once; otherwise the item texts are joined and parsed *)
Definition range_from_length (length_range : range) : lres' :=
  match length_range with
  | None => LAll
  | Some its =>
      if existsb length_item_bad its then LRangeError
      else if existsb (fun it => match items_of_length_item it with None => true | Some _ => false end) its then LAll
      else
        match flat_map (fun it => match items_of_length_item it with Some l => l | None => [] end) its with
        | [] => LAll
        | parts => LItems parts
        end
  end.

(* number of characters of str(int) *)
Fixpoint ndig_fuel (fuel : nat) (n : Z) : Z :=
  match fuel with
  | O => 1
  | S f => if n <? 10 then 1 else 1 + ndig_fuel f (n / 10)
  end.
Definition ndig (n : Z) : Z := ndig_fuel (S (Z.to_nat (Z.log2 n))) n.
Definition length_of_int (v : Z) : Z := if v <? 0 then 1 + ndig (- v) else ndig v.

(* ------------------------------------------------------------------ IntegerFieldFormat *)
Inductive fmtkind := KDelimited | KFixed | KExcel | KOds.
Definition fmtkind_eqb (a b : fmtkind) : bool :=
  match a, b with KDelimited, KDelimited | KFixed, KFixed | KExcel, KExcel | KOds, KOds => true | _, _ => false end.

(* outcome of a field declaration: valid range etc., InterfaceError, another exception, outside the domain *)
Inductive decl (A : Type) := DeclOk (a : A) | DeclInterface | DeclLeak | DeclOut.
Arguments DeclOk {A} a. Arguments DeclInterface {A}. Arguments DeclLeak {A}. Arguments DeclOut {A}.
Definition decl_of_pres (p : pres) : decl range :=
  match p with POk r => DeclOk r | PInterface => DeclInterface | PLeak => DeclLeak | POutOfDomain => DeclOut end.

Definition limits_of_items (its : list item) : list Z :=
  flat_map (fun it => (match fst it with Some l => [l] | None => [] end) ++ (match snd it with Some u => [u] | None => [] end)) its.

(* IntegerFieldFormat.__init__: self.length = Range(length_text) is [len]; result is valid_range *)
Definition limit_too_big (r : range) : bool :=
  match r with
  | None => false
  | Some its => existsb (fun it => (match fst it with Some l => 4000 <? Z.abs l | None => false end)
                                   || (match snd it with Some u => 4000 <? Z.abs u | None => false end)) its
  end.
Definition integer_valid_range (k : fmtkind) (length_text rule : text) (len : range) : decl range :=
  let has_length := negb (is_blank_text length_text) in
  let has_rule := negb (is_blank_text rule) in
  let fixed_length_bad := fmtkind_eqb k KFixed && has_length
                          && negb (match lower_limit len, upper_limit len with Some l, Some u => l =? u | _, _ => false end) in
  if has_length && limit_too_big len then DeclOut          (* digit strings beyond the interpreter's int/str limit *)
  else if fixed_length_bad then DeclInterface               (* "must be a specific number" *)
  else
  let length := if fmtkind_eqb k KFixed
                then match upper_limit len with Some u => Some [(Some 1, Some u)] | None => len end
                else len in
  let length_range := if has_length then range_from_length length else LAll in
  match length_range with
  | LRangeError => DeclInterface       (* RangeValueError of create_range_from_length, reported as InterfaceError *)
  | lr =>
      if has_rule then
        match range_of_text rule with
        | POk rule_range =>
            if has_length then
              let lims := match rule_range with Some its => limits_of_items its | None => [] end in
              if forallb (fun l => range_validate length (length_of_int l)) lims then DeclOk rule_range else DeclInterface
            else DeclOk rule_range
        | p => decl_of_pres p
        end
      else
        match lr with
        | LItems its => DeclOk (Some its)
        | LAll => if has_length then DeclOk None else decl_of_pres (range_of_text DEFAULT_INTEGER_RANGE_TEXT)
        | LRangeError => DeclInterface
        end
  end.

Definition integer_hook (r : range) (cell : text) : hres :=
  match py_int cell with
  | IOut => HOut
  | IBad => HReject
  | IOk z => if range_validate r z then HOk (VInt z) else HReject
  end.

(* ------------------------------------------------------------------ decimal.Decimal(text) *)
Inductive dnum := DFin (d : dec) | DInfinity (neg : bool) | DNan.
Inductive dparse_res := DpOk (d : dnum) | DpBad | DpOut.
(* Py_UNICODE_ISSPACE for ASCII *)
Definition is_u_space (c : N) : bool := in_rng c 9 13 || in_rng c 28 32.
Definition lower_t (s : text) : text := map lower_c s.
Definition all_digits (s : text) : bool := forallb is_digit s.
Fixpoint digits_val (s : text) (acc : N) : N :=
  match s with [] => acc | c :: r => digits_val r (acc * 10 + (c - 48))%N end.
(* after the sign: finite literal *)
Definition dec_finite (neg : bool) (s : text) : dparse_res :=
  let '(ip, r1) := span is_digit s in
  let '(fp, r2) := match r1 with c :: r => if N.eqb c DOT then span is_digit r else ([], r1) | [] => ([], []) end in
  match ip ++ fp with
  | [] => DpBad
  | ds =>
      let coef := digits_val ds 0 in
      let frac := - Z.of_nat (length fp) in
      match r2 with
      | [] => DpOk (DFin {| d_neg := neg; d_coef := coef; d_exp := frac |})
      | e :: r3 =>
          if N.eqb (lower_c e) 101 then
            let '(eneg, r4) := match r3 with
                               | sg :: r => if N.eqb sg 45 then (true, r) else if N.eqb sg 43 then (false, r) else (false, r3)
                               | [] => (false, []) end in
            match r4 with
            | [] => DpBad
            | _ => if all_digits r4
                   then if (6 <? length r4)%nat then DpOut       (* exponent limits of the context are not modelled *)
                        else let x := Z.of_N (digits_val r4 0) in
                             DpOk (DFin {| d_neg := neg; d_coef := coef; d_exp := frac + (if eneg then - x else x) |})
                   else DpBad
            end
          else DpBad
      end
  end.
Definition py_decimal (s : text) : dparse_res :=
  if has_non_ascii_t s || existsb (N.eqb 0) s then DpOut
  else
    let t := filter (fun c => negb (N.eqb c US)) (strip_by is_u_space s) in
    match t with
    | [] => DpBad
    | c :: r =>
        let '(neg, body) := if N.eqb c 45 then (true, r) else if N.eqb c 43 then (false, r) else (false, t) in
        let lb := lower_t body in
        if text_eqb lb (txt "inf") || text_eqb lb (txt "infinity") then DpOk (DInfinity neg)
        else match lb with
             | 110%N :: 97%N :: 110%N :: payload => if all_digits payload then DpOk DNan else DpBad
             | 115%N :: 110%N :: 97%N :: 110%N :: payload => if all_digits payload then DpOk DNan else DpBad
             | _ => dec_finite neg body
             end
    end.

(* DecimalRange.validate with a possibly infinite value *)
Definition ditem_contains_inf (neg : bool) (it : ditem) : bool :=
  match it with
  | (None, None) => true
  | (None, Some _) => neg
  | (Some _, None) => negb neg
  | (Some _, Some _) => false
  end.
Definition decrange_validate_num (r : drange) (v : dnum) : option bool :=
  match v with
  | DFin d => Some (decrange_validate r d)
  | DInfinity neg => Some (match r with None => true | Some its => existsb (ditem_contains_inf neg) its end)
  | DNan => match r with None => Some true | Some [] => Some false | Some _ => None end   (* comparison raises InvalidOperation *)
  end.

(* ------------------------------------------------------------------ DecimalFieldFormat *)
Record decfmt := { dsep : text; tsep : text }.
Definition is_nil_t (t : text) : bool := match t with [] => true | _ => false end.
(* the loop of validated_value; None = FieldValueError raised inside the loop *)
Fixpoint translate_decimal (f : decfmt) (s : text) (found : bool) : option text :=
  match s with
  | [] => Some []
  | c :: r =>
      if text_eqb [c] (dsep f) then
        if found then None
        else match translate_decimal f r true with Some t => Some (DOT :: t) | None => None end
      else if negb (is_nil_t (tsep f)) && text_eqb [c] (tsep f) then
        if found then None else translate_decimal f r found
      else match translate_decimal f r found with Some t => Some (c :: t) | None => None end
  end.

Definition decimal_hook (f : decfmt) (r : drange) (cell : text) : hres :=
  match translate_decimal f cell false with
  | None => HReject
  | Some t =>
      match py_decimal t with
      | DpOut => HOut
      | DpBad => HReject
      | DpOk DNan => HReject                     (* result.is_nan(): FieldValueError *)
      | DpOk v =>
          match decrange_validate_num r v with
          | None => HLeak
          | Some false => HReject
          | Some true => match v with
                         | DFin d => HOk (VDec d)
                         | DInfinity neg => HOk (VInf neg)
                         | DNan => HReject
                         end
          end
      end
  end.

(* DecimalFieldFormat.__init__: separators from the data format for delimited/fixed, "." and none otherwise *)
Definition decimal_separators (k : fmtkind) (df : decfmt) : decfmt :=
  match k with
  | KDelimited | KFixed => df
  | _ => {| dsep := [DOT]; tsep := [] |}
  end.
Definition decimal_valid_range (rule : text) : decl drange :=
  match decrange_with_default rule DEFAULT_DECIMAL_RANGE_TEXT with
  | DOk r _ _ => DeclOk r
  | DInterface => DeclInterface
  | DLeak => DeclLeak
  | DOutOfDomain => DeclOut
  end.

(* ------------------------------------------------------------------ Choice / Constant *)
(* ChoiceFieldFormat.__init__ token loop *)
Fixpoint choice_loop (ts : list token) (acc : list text) : decl (list text) :=
  match ts with
  | [] => DeclOut
  | t :: rest =>
      if is_eof t then DeclOk acc
      else if is_comma t then DeclInterface                       (* "choice value must precede a comma" *)
      else
        let c := token_text t in
        if is_nil_t c then DeclInterface                          (* empty choice *)
        else
          match rest with
          | [] => DeclOut
          | t2 :: rest2 =>
              if is_eof t2 then DeclOk (acc ++ [c])
              else if negb (is_comma t2) then DeclInterface       (* "comma must follow choice value" *)
              else match rest2 with
                   | [] => DeclOut
                   | t3 :: _ => if is_eof t3 then DeclInterface   (* trailing comma *)
                                else choice_loop rest2 (acc ++ [c])
                   end
          end
  end.
Definition lex_decl {A} (rule : text) (k : list token -> decl A) : decl A :=
  match tokenize_without_space rule with
  | LOk ts => k ts
  | LTokenError => match token_error_family with FInterface => DeclInterface | _ => DeclLeak end
  | LOutOfDomain => DeclOut
  end.
Definition choice_choices (empty_ok : bool) (rule : text) : decl (list text) :=
  lex_decl rule (fun ts =>
    match choice_loop ts [] with
    | DeclOk cs => if negb empty_ok && (match cs with [] => true | _ => false end) then DeclInterface else DeclOk cs
    | d => d
    end).
Definition choice_hook (choices : list text) (cell : text) : hres :=
  if existsb (text_eqb cell) choices then HOk (VStr cell) else HReject.

(* ConstantFieldFormat.__init__; [len] is Range(length_text) *)
Definition constant_constant (empty_ok : bool) (rule : text) (len : range) : decl text :=
  lex_decl rule (fun ts =>
    match ts with
    | [] => DeclOut
    | t :: rest =>
        let k (c : text) : decl text :=
          let has_empty_rule := is_nil_t rule in
          if empty_ok && negb has_empty_rule then DeclInterface
          else if negb empty_ok && has_empty_rule then DeclInterface
          else if range_validate len (Z.of_nat (length c)) then DeclOk c else DeclInterface in
        if is_eof t then k []
        else match rest with
             | [] => DeclOut
             | t2 :: _ => if is_eof t2 then k (token_text t) else DeclInterface
             end
    end).
Definition constant_hook (c : text) (cell : text) : hres :=
  if text_eqb cell c then HOk (VStr cell) else HReject.

(* ------------------------------------------------------------------ DateTime: rule -> strptime format *)
Fixpoint prefix_b (p s : text) : bool :=
  match p, s with
  | [], _ => true
  | a :: p', b :: s' => N.eqb a b && prefix_b p' s'
  | _ :: _, [] => false
  end.
Fixpoint infix_b (p s : text) : bool :=
  prefix_b p s || match s with [] => false | _ :: r => infix_b p r end.
Definition suffix_b (p s : text) : bool := prefix_b (rev p) (rev s).
(* re.sub over the alternation of the items in source order: at every position the first item that matches is
   replaced by its directive and skipped, any other character is kept *)
Fixpoint first_item (tuples : list (text * text)) (s : text) : option (text * text) :=
  match tuples with
  | [] => None
  | (h, d) :: rest => if prefix_b h s then Some (h, d) else first_item rest s
  end.
Fixpoint translate_go (tuples : list (text * text)) (s : text) (skip : nat) : text :=
  match s with
  | [] => []
  | c :: r =>
      match skip with
      | S k => translate_go tuples r k
      | O => match first_item tuples s with
             | Some (h, d) => d ++ translate_go tuples r (length h - 1)
             | None => c :: translate_go tuples r 0
             end
      end
  end.
Definition strptime_format (rule : text) : text := translate_go HUMAN_READABLE_TO_STRPTIME rule 0.
Definition has_any (ds : list text) (fmt : text) : bool := existsb (fun d => infix_b d fmt) ds.

(* ------------------------------------------------------------------ time.strptime *)
Inductive fitem := FLit (c : N) | FSpace | FDir (d : N).
(* TimeRE.pattern: runs of whitespace become \s+, "%x" a directive; None = ValueError for every input (bad directive / stray %) *)
Definition known_directive (d : N) : bool :=
  existsb (N.eqb d) [100; 109; 89; 121; 72; 77; 83; 37]%N.
Fixpoint parse_format (fuel : nat) (s : text) : option (list fitem) :=
  match fuel with
  | O => None
  | S f =>
    match s with
    | [] => Some []
    | c :: r =>
        if is_u_space c then
          match parse_format f (lstrip_by is_u_space r) with Some l => Some (FSpace :: l) | None => None end
        else if N.eqb c 37 then
          match r with
          | [] => None
          | d :: r' => if known_directive d
                       then match parse_format f r' with
                            | Some l => Some ((if N.eqb d 37 then FLit 37 else FDir d) :: l)
                            | None => None end
                       else None
          end
        else match parse_format f r with Some l => Some (FLit c :: l) | None => None end
    end
  end.
Fixpoint dirs_of (l : list fitem) : list N :=
  match l with [] => [] | FDir d :: r => d :: dirs_of r | _ :: r => dirs_of r end.
Fixpoint has_dup (l : list N) : bool :=
  match l with [] => false | x :: r => existsb (N.eqb x) r || has_dup r end.

Definition cp := N -> bool.
Definition ceq (a : N) : cp := N.eqb a.
Definition crng (a b : N) : cp := fun c => in_rng c a b.
(* the alternatives of each directive's group, in the order of _strptime.TimeRE *)
Definition alts (d : N) : list (list cp) :=
  if N.eqb d 100 then [[ceq 51; crng 48 49]; [crng 49 50; is_digit]; [ceq 48; crng 49 57]; [crng 49 57]; [ceq 32; crng 49 57]]
  else if N.eqb d 109 then [[ceq 49; crng 48 50]; [ceq 48; crng 49 57]; [crng 49 57]]
  else if N.eqb d 89 then [[is_digit; is_digit; is_digit; is_digit]]
  else if N.eqb d 121 then [[is_digit; is_digit]]
  else if N.eqb d 72 then [[ceq 50; crng 48 51]; [crng 48 49; is_digit]; [is_digit]]
  else if N.eqb d 77 then [[crng 48 53; is_digit]; [is_digit]]
  else if N.eqb d 83 then [[ceq 54; crng 48 49]; [crng 48 53; is_digit]; [is_digit]]
  else [].
Fixpoint try_alt (ps : list cp) (s : text) : option (text * text) :=
  match ps with
  | [] => Some ([], s)
  | p :: ps' => match s with
                | c :: r => if p c then match try_alt ps' r with Some (a, b) => Some (c :: a, b) | None => None end else None
                | [] => None
                end
  end.
(* int() of the matched text: digits, possibly after one blank *)
Definition group_value (s : text) : Z := Z.of_N (digits_val (filter is_digit s) 0).

Definition found := list (N * Z).    (* directive letter -> value, in the order of the format *)
Section Backtrack.
  Context {R : Type}.
  (* \s+ greedy, giving back one character at a time; [s] follows at least one consumed blank *)
  Fixpoint space_bt (k : text -> option R) (s : text) : option R :=
    match s with
    | c :: r => if is_u_space c then match space_bt k r with Some x => Some x | None => k s end else k s
    | [] => k s
    end.
  Fixpoint first_alt (k : text -> text -> option R) (l : list (list cp)) (s : text) : option R :=
    match l with
    | [] => None
    | ps :: l' => match try_alt ps s with
                  | Some (m, rest) => match k m rest with Some x => Some x | None => first_alt k l' s end
                  | None => first_alt k l' s
                  end
    end.
End Backtrack.
(* re.match of the compiled format: first match in backtracking order; result: groups and the unmatched rest *)
Fixpoint sp_match (fmt : list fitem) (s : text) (acc : found) : option (found * text) :=
  match fmt with
  | [] => Some (acc, s)
  | FLit c :: rest =>
      match s with
      | x :: r => if N.eqb (lower_c x) (lower_c c) then sp_match rest r acc else None
      | [] => None
      end
  | FSpace :: rest =>
      match s with
      | x :: r => if is_u_space x then space_bt (fun s' => sp_match rest s' acc) r else None
      | [] => None
      end
  | FDir d :: rest => first_alt (fun m s' => sp_match rest s' (acc ++ [(d, group_value m)])) (alts d) s
  end.

Definition is_leap (y : Z) : bool := ((y mod 4 =? 0) && negb (y mod 100 =? 0)) || (y mod 400 =? 0).
Definition days_in_month (y m : Z) : Z :=
  if m =? 2 then (if is_leap y then 29 else 28)
  else if (m =? 4) || (m =? 6) || (m =? 9) || (m =? 11) then 30 else 31.
Definition valid_date (y m d : Z) : bool :=
  (1 <=? y) && (y <=? 9999) && (1 <=? m) && (m <=? 12) && (1 <=? d) && (d <=? days_in_month y m).

Record tmacc := { a_year : option Z; a_month : Z; a_day : Z; a_hour : Z; a_min : Z; a_sec : Z }.
Definition tm0 : tmacc := {| a_year := None; a_month := 1; a_day := 1; a_hour := 0; a_min := 0; a_sec := 0 |}.
Definition tm_step (a : tmacc) (p : N * Z) : tmacc :=
  let '(d, v) := p in
  if N.eqb d 121 then {| a_year := Some (if v <=? 68 then v + 2000 else v + 1900); a_month := a_month a; a_day := a_day a; a_hour := a_hour a; a_min := a_min a; a_sec := a_sec a |}
  else if N.eqb d 89 then {| a_year := Some v; a_month := a_month a; a_day := a_day a; a_hour := a_hour a; a_min := a_min a; a_sec := a_sec a |}
  else if N.eqb d 109 then {| a_year := a_year a; a_month := v; a_day := a_day a; a_hour := a_hour a; a_min := a_min a; a_sec := a_sec a |}
  else if N.eqb d 100 then {| a_year := a_year a; a_month := a_month a; a_day := v; a_hour := a_hour a; a_min := a_min a; a_sec := a_sec a |}
  else if N.eqb d 72 then {| a_year := a_year a; a_month := a_month a; a_day := a_day a; a_hour := v; a_min := a_min a; a_sec := a_sec a |}
  else if N.eqb d 77 then {| a_year := a_year a; a_month := a_month a; a_day := a_day a; a_hour := a_hour a; a_min := v; a_sec := a_sec a |}
  else if N.eqb d 83 then {| a_year := a_year a; a_month := a_month a; a_day := a_day a; a_hour := a_hour a; a_min := a_min a; a_sec := v |}
  else a.

(* time.strptime(data, format) *)
Definition strptime (fmt : list fitem) (data : text) : option value :=
  match sp_match fmt data [] with
  | None => None                                   (* does not match format *)
  | Some (_, _ :: _) => None                       (* unconverted data remains *)
  | Some (groups, []) =>
      let a := fold_left tm_step groups tm0 in
      let check_year := match a_year a with
                        | Some y => y
                        | None => if (a_month a =? 2) && (a_day a =? 29) then 1904 else 1900 end in
      let year := match a_year a with Some y => y | None => 1900 end in
      if valid_date check_year (a_month a) (a_day a)
      then Some (VTime year (a_month a) (a_day a) (a_hour a) (a_min a) (a_sec a))
      else None
  end.

(* DateTimeFieldFormat.validated_value *)
Definition datetime_hook (k : fmtkind) (rule : text) (cell : text) : hres :=
  if has_non_ascii_t rule || has_non_ascii_t cell then HOut
  else
    let fmt_text := strptime_format rule in
    let has_time := has_any STRPTIME_TIME_DIRECTIVES fmt_text in
    let v := if negb has_time && fmtkind_eqb k KExcel && suffix_b NO_EXCEL_TIME cell
             then firstn (length cell - length NO_EXCEL_TIME) cell else cell in
    match parse_format (S (length fmt_text)) fmt_text with
    | None => HReject
    | Some fmt =>
        if has_dup (dirs_of fmt) then HLeak        (* re.error: redefinition of group name *)
        else match strptime fmt v with Some t => HOk t | None => HReject end
    end.

(* ------------------------------------------------------------------ regular expressions (subset) *)
Definition crange := (N * N)%type.
Inductive re :=
| REmpty | REps
| RChr (c : N)
| RAny (dotall : bool)
| RSet (neg : bool) (rs : list crange)
| RSeq (a b : re) | RAlt (a b : re) | RStar (a : re).

(* IGNORECASE, ASCII letters only *)
Definition swapcase_c (c : N) : N :=
  if in_rng c 65 90 then (c + 32)%N else if in_rng c 97 122 then (c - 32)%N else c.
Definition chr_match (c x : N) : bool := N.eqb (lower_c x) (lower_c c).
Definition set_has (rs : list crange) (x : N) : bool :=
  existsb (fun r => in_rng x (fst r) (snd r) || in_rng (swapcase_c x) (fst r) (snd r)) rs.
Definition any_match (dotall : bool) (x : N) : bool := dotall || negb (N.eqb x 10).

Fixpoint nullable (r : re) : bool :=
  match r with
  | REmpty => false | REps => true | RChr _ => false | RAny _ => false | RSet _ _ => false
  | RSeq a b => nullable a && nullable b
  | RAlt a b => nullable a || nullable b
  | RStar _ => true
  end.
Fixpoint deriv (x : N) (r : re) : re :=
  match r with
  | REmpty => REmpty | REps => REmpty
  | RChr c => if chr_match c x then REps else REmpty
  | RAny d => if any_match d x then REps else REmpty
  | RSet neg rs => if xorb neg (set_has rs x) then REps else REmpty
  | RSeq a b => if nullable a then RAlt (RSeq (deriv x a) b) (deriv x b) else RSeq (deriv x a) b
  | RAlt a b => RAlt (deriv x a) (deriv x b)
  | RStar a => RSeq (deriv x a) (RStar a)
  end.
(* re.match: some prefix of the text matches *)
Fixpoint prefix_match (r : re) (s : text) : bool :=
  nullable r || match s with x :: t => prefix_match (deriv x r) t | [] => false end.
(* whole text matches *)
Fixpoint full_match (r : re) (s : text) : bool :=
  match s with [] => nullable r | x :: t => full_match (deriv x r) t end.

(* surface syntax, printed the way the rule is written *)
Inductive sre :=
| SChr (c : N) | SAny | SSet (neg : bool) (rs : list crange)
| SSeq (l : list sre) | SAlt (a b : sre) | SStar (a : sre) | SPlus (a : sre) | SOpt (a : sre).
Fixpoint desugar (s : sre) : re :=
  match s with
  | SChr c => RChr c | SAny => RAny false | SSet n rs => RSet n rs
  | SSeq l => fold_right (fun a acc => RSeq (desugar a) acc) REps l
  | SAlt a b => RAlt (desugar a) (desugar b)
  | SStar a => RStar (desugar a)
  | SPlus a => RSeq (desugar a) (RStar (desugar a))
  | SOpt a => RAlt (desugar a) REps
  end.
Definition is_re_special (c : N) : bool := existsb (N.eqb c) (txt ".^$*+?{}[]\|()").
Definition is_alnum (c : N) : bool := is_alpha c || is_digit c.
Definition print_crange (r : crange) : text := if N.eqb (fst r) (snd r) then [fst r] else [fst r; 45%N; snd r].
Definition is_atomic (s : sre) : bool := match s with SChr _ | SAny | SSet _ _ | SAlt _ _ => true | _ => false end.
Fixpoint print_sre (s : sre) : text :=
  let atom (a : sre) : text := if is_atomic a then print_sre a else 40%N :: print_sre a ++ [41%N] in
  match s with
  | SChr c => if is_re_special c then [BSL; c] else [c]
  | SAny => [DOT]
  | SSet neg rs => 91%N :: (if neg then [94%N] else []) ++ flat_map print_crange rs ++ [93%N]
  | SSeq l => flat_map print_sre l
  | SAlt a b => 40%N :: print_sre a ++ 124%N :: print_sre b ++ [41%N]
  | SStar a => atom a ++ [42%N]
  | SPlus a => atom a ++ [43%N]
  | SOpt a => atom a ++ [63%N]
  end.
(* the subset: printable ASCII literals, sets of alphanumeric ranges, no repetition of something that can be empty *)
Definition crange_ok (r : crange) : bool := is_alnum (fst r) && is_alnum (snd r) && (fst r <=? snd r)%N.
Fixpoint sre_ok (s : sre) : bool :=
  match s with
  | SChr c => in_rng c 32 126
  | SAny => true
  | SSet _ rs => negb (is_nil_t (map fst rs)) && forallb crange_ok rs
  | SSeq l => forallb sre_ok l
  | SAlt a b => sre_ok a && sre_ok b
  | SStar a | SPlus a | SOpt a => sre_ok a && negb (nullable (desugar a))
  end.

Definition regex_hook (r : sre) (cell : text) : hres :=
  if has_non_ascii_t cell then HOut
  else if prefix_match (desugar r) cell then HOk (VStr cell) else HReject.

(* ------------------------------------------------------------------ globs (fnmatch.translate) *)
Inductive gitem := GChr (c : N) | GOne | GStar | GSet (neg : bool) (rs : list crange).
Definition glob := list gitem.
Definition gitem_re (g : gitem) : re :=
  match g with
  | GChr c => RChr c | GOne => RAny true | GStar => RStar (RAny true) | GSet n rs => RSet n rs
  end.
Definition glob_re (g : glob) : re := fold_right (fun a acc => RSeq (gitem_re a) acc) REps g.
Definition print_gitem (g : gitem) : text :=
  match g with
  | GChr c => [c] | GOne => [63%N] | GStar => [42%N]
  | GSet neg rs => 91%N :: (if neg then [33%N] else []) ++ flat_map print_crange rs ++ [93%N]
  end.
Definition print_glob (g : glob) : text := flat_map print_gitem g.
Definition gitem_ok (g : gitem) : bool :=
  match g with
  | GChr c => in_rng c 32 126 && negb (existsb (N.eqb c) (txt "*?["))
  | GSet _ rs => negb (is_nil_t (map fst rs)) && forallb crange_ok rs
  | _ => true
  end.
Definition pattern_hook (g : glob) (cell : text) : hres :=
  if has_non_ascii_t cell then HOut
  else if full_match (glob_re g) cell then HOk (VStr cell) else HReject.

(* ------------------------------------------------------------------ one declaration, one cell *)
Inductive ftype := TInteger | TDecimal | TChoice | TConstant | TDateTime | TPattern (g : glob) | TRegEx (r : sre) | TText.
Record fdecl := { fd_type : ftype; fd_kind : fmtkind; fd_df : decfmt; fd_empty : bool; fd_length : text; fd_rule : text }.

(* the hook a declaration yields (DeclInterface: the declaration is refused) *)
Definition declare (d : fdecl) : decl (text -> hres) :=
  match fd_type d with
  | TDecimal =>
      (* AbstractFieldFormat.__init__ gets "" as length; the length text goes to DecimalRange *)
      match decimal_valid_range (fd_rule d) with
      | DeclOk r =>
          match decrange_of_text (fd_length d) with
          | DOk _ _ _ => DeclOk (decimal_hook (decimal_separators (fd_kind d) (fd_df d)) r)
          | DInterface => DeclInterface | DLeak => DeclLeak | DOutOfDomain => DeclOut
          end
      | DeclInterface => DeclInterface | DeclLeak => DeclLeak | DeclOut => DeclOut
      end
  | ty =>
      match range_of_text (fd_length d) with
      | POk len =>
          match ty with
          | TInteger =>
              match integer_valid_range (fd_kind d) (fd_length d) (fd_rule d) len with
              | DeclOk r => DeclOk (integer_hook r)
              | DeclInterface => DeclInterface | DeclLeak => DeclLeak | DeclOut => DeclOut
              end
          | TChoice =>
              match choice_choices (fd_empty d) (fd_rule d) with
              | DeclOk cs => DeclOk (choice_hook cs)
              | DeclInterface => DeclInterface | DeclLeak => DeclLeak | DeclOut => DeclOut
              end
          | TConstant =>
              match constant_constant (fd_empty d) (fd_rule d) len with
              | DeclOk c => DeclOk (constant_hook c)
              | DeclInterface => DeclInterface | DeclLeak => DeclLeak | DeclOut => DeclOut
              end
          | TDateTime =>
              (* time.strptime("", format) at declaration: a repeated item makes re raise an error -> InterfaceError *)
              if has_non_ascii_t (fd_rule d) then DeclOut
              else
                let fmt_text := strptime_format (fd_rule d) in
                match parse_format (S (length fmt_text)) fmt_text with
                | Some fmt => if has_dup (dirs_of fmt) then DeclInterface else DeclOk (datetime_hook (fd_kind d) (fd_rule d))
                | None => DeclOk (datetime_hook (fd_kind d) (fd_rule d))
                end
          | TPattern g =>
              if forallb gitem_ok g && text_eqb (print_glob g) (fd_rule d) then DeclOk (pattern_hook g) else DeclOut
          | TRegEx r =>
              if sre_ok r && text_eqb (print_sre r) (fd_rule d) then DeclOk (regex_hook r) else DeclOut
          | TText => DeclOk (fun cell => HOk (VStr cell))
          | TDecimal => DeclOut
          end
      | PInterface => DeclInterface | PLeak => DeclLeak | POutOfDomain => DeclOut
      end
  end.
