(* Model of cutplace.ranges.Range as a value: items, validate, overall limits
   (ranges.py: Range.validate, _item_contains, _items_overlap, the limit fold at the end of __init__).
   The parser (token loop) is in Model/RangeParse.v. *)
From CP Require Import Model.Base.
Local Open Scope Z_scope.

(* (lower, upper), None = open on that side *)
Definition item := (option Z * option Z)%type.
(* Range._items: None for an empty description (accepts everything) *)
Definition range := option (list item).

(* one pass of the loop body of Range.validate / _item_contains *)
Definition item_contains (it : item) (v : Z) : bool :=
  match it with
  | (None, Some u) => v <=? u
  | (Some l, None) => l <=? v          (* code: value >= lower *)
  | (Some l, Some u) => (l <=? v) && (v <=? u)
  | (None, None) => true                (* excluded by an assert in the code; never produced by the parser *)
  end.

(* Range.validate: true = returns None, false = raises RangeValueError *)
Definition range_validate (r : range) (v : Z) : bool :=
  match r with
  | None => true
  | Some its => existsb (fun it => item_contains it v) its
  end.

(* _items_overlap some other: does [some] contain an end point of [other] *)
Definition opt_contains (it : item) (v : option Z) : bool :=
  match v with None => false | Some x => item_contains it x end.
Definition items_overlap (some other : item) : bool :=
  opt_contains some (fst other) || opt_contains some (snd other).

(* the fold computing _lower_limit/_upper_limit, literally: first item initialises, then every
   item (the first included) narrows *)
Definition lower_step (cur : option Z) (it : item) : option Z :=
  match fst it with
  | None => None
  | Some l => match cur with Some c => if l <? c then Some l else cur | None => None end
  end.
Definition upper_step (cur : option Z) (it : item) : option Z :=
  match snd it with
  | None => None
  | Some u => match cur with Some c => if c <? u then Some u else cur | None => None end
  end.
Definition lower_limit_items (its : list item) : option Z :=
  match its with [] => None | it :: _ => fold_left lower_step its (fst it) end.
Definition upper_limit_items (its : list item) : option Z :=
  match its with [] => None | it :: _ => fold_left upper_step its (snd it) end.
Definition lower_limit (r : range) : option Z := match r with None => None | Some its => lower_limit_items its end.
Definition upper_limit (r : range) : option Z := match r with None => None | Some its => upper_limit_items its end.
