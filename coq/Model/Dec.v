(* Finite decimal numbers as decimal.Decimal represents them: sign, integer coefficient, exponent
   (Decimal.as_tuple with the digit tuple read as a number).  Exact comparison. *)
From CP Require Import Model.Base Model.Lex.
Local Open Scope Z_scope.

Record dec := { d_neg : bool; d_coef : N; d_exp : Z }.
Definition mkdec (p : bool * N * Z) : dec := let '(s, c, e) := p in {| d_neg := s; d_coef := c; d_exp := e |}.
(* same as_tuple() *)
Definition dec_same (a b : dec) : bool := Bool.eqb (d_neg a) (d_neg b) && N.eqb (d_coef a) (d_coef b) && Z.eqb (d_exp a) (d_exp b).

Definition dec_signed (a : dec) : Z := if d_neg a then - Z.of_N (d_coef a) else Z.of_N (d_coef a).
(* a <= b as numbers: scale both to the smaller exponent *)
Definition dec_scaled (a : dec) (e : Z) : Z := dec_signed a * 10 ^ (d_exp a - e).
Definition dec_leb (a b : dec) : bool :=
  let e := Z.min (d_exp a) (d_exp b) in dec_scaled a e <=? dec_scaled b e.
Definition dec_ltb (a b : dec) : bool :=
  let e := Z.min (d_exp a) (d_exp b) in dec_scaled a e <? dec_scaled b e.
Definition dec_negate (a : dec) : dec := {| d_neg := negb (d_neg a); d_coef := d_coef a; d_exp := d_exp a |}.

(* number of decimal digits of the coefficient (0 has one digit) *)
Fixpoint ndigits_fuel (fuel : nat) (n : N) : Z :=
  match fuel with
  | O => 1
  | S f => if (n <? 10)%N then 1 else 1 + ndigits_fuel f (n / 10)%N
  end.
Definition ndigits (n : N) : Z := ndigits_fuel (S (N.to_nat (N.log2 n))) n.

(* decimal.Decimal(text) for the texts the tokenizer hands over as NUMBER tokens:
   digits [. digits] [e [+-] digits] | . digits [...]; underscores are ignored; anything else is invalid *)
Definition drop_us (s : text) : text := filter (fun c => negb (N.eqb c US)) s.
Fixpoint digits_n (s : text) (acc : N) : option N :=
  match s with
  | [] => Some acc
  | c :: r => if is_digit c then digits_n r (acc * 10 + (c - 48))%N else None
  end.
Definition dec_of_token (tok : text) : option dec :=
  let s := drop_us tok in
  let '(ip, r1) := span is_digit s in
  let '(fp, r2) := match r1 with c :: r => if N.eqb c DOT then span is_digit r else ([], r1) | [] => ([], []) end in
  match ip ++ fp with
  | [] => None
  | ds =>
      match digits_n ds 0 with
      | None => None
      | Some coef =>
          let frac := - Z.of_nat (length fp) in
          match r2 with
          | [] => Some {| d_neg := false; d_coef := coef; d_exp := frac |}
          | e :: r3 =>
              if N.eqb e 101 || N.eqb e 69 then
                let '(neg, r4) := match r3 with
                                  | sg :: r => if N.eqb sg 45 then (true, r) else if N.eqb sg 43 then (false, r) else (false, r3)
                                  | [] => (false, []) end in
                match r4 with
                | [] => None
                | _ => match digits_n r4 0 with
                       | Some x => Some {| d_neg := false; d_coef := coef; d_exp := frac + (if neg then - Z.of_N x else Z.of_N x) |}
                       | None => None end
                end
              else None
          end
      end
  end.
