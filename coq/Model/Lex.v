(* Model of cutplace._tools.generated_tokens / tokenize_without_space / token_text, i.e. of Python 3.12's
   tokenize.generate_tokens for one-line inputs over the model's domain (no line breaks, no control
   characters other than tab, no string prefixes).  Outside the domain the model answers LOutOfDomain;
   inside it, it reproduces the token stream or the TokenError of the real tokenizer (validated against it
   on every run, exhaustively for short strings over a hostile alphabet). *)
From Coq Require Import String.
From CP Require Import Model.Base.

Inductive tkind := KName | KNumber | KString | KOp | KComment | KIndent | KNewline | KDedent | KNl | KEnd.
Definition tkind_eqb (a b : tkind) : bool :=
  match a, b with
  | KName, KName | KNumber, KNumber | KString, KString | KOp, KOp | KComment, KComment | KIndent, KIndent
  | KNewline, KNewline | KDedent, KDedent | KNl, KNl | KEnd, KEnd => true
  | _, _ => false
  end.
Record token := { tk : tkind; tt : text }.
Definition T (k : tkind) (t : text) : token := {| tk := k; tt := t |}.

Inductive lres := LOk (ts : list token) | LTokenError | LOutOfDomain.

(* ---------- character classes *)
Definition in_rng (c lo hi : N) : bool := (lo <=? c)%N && (c <=? hi)%N.
Definition is_digit (c : N) : bool := in_rng c 48 57.
Definition is_xdigit (c : N) : bool := is_digit c || in_rng c 65 70 || in_rng c 97 102.
Definition is_odigit (c : N) : bool := in_rng c 48 55.
Definition is_bdigit (c : N) : bool := in_rng c 48 49.
Definition is_alpha (c : N) : bool := in_rng c 65 90 || in_rng c 97 122.
Definition is_name_start (c : N) : bool := is_alpha c || N.eqb c 95 || (128 <=? c)%N.
Definition is_name_char (c : N) : bool := is_name_start c || is_digit c.
Definition is_blank (c : N) : bool := N.eqb c 32 || N.eqb c 9.
Definition is_quote (c : N) : bool := N.eqb c 34 || N.eqb c 39.
Definition US : N := 95.     (* _ *)
Definition DOT : N := 46.
Definition BSL : N := 92.    (* backslash *)
Definition HASH : N := 35.
(* printable ASCII punctuation the tokenizer returns as OP (this includes $ ? ! and the back-tick on 3.12) *)
Definition is_op_char (c : N) : bool :=
  in_rng c 33 47 && negb (is_quote c) && negb (N.eqb c HASH)
  || in_rng c 58 64 || N.eqb c 91 || in_rng c 93 94 || N.eqb c 96 || in_rng c 123 126.
(* characters the model covers at all *)
Definition in_domain_char (c : N) : bool := N.eqb c 9 || in_rng c 32 126 || (128 <=? c)%N.

Fixpoint span (p : N -> bool) (s : text) : text * text :=
  match s with
  | c :: r => if p c then let '(a, b) := span p r in (c :: a, b) else ([], s)
  | [] => ([], [])
  end.

(* ---------- numbers *)
Inductive nres := NOk (consumed rest : text) | NErr.
Definition ncons (c : N) (r : nres) : nres := match r with NOk a b => NOk (c :: a) b | NErr => NErr end.
Definition napp (p : text) (r : nres) : nres := match r with NOk a b => NOk (p ++ a) b | NErr => NErr end.

(* digits already started: more digits, single underscores only between digits (tok_decimal_tail) *)
Fixpoint dtail (isd : N -> bool) (s : text) : nres :=
  match s with
  | c :: r =>
      if isd c then ncons c (dtail isd r)
      else if N.eqb c US then
        match r with
        | d :: _ => if isd d then ncons c (dtail isd r) else NErr
        | [] => NErr
        end
      else NOk [] s
  | [] => NOk [] []
  end.

(* after 0x / 0o / 0b: optional underscore, then at least one digit, groups separated by single underscores *)
Definition radix_digits (isd : N -> bool) (s : text) : nres :=
  let s' := match s with c :: r => if N.eqb c US then r else s | [] => s end in
  let pre := match s with c :: _ => if N.eqb c US then [US] else [] | [] => [] end in
  match s' with
  | d :: _ => if isd d then napp pre (dtail isd s') else NErr
  | [] => NErr
  end.

(* exponent part, if any: s starts right after the mantissa *)
Definition exponent (s : text) : nres :=
  match s with
  | e :: r =>
      if N.eqb e 101 || N.eqb e 69 then
        match r with
        | sg :: r2 =>
            if N.eqb sg 43 || N.eqb sg 45 then
              match r2 with
              | d :: _ => if is_digit d then napp [e; sg] (dtail is_digit r2) else NErr
              | [] => NErr
              end
            else if is_digit sg then ncons e (dtail is_digit r)
            else NOk [] s
        | [] => NOk [] s
        end
      else NOk [] s
  | [] => NOk [] []
  end.
Definition imaginary (s : text) : text * text :=
  match s with c :: r => if N.eqb c 106 || N.eqb c 74 then ([c], r) else ([], s) | [] => ([], []) end.

(* fraction digits after a '.' that has already been consumed *)
Definition fraction_tail (s : text) : nres :=
  match s with
  | d :: _ => if is_digit d then dtail is_digit s else NOk [] s
  | [] => NOk [] []
  end.
Definition exp_imag (s : text) : nres :=
  match exponent s with
  | NOk a b => let '(j, r) := imaginary b in NOk (a ++ j) r
  | NErr => NErr
  end.

(* s starts with a digit *)
Definition scan_number (s : text) : nres :=
  match s with
  | z :: x :: r =>
      if N.eqb z 48 && (N.eqb x 120 || N.eqb x 88) then
        match radix_digits is_xdigit r with NOk a b => NOk (z :: x :: a) b | NErr => NErr end
      else if N.eqb z 48 && (N.eqb x 111 || N.eqb x 79) then
        match radix_digits is_odigit r with
        | NOk a b => match b with d :: _ => if is_digit d then NErr else NOk (z :: x :: a) b | [] => NOk (z :: x :: a) b end
        | NErr => NErr end
      else if N.eqb z 48 && (N.eqb x 98 || N.eqb x 66) then
        match radix_digits is_bdigit r with
        | NOk a b => match b with d :: _ => if is_digit d then NErr else NOk (z :: x :: a) b | [] => NOk (z :: x :: a) b end
        | NErr => NErr end
      else
        match dtail is_digit s with
        | NOk a b =>
            match b with
            | c :: b' =>
                if N.eqb c DOT then
                  match fraction_tail b' with
                  | NOk f b2 => napp (a ++ DOT :: f) (exp_imag b2)
                  | NErr => NErr end
                else napp a (exp_imag b)
            | [] => NOk a []
            end
        | NErr => NErr
        end
  | _ => match dtail is_digit s with NOk a b => napp a (exp_imag b) | NErr => NErr end
  end.

(* s = '.' :: digit :: _ *)
Definition scan_dot_number (s : text) : nres :=
  match s with
  | d :: r => match dtail is_digit r with NOk f b => napp (d :: f) (exp_imag b) | NErr => NErr end
  | [] => NErr
  end.

(* ---------- strings; None = unterminated (TokenError) *)
Fixpoint scan_short (q : N) (s : text) : option (text * text) :=
  match s with
  | c :: r =>
      if N.eqb c q then Some ([c], r)
      else if N.eqb c BSL then
        match r with
        | e :: r' => match scan_short q r' with Some (a, b) => Some (c :: e :: a, b) | None => None end
        | [] => None
        end
      else match scan_short q r with Some (a, b) => Some (c :: a, b) | None => None end
  | [] => None
  end.
Fixpoint scan_triple (q : N) (s : text) : option (text * text) :=
  match s with
  | c :: r =>
      if N.eqb c BSL then
        match r with
        | e :: r' => match scan_triple q r' with Some (a, b) => Some (c :: e :: a, b) | None => None end
        | [] => None
        end
      else
        match s with
        | c1 :: c2 :: c3 :: r3 =>
            if N.eqb c1 q && N.eqb c2 q && N.eqb c3 q then Some ([c1; c2; c3], r3)
            else match scan_triple q r with Some (a, b) => Some (c :: a, b) | None => None end
        | _ => None
        end
  | [] => None
  end.
(* s starts with the quote q *)
Definition scan_string (q : N) (r : text) : option (text * text) :=
  match r with
  | c1 :: c2 :: r2 =>
      if N.eqb c1 q && N.eqb c2 q then
        match scan_triple q r2 with Some (a, b) => Some (q :: q :: q :: a, b) | None => None end
      else match scan_short q r with Some (a, b) => Some (q :: a, b) | None => None end
  | _ => match scan_short q r with Some (a, b) => Some (q :: a, b) | None => None end
  end.

(* ---------- operators: longest match *)
Definition ops3 : list text := map txt ["..."; "**="; "//="; ">>="; "<<="]%string.
Definition ops2 : list text :=
  map txt ["**"; "//"; ">>"; "<<"; "<="; ">="; "=="; "!="; "<>"; "->"; ":="; "+="; "-="; "*="; "/="; "%="; "&="; "|="; "^="; "@="]%string.
Definition scan_op (s : text) : text * text :=
  match s with
  | a :: b :: c :: r => if existsb (text_eqb [a; b; c]) ops3 then ([a; b; c], r)
                        else if existsb (text_eqb [a; b]) ops2 then ([a; b], c :: r) else ([a], b :: c :: r)
  | a :: b :: r => if existsb (text_eqb [a; b]) ops2 then ([a; b], r) else ([a], b :: r)
  | a :: r => ([a], r)
  | [] => ([], [])
  end.

(* string prefixes change the token (and f-strings even its type): a name that is exactly a prefix and is
   directly followed by a quote is outside the model *)
Definition string_prefixes : list text := map txt ["r"; "u"; "b"; "f"; "br"; "rb"; "fr"; "rf"]%string.
Definition is_string_prefix (name : text) : bool := existsb (text_eqb (lower name)) string_prefixes.

(* ---------- the line: tokens after the leading blanks *)
Fixpoint lex_loop (fuel : nat) (s : text) (depth : nat) : lres :=
  match fuel with
  | O => LOutOfDomain
  | S f =>
      match s with
      | [] => if Nat.eqb depth 0 then LOk [] else LTokenError      (* EOF inside ( [ { *)
      | c :: r =>
          if negb (in_domain_char c) then LOutOfDomain
          else if is_blank c then lex_loop f r depth
          else if N.eqb c HASH then (if Nat.eqb depth 0 then LOk [T KComment s] else LTokenError)   (* comment to the end of the line *)
          else if N.eqb c BSL then LTokenError                         (* line continuation without a line *)
          else if is_name_start c then
            let '(name, rest) := span is_name_char s in
            match rest with
            | q :: _ => if is_quote q && is_string_prefix name then LOutOfDomain
                        else match lex_loop f rest depth with LOk ts => LOk (T KName name :: ts) | e => e end
            | [] => match lex_loop f rest depth with LOk ts => LOk (T KName name :: ts) | e => e end
            end
          else if is_digit c then
            match scan_number s with
            | NOk n rest => match lex_loop f rest depth with LOk ts => LOk (T KNumber n :: ts) | e => e end
            | NErr => LTokenError
            end
          else if N.eqb c DOT && match r with d :: _ => is_digit d | [] => false end then
            match scan_dot_number r with
            | NOk n rest => match lex_loop f rest depth with LOk ts => LOk (T KNumber (DOT :: n) :: ts) | e => e end
            | NErr => LTokenError
            end
          else if is_quote c then
            match scan_string c r with
            | Some (str, rest) => match lex_loop f rest depth with LOk ts => LOk (T KString str :: ts) | e => e end
            | None => LTokenError
            end
          else if is_op_char c then
            let '(op, rest) := scan_op s in
            let depth' := if N.eqb c 40 || N.eqb c 91 || N.eqb c 123 then S depth
                          else if N.eqb c 41 || N.eqb c 93 || N.eqb c 125 then pred depth else depth in
            match lex_loop f rest depth' with LOk ts => LOk (T KOp op :: ts) | e => e end
          else LOutOfDomain
      end
  end.

(* _tools.generated_tokens: the raw stream incl. INDENT / NEWLINE / DEDENT / NL as Python 3.12 produces them
   for a single line, after the "remove the added NEWLINE" hack *)
Definition generated_tokens (s : text) : lres :=
  let '(indent, body) := span is_blank s in
  if negb (forallb in_domain_char s) then LOutOfDomain else
  match lex_loop (S (length s)) body 0 with
  | LOk ts =>
      match ts with
      | [] => LOk (match s with [] => [T KEnd []] | _ => [T KNl []; T KEnd []] end)
      | first :: _ =>
          match tk first, ts with
          | KComment, [_] => LOk (ts ++ [T KNl []; T KEnd []])         (* a comment-only line never indents *)
          | _, _ =>
              match indent with
              | [] => LOk (ts ++ [T KEnd []])
              | _ => LOk (T KIndent indent :: ts ++ [T KNewline []; T KDedent []; T KEnd []])
              end
          end
      end
  | e => e
  end.

(* _tools.tokenize_without_space: drop INDENT and tokens whose text is blank, keep ENDMARKER *)
Definition keep_token (t : token) : bool :=
  (negb (tkind_eqb (tk t) KIndent) && match strip (tt t) with [] => false | _ => true end) || tkind_eqb (tk t) KEnd.
Definition tokenize_without_space (s : text) : lres :=
  match generated_tokens s with LOk ts => LOk (filter keep_token ts) | e => e end.

(* _tools.token_text: strings lose their first and last character *)
Definition token_text (t : token) : text :=
  match tk t with KString => removelast (tl (tt t)) | _ => tt t end.
Definition is_eof (t : token) : bool := tkind_eqb (tk t) KEnd.
Definition is_comma (t : token) : bool := tkind_eqb (tk t) KOp && text_eqb (tt t) [44%N].
