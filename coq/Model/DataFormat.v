(* Model of cutplace.data.DataFormat: validate() (this file, first part) over the attribute table and
   the check_distinct pairs regenerated from the source (Generated/FormatTable.v). *)
From Coq Require Import String.
From CP Require Import Model.Base Generated.Consts Generated.FormatTable.

(* textual attributes as Python values: Some s = the str s, None = None *)
Definition attr_map := list (text * option text).
Fixpoint lookup (m : attr_map) (n : text) : option (option text) :=
  match m with
  | [] => None
  | (k, v) :: r => if text_eqb k n then Some v else lookup r n
  end.

(* check_distinct(name1, name2): value1 == value2 *)
Definition values_equal (m : attr_map) (n1 n2 : text) : bool :=
  match lookup m n1, lookup m n2 with
  | Some a, Some b => option_eqb text_eqb a b
  | _, _ => false
  end.

Definition pair_fires (fmt : text) (m : attr_map) (p : text * text * list text * bool) : bool :=
  let '(n1, n2, fmts, only_with_line_delimiter) := p in
  existsb (text_eqb fmt) fmts
  && (if only_with_line_delimiter
      then match lookup m KEY_LINE_DELIMITER with Some (Some _) => true | _ => false end
      else true)
  && values_equal m n1 n2.

Definition refusal_fires (fmt : text) (m : attr_map) (r : list text * list text) : bool :=
  let '(fmts, chars) := r in
  existsb (text_eqb fmt) fmts
  && match lookup m KEY_ITEM_DELIMITER with Some (Some v) => existsb (text_eqb v) chars | _ => false end.

(* DataFormat.validate(): true = returns, false = InterfaceError *)
Definition validate_ok (fmt : text) (m : attr_map) : bool :=
  negb (existsb (pair_fires fmt m) distinct_pairs) && negb (existsb (refusal_fires fmt m) refused_item_delimiters).

(* the textual attributes of a delimited format *)
Definition delimited_attrs (item_delimiter quote_character escape_character : N) (line_delimiter : option text)
  (decimal_separator thousands_separator : text) : attr_map :=
  [(KEY_ITEM_DELIMITER, Some [item_delimiter]); (KEY_QUOTE_CHARACTER, Some [quote_character]);
   (KEY_ESCAPE_CHARACTER, Some [escape_character]); (KEY_LINE_DELIMITER, line_delimiter);
   (KEY_DECIMAL_SEPARATOR, Some decimal_separator); (KEY_THOUSANDS_SEPARATOR, Some thousands_separator)].

(* ====================================================================================================
   DataFormat.__init__, set_property and its _validated_* helpers *)
From CP Require Import Model.Ranges Model.Lex Model.RangeParse.
Local Open Scope Z_scope.

(* attribute values *)
Inductive aval :=
| AText (t : option text)      (* str or None *)
| ABool (b : bool)
| AInt (z : Z)
| AQuoting (all : bool)        (* csv.QUOTE_ALL / csv.QUOTE_MINIMAL *)
| ARange (r : range)           (* allowed_characters once set *)
| AOther.
Record dformat := { df_format : text; df_attrs : list (text * aval) }.

Definition aval_of_default (d : default_value) : aval :=
  match d with
  | DNone => AText None
  | DBool b => ABool b
  | DInt z => AInt z
  | DText t => if text_eqb t (txt "csv.QUOTE_MINIMAL") then AQuoting false
               else if text_eqb t (txt "csv.QUOTE_ALL") then AQuoting true else AText (Some t)
  | DOther => AOther
  end.

(* DataFormat(format_name): None = InterfaceError (unknown format) *)
Definition new_format (format_name : text) : option dformat :=
  let fmt := if text_eqb format_name (txt "csv") then FORMAT_DELIMITED else format_name in
  if existsb (text_eqb fmt) VALID_FORMATS then
    Some {| df_format := fmt;
            df_attrs := map (fun '(n, _, d) => (n, aval_of_default d))
                            (filter (fun '(n, fmts, d) => existsb (text_eqb fmt) fmts) format_attributes) |}
  else None.

Fixpoint get_attr (m : list (text * aval)) (n : text) : option aval :=
  match m with [] => None | (k, v) :: r => if text_eqb k n then Some v else get_attr r n end.
Fixpoint set_attr (m : list (text * aval)) (n : text) (v : aval) : list (text * aval) :=
  match m with [] => [] | (k, x) :: r => if text_eqb k n then (k, v) :: r else (k, x) :: set_attr r n v end.

(* int(text): optional blanks, sign, ASCII digits with single underscores between them *)
Definition py_int (s : text) : option Z :=
  let t := strip s in
  let '(neg, body) := match t with
                      | c :: r => if N.eqb c 45 then (true, r) else if N.eqb c 43 then (false, r) else (false, t)
                      | [] => (false, []) end in
  match body with
  | d :: _ =>
      if is_digit d then
        match dtail is_digit body with
        | NOk ds [] => match digits_value 10 ds 0 with Some z => Some (if neg then - z else z) | None => None end
        | _ => None
        end
      else None
  | [] => None
  end.
(* texts for which py_int is a faithful model of int(): ASCII only *)
Definition py_int_domain (s : text) : bool := forallb (fun c => (c <? 128)%N) s.

(* DataFormat._validated_character *)
Inductive chr_res := ChOk (c : N) | ChInterface | ChLeak | ChOutOfDomain.
Definition validated_character_tokens (value : text) : chr_res :=
  match generated_tokens value with
  | LTokenError => ChInterface
  | LOutOfDomain => ChOutOfDomain
  | LOk [] => ChOutOfDomain
  | LOk (t :: rest) =>
      if is_eof t then ChInterface
      else
        let code := match tk t with
                    | KName => code_for_symbolic (tt t)
                    | KNumber => code_for_number (tt t)
                    | KString => code_for_string (tt t)
                    | _ => match tt t with [c] => COk (Z.of_N c) | _ => CInterface end
                    end in
        match code with
        | COk z =>
            match rest with
            | t2 :: _ => if is_eof t2 then (if 1114111 <? z then ChInterface else ChOk (Z.to_N z)) else ChInterface
            | [] => ChOutOfDomain
            end
        | CInterface => ChInterface
        | CLeak => ChLeak
        | COutOfDomain => ChOutOfDomain
        end
  end.
Definition validated_character (value : text) : chr_res :=
  match strip value with
  | [c] => if is_digit c then validated_character_tokens value else ChOk c   (* a single non-digit stands for itself *)
  | _ => validated_character_tokens value
  end.

Inductive set_res := SetOk (d : dformat) | SetInterface | SetLeak | SetOutOfDomain.

Definition lookup_line_delimiter (v : text) : option (option text) :=
  (fix go (m : list (text * option text)) := match m with [] => None | (k, x) :: r => if text_eqb k v then Some x else go r end)
    LINE_DELIMITER_TEXTS.

Definition replace_blanks (s : text) : text := map (fun c => if N.eqb c 32 then 95%N else c) s.

(* set_property(name, value); [encoding_known] = whether codecs.lookup(value) succeeds (asked of the runtime) *)
Definition set_property (d : dformat) (name value : text) (encoding_known : bool) : set_res :=
  let n := replace_blanks name in
  let put v := SetOk {| df_format := df_format d; df_attrs := set_attr (df_attrs d) n v |} in
  match get_attr (df_attrs d) n with
  | None => SetInterface
  | Some _ =>
      if text_eqb n KEY_FORMAT || text_eqb n (txt "is_valid") then SetInterface
      else if text_eqb n KEY_ENCODING then (if encoding_known then put (AText (Some value)) else SetInterface)
      else if text_eqb n KEY_HEADER then
        (if negb (py_int_domain value) then SetOutOfDomain
         else match py_int value with Some z => if z <? 0 then SetInterface else put (AInt z) | None => SetInterface end)
      else if text_eqb n KEY_SHEET then
        (if negb (py_int_domain value) then SetOutOfDomain
         else match py_int value with Some z => if z <? 1 then SetInterface else put (AInt z) | None => SetInterface end)
      else if text_eqb n KEY_ALLOWED_CHARACTERS then
        match range_of_text value with
        | POk r => put (ARange r) | PInterface => SetInterface | PLeak => SetLeak | POutOfDomain => SetOutOfDomain end
      else if text_eqb n KEY_DECIMAL_SEPARATOR then
        (if existsb (text_eqb value) VALID_DECIMAL_SEPARATORS then put (AText (Some value)) else SetInterface)
      else if text_eqb n KEY_ESCAPE_CHARACTER then
        (if existsb (text_eqb value) VALID_ESCAPE_CHARACTERS then put (AText (Some value)) else SetInterface)
      else if text_eqb n KEY_QUOTE_CHARACTER then
        (if existsb (text_eqb value) VALID_QUOTE_CHARACTERS then put (AText (Some value)) else SetInterface)
      else if text_eqb n KEY_THOUSANDS_SEPARATOR then
        (if existsb (text_eqb value) VALID_THOUSANDS_SEPARATORS then put (AText (Some value)) else SetInterface)
      else if text_eqb n KEY_ITEM_DELIMITER then
        match validated_character value with
        | ChOk c => if N.eqb c 0 then SetInterface else put (AText (Some [c]))
        | ChInterface => SetInterface | ChLeak => SetLeak | ChOutOfDomain => SetOutOfDomain
        end
      else if text_eqb n KEY_LINE_DELIMITER then
        (if has_non_ascii value then SetOutOfDomain
         else match lookup_line_delimiter (lower value) with
              | Some None => if text_eqb (df_format d) FORMAT_FIXED then put (AText None) else SetInterface
              | Some (Some x) => put (AText (Some x))
              | None => SetInterface
              end)
      else if text_eqb n KEY_QUOTING then
        (if has_non_ascii value then SetOutOfDomain
         else if text_eqb (lower value) (txt "all") then put (AQuoting true)
         else if text_eqb (lower value) (txt "minimal") then put (AQuoting false) else SetInterface)
      else if text_eqb n KEY_SKIP_INITIAL_SPACE then
        (if has_non_ascii value then SetOutOfDomain
         else if text_eqb (lower value) (txt "true") then put (ABool true)
         else if text_eqb (lower value) (txt "false") then put (ABool false) else SetInterface)
      else SetInterface
  end.

(* the textual attributes, for validate() *)
Definition text_attrs (d : dformat) : attr_map :=
  flat_map (fun '(n, v) => match v with AText t => [(n, t)] | _ => [] end) (df_attrs d).
Definition validate_format (d : dformat) : bool := validate_ok (df_format d) (text_attrs d).
