(* Model of cutplace.data.DataFormat: validate() (this file, first part) over the attribute table and
   the check_distinct pairs regenerated from the source (Generated/FormatTable.v). *)
From CP Require Import Model.Base Generated.Consts Generated.FormatTable.

(* textual attributes as Python values: Some s = the str s, None = None *)
Definition attr_map := list (text * option text).
Fixpoint lookup (m : attr_map) (n : text) : option (option text) :=
  match m with
  | [] => None
  | (k, v) :: r => if text_eqb k n then Some v else lookup r n
  end.

(* check_distinct(name1, name2): value1 == value2 *)
Definition values_equal (m : attr_map) (n1 n2 : text) : bool :=
  match lookup m n1, lookup m n2 with
  | Some a, Some b => option_eqb text_eqb a b
  | _, _ => false
  end.

Definition pair_fires (fmt : text) (m : attr_map) (p : text * text * list text * bool) : bool :=
  let '(n1, n2, fmts, only_with_line_delimiter) := p in
  existsb (text_eqb fmt) fmts
  && (if only_with_line_delimiter
      then match lookup m KEY_LINE_DELIMITER with Some (Some _) => true | _ => false end
      else true)
  && values_equal m n1 n2.

Definition refusal_fires (fmt : text) (m : attr_map) (r : list text * list text) : bool :=
  let '(fmts, chars) := r in
  existsb (text_eqb fmt) fmts
  && match lookup m KEY_ITEM_DELIMITER with Some (Some v) => existsb (text_eqb v) chars | _ => false end.

(* DataFormat.validate(): true = returns, false = InterfaceError *)
Definition validate_ok (fmt : text) (m : attr_map) : bool :=
  negb (existsb (pair_fires fmt m) distinct_pairs) && negb (existsb (refusal_fires fmt m) refused_item_delimiters).

(* the textual attributes of a delimited format *)
Definition delimited_attrs (item_delimiter quote_character escape_character : N) (line_delimiter : option text)
  (decimal_separator thousands_separator : text) : attr_map :=
  [(KEY_ITEM_DELIMITER, Some [item_delimiter]); (KEY_QUOTE_CHARACTER, Some [quote_character]);
   (KEY_ESCAPE_CHARACTER, Some [escape_character]); (KEY_LINE_DELIMITER, line_delimiter);
   (KEY_DECIMAL_SEPARATOR, Some decimal_separator); (KEY_THOUSANDS_SEPARATOR, Some thousands_separator)].
