(* Concrete checks and field hooks with which the Validio model is run against the implementation:
   checks.IsUniqueCheck, checks.DistinctCountCheck (rule `field <op> n`), and the harness-defined
   recording plugin classes (veto a row whose column equals a trigger; fail at the end; accept). *)
From CP Require Import Model.Base Model.Ranges Model.Fields Model.Validio.
Local Open Scope Z_scope.

Inductive ckind :=
| KUnique (cols : list nat)                      (* IsUniqueCheck over these field indices *)
| KDistinct (col : nat) (op : cmp) (n : Z)       (* DistinctCountCheck: field, comparison, threshold *)
| KVeto (col : nat) (trigger : text)             (* plugin: check_row raises iff row[col] = trigger *)
| KEndFail                                       (* plugin: check_at_end always raises *)
| KAccept.                                       (* plugin: never complains *)

Inductive cstate :=
| SUnique (seen : list (list text * loc))        (* _row_key_to_location_map in insertion order *)
| SDistinct (vals : list text)                   (* keys of _distinct_value_to_count_map *)
| SNone.

Definition nth_cell (row : list text) (i : nat) : text := nth i row [].
Fixpoint lookup_key (k : list text) (seen : list (list text * loc)) : option loc :=
  match seen with
  | [] => None
  | (k', l) :: r => if list_eqb text_eqb k k' then Some l else lookup_key k r
  end.

Definition check_of (k : ckind) : check cstate :=
  match k with
  | KUnique cols =>
      {| ck_reset := SUnique [];
         ck_row := fun st row l =>
           match st with
           | SUnique seen =>
               let key := map (nth_cell row) cols in
               match lookup_key key seen with
               | Some first => (st, Some (Some first))
               | None => (SUnique (seen ++ [(key, l)]), None)
               end
           | _ => (st, None)
           end;
         ck_end := fun _ => false;
         ck_clean := fun st => st |}
  | KDistinct col op n =>
      {| ck_reset := SDistinct [];
         ck_row := fun st row l =>
           match st with
           | SDistinct vals =>
               let v := nth_cell row col in
               (if existsb (text_eqb v) vals then st else SDistinct (v :: vals), None)
           | _ => (st, None)
           end;
         ck_end := fun st =>
           match st with
           | SDistinct vals => negb (cmp_z op (Z.of_nat (length vals)) n)
           | _ => false
           end;
         ck_clean := fun st => st |}
  | KVeto col trigger =>
      {| ck_reset := SNone;
         ck_row := fun st row l => (st, if text_eqb (nth_cell row col) trigger then Some None else None);
         ck_end := fun _ => false;
         ck_clean := fun st => st |}
  | KEndFail =>
      {| ck_reset := SNone; ck_row := fun st _ _ => (st, None); ck_end := fun _ => true; ck_clean := fun st => st |}
  | KAccept =>
      {| ck_reset := SNone; ck_row := fun st _ _ => (st, None); ck_end := fun _ => false; ck_clean := fun st => st |}
  end.

(* field hooks available without the lexer: Text, Choice (also the table-driven plugin field) *)
Inductive hkind := HText | HChoice (choices : list text).
Definition hook_of (h : hkind) : text -> bool :=
  match h with
  | HText => fun _ => true
  | HChoice cs => fun v => existsb (text_eqb v) cs
  end.

Definition mkfield (name : text) (empty_ok : bool) (len : range) (h : hkind) : field :=
  {| f_name := name; f_empty_ok := empty_ok; f_length := len; f_hook := hook_of h |}.
Definition mkcid (fixed : bool) (allowed : range) (header : nat) (fs : list field) (cks : list ckind) : cid cstate :=
  {| c_fmt := {| df_fixed := fixed; df_excel := false; df_allowed := allowed |}; c_header := header;
     c_fields := fs; c_checks := map check_of cks |}.
