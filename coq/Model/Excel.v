(* Model of cutplace.rowio._excel_cell_value, excel_rows and XlsxRowWriter over an abstract workbook.
   A workbook is what a producer stored: per sheet the rows of cells that were written (ragged).  xlrd delivers each
   sheet as a grid: as many columns as the longest row, rows after the last written cell do not exist, cells that were
   never written are empty.  float repr and the serial-date conversion are xlrd's / Python's: a number cell carries
   the repr() of its float, a date cell the tuple xldate_as_tuple returns. *)
From Coq Require Import String.
From CP Require Import Model.Base Model.Lex Model.FieldTypes Spec.FieldSpec.
Local Open Scope Z_scope.

Inductive xcell :=
| XStr (s : text)
| XNum (repr : text)                     (* XL_CELL_NUMBER, repr(float) *)
| XBool (b : bool)
| XDate (y m d hh mm ss : Z)             (* XL_CELL_DATE, xldate_as_tuple; (0,0,0,h,m,s) for a pure time *)
| XNone.                                 (* never written: XL_CELL_EMPTY *)

(* zero padded numbers ("%0*d"): zpad in Spec/FieldSpec.v *)
Definition COLON : N := 58. Definition DASH : N := 45.
Definition render_time (hh mm ss : Z) : text := zpad 2 hh ++ COLON :: zpad 2 mm ++ COLON :: zpad 2 ss.
Definition render_date (y m d : Z) : text := zpad 4 y ++ DASH :: zpad 2 m ++ DASH :: zpad 2 d.

(* _excel_cell_value *)
Definition excel_cell_value (c : xcell) : text :=
  match c with
  | XStr s => s
  | XNone => []
  | XBool b => if b then [49%N] else [48%N]
  | XNum r => if suffix_b (txt ".0") r then firstn (length r - 2) r else r
  | XDate y m d hh mm ss =>
      if (y =? 0) && (m =? 0) && (d =? 0) then render_time hh mm ss
      else render_date y m d ++ SP :: render_time hh mm ss
  end.

Definition sheet := list (list xcell).
Definition ncols {A} (s : list (list A)) : nat := fold_right (fun r acc => Nat.max (length r) acc) 0%nat s.
(* rows up to the last one that has a cell *)
Fixpoint trim_rows {A} (s : list (list A)) : list (list A) :=
  match s with
  | [] => []
  | r :: rest => match trim_rows rest with
                 | [] => match r with [] => [] | _ => [r] end
                 | t => r :: t
                 end
  end.
Definition pad_row {A} (d : A) (w : nat) (r : list A) : list A := r ++ repeat d (w - length r).
Definition grid (s : sheet) : sheet := map (pad_row XNone (ncols s)) (trim_rows s).

(* excel_rows(path, sheet): None = DataFormatError (fewer sheets than requested) *)
Definition excel_rows (book : list sheet) (k : nat) : option (list (list text)) :=
  match nth_error book (k - 1) with
  | None => None
  | Some s => Some (map (map excel_cell_value) (grid s))
  end.

(* XlsxRowWriter: one sheet, every item written as a string cell *)
Definition xlsx_written (table : list (list text)) : list sheet := [map (map XStr) table].
