(* Model of cutplace.rowio.ods_rows over the element tree of content.xml (the zip and XML layers deliver the tree or
   fail; their failures are the container constructors below).
     ods_content_root   rowio.py: not a zip / no content.xml / malformed XML -> DataFormatError
     ods_rows           sheet selection, table:number-rows-repeated, table:number-columns-repeated,
                        text_of (text:s with text:c, text:tab, text:line-break, nested elements, tails), paragraphs joined by LF
   Executable definitions only. *)
From CP Require Import Model.Base Model.Lex Model.FieldTypes Generated.Consts.
Local Open Scope Z_scope.

(* what is inside a text:p (element text and tails are IText nodes) *)
Inductive inl :=
| IText (t : text)
| IS (c : option text)          (* text:s, attribute text:c *)
| ITab | IBreak
| ISpan (l : list inl).          (* text:span or any other nested element *)

Record ocell := { oc_rep : option text; oc_paras : list (list inl) }.
Record orow := { or_rep : option text; or_cells : list ocell }.
Definition otable := list orow.
Inductive container := CNotZip | CNoContent | CBadXml | CDoc (tables : list otable).

(* repeated_count: int(attribute or "1"), at least 1 and at most _MAX_ODS_REPEATED_COUNT (read from the source) *)
Inductive cres := CountOk (n : nat) | CountBad | CountOut.
Definition repeated_count (a : option text) : cres :=
  match a with
  | None => CountOk 1
  | Some t => match py_int t with
              | IOk z => if z <? 1 then CountBad else if MAX_ODS_REPEATED_COUNT <? z then CountBad else CountOk (Z.to_nat z)
              | IBad => CountBad
              | IOut => CountOut
              end
  end.

Inductive tres := TOk (t : text) | TBad | TOut.
Definition tapp (a : tres) (b : tres) : tres :=
  match a, b with
  | TOk x, TOk y => TOk (x ++ y)
  | TBad, _ => TBad
  | TOut, _ => TOut
  | TOk _, e => e
  end.
(* text_of, children left to right; the first failing text:c decides *)
Fixpoint inl_text (i : inl) : tres :=
  match i with
  | IText t => TOk t
  | IS c => match repeated_count c with
            | CountOk n => TOk (repeat SP n)
            | CountBad => TBad
            | CountOut => TOut
            end
  | ITab => TOk [9%N]
  | IBreak => TOk [LF]
  | ISpan l => (fix go (l : list inl) : tres := match l with [] => TOk [] | x :: r => tapp (inl_text x) (go r) end) l
  end.
Definition inls_text (l : list inl) : tres := fold_right (fun x acc => tapp (inl_text x) acc) (TOk []) l.
(* "\n".join(text_of(p) for p in paragraphs) *)
Fixpoint paras_text (ps : list (list inl)) : tres :=
  match ps with
  | [] => TOk []
  | [p] => inls_text p
  | p :: rest => tapp (inls_text p) (tapp (TOk [LF]) (paras_text rest))
  end.

(* rows delivered before the generator stops, and whether it stopped with a DataFormatError *)
Inductive ores := ORows (rows : list (list text)) (failed : bool) | OOut.

(* one table:table-row: the cells left to right (count first, then the text), then the row count *)
Fixpoint cells_row (cs : list ocell) : option (option (list text)) :=   (* None = out of domain; Some None = DataFormatError *)
  match cs with
  | [] => Some (Some [])
  | c :: r =>
      match repeated_count (oc_rep c) with
      | CountOut => None
      | CountBad => Some None
      | CountOk n =>
          match paras_text (oc_paras c) with
          | TOut => None
          | TBad => Some None
          | TOk v => match cells_row r with
                     | Some (Some rest) => Some (Some (repeat v n ++ rest))
                     | e => e
                     end
          end
      end
  end.
Fixpoint table_rows (rs : list orow) : ores :=
  match rs with
  | [] => ORows [] false
  | r :: rest =>
      match cells_row (or_cells r) with
      | None => OOut
      | Some None => ORows [] true
      | Some (Some row) =>
          match repeated_count (or_rep r) with
          | CountOut => OOut
          | CountBad => ORows [] true
          | CountOk n => match table_rows rest with
                         | ORows more f => ORows (repeat row n ++ more) f
                         | OOut => OOut
                         end
          end
      end
  end.

(* ods_rows(path, sheet), sheet >= 1 *)
Definition ods_rows (c : container) (sheet : nat) : ores :=
  match c with
  | CNotZip | CNoContent | CBadXml => ORows [] true
  | CDoc tables =>
      match nth_error tables (sheet - 1) with
      | None => ORows [] true                      (* "ODS must contain at least n sheet(s)" *)
      | Some t => table_rows t
      end
  end.
