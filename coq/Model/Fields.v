(* Model of cutplace.fields.AbstractFieldFormat.validated and its guards
   (fields.py: validate_characters, validate_empty, validate_length, validated). The type specific
   hook validated_value is a parameter of the field: built-in hooks are in Model/FieldTypes.v. *)
From CP Require Import Model.Base Model.Ranges.
Local Open Scope Z_scope.

(* what a field reads from its DataFormat *)
Record dfmt := { df_fixed : bool; df_excel : bool; df_allowed : range }.

Record field := {
  f_name : text;
  f_empty_ok : bool;
  f_length : range;            (* Range(length_text); for Decimal the DecimalRange substituted for it *)
  f_hook : text -> bool        (* validated_value: true = returns a value, false = FieldValueError *)
}.

(* outcome of validated(cell): accepted?, and the argument validated_value was called with (if at all) *)
Record vres := { v_ok : bool; v_hook : option text }.

Definition chars_ok (allowed : range) (cell : text) : bool :=
  forallb (fun c => range_validate allowed (Z.of_N c)) cell.

Definition is_nil (t : text) : bool := match t with [] => true | _ => false end.

(* validate_length *)
Definition length_ok (fmt : dfmt) (f : field) (cell : text) : bool :=
  if f_empty_ok f && is_nil cell then true
  else if df_fixed fmt then
    match lower_limit (f_length f) with
    | Some w => Z.of_nat (length cell) <=? w
    | None => true     (* the CID loader guarantees an exact length for fixed data *)
    end
  else range_validate (f_length f) (Z.of_nat (length cell)).

(* validated: characters -> strip (fixed) -> empty -> length -> hook on the stripped value *)
Definition validated (fmt : dfmt) (f : field) (cell : text) : vres :=
  if negb (chars_ok (df_allowed fmt) cell) then {| v_ok := false; v_hook := None |}
  else
    let v := if df_fixed fmt then strip cell else cell in
    if negb (f_empty_ok f) && is_nil v then {| v_ok := false; v_hook := None |}
    else if negb (length_ok fmt f cell) then {| v_ok := false; v_hook := None |}
    else if is_nil v then {| v_ok := true; v_hook := None |}
    else {| v_ok := f_hook f v; v_hook := Some v |}.
