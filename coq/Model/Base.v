(* Shared vocabulary of the cutplace model: text, results, error families.
   Executable definitions only. *)
From Coq Require Import String Ascii.
From Coq Require Export List NArith ZArith Arith Bool.
Export ListNotations.

(* Python str = list of Unicode code points *)
Definition text := list N.

(* Coq string literal -> text, for readable sources: txt "int" *)
Definition txt (s : String.string) : text := map Ascii.N_of_ascii (String.list_ascii_of_string s).
Arguments txt s%string.

Fixpoint text_eqb (a b : text) : bool :=
  match a, b with
  | [], [] => true
  | x :: a', y :: b' => N.eqb x y && text_eqb a' b'
  | _, _ => false
  end.

Fixpoint list_eqb {A} (eqb : A -> A -> bool) (a b : list A) : bool :=
  match a, b with
  | [], [] => true
  | x :: a', y :: b' => eqb x y && list_eqb eqb a' b'
  | _, _ => false
  end.

Definition option_eqb {A} (eqb : A -> A -> bool) (a b : option A) : bool :=
  match a, b with
  | None, None => true
  | Some x, Some y => eqb x y
  | _, _ => false
  end.

Definition CR : N := 13%N.
Definition LF : N := 10%N.
Definition SP : N := 32%N.

(* str.isspace() for the code points str.strip() removes *)
Definition is_py_space (c : N) : bool :=
  ((9 <=? c) && (c <=? 13) || (28 <=? c) && (c <=? 32) || (c =? 133) || (c =? 160)
   || (c =? 5760) || (8192 <=? c) && (c <=? 8202) || (c =? 8232) || (c =? 8233)
   || (c =? 8239) || (c =? 8287) || (c =? 12288))%N.

Fixpoint lstrip (s : text) : text :=
  match s with
  | c :: r => if is_py_space c then lstrip r else s
  | [] => []
  end.
Definition rstrip (s : text) : text := rev (lstrip (rev s)).
Definition strip (s : text) : text := rstrip (lstrip s).

(* ASCII-only str.lower(); inputs with other cased letters are outside the model's domain *)
Definition lower_c (c : N) : N := if ((65 <=? c) && (c <=? 90))%N then (c + 32)%N else c.
Definition lower (s : text) : text := map lower_c s.

(* error families of cutplace.errors plus "a non-cutplace exception escaped" *)
Inductive family :=
| FInterface | FDataFormat | FFieldValue | FCheck | FRangeValue | FData
| FLeak.
Definition family_eqb (a b : family) : bool :=
  match a, b with
  | FInterface, FInterface | FDataFormat, FDataFormat | FFieldValue, FFieldValue
  | FCheck, FCheck | FRangeValue, FRangeValue | FData, FData | FLeak, FLeak => true
  | _, _ => false
  end.
(* isinstance(e, errors.DataError) *)
Definition is_data_error (f : family) : bool :=
  match f with FDataFormat | FFieldValue | FCheck | FRangeValue | FData => true | _ => false end.

Inductive res (A : Type) := Ok (a : A) | Err (f : family).
Arguments Ok {A} a. Arguments Err {A} f.

(* comparison operators as they appear in translated source *)
Inductive cmp := CLe | CLt | CGe | CGt | CEq | CNe.
Definition cmp_z (c : cmp) (a b : Z) : bool :=
  match c with CLe => Z.leb a b | CLt => Z.ltb a b | CGe => Z.geb a b | CGt => Z.gtb a b | CEq => Z.eqb a b | CNe => negb (Z.eqb a b) end.

Fixpoint mismatches_from {A} (bad : A -> bool) (i : nat) (l : list A) : list nat :=
  match l with
  | [] => []
  | x :: r => if bad x then i :: mismatches_from bad (S i) r else mismatches_from bad (S i) r
  end.
