(* Model of cutplace.applications: CutplaceApp.set_options (--until), process, main.
   The --until mapping, the except -> exit code table of main() and the results of process() come from
   Generated/ExitCodes.v (translated from the source on every run). *)
From CP Require Import Model.Base Model.Ranges Model.Fields Model.Validio Generated.Consts Generated.ExitCodes.
Local Open Scope Z_scope.

(* set_options: what --until N becomes *)
Inductive until_res := UNoLimit | ULimit (n : nat) | UUsageError.
Definition until_of (z : Z) : until_res :=
  if Z.eqb z until_none_value then UNoLimit
  else if cmp_z until_pass_cmp z until_pass_bound then ULimit (Z.to_nat z)
  else UUsageError.
(* --until absent: argparse supplies DEFAULT_VALIDATE_UNTIL *)
Definition until_absent : until_res := until_of DEFAULT_VALIDATE_UNTIL.

(* main(): the first except clause that matches decides; None keeps `result = 1` *)
Definition exit_for (k : exn_kind) : Z :=
  (fix go (hs : list (exn_kind * option Z)) : Z :=
     match hs with
     | [] => main_initial_result
     | (k', code) :: r =>
         let matches := match k, k' with
                        | ExEnvironment, ExEnvironment | ExCutplace, ExCutplace => true
                        | _, ExOther => true
                        | _, _ => false
                        end in
         if matches then match code with Some z => z | None => main_initial_result end else go r
     end) main_handlers.

Inductive cid_status := CidOk | CidRejected | CidUnreadable.
(* what CutplaceApp.validate(path) does with one data file *)
Inductive file_status := FileAccepted | FileRejected | FileUnreadable.

(* process(): loop over the data paths; a CutplaceError only clears all_validations_were_ok, an OSError
   is re-raised as EnvironmentError at once. None = EnvironmentError *)
Fixpoint process_files (files : list file_status) (all_ok : bool) : option bool :=
  match files with
  | [] => Some all_ok
  | FileUnreadable :: _ => None
  | FileRejected :: r => process_files r false
  | FileAccepted :: r => process_files r all_ok
  end.

Definition exit_code (args_usable : bool) (cs : cid_status) (files : list file_status) : Z :=
  if negb args_usable then 2                       (* argparse: parser.error -> SystemExit(2) *)
  else match cs with
       | CidUnreadable => exit_for ExEnvironment
       | CidRejected => exit_for ExCutplace
       | CidOk =>
           match process_files files true with
           | None => exit_for ExEnvironment
           | Some true => process_ok_result
           | Some false => process_rejected_result
           end
       end.

Section Files.
  Context {CS : Type}.
  (* one data file as the reader sees it *)
  Inductive data_file := Unreadable | Readable (raws : list (list text)) (fault : bool).

  (* CutplaceApp.validate: `with Reader(cid, path, validate_until=...) as reader: reader.validate_rows()`;
     the CID (and the state of its checks) is shared by all files *)
  Definition validate_file (c : cid CS) (limit : option nat) (sts : list CS) (f : data_file) : file_status * list CS :=
    match f with
    | Unreadable =>
        (* rows() has reset the checks when opening the file raises OSError inside `with Reader`: __exit__ runs
           close() on the zero rows seen, a failed end check is dropped and the OSError stays on its way *)
        let '(sts', _, _) := close c (resets (c_checks c)) {| l_line := 0; l_cell := 0 |} in (FileUnreadable, sts')
    | Readable raws fault =>
        let r := api_rows c MRaise limit sts raws fault in
        (match r_raised r with None => FileAccepted | Some _ => FileRejected end, r_sts r)
    end.
  Fixpoint validate_files (c : cid CS) (limit : option nat) (sts : list CS) (fs : list data_file) : list file_status :=
    match fs with
    | [] => []
    | f :: r => let '(st, sts') := validate_file c limit sts f in st :: validate_files c limit sts' r
    end.

  (* the whole command: cutplace [--until N] CID DATA... *)
  Definition run_cli (until : option Z) (cs : cid_status) (c : cid CS) (fs : list data_file) : Z :=
    match (match until with None => until_absent | Some z => until_of z end) with
    | UUsageError => exit_code false cs []
    | UNoLimit => exit_code true cs (match cs with CidOk => validate_files c None (resets (c_checks c)) fs | _ => [] end)
    | ULimit n => exit_code true cs (match cs with CidOk => validate_files c (Some n) (resets (c_checks c)) fs | _ => [] end)
    end.
End Files.
Arguments data_file : clear implicits.
