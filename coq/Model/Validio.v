(* Model of cutplace.validio: BaseValidator.validate_row / close, Reader.rows, the API functions rows()
   and validate(), Writer.  Fields are Model/Fields.v fields (guards + abstract hook); checks are
   abstract records over a state type CS, so the theorems hold for arbitrary user-defined checks. *)
From CP Require Import Model.Base Model.Ranges Model.Fields.

Inductive mode := MRaise | MYield | MContinue.

(* errors.Location: line and cell are 0-based here, printed 1-based by the code *)
Record loc := { l_line : nat; l_cell : nat }.
Definition advance_line (l : loc) : loc := {| l_line := S (l_line l); l_cell := 0 |}.
Definition set_cell (l : loc) (c : nat) : loc := {| l_line := l_line l; l_cell := c |}.

Record err := {
  e_family : family;
  e_loc : loc;                     (* copy of the validator's location when the error was raised *)
  e_field : option nat;            (* index of the field named in "cannot accept field ..." *)
  e_see_also : option loc          (* CheckError.see_also_location *)
}.

Inductive event :=
| EReset (c : nat) | EValue (f : nat) (arg : text) | ECheckRow (c : nat) (r : list text)
| EAtEnd (c : nat) | ECleanup (c : nat).

Inductive out := ORow (r : list text) | OErr (e : err).

Section Validio.
  Context {CS : Type}.

  (* checks.AbstractCheck as the validator drives it *)
  Record check := {
    ck_reset : CS;                                          (* state after reset() *)
    ck_row : CS -> list text -> loc -> CS * option (option loc);   (* check_row: Some s = CheckError, s = see also *)
    ck_end : CS -> bool;                                    (* check_at_end: true = CheckError *)
    ck_clean : CS -> CS                                     (* cleanup() *)
  }.

  Record cid := { c_fmt : dfmt; c_header : nat; c_fields : list field; c_checks : list check }.

  (* field loop of validate_row: first rejected column, hook calls *)
  Fixpoint validate_fields (fmt : dfmt) (fs : list field) (i : nat) (row : list text) : option nat * list event :=
    match fs, row with
    | f :: fs', cell :: row' =>
        let r := validated fmt f cell in
        let ev := match v_hook r with Some x => [EValue i x] | None => [] end in
        if v_ok r then let '(b, evs) := validate_fields fmt fs' (S i) row' in (b, ev ++ evs)
        else (Some i, ev)
    | _, _ => (None, [])
    end.

  (* check loop of validate_row: states are parallel to the checks; stops at the first veto *)
  Fixpoint run_checks (cks : list check) (i : nat) (sts : list CS) (row : list text) (l : loc)
    : list CS * option (option loc) * list event :=
    match cks, sts with
    | ck :: cks', st :: sts' =>
        let '(st', veto) := ck_row ck st row l in
        match veto with
        | Some see => (st' :: sts', Some see, [ECheckRow i row])
        | None => let '(sts'', v, evs) := run_checks cks' (S i) sts' row l in
                  (st' :: sts'', v, ECheckRow i row :: evs)
        end
    | _, _ => (sts, None, [])
    end.

  (* BaseValidator.validate_row: new check states, error, location afterwards, events *)
  Definition validate_row (c : cid) (sts : list CS) (l : loc) (row : list text)
    : list CS * option err * loc * list event :=
    let n := length (c_fields c) in
    if negb (Nat.eqb (length row) n) then
      (sts, Some {| e_family := FData; e_loc := l; e_field := None; e_see_also := None |}, l, [])
    else
      match validate_fields (c_fmt c) (c_fields c) 0 row with
      | (Some i, evs) =>
          let l' := set_cell l i in
          (sts, Some {| e_family := FFieldValue; e_loc := l'; e_field := Some i; e_see_also := None |}, l', evs)
      | (None, evs) =>
          let l0 := set_cell l 0 in
          let '(sts', veto, evs2) := run_checks (c_checks c) 0 sts row l0 in
          match veto with
          | Some see => (sts', Some {| e_family := FCheck; e_loc := l0; e_field := None; e_see_also := see |}, l0, evs ++ evs2)
          | None => (sts', None, l0, evs ++ evs2)
          end
      end.

  (* ---------------- Reader.rows *)
  Record rstate := { rs_count : nat; rs_loc : loc; rs_sts : list CS; rs_acc : nat; rs_rej : nat }.
  Inductive step_out := SOut (o : option out) | SRaise (e : err).

  Definition before_limit (limit : option nat) (row_count : nat) : bool :=
    match limit with None => true | Some n => Nat.leb row_count n end.

  (* one iteration of the for loop over enumerate(raw rows, 1) *)
  Definition step (c : cid) (m : mode) (limit : option nat) (s : rstate) (row : list text)
    : rstate * step_out * list event :=
    let k := rs_count s in
    if Nat.ltb (c_header c) k then
      if before_limit limit k then
        match validate_row c (rs_sts s) (rs_loc s) row with
        | (sts', None, l', evs) =>
            ({| rs_count := S k; rs_loc := advance_line l'; rs_sts := sts'; rs_acc := S (rs_acc s); rs_rej := rs_rej s |},
             SOut (Some (ORow row)), evs)
        | (sts', Some e, l', evs) =>
            match m with
            | MRaise => ({| rs_count := k; rs_loc := l'; rs_sts := sts'; rs_acc := rs_acc s; rs_rej := rs_rej s |}, SRaise e, evs)
            | MYield => ({| rs_count := S k; rs_loc := advance_line l'; rs_sts := sts'; rs_acc := rs_acc s; rs_rej := S (rs_rej s) |},
                         SOut (Some (OErr e)), evs)
            | MContinue => ({| rs_count := S k; rs_loc := advance_line l'; rs_sts := sts'; rs_acc := rs_acc s; rs_rej := S (rs_rej s) |},
                            SOut None, evs)
            end
        end
      else
        ({| rs_count := S k; rs_loc := advance_line (rs_loc s); rs_sts := rs_sts s; rs_acc := S (rs_acc s); rs_rej := rs_rej s |},
         SOut (Some (ORow row)), [])
    else
      ({| rs_count := S k; rs_loc := advance_line (rs_loc s); rs_sts := rs_sts s; rs_acc := rs_acc s; rs_rej := rs_rej s |},
       SOut None, []).

  Definition opt_cons {A} (o : option A) (l : list A) := match o with Some x => x :: l | None => l end.

  Fixpoint run_rows (c : cid) (m : mode) (limit : option nat) (s : rstate) (raws : list (list text))
    : rstate * list out * option err * list event :=
    match raws with
    | [] => (s, [], None, [])
    | row :: rest =>
        let '(s', so, evs) := step c m limit s row in
        match so with
        | SRaise e => (s', [], Some e, evs)
        | SOut o => let '(sf, outs, r, evs') := run_rows c m limit s' rest in (sf, opt_cons o outs, r, evs ++ evs')
        end
    end.

  Definition resets (cks : list check) : list CS := map ck_reset cks.
  Fixpoint reset_events (n : nat) (i : nat) : list event :=
    match n with O => [] | S n' => EReset i :: reset_events n' (S i) end.

  Definition format_error (l : loc) : err := {| e_family := FDataFormat; e_loc := l; e_field := None; e_see_also := None |}.

  (* Reader.rows() iterated to the end (or to the first raised error). [fault] = the raw row source raises
     DataFormatError after delivering [raws]. The inherited states [sts_in] are overwritten by reset. *)
  Definition reader_rows (c : cid) (m : mode) (limit : option nat) (sts_in : list CS) (raws : list (list text)) (fault : bool)
    : rstate * list out * option err * list event :=
    let s0 := {| rs_count := 1; rs_loc := {| l_line := 0; l_cell := 0 |}; rs_sts := resets (c_checks c); rs_acc := 0; rs_rej := 0 |} in
    let '(sf, outs, r, evs) := run_rows c m limit s0 raws in
    let r' := match r with Some e => Some e | None => if fault then Some (format_error (rs_loc sf)) else None end in
    (sf, outs, r', reset_events (length (c_checks c)) 0 ++ evs).

  (* ---------------- BaseValidator.close *)
  Fixpoint end_checks (cks : list check) (i : nat) (sts : list CS) : option nat * list event :=
    match cks, sts with
    | ck :: cks', st :: sts' =>
        if ck_end ck st then (Some i, [EAtEnd i])
        else let '(r, evs) := end_checks cks' (S i) sts' in (r, EAtEnd i :: evs)
    | _, _ => (None, [])
    end.
  Fixpoint cleanups (cks : list check) (sts : list CS) : list CS :=
    match cks, sts with
    | ck :: cks', st :: sts' => ck_clean ck st :: cleanups cks' sts'
    | _, _ => sts
    end.
  Fixpoint cleanup_events (n : nat) (i : nat) : list event :=
    match n with O => [] | S n' => ECleanup i :: cleanup_events n' (S i) end.

  Definition close (c : cid) (sts : list CS) (l : loc) : list CS * option err * list event :=
    let '(failed, evs) := end_checks (c_checks c) 0 sts in
    (cleanups (c_checks c) sts,
     match failed with
     | Some _ => Some {| e_family := FCheck; e_loc := l; e_field := None; e_see_also := None |}
     | None => None
     end,
     evs ++ cleanup_events (length (c_checks c)) 0).

  (* ---------------- API: cutplace.rows(cid, data, on_error, validate_until) consumed completely.
     `with Reader(...)` closes in every case; BaseValidator.__exit__ keeps a pending error when close()
     fails too, so the error of a failed end check is seen only when the rows ended without error. *)
  Record api_result := {
    r_outs : list out; r_raised : option err; r_acc : nat; r_rej : nat; r_sts : list CS; r_log : list event }.

  Definition api_rows (c : cid) (m : mode) (limit : option nat) (sts_in : list CS) (raws : list (list text)) (fault : bool)
    : api_result :=
    let '(sf, outs, r, evs) := reader_rows c m limit sts_in raws fault in
    let '(sts', ce, evs2) := close c (rs_sts sf) (rs_loc sf) in
    {| r_outs := outs; r_raised := match r with Some e => Some e | None => ce end;
       r_acc := rs_acc sf; r_rej := rs_rej sf; r_sts := sts'; r_log := evs ++ evs2 |}.

  (* cutplace.validate(cid, data, validate_until): on_error='raise'; with a limit N the rows generator is
     advanced through itertools.islice(rows, N): N = 0 never advances it (the checks have been reset by calling rows()), otherwise it is
     suspended right after the N-th yielded row, i.e. after header + N raw rows, and a container fault
     behind that point is never seen. *)
  Definition validate_api (c : cid) (limit : option nat) (sts_in : list CS) (raws : list (list text)) (fault : bool)
    : api_result :=
    match limit with
    | None => api_rows c MRaise None sts_in raws fault
    | Some O =>
        (* rows() has been called (checks reset) but never advanced *)
        let l0 := {| l_line := 0; l_cell := 0 |} in
        let '(sts', ce, evs2) := close c (resets (c_checks c)) l0 in
        {| r_outs := []; r_raised := ce; r_acc := 0; r_rej := 0; r_sts := sts';
           r_log := reset_events (length (c_checks c)) 0 ++ evs2 |}
    | Some n =>
        let need := c_header c + n in
        if Nat.leb need (length raws) then
          (* suspended at the yield of row [need]: its advance_line has not run *)
          let '(sf, outs, r, evs) := reader_rows c MRaise limit sts_in (firstn need raws) false in
          let l := match r with Some _ => rs_loc sf | None => {| l_line := pred (l_line (rs_loc sf)); l_cell := 0 |} end in
          let '(sts', ce, evs2) := close c (rs_sts sf) l in
          {| r_outs := outs; r_raised := match r with Some e => Some e | None => ce end;
             r_acc := rs_acc sf; r_rej := rs_rej sf; r_sts := sts'; r_log := evs ++ evs2 |}
        else api_rows c MRaise limit sts_in raws fault
    end.

  (* ---------------- Writer: construction resets the checks; write_row validates unless the writer's
     line counter is still inside the header; the row is emitted (line counter advances) only when
     it was accepted *)
  Record wstate := { w_sts : list CS; w_loc : loc; w_rows : list (list text) (* emitted, oldest first *) }.
  Definition writer_init (c : cid) (sts_in : list CS) : wstate :=
    {| w_sts := resets (c_checks c); w_loc := {| l_line := 0; l_cell := 0 |}; w_rows := [] |}.
  Definition emit (w : wstate) (sts : list CS) (l : loc) (row : list text) : wstate :=
    {| w_sts := sts; w_loc := advance_line l; w_rows := w_rows w ++ [row] |}.
  Definition write_row (c : cid) (w : wstate) (row : list text) : wstate * option err * list event :=
    if Nat.leb (c_header c) (l_line (w_loc w)) then
      match validate_row c (w_sts w) (w_loc w) row with
      | (sts', None, l', evs) => (emit w sts' l' row, None, evs)
      | (sts', Some e, l', evs) => ({| w_sts := sts'; w_loc := l'; w_rows := w_rows w |}, Some e, evs)
      end
    else (emit w (w_sts w) (w_loc w) row, None, []).
  (* a target that cannot represent every character (a file or encoded stream in, say, ASCII): the delegated row
     writer raises UnicodeEncodeError, reported as DataFormatError, for a row with a character outside [enc]; nothing
     of that row reaches the stream and the line counter stays (the checks have seen the row) *)
  Definition write_row_enc (enc : N -> bool) (c : cid) (w : wstate) (row : list text) : wstate * option err * list event :=
    let '(w', e, evs) := write_row c w row in
    match e with
    | Some _ => (w', e, evs)
    | None => if forallb (forallb enc) row then (w', None, evs)
              else
                (* the row is refused after validate_row (and, for fixed data, the row writer's own item loop) has put
                   the cursor back to the first cell; an unvalidated header row of delimited data leaves it alone *)
                let l := if Nat.leb (c_header c) (l_line (w_loc w)) || df_fixed (c_fmt c) then set_cell (w_loc w) 0 else w_loc w in
                ({| w_sts := w_sts w'; w_loc := l; w_rows := w_rows w |},
                 Some (format_error {| l_line := 0; l_cell := 0 |}), evs)
    end.
  Definition writer_close (c : cid) (w : wstate) : list CS * option err * list event := close c (w_sts w) (w_loc w).

End Validio.
Arguments check CS : clear implicits.
Arguments cid CS : clear implicits.
Arguments rstate CS : clear implicits.
Arguments wstate CS : clear implicits.
Arguments api_result CS : clear implicits.
