(* C12 - Delimited data round-trips through write and read for every accepted format. Property theorems only.
   What is proved here is the cutplace-owned half: the configurations that DataFormat.validate lets through
   (rules regenerated from the source on every run) are exactly the kind the csv module can round-trip, and
   writing never fails for them.  The round trip through the csv model itself (csv_read d (w_rows d t) = t) is
   established by the correspondence run and the round-trip oracle on the implementation, not yet by a theorem
   (see DESIGN.md, C12). *)
From Coq Require Import String.
From CP Require Import Model.Base Generated.Consts Generated.FormatTable Model.Delimited Model.DataFormat
  Spec.DelimitedSpec Proofs.DelimitedProofs.

Theorem accepted_formats_wf : forall dl q e ld ds ts qa,
  In [q] VALID_QUOTE_CHARACTERS -> In [e] VALID_ESCAPE_CHARACTERS ->
  validate_ok FORMAT_DELIMITED (delimited_attrs dl q e ld ds ts) = true ->
  wf_dialect (as_delimited_keywords dl q e qa).
Proof. exact accepted_formats_wf_lemma. Qed.

Theorem writing_never_fails : forall d, wf_dialect d -> forall rows, w_rows d rows <> None.
Proof. exact w_rows_total. Qed.

(* a table with the configured delimiter, quote, escape character, blanks, CR and LF in its cells round-trips
   in the model under an accepted format (delimiter ';', quote ', escape \) *)
Example roundtrip_example :
  let d := as_delimited_keywords 59 39 92 false in
  let t := [[txt "a;b"; txt "it's"; txt "x\y"]; [[13; 10]%N; txt " "; []]; [[]]] in
  validate_ok FORMAT_DELIMITED (delimited_attrs 59 39 92 (Some (txt "any")) (txt ".") []) = true /\
  match w_rows d t with Some s => csv_read d s = (t, true) | None => False end.
Proof. split; vm_compute; reflexivity. Qed.

(* the formats refused by the two consistency rules added for this property are exactly not well-formed *)
Example refused_example :
  validate_ok FORMAT_DELIMITED (delimited_attrs 92 33 92 (Some (txt "any")) (txt ".") []) = false /\
  validate_ok FORMAT_DELIMITED (delimited_attrs 10 34 34 (Some (txt "any")) (txt ".") []) = false.
Proof. split; vm_compute; reflexivity. Qed.
