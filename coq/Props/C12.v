(* C12 - Delimited data round-trips through write and read for every accepted format. Property theorems only.
   Model/Delimited.v is an executable model of the parts of CPython 3.12's _csv module cutplace relies on (writer
   join_append_data, strict reader state machine fed by universal newline splitting), validated against the real
   module by the correspondence on every run; the consistency rules of DataFormat.validate are regenerated from the
   source. *)
From Coq Require Import String.
From CP Require Import Model.Base Generated.Consts Generated.FormatTable Model.Delimited Model.DataFormat
  Spec.DelimitedSpec Proofs.DelimitedProofs Proofs.CsvRoundTrip.

Theorem accepted_formats_wf : forall dl q e ld ds ts qa,
  In [q] VALID_QUOTE_CHARACTERS -> In [e] VALID_ESCAPE_CHARACTERS ->
  validate_ok FORMAT_DELIMITED (delimited_attrs dl q e ld ds ts) = true ->
  wf_dialect (as_delimited_keywords dl q e qa).
Proof. exact accepted_formats_wf_lemma. Qed.

Theorem writing_never_fails : forall d, wf_dialect d -> forall rows, w_rows d rows <> None.
Proof. exact w_rows_total. Qed.

(* the round trip, for every dialect whose special characters are pairwise distinct and no line breaks and for EVERY
   table - any number of rows, ragged rows, rows without cells, empty cells, cells containing the delimiter, the quote
   character, the escape character, CR, LF, CR LF in any combination: reading what was written gives the table back,
   complete and without an error *)
Theorem csv_write_read_roundtrip : forall d rows out, wf_dialect d -> w_rows d rows = Some out -> csv_read d out = (rows, true).
Proof. exact csv_roundtrip. Qed.

(* ... hence for every delimited format the CID loader accepts *)
Theorem accepted_format_roundtrips : forall dl q e ld ds ts qa rows,
  In [q] VALID_QUOTE_CHARACTERS -> In [e] VALID_ESCAPE_CHARACTERS ->
  validate_ok FORMAT_DELIMITED (delimited_attrs dl q e ld ds ts) = true ->
  exists out, w_rows (as_delimited_keywords dl q e qa) rows = Some out /\ csv_read (as_delimited_keywords dl q e qa) out = (rows, true).
Proof. exact accepted_format_roundtrips_lemma. Qed.

(* a table with the configured delimiter, quote, escape character, blanks, CR and LF in its cells round-trips
   in the model under an accepted format (delimiter ';', quote ', escape \) *)
Example roundtrip_example :
  let d := as_delimited_keywords 59 39 92 false in
  let t := [[txt "a;b"; txt "it's"; txt "x\y"]; [[13; 10]%N; txt " "; []]; [[]]] in
  validate_ok FORMAT_DELIMITED (delimited_attrs 59 39 92 (Some (txt "any")) (txt ".") []) = true /\
  match w_rows d t with Some s => csv_read d s = (t, true) | None => False end.
Proof. split; vm_compute; reflexivity. Qed.

(* the formats refused by the two consistency rules added for this property are exactly not well-formed *)
Example refused_example :
  validate_ok FORMAT_DELIMITED (delimited_attrs 92 33 92 (Some (txt "any")) (txt ".") []) = false /\
  validate_ok FORMAT_DELIMITED (delimited_attrs 10 34 34 (Some (txt "any")) (txt ".") []) = false.
Proof. split; vm_compute; reflexivity. Qed.
