(* C06 - Error-handling modes agree with each other and account for every row. Property theorems only. *)
From Coq Require Import String.
From CP Require Import Model.Base Model.Ranges Model.Fields Model.Validio Model.ValidioInst Spec.ValidioSpec Proofs.ValidioProofs.

(* 'continue' produces exactly the accepted rows of 'yield' (same order), ends in the same state, counters
   and raised container fault *)
Theorem continue_is_filter : forall (CS : Type) (c : cid CS) limit sts_in raws fault sf outs r evs,
  reader_rows c MYield limit sts_in raws fault = (sf, outs, r, evs) ->
  reader_rows c MContinue limit sts_in raws fault = (sf, filter is_row outs, r, evs).
Proof. intros CS. exact reader_continue. Qed.

(* 'raise' produces the rows before the first rejection and then raises that same error (same family,
   location, field); without a rejection it raises exactly when the container is broken *)
Theorem raise_is_prefix : forall (CS : Type) (c : cid CS) limit sts_in raws fault sf outs r evs,
  reader_rows c MYield limit sts_in raws fault = (sf, outs, r, evs) ->
  exists sfr er, reader_rows c MRaise limit sts_in raws fault =
    (sfr, rows_before_error outs,
     (match first_error outs with Some e => Some e | None => if fault then Some (format_error (rs_loc sfr)) else None end), er).
Proof. intros CS. exact reader_raise. Qed.

(* 'yield' has one output per data row in input order (yield_spec), the counters count its rows and errors,
   and accepted + rejected = number of raw rows minus the header rows actually present;
   a malformed container ends the run with a data-format error after the rows before the fault *)
Theorem yield_accounts_for_every_row : forall (CS : Type) (c : cid CS) limit sts_in raws fault sf outs r evs,
  reader_rows c MYield limit sts_in raws fault = (sf, outs, r, evs) ->
  outs = yield_spec c limit 1 (resets (c_checks c)) raws /\
  r = (if fault then Some (format_error (rs_loc sf)) else None) /\
  rs_acc sf = count_rows outs /\ rs_rej sf = count_errs outs /\
  rs_acc sf + rs_rej sf + Nat.min (c_header c) (length raws) = length raws.
Proof. intros CS. exact reader_yield. Qed.

Example modes_example :
  let c := mkcid false None 0 [mkfield (txt "a") false None (HChoice [txt "x"])] [] in
  let raws := [[txt "x"]; [txt "y"]; [txt "x"]] in
  let '(_, oy, _, _) := reader_rows c MYield None [] raws false in
  let '(_, oc, _, _) := reader_rows c MContinue None [] raws false in
  let '(_, orr, rr, _) := reader_rows c MRaise None [] raws false in
  length oy = 3 /\ oc = [ORow [txt "x"]; ORow [txt "x"]] /\ orr = [ORow [txt "x"]] /\ rr = first_error oy /\ rr <> None.
Proof. vm_compute. repeat split; discriminate. Qed.
