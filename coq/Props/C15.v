(* C15 - ODS sheets are read as the logical table they contain. Property theorems only.
   Model/Ods.v starts from the element tree of content.xml; Spec/OdsSpec.v is a family of ODF encoders in which every
   optional encoding feature is a switch. *)
From Coq Require Import String.
From CP Require Import Model.Base Model.Lex Model.FieldTypes Model.Ods Spec.FieldSpec Spec.OdsSpec Proofs.OdsProofs Generated.Consts.
Local Open Scope Z_scope.

(* For all tables (any number of rows, ragged, any cell texts incl. blanks, tabs, line breaks, empty cells, equal
   neighbours), all styles of encoding (each feature on or off, per sheet), any number of sheets: reading sheet k
   returns exactly the rows and cell texts of the k-th sheet.  [small_table]: no more rows, cells per row or characters
   per cell than the largest repeat count the reader accepts (_MAX_ODS_REPEATED_COUNT, read from the source, at least
   2^20 by table_size_bound_is_generous) - a count beyond it is refused (ods_huge_count_is_refused). *)
Theorem ods_decodes_every_encoding : forall (sheets : list (style * list (list text))) k st t, (1 <= k)%nat ->
  nth_error sheets (k - 1) = Some (st, t) -> small_table t ->
  ods_rows (CDoc (map (fun p => enc_table (fst p) (snd p)) sheets)) k = ORows t false.
Proof. exact ods_decodes. Qed.

(* requesting a missing sheet fails with a data format error *)
Theorem ods_missing_sheet_fails : forall tables k, (length tables < k)%nat -> ods_rows (CDoc tables) k = ORows [] true.
Proof. exact ods_missing_sheet. Qed.

(* not a zip archive, no content.xml, malformed XML: data format error *)
Theorem ods_broken_container_fails : forall k,
  ods_rows CNotZip k = ORows [] true /\ ods_rows CNoContent k = ORows [] true /\ ods_rows CBadXml k = ORows [] true.
Proof. intros k. repeat split. Qed.

(* a repeat count that is not an integer of at least 1 - on a row or on a cell - fails with a data format error
   once the rows before it have been delivered *)
Theorem ods_bad_count_is_refused : forall a, (forall z, py_int a = IOk z -> z < 1) -> py_int a <> IOut ->
  repeated_count (Some a) = CountBad.
Proof. exact bad_count. Qed.
Theorem ods_huge_count_is_refused : forall a z, py_int a = IOk z -> MAX_ODS_REPEATED_COUNT < z -> repeated_count (Some a) = CountBad.
Proof. exact large_count. Qed.
Theorem table_size_bound_is_generous : 1048576 <= MAX_ODS_REPEATED_COUNT.
Proof. exact max_count_is_large. Qed.
Theorem ods_bad_row_count_fails : forall st before a cells after, small_table before ->
  repeated_count (Some a) = CountBad -> (exists row, cells_row cells = Some (Some row)) ->
  table_rows (enc_table st before ++ {| or_rep := Some a; or_cells := cells |} :: after) = ORows before true.
Proof. exact ods_bad_row_count. Qed.
Theorem ods_bad_cell_count_fails : forall st before a paras more after, small_table before ->
  repeated_count (Some a) = CountBad ->
  table_rows (enc_table st before ++ {| or_rep := None; or_cells := {| oc_rep := Some a; oc_paras := paras |} :: more |} :: after) = ORows before true.
Proof. exact ods_bad_cell_count. Qed.

(* non-vacuity: a table with runs, blanks, a tab and a line break, every feature switched on, decoded by evaluation *)
Example ods_example :
  let st := {| st_para := true; st_s := true; st_one := false; st_tab := true; st_span := true; st_cells := true; st_rows := true |} in
  let t := [[txt "a  b"; txt "a  b"; []]; [txt "a  b"; txt "a  b"; []]; [9%N :: txt "x" ++ LF :: txt "y"]] in
  length (enc_table st t) = 2%nat /\ ods_rows (CDoc [enc_table st t]) 1 = ORows t false
  /\ map repeated_count [Some (txt "0"); Some (txt "x"); Some (txt "-3"); Some []; Some (txt "99999999999999999999")]
     = [CountBad; CountBad; CountBad; CountBad; CountBad]
  /\ small_table t.
Proof.
  split; [vm_compute; reflexivity|]. split; [vm_compute; reflexivity|]. split; [vm_compute; reflexivity|].
  unfold small_table, small_row, small_text, fits. cbv zeta.
  split; [vm_compute; discriminate|].
  repeat (apply Forall_cons || apply Forall_nil || split); vm_compute; discriminate.
Qed.
