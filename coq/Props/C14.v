(* C14 - A validating writer emits only conforming rows; its output validates again. Property theorems only. *)
From Coq Require Import String.
From CP Require Import Model.Base Model.Ranges Model.Fields Model.Validio Model.ValidioInst Model.History Model.Writer
  Proofs.ValidioProofs Proofs.WriterProofs.

(* after any sequence of write_row calls the writer has emitted exactly the rows it accepted, in order; a rejected
   call leaves output and line counter untouched, and the writer continues with the next call *)
Theorem writer_emits_accepted : forall (CS : Type) (c : cid CS) rows w wf es,
  write_all c w rows = (wf, es) ->
  length es = length rows /\
  w_rows wf = w_rows w ++ accepted_of rows es /\
  l_line (w_loc wf) = l_line (w_loc w) + length (accepted_of rows es).
Proof. intros CS. exact write_all_emits. Qed.

(* a row is accepted by write_row under exactly the conditions of C04 (it is the same validate_row), unless the
   writer's line counter is still inside the header *)
Theorem writer_validates_like_reader : forall (CS : Type) (c : cid CS) (w : wstate CS) row,
  c_header c <= l_line (w_loc w) ->
  snd (fst (write_row c w row)) = snd (fst (fst (validate_row c (w_sts w) (w_loc w) row))).
Proof.
  intros CS c w row H. unfold write_row. apply Nat.leb_le in H. rewrite H.
  destruct (validate_row c (w_sts w) (w_loc w) row) as [[[sts' [e|]] l'] evs]; reflexivity.
Qed.

(* fixed-width values are right-padded with blanks to the field width; the stream is the concatenation of the
   padded rows, each followed by the line separator *)
Theorem fixed_padding : forall w cell, length cell <= w ->
  length (pad w cell) = w /\ exists n, pad w cell = cell ++ repeat SP n.
Proof. intros w cell H. split; [apply pad_length; exact H | apply pad_prefix]. Qed.

Example writer_example :
  let c := mkcid true None 0 [mkfield (txt "a") false (Some [(Some 3%Z, Some 3%Z)]) (HChoice [txt "x"; txt "yy"])] [KUnique [0%nat]] in
  let '(wf, es) := write_all c (writer_init c []) [[txt "x"]; [txt "zz"]; [txt "yy"]; [txt "x"]] in
  (map (fun e => match e with None => true | Some _ => false end) es, fixed_text [3%nat] [LF] (w_rows wf))
  = ([true; false; true; false], txt "x  " ++ [LF] ++ txt "yy " ++ [LF]).
Proof. vm_compute. reflexivity. Qed.
