(* C14 - A validating writer emits only conforming rows; its output validates again. Property theorems only. *)
From Coq Require Import String.
From CP Require Import Model.Delimited Spec.DelimitedSpec Proofs.CsvRoundTrip.
From CP Require Import Model.Base Model.Ranges Model.Fields Model.Validio Model.ValidioInst Model.History Model.Writer
  Proofs.ValidioProofs Proofs.WriterProofs Proofs.ReadbackProofs.
From CP Require Import Model.Fixed Proofs.FixedWriterProofs.

(* after any sequence of write_row calls the writer has emitted exactly the rows it accepted, in order; a rejected
   call leaves output and line counter untouched, and the writer continues with the next call *)
Theorem writer_emits_accepted : forall (CS : Type) (c : cid CS) rows w wf es,
  write_all c w rows = (wf, es) ->
  length es = length rows /\
  w_rows wf = w_rows w ++ accepted_of rows es /\
  l_line (w_loc wf) = l_line (w_loc w) + length (accepted_of rows es).
Proof. intros CS. exact write_all_emits. Qed.

(* the same when the target's encoding cannot represent every character (a file or stream in ASCII, say): a row the
   encoding refuses is rejected like any other, nothing of it reaches the output, later calls proceed; and every
   emitted row is representable *)
Theorem writer_emits_accepted_whatever_the_encoding : forall (CS : Type) enc (c : cid CS) rows w wf es,
  write_all_enc enc c w rows = (wf, es) ->
  length es = length rows /\
  w_rows wf = w_rows w ++ accepted_of rows es /\
  l_line (w_loc wf) = l_line (w_loc w) + length (accepted_of rows es) /\
  Forall (fun r => forallb (forallb enc) r = true) (accepted_of rows es).
Proof. intros CS. exact write_all_enc_emits. Qed.

(* a row is accepted by write_row under exactly the conditions of C04 (it is the same validate_row), unless the
   writer's line counter is still inside the header *)
Theorem writer_validates_like_reader : forall (CS : Type) (c : cid CS) (w : wstate CS) row,
  c_header c <= l_line (w_loc w) ->
  snd (fst (write_row c w row)) = snd (fst (fst (validate_row c (w_sts w) (w_loc w) row))).
Proof.
  intros CS c w row H. unfold write_row. apply Nat.leb_le in H. rewrite H.
  destruct (validate_row c (w_sts w) (w_loc w) row) as [[[sts' [e|]] l'] evs]; reflexivity.
Qed.

(* fixed-width values are right-padded with blanks to the field width; the stream is the concatenation of the
   padded rows, each followed by the line separator *)
Theorem fixed_padding : forall w cell, length cell <= w ->
  length (pad w cell) = w /\ exists n, pad w cell = cell ++ repeat SP n.
Proof. intros w cell H. split; [apply pad_length; exact H | apply pad_prefix]. Qed.

Example writer_example :
  let c := mkcid true None 0 [mkfield (txt "a") false (Some [(Some 3%Z, Some 3%Z)]) (HChoice [txt "x"; txt "yy"])] [KUnique [0%nat]] in
  let '(wf, es) := write_all c (writer_init c []) [[txt "x"]; [txt "zz"]; [txt "yy"]; [txt "x"]] in
  (map (fun e => match e with None => true | Some _ => false end) es, fixed_text [3%nat] [LF] (w_rows wf))
  = ([true; false; true; false], txt "x  " ++ [LF] ++ txt "yy " ++ [LF]).
Proof. vm_compute. reflexivity. Qed.

(* ---- "its output validates again" ----
   Reading what the writer emitted back under the same CID accepts every row and returns the written values.
   (a) arbitrary, also user-defined, checks (CS abstract): provided no written row was refused by a row check - a row a
       check vetoes may already have been registered by earlier-declared checks (call protocol, C20), so nothing more
       can hold for arbitrary checks.  The reader then also ends in the writer's check states: same end-of-data verdict.
   (b) the built-in IsUnique / DistinctCount checks (and the harness plugins): unconditionally, whatever mixture of
       accepted and rejected rows was written. *)
Theorem writer_output_validates_again : forall (CS : Type) (c : cid CS) rows sts_w sts_r wf es,
  write_all c (writer_init c sts_w) rows = (wf, es) -> no_check_veto es ->
  w_rows wf = accepted_of rows es /\ exists sf evs,
    reader_rows c MYield None sts_r (w_rows wf) false = (sf, map ORow (skipn (c_header c) (w_rows wf)), None, evs)
    /\ rs_sts sf = w_sts wf /\ rs_rej sf = 0.
Proof. intros CS. exact writer_readback_lemma. Qed.

Theorem writer_output_validates_again_builtin_checks : forall (c : cid cstate) ks rows sts_w sts_r wf es,
  c_checks c = map check_of ks ->
  write_all c (writer_init c sts_w) rows = (wf, es) ->
  exists sf evs,
    reader_rows c MYield None sts_r (w_rows wf) false = (sf, map ORow (skipn (c_header c) (w_rows wf)), None, evs)
    /\ rs_rej sf = 0.
Proof. exact builtin_writer_readback_lemma. Qed.

(* ... and the same when the target's encoding refuses some rows (write_all_enc): rows it refuses have been seen by the
   writer's checks but are not in the output; the output still reads back without a single rejection *)
Theorem writer_output_validates_again_whatever_the_encoding : forall enc (c : cid cstate) ks rows sts_w sts_r wf es,
  c_checks c = map check_of ks ->
  write_all_enc enc c (writer_init c sts_w) rows = (wf, es) ->
  exists sf evs,
    reader_rows c MYield None sts_r (w_rows wf) false = (sf, map ORow (skipn (c_header c) (w_rows wf)), None, evs)
    /\ rs_rej sf = 0.
Proof. exact builtin_writer_readback_enc_lemma. Qed.

(* the delimited stream in between: the text the delimited row writer produces for the emitted rows parses back into
   exactly those rows (C12), so the two statements above apply to the rows a Reader gets from the written file *)
Theorem delimited_writer_stream_reads_back : forall (CS : Type) (c : cid CS) rows sts_w wf es d out,
  write_all c (writer_init c sts_w) rows = (wf, es) -> wf_dialect d ->
  delimited_text d (w_rows wf) = Some out -> csv_read d out = (accepted_of rows es, true).
Proof.
  intros CS c rows sts_w wf es d out H WF T.
  destruct (write_all_emits c _ _ _ _ H) as [_ [E _]]. cbn in E. rewrite <- E.
  apply csv_roundtrip; assumption.
Qed.

(* the fixed-width stream in between (C13 meets C14): for every line delimiter setting and all widths, the text the
   fixed-width row writer produces for the emitted rows is read back by the fixed-width reader as exactly those rows,
   padded, completely and without an error - provided the emitted values fit their fields, which the length guard of
   the fields (C03) ensures for validated rows *)
Theorem fixed_writer_stream_reads_back : forall (CS : Type) (c : cid CS) rows sts_w wf es d ws,
  write_all c (writer_init c sts_w) rows = (wf, es) ->
  Forall (fun w => 1 <= w) ws -> ws <> [] -> Forall (fits_row ws) (accepted_of rows es) ->
  fixed_rows d ws (fixed_text ws (writer_sep d) (w_rows wf)) = Some (map (pad_row ws) (accepted_of rows es), true).
Proof.
  intros CS c rows sts_w wf es d ws H Hw Hne Hf.
  destruct (write_all_emits c _ _ _ _ H) as [_ [E _]]. cbn in E. rewrite E.
  apply fixed_writer_output_reads_back_lemma; assumption.
Qed.
Example fixed_stream_example :
  fixed_rows LdCR [3; 2]%nat (fixed_text [3; 2]%nat (writer_sep LdCR) [[txt "ab"; txt "x"]; [[LF]; []]; [txt "abc"; txt "yy"]])
  = Some ([[txt "ab "; txt "x "]; [[LF; SP; SP]; [SP; SP]]; [txt "abc"; txt "yy"]], true).
Proof. vm_compute. reflexivity. Qed.

(* non-vacuity: duplicates and field errors are refused on writing; what was written reads back completely *)
Example readback_example :
  let c := mkcid false None 1 [mkfield (txt "a") false None HText; mkfield (txt "b") false None (HChoice [txt "x"; txt "y"])]
                 [KUnique [0%nat]; KDistinct 1%nat CLe 2%Z] in
  let '(wf, es) := write_all c (writer_init c []) [[txt "name"; txt "kind"]; [txt "1"; txt "x"]; [txt "1"; txt "y"]; [txt "2"; txt "z"]; [txt "3"; txt "y"]] in
  let '(_, outs, r, _) := reader_rows c MYield None [] (w_rows wf) false in
  map (fun e => match e with None => true | Some _ => false end) es = [true; true; false; false; true]
  /\ outs = [ORow [txt "1"; txt "x"]; ORow [txt "3"; txt "y"]] /\ r = None.
Proof. vm_compute. repeat split; reflexivity. Qed.
