(* C20 - User-defined field formats and checks are driven by the documented call protocol.
   Property theorems only.  Hooks (f_hook) and checks (the state type CS and the four ck functions) are arbitrary. *)
From Coq Require Import String.
From CP Require Import Model.Base Model.Ranges Model.Fields Model.Validio Model.ValidioInst Spec.ValidioSpec
  Proofs.ValidioProofs Proofs.ProtocolProofs.

(* a field's value hook is called only for cells that contain only allowed characters, are non-empty (after
   blank-stripping in fixed-width data) and satisfy the declared length; its argument is the (stripped) cell *)
Theorem hook_called_only_behind_guards : forall fmt f cell x,
  v_hook (validated fmt f cell) = Some x <->
  chars_ok (df_allowed fmt) cell = true /\
  x = (if df_fixed fmt then strip cell else cell) /\ x <> [] /\
  length_ok fmt f cell = true.
Proof. exact hook_called_iff. Qed.

(* hooks are called in column order and never beyond the first rejected cell of a row: the hook of column j is
   called (with x) iff the guards pass for that cell and every earlier cell of the row was accepted *)
Theorem hooks_in_column_order : forall fmt fs row j x,
  In (EValue j x) (snd (validate_fields fmt fs 0 row)) <->
  exists f cell, nth_error fs j = Some f /\ nth_error row j = Some cell /\
    v_hook (validated fmt f cell) = Some x /\
    (forall j' f' c', j' < j -> nth_error fs j' = Some f' -> nth_error row j' = Some c' -> v_ok (validated fmt f' c') = true).
Proof.
  intros fmt fs row j x. rewrite (field_event_iff fmt fs 0 row j x). rewrite Nat.sub_0_r.
  split; [intros [_ H]; exact H | intros H; split; [apply Nat.le_0_l | exact H]].
Qed.

(* a check sees a row iff it has the right item count, all its cells were accepted and no earlier-declared
   check rejected it; the checks are consulted in declaration order, each at most once per row *)
Theorem check_sees_row_iff : forall (CS : Type) (c : cid CS) sts l row sts' oe l' evs,
  validate_row c sts l row = (sts', oe, l', evs) ->
  (length row <> length (c_fields c) /\ evs = []) \/
  (length row = length (c_fields c) /\
   exists fevs cevs, evs = fevs ++ cevs /\ fevs = snd (validate_fields (c_fmt c) (c_fields c) 0 row) /\
     ((fst (validate_fields (c_fmt c) (c_fields c) 0 row) <> None /\ cevs = []) \/
      (fst (validate_fields (c_fmt c) (c_fields c) 0 row) = None /\
       cevs = snd (run_checks (c_checks c) 0 sts row (set_cell l 0))))).
Proof. intros CS. exact validate_row_events. Qed.

Theorem checks_in_declaration_order : forall (CS : Type) (cks : list (check CS)) i sts row l,
  exists n, snd (run_checks cks i sts row l) = check_events_upto n i row /\ n <= length cks /\ n <= length sts /\
    (snd (fst (run_checks cks i sts row l)) = None -> n = Nat.min (length cks) (length sts)).
Proof. intros CS. exact run_checks_events. Qed.

(* the whole call log of one data set (cutplace.rows, on_error='yield'): every check reset once, first; then the
   calls of the rows inside the window header < row number <= limit, in row order; on close the end verdicts in
   declaration order up to and including the first failure; then every check cleaned up *)
Theorem protocol : forall (CS : Type) (c : cid CS) limit sts_in raws fault,
  exists n, r_log (api_rows c MYield limit sts_in raws fault) =
    reset_events (length (c_checks c)) 0 ++ log_spec c limit 1 (resets (c_checks c)) raws ++
    end_events_upto n 0 ++ cleanup_events (length (c_checks c)) 0.
Proof. intros CS. exact api_log. Qed.

(* rows in the header or beyond the validation limit cause no calls at all *)
Theorem no_calls_for_header_rows : forall (CS : Type) (c : cid CS) limit rows hdr sts,
  length hdr <= c_header c ->
  log_spec c limit 1 sts (hdr ++ rows) = log_spec c limit (1 + length hdr) sts rows.
Proof. intros CS c limit rows hdr sts H. apply log_spec_header. cbn. apply le_n_S. exact H. Qed.

Theorem no_calls_beyond_limit : forall (CS : Type) (c : cid CS) n raws j sts,
  n < j -> log_spec c (Some n) j sts raws = [].
Proof. intros CS. exact log_spec_beyond. Qed.

Example protocol_example :
  let c := mkcid false None 1 [mkfield (txt "a") true None (HChoice [txt "x"]); mkfield (txt "b") false None HText] [KVeto 1%nat (txt "v"); KAccept] in
  r_log (api_rows c MYield None [] [[txt "h"]; [txt ""; txt "v"]; [txt "y"; txt "w"]; [txt "x"; txt "w"]] false)
  = [EReset 0; EReset 1;
     EValue 1 (txt "v"); ECheckRow 0 [txt ""; txt "v"];
     EValue 0 (txt "y");
     EValue 0 (txt "x"); EValue 1 (txt "w"); ECheckRow 0 [txt "x"; txt "w"]; ECheckRow 1 [txt "x"; txt "w"];
     EAtEnd 0; EAtEnd 1; ECleanup 0; ECleanup 1].
Proof. vm_compute. reflexivity. Qed.
