(* C07 - Header rows are skipped; the validation limit bounds validation, not data. Property theorems only. *)
From Coq Require Import String.
From CP Require Import Model.Base Model.Ranges Model.Fields Model.Validio Model.ValidioInst Model.Cli Generated.ExitCodes
  Spec.ValidioSpec Proofs.ValidioProofs Proofs.LimitProofs.

(* what the row-reading API produces is yield_spec (see C04/C06); the statements below are about it *)

(* header rows are neither validated nor returned, whatever they contain *)
Theorem header_ignored : forall (CS : Type) (c : cid CS) limit sts hdr hdr' rows,
  length hdr = length hdr' -> length hdr <= c_header c ->
  yield_spec c limit 1 sts (hdr ++ rows) = yield_spec c limit 1 sts (hdr' ++ rows).
Proof. intros CS. exact header_ignored_lemma. Qed.

Theorem header_not_returned : forall (CS : Type) (c : cid CS) limit sts hdr rows,
  length hdr = c_header c ->
  yield_spec c limit 1 sts (hdr ++ rows) = yield_spec c limit (S (c_header c)) sts rows.
Proof. intros CS. exact header_rows_not_returned. Qed.

(* limit N: rows numbered 1..N (header rows counted) are treated exactly as without a limit,
   later rows are returned unchanged and unvalidated (passthrough contains no error) *)
Theorem limit_bounds_validation : forall (CS : Type) (c : cid CS) n raws sts,
  yield_spec c (Some n) 1 sts raws =
  yield_spec c None 1 sts (firstn n raws) ++ passthrough c (S n) (skipn n raws).
Proof.
  intros CS c n raws sts. rewrite (limit_split_lemma c n raws 1 sts) by apply le_n_S, Nat.le_0_l.
  replace (S n - 1) with n by apply eq_sym, Nat.sub_0_r. reflexivity.
Qed.

(* N = 0 validates nothing *)
Theorem limit_zero : forall (CS : Type) (c : cid CS) sts raws,
  yield_spec c (Some 0) 1 sts raws = passthrough c 1 raws.
Proof. intros CS. exact limit_zero_lemma. Qed.

(* the validate-only API stops after N data rows: nothing behind raw row header + N is looked at,
   not even a container fault *)
Theorem validate_api_stops : forall (CS : Type) (c : cid CS) n sts_in a b fault,
  length a = c_header c + S n ->
  validate_api c (Some (S n)) sts_in (a ++ b) fault = validate_api c (Some (S n)) sts_in a false.
Proof. intros CS. exact validate_api_stops_lemma. Qed.

(* the command line: --until -1 (and no option at all) = no limit, N >= 0 = limit N, anything else is a usage error;
   stated about the mapping translated from set_options *)
Theorem cli_until : forall z : Z,
  until_of z = (if Z.eqb z (-1) then UNoLimit else if Z.leb 0 z then ULimit (Z.to_nat z) else UUsageError)
  /\ until_absent = UNoLimit.
Proof.
  intros z. split; [|reflexivity]. unfold until_of, until_none_value, until_pass_cmp, until_pass_bound, cmp_z.
  destruct (Z.eqb z (-1)); [reflexivity|]. rewrite Z.geb_leb. reflexivity.
Qed.

Example limit_example :
  let c := mkcid false None 1 [mkfield (txt "a") false None (HChoice [txt "x"])] [] in
  yield_spec c (Some 2) 1 [] [[txt "bad header"]; [txt "x"]; [txt "y"]; [txt "z"]]
  = [ORow [txt "x"]; ORow [txt "y"]; ORow [txt "z"]]
  /\ exists e, yield_spec c (Some 3) 1 [] [[txt "bad header"]; [txt "x"]; [txt "y"]; [txt "z"]]
  = [ORow [txt "x"]; OErr e; ORow [txt "z"]].
Proof. split; [vm_compute; reflexivity|]. eexists. vm_compute. reflexivity. Qed.
