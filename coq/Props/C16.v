(* C16 - Excel cells render as documented text and the requested sheet is read. Property theorems only.
   Model/Excel.v works on the abstract workbook a producer stored; float repr and the serial date conversion are
   xlrd's / Python's and enter as the repr text / the date tuple of a cell. *)
From Coq Require Import String.
From CP Require Import Model.Base Model.Lex Model.FieldTypes Model.Excel Spec.FieldSpec Proofs.ExcelProofs.
Local Open Scope Z_scope.

(* the sheet that is read is the requested one: sheet k of a workbook is the rendering of its k-th sheet, whatever
   the other sheets hold; requesting a sheet beyond the last one is refused *)
Theorem excel_sheet_selected : forall book k s, (1 <= k)%nat -> nth_error book (k - 1) = Some s ->
  excel_rows book k = Some (map (map excel_cell_value) (grid s)).
Proof. exact excel_rows_selects. Qed.
Theorem excel_other_sheets_irrelevant : forall before s after other_before other_after,
  length before = length other_before ->
  excel_rows (before ++ s :: after) (S (length before)) = excel_rows (other_before ++ s :: other_after) (S (length before)).
Proof. exact excel_rows_only_that_sheet. Qed.
Theorem excel_missing_sheet_refused : forall book k, (length book < k)%nat -> excel_rows book k = None.
Proof. exact excel_rows_missing. Qed.

(* every row is padded to the sheet's width *)
Theorem excel_rows_have_sheet_width : forall book k rows s, nth_error book (k - 1) = Some s -> excel_rows book k = Some rows ->
  Forall (fun r => length r = ncols s) rows.
Proof. exact excel_rows_padded. Qed.

(* strings verbatim, booleans 1/0, cells never written empty *)
Theorem excel_simple_cells : forall s, excel_cell_value (XStr s) = s /\ excel_cell_value (XBool true) = txt "1"
  /\ excel_cell_value (XBool false) = txt "0" /\ excel_cell_value XNone = [].
Proof. intros s. repeat split. Qed.
(* whole numbers without a fractional suffix (for every integer n whose float repr is "n.0"), other numbers as repr *)
Theorem excel_whole_number : forall n, excel_cell_value (XNum (int_text n ++ txt ".0")) = int_text n.
Proof. exact whole_number_rendered_without_suffix. Qed.
Theorem excel_other_number : forall r, suffix_b (txt ".0") r = false -> excel_cell_value (XNum r) = r.
Proof. exact suffix_b_false_keeps. Qed.
(* dates as YYYY-MM-DD hh:mm:ss (zero padded, 19 characters), pure times as hh:mm:ss *)
Theorem excel_datetime : forall y m d hh mm ss,
  1 <= y <= 9999 -> 1 <= m <= 12 -> 1 <= d <= 31 -> 0 <= hh <= 23 -> 0 <= mm <= 59 -> 0 <= ss <= 59 ->
  excel_cell_value (XDate y m d hh mm ss) =
    zpad 4 y ++ DASH :: zpad 2 m ++ DASH :: zpad 2 d ++ SP :: zpad 2 hh ++ COLON :: zpad 2 mm ++ COLON :: zpad 2 ss
  /\ length (excel_cell_value (XDate y m d hh mm ss)) = 19%nat.
Proof. exact datetime_rendering. Qed.
Theorem excel_time : forall hh mm ss,
  excel_cell_value (XDate 0 0 0 hh mm ss) = zpad 2 hh ++ COLON :: zpad 2 mm ++ COLON :: zpad 2 ss.
Proof. exact time_rendering. Qed.
Theorem zero_padding_is_exact : forall w n, 0 <= n -> (Z.to_nat (ndig n) <= w)%nat ->
  length (zpad w n) = w /\ forallb is_digit (zpad w n) = true /\ Proofs.IntProofs.dval (zpad w n) 0 = n.
Proof. exact zpad_spec. Qed.

(* a rectangular table written with the xlsx row writer reads back identically *)
Theorem xlsx_writer_roundtrip : forall (t : list (list text)) w, (0 < w)%nat -> Forall (fun r => length r = w) t ->
  excel_rows (xlsx_written t) 1 = Some t.
Proof. exact xlsx_roundtrip_rect. Qed.

(* in general - ragged tables, rows without cells - the table reads back padded to its widest row, without trailing rows
   that have no cells (what a spreadsheet can keep of it) *)
Theorem xlsx_writer_roundtrip_general : forall (t : list (list text)),
  excel_rows (xlsx_written t) 1 = Some (map (pad_row [] (ncols t)) (trim_rows t)).
Proof. exact xlsx_roundtrip_general. Qed.

Example c16_example :
  excel_rows [[[XStr (txt "a"); XNum (txt "1.0"); XNum (txt "1.5e+20")]; []; [XDate 2000 2 29 0 0 0; XDate 0 0 0 1 2 3; XBool true; XNum (txt "-0.0")]]; [[XStr (txt "x")]]] 1
  = Some [[txt "a"; txt "1"; txt "1.5e+20"; []]; [[]; []; []; []]; [txt "2000-02-29 00:00:00"; txt "01:02:03"; txt "1"; txt "-0"]]
  /\ excel_rows (xlsx_written [[txt "a"; txt "b"; txt "c"]; [txt "d"]; []]) 1 = Some [[txt "a"; txt "b"; txt "c"]; [txt "d"; []; []]].
Proof. split; vm_compute; reflexivity. Qed.
