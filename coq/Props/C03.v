(* C03 - Empty, length and allowed-character guards hold for every field type. Property theorems only.
   The field's type and rule are the arbitrary hook f_hook: every statement is for all hooks. *)
From Coq Require Import String.
From CP Require Import Model.Base Model.Ranges Model.Fields Proofs.GuardProofs.

(* a cell containing any character outside the allowed-characters range is rejected, whatever else holds,
   and the type/rule is not consulted *)
Theorem guard_chars : forall fmt f cell,
  (exists c, In c cell /\ range_validate (df_allowed fmt) (Z.of_N c) = false) ->
  validated fmt f cell = {| v_ok := false; v_hook := None |}.
Proof. intros fmt f cell H. apply guard_chars_lemma. apply chars_ok_iff. exact H. Qed.

(* an empty cell (fixed-width: only blanks) whose characters are allowed is accepted iff the field is marked as
   allowed to be empty (and, for fixed-width blanks, fits the width); the rule is not consulted *)
Theorem guard_empty : forall fmt f cell,
  chars_ok (df_allowed fmt) cell = true -> blank_for fmt cell ->
  validated fmt f cell = {| v_ok := f_empty_ok f && length_ok fmt f cell; v_hook := None |}.
Proof. exact guard_empty_lemma. Qed.

Theorem guard_empty_plain : forall fmt f, 
  validated fmt f [] = {| v_ok := f_empty_ok f; v_hook := None |}.
Proof.
  intros fmt f. rewrite guard_empty_lemma; [|reflexivity|unfold blank_for; destruct (df_fixed fmt); reflexivity].
  destruct (f_empty_ok f) eqn:E; [|reflexivity]. rewrite (empty_cell_length fmt f E). reflexivity.
Qed.

(* a cell whose number of characters lies outside the declared length (fixed-width: exceeds the width) is
   rejected without consulting type and rule *)
Theorem guard_length : forall fmt f cell, length_ok fmt f cell = false ->
  v_ok (validated fmt f cell) = false /\ v_hook (validated fmt f cell) = None.
Proof. exact guard_length_lemma. Qed.

Theorem length_ok_meaning : forall fmt f cell, (f_empty_ok f && is_nil cell) = false ->
  length_ok fmt f cell =
  if df_fixed fmt then match lower_limit (f_length f) with Some w => (Z.of_nat (length cell) <=? w)%Z | None => true end
  else range_validate (f_length f) (Z.of_nat (length cell)).
Proof. exact length_ok_spec. Qed.

(* otherwise the verdict is exactly the type's verdict on the (fixed-width: blank-stripped) value *)
Theorem guard_pass : forall fmt f cell,
  chars_ok (df_allowed fmt) cell = true -> ~ blank_for fmt cell -> length_ok fmt f cell = true ->
  let v := if df_fixed fmt then strip cell else cell in
  validated fmt f cell = {| v_ok := f_hook f v; v_hook := Some v |}.
Proof. exact guard_pass_lemma. Qed.

Example guards_example :
  let fmt := {| df_fixed := true; df_excel := false; df_allowed := Some [(Some 32%Z, Some 122%Z)] |} in
  let f := {| f_name := txt "a"; f_empty_ok := false; f_length := Some [(Some 3%Z, Some 3%Z)]; f_hook := fun _ => true |} in
  (v_ok (validated fmt f (txt "   ")), v_ok (validated fmt f (txt "ab ")), v_ok (validated fmt f (txt "abcd")), v_ok (validated fmt f (txt "a~ ")))
  = (false, true, false, false).
Proof. vm_compute. reflexivity. Qed.
