(* C05 - Uniqueness and distinct-count checks are decided over the whole data set. Property theorems only. *)
From Coq Require Import String.
From CP Require Import Model.Base Model.Ranges Model.Fields Model.Validio Model.ValidioInst Spec.ValidioSpec
  Proofs.BaseProofs Proofs.ValidioProofs Proofs.ChecksProofs.
Local Open Scope Z_scope.

(* IsUnique over the fields [cols], shown any sequence of rows since its last reset: the i-th row is rejected
   iff an earlier row of that sequence has the same values in all of K - equivalently an earlier row that PASSED
   the check, because the first row with a given key always passes - and the error refers back to the location
   of the first such row *)
Theorem unique_verdicts : forall cols calls i row l,
  nth_error calls i = Some (row, l) ->
  nth_error (fst (drive (check_of (KUnique cols)) (ck_reset (check_of (KUnique cols))) calls)) i =
  Some (match first_loc cols (key_of cols row) (firstn i calls) with Some l0 => Some (Some l0) | None => None end).
Proof. exact unique_verdicts_lemma. Qed.

(* DistinctCount `field op n`: it never rejects a row, and finishing fails iff the number of distinct values of
   the field among the rows it was shown does not satisfy the comparison *)
Theorem distinct_end_verdict : forall col op n calls,
  let ck := check_of (KDistinct col op n) in
  ck_end ck (snd (drive ck (ck_reset ck) calls)) =
  negb (cmp_z op (Z.of_nat (length (nodup text_eq_dec (map (value_of col) calls)))) n)
  /\ Forall (fun v => v = None) (fst (drive ck (ck_reset ck) calls)).
Proof. exact distinct_end_lemma. Qed.

(* rows rejected for a wrong item count or by a field register nothing: no check state changes *)
Theorem rejected_rows_do_not_register : forall (CS : Type) (c : cid CS) sts l row sts' e l' evs,
  validate_row c sts l row = (sts', Some e, l', evs) -> e_family e <> FCheck -> sts' = sts.
Proof.
  intros CS c sts l row sts' e l' evs H NC.
  destruct (validate_row_error c sts l row sts' e l' evs H) as [_ [_ [A|[B|C]]]].
  - tauto.
  - tauto.
  - destruct C as [_ [_ [_ [F _]]]]. congruence.
Qed.

(* which rows a check is shown is C20 (check_sees_row_iff): exactly the rows whose cells were all accepted and
   that no earlier-declared check rejected.  With two row-rejecting checks a row vetoed by the second one has
   already been registered by the first (that is the call protocol): *)
Example two_unique_checks_example :
  let c := mkcid false None 0 [mkfield (txt "a") false None HText; mkfield (txt "b") false None HText] [KUnique [0%nat]; KUnique [1%nat]] in
  let '(_, outs, _, _) := reader_rows c MYield None [] [[txt "1"; txt "x"]; [txt "2"; txt "x"]; [txt "2"; txt "y"]] false in
  map is_row outs = [true; false; false].
Proof. vm_compute. reflexivity. Qed.
