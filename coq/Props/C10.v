(* C10 - CID and data problems surface as cutplace errors, never as internal failures. Property theorems only.
   The models mirror the code's try/except structure and its input dependent assertions: an exception that is
   neither an InterfaceError nor a DataError is the outcome "Leak" of a model function.  These theorems say that no
   input reaches such an outcome. *)
From CP Require Import Model.Base Generated.Consts Generated.ExitCodes Model.Ranges Model.Lex Model.RangeParse Model.Dec Model.DecRange
  Model.DataFormat Model.Fields Model.FieldTypes Model.Cid Model.Validio Model.Cli Model.Ods Proofs.NoLeakProofs.
Local Open Scope Z_scope.

(* loading a CID - any rows, any cell contents - ends in an interface or an error that is an InterfaceError *)
Theorem cid_read_never_leaks : forall e rows, cid_read e rows <> CidLeak.
Proof. exact cid_read_no_leak. Qed.
Theorem cid_row_never_leaks : forall e s row, row_step e s row <> RLeak.
Proof. exact row_step_no_leak. Qed.
(* its ingredients: range descriptions, decimal ranges, data format properties, field declarations *)
Theorem range_never_leaks : forall d, range_of_text d <> PLeak.
Proof. exact range_of_text_no_leak. Qed.
Theorem decimal_range_never_leaks : forall d, decrange_of_text d <> DLeak.
Proof. exact decrange_of_text_no_leak. Qed.
Theorem data_format_property_never_leaks : forall d n v k, set_property d n v k <> SetLeak.
Proof. exact set_property_no_leak. Qed.
Theorem field_declaration_never_leaks : forall d, declare d <> DeclLeak.
Proof. exact declare_no_leak. Qed.

(* validating any cell with any declared field: a value or a FieldValueError *)
Theorem field_validation_never_leaks : forall d h cell, declare d = DeclOk h -> h cell <> HLeak.
Proof. exact hooks_no_leak. Qed.

(* a broken ODS container (not a zip, no content.xml, malformed XML, missing sheet, bad repeat count) ends reading with a
   data format error: the outcome type of the model has no other failure *)
Theorem ods_failures_are_data_format_errors : forall c k, match ods_rows c k with ORows _ _ => True | OOut => True end.
Proof. intros c k. destruct (ods_rows c k); exact I. Qed.

(* the command line: for every CID status and every list of data file outcomes the exit code is 0, 1, 2 or 3 -
   never 4 (the except -> exit code table is regenerated from applications.main on every run) *)
Theorem exit_code_is_never_4 : forall args cs files, In (exit_code args cs files) [0; 1; 2; 3].
Proof. exact exit_code_never_4. Qed.
