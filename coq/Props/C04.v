(* C04 - A row is accepted iff all cells and row checks pass; errors name the culprit.
   Property theorems only; CS is the state type of arbitrary (also user-defined) checks. *)
From Coq Require Import String.
From CP Require Import Model.Base Model.Ranges Model.Fields Model.Validio Model.ValidioInst Spec.ValidioSpec Proofs.ValidioProofs.
From CP Require Import Model.Location Proofs.LocationProofs Generated.LocationOps Proofs.LocationGen.

(* accepted <-> right number of items, every item accepted by the field in its position, every row check passes *)
Theorem row_accept_iff : forall (CS : Type) (c : cid CS) sts l row,
  snd (fst (fst (validate_row c sts l row))) = None <->
  length row = length (c_fields c) /\ Forall2 (cell_ok (c_fmt c)) (c_fields c) row /\
  checks_pass row (set_cell l 0) (c_checks c) sts.
Proof. intros CS. exact validate_row_accept_iff. Qed.

(* a rejection is located in the row being validated; it names the first offending column and its field,
   column 1 for a wrong item count (cursor untouched) and for a failed row check *)
Theorem row_error_names_culprit : forall (CS : Type) (c : cid CS) sts l row sts' e l' evs,
  validate_row c sts l row = (sts', Some e, l', evs) ->
  l_line (e_loc e) = l_line l /\ l' = e_loc e /\
  ((length row <> length (c_fields c) /\ e_family e = FData /\ e_loc e = l /\ e_field e = None /\ sts' = sts /\ evs = [])
   \/ (length row = length (c_fields c) /\ sts' = sts /\
       exists i, first_bad (c_fmt c) (c_fields c) row i /\ e_family e = FFieldValue /\ e_loc e = set_cell l i /\ e_field e = Some i)
   \/ (length row = length (c_fields c) /\ Forall2 (cell_ok (c_fmt c)) (c_fields c) row /\
       ~ checks_pass row (set_cell l 0) (c_checks c) sts /\
       e_family e = FCheck /\ e_loc e = set_cell l 0 /\ e_field e = None)).
Proof. intros CS. exact validate_row_error. Qed.

(* reading in 'yield' mode judges the k-th raw row (header rows counted) at location (row k, first cell),
   for tables of any length: the reader's cursor never drifts *)
Theorem reader_row_numbers : forall (CS : Type) (c : cid CS) limit sts_in raws fault sf outs r evs,
  reader_rows c MYield limit sts_in raws fault = (sf, outs, r, evs) ->
  outs = yield_spec c limit 1 (resets (c_checks c)) raws.
Proof. intros CS c limit sts_in raws fault sf outs r evs H. exact (proj1 (reader_yield c limit sts_in raws fault sf outs r evs H)). Qed.

(* how the location reaches the reader of a message: the text printed for a location in tabular data ends in
   R<row>C<column>, both counted from 1, whatever path, sheet and history the location object has; they can be read
   back from the end of the text *)
Theorem error_text_names_row_and_column : forall l : location, lo_has_cell l = true -> lo_has_column l = false ->
  rc_of_text (loc_text l) = Some (Z.of_nat (lo_line l) + 1, Z.of_nat (lo_cell l) + 1)%Z.
Proof. exact loc_text_names_row_and_cell. Qed.
(* the two together: the message of a rejected row - its location printed as the Reader prints it, for a source named
   [path] - ends in R<n>C<k> where n is the number of the row being validated (the reader's cursor, 1-based in the
   text) and k the first offending column, 1 for a wrong item count and for a failed row check *)
Definition printed (path : text) (l : loc) : text :=
  loc_text {| lo_path := path; lo_line := l_line l; lo_column := 0; lo_cell := l_cell l; lo_sheet := 0;
              lo_has_column := false; lo_has_cell := true; lo_has_sheet := false |}.
Theorem rejection_text_names_row_and_first_offending_column : forall (CS : Type) (c : cid CS) path sts l row sts' e l' evs,
  validate_row c sts l row = (sts', Some e, l', evs) ->
  exists k, rc_of_text (printed path (e_loc e)) = Some (Z.of_nat (l_line l) + 1, Z.of_nat k + 1)%Z /\
    ((e_family e = FFieldValue /\ first_bad (c_fmt c) (c_fields c) row k /\ e_field e = Some k)
     \/ (e_family e <> FFieldValue /\ (k = 0%nat \/ (e_family e = FData /\ k = l_cell l)))).
Proof.
  intros CS c path sts l row sts' e l' evs H.
  destruct (row_error_names_culprit CS c sts l row sts' e l' evs H) as [Hline [_ Hcases]].
  exists (l_cell (e_loc e)). split.
  - unfold printed. rewrite error_text_names_row_and_column by reflexivity. cbn. rewrite Hline. reflexivity.
  - destruct Hcases as [[_ [Hf [Hl _]]] | [[_ [_ [i [Hb [Hf [Hl Hfield]]]]]] | [_ [_ [_ [Hf [Hl _]]]]]]].
    + right. split; [rewrite Hf; discriminate|]. right. split; [exact Hf|]. rewrite Hl. reflexivity.
    + left. rewrite Hl. cbn [l_cell set_cell]. split; [exact Hf|]. split; [exact Hb|exact Hfield].
    + right. split; [rewrite Hf; discriminate|]. left. rewrite Hl. reflexivity.
Qed.

(* the location model is the source: the operations on the counters and the printed text, as the translator regenerates
   them from cutplace/errors.py (class Location) on every run, are the functions the theorems above speak about; so the
   text of the source as it is now names row and column *)
Theorem location_model_is_what_the_source_says :
  (forall l o, lstep l o = g_lstep l o) /\ (forall l, loc_text l = g_str l)
  /\ g_advance_column_default_amount = 1%nat /\ g_advance_cell_default_amount = 1%nat /\ g_advance_line_default_amount = 1%nat.
Proof. split; [exact lstep_generated|]. split; [exact loc_text_generated|]. exact defaults_generated. Qed.
Theorem source_text_names_row_and_column : forall l : location, lo_has_cell l = true -> lo_has_column l = false ->
  rc_of_text (g_str l) = Some (Z.of_nat (lo_line l) + 1, Z.of_nat (lo_cell l) + 1)%Z.
Proof. intros l H1 H2. rewrite <- loc_text_generated. exact (loc_text_names_row_and_cell l H1 H2). Qed.

Example location_text_example :
  option_map loc_text (lsteps (new_location (txt "some/dir/data (R9C9).csv") false true false) [LAdvLine 1; LAdvLine 1; LSetCell 4])
  = Some (txt "data (R9C9).csv (R3C5)")
  /\ option_map loc_text (lsteps (new_location (txt "x.ods") false true true) [LAdvSheet; LAdvLine 10; LAdvCell 2]) = Some (txt "x.ods (Sheet2!R11C3)")
  /\ lsteps (new_location (txt "x.ods") false true true) [LAdvLine 0] = None.
Proof. repeat split; vm_compute; reflexivity. Qed.

(* non-vacuity: header 1, second data row has a bad second cell -> error at row 3 (index 2), column 2 (index 1) *)
Example culprit_example :
  let c := mkcid false None 1 [mkfield (txt "a") false None HText; mkfield (txt "b") false None (HChoice [txt "x"])] [] in
  let '(_, outs, _, _) := reader_rows c MYield None [] [[txt "h"]; [txt "1"; txt "x"]; [txt "2"; txt "y"]] false in
  outs = [ORow [txt "1"; txt "x"];
          OErr {| e_family := FFieldValue; e_loc := {| l_line := 2; l_cell := 1 |}; e_field := Some 1; e_see_also := None |}].
Proof. vm_compute. reflexivity. Qed.
