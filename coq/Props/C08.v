(* C08 - Validation outcomes do not depend on what the CID was used for before. Property theorems only.
   CS is arbitrary: the statements cover user-defined checks as well as IsUnique / DistinctCount. *)
From Coq Require Import String.
From CP Require Import Model.Base Model.Ranges Model.Fields Model.Validio Model.ValidioInst Model.History Proofs.HistoryProofs.

(* whatever history h of reads and writes (completed, failed, abandoned, never closed) preceded it on the same
   CID object, an operation has the outcome it has on a freshly loaded CID; h is of any length *)
Theorem history_independent : forall (CS : Type) (c : cid CS) (h : list (op)) (o : op) (sts fresh : list CS),
  snd (exec c (history_state c sts h) o) = snd (exec c fresh o).
Proof. intros CS. exact history_independent_lemma. Qed.

(* the outcomes of a whole history are the outcomes of its operations, each on a fresh CID *)
Theorem history_is_pointwise_fresh : forall (CS : Type) (c : cid CS) (fresh : list CS) (h : list op) (sts : list CS),
  run_history c sts h = map (fun o => snd (exec c fresh o)) h.
Proof. intros CS. exact run_history_fresh. Qed.

(* non-vacuity: reading a,b and then writing a: the write is accepted although 'a' was seen by the read *)
Example history_example :
  let c := mkcid false None 0 [mkfield (txt "k") false None HText] [KUnique [0%nat]] in
  map (fun oc => (oc_raised oc, oc_writes oc))
      (run_history c (resets (c_checks c)) [OpRows MRaise None [[txt "a"]; [txt "b"]] false; OpWrite [[txt "a"]; [txt "a"]] true])
  = [(None, []); (None, [None; Some {| e_family := FCheck; e_loc := {| l_line := 1; l_cell := 0 |}; e_field := None;
                                       e_see_also := Some {| l_line := 0; l_cell := 0 |} |}])].
Proof. vm_compute. reflexivity. Qed.
