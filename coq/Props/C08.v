(* C08 - Validation outcomes do not depend on what the CID was used for before. Property theorems only.
   CS is arbitrary: the statements cover user-defined checks as well as IsUnique / DistinctCount. *)
From Coq Require Import String.
From CP Require Import Model.Base Model.Ranges Model.Fields Model.Validio Model.ValidioInst Model.History Proofs.HistoryProofs.

(* whatever history h of reads and writes (completed, failed, abandoned, never closed) preceded it on the same
   CID object, an operation has the outcome it has on a freshly loaded CID; h is of any length *)
Theorem history_independent : forall (CS : Type) (c : cid CS) (h : list (op)) (o : op) (sts fresh : list CS),
  snd (exec c (history_state c sts h) o) = snd (exec c fresh o).
Proof. intros CS. exact history_independent_lemma. Qed.

(* the outcomes of a whole history are the outcomes of its operations, each on a fresh CID *)
Theorem history_is_pointwise_fresh : forall (CS : Type) (c : cid CS) (fresh : list CS) (h : list op) (sts : list CS),
  run_history c sts h = map (fun o => snd (exec c fresh o)) h.
Proof. intros CS. exact run_history_fresh. Qed.

(* An earlier run that was left unfinished (a suspended rows() generator, an open Writer) and is finalized only in the
   middle of a later run - after any number j of its outputs - does not disturb the later run: its outcome is that of
   the same run alone, for every CID whose checks keep their state in cleanup() ... *)
Theorem late_finalisation_harmless : forall (CS : Type) (c : cid CS),
  (forall ck st, In ck (c_checks c) -> ck_clean ck st = st) ->
  forall sts first m limit raws fault j,
  snd (exec c sts (OpLate first m limit raws fault j)) = snd (exec c sts (OpRows m limit raws fault)).
Proof. intros CS. exact late_finalisation_harmless_lemma. Qed.
(* ... which every built-in check does (IsUnique, DistinctCount; cleanup() is inherited from AbstractCheck) *)
Theorem late_finalisation_harmless_builtin : forall fixed allowed header fs (ks : list ckind) sts first m limit raws fault j,
  let c := mkcid fixed allowed header fs ks in
  snd (exec c sts (OpLate first m limit raws fault j)) = snd (exec c sts (OpRows m limit raws fault)).
Proof.
  intros fixed allowed header fs ks sts first m limit raws fault j c. apply late_finalisation_harmless_lemma.
  intros ck st Hin. unfold c, mkcid in Hin. cbn [c_checks] in Hin. apply in_map_iff in Hin as [k [<- _]].
  destruct k; reflexivity.
Qed.
(* a Reader used without `with` whose pass cannot even start (broken container, missing sheet), closed by hand: nothing is
   returned, the error is raised, and close() judges the end checks on freshly reset states - never on what an earlier
   run left in the CID *)
Theorem failed_pass_is_a_run_of_its_own : forall (CS : Type) (c : cid CS) m limit sts,
  let oc := snd (exec c sts (OpByHand m limit [] true)) in
  oc_outs oc = [] /\ (exists e, oc_raised oc = Some e) /\
  oc_writes oc = [snd (fst (close c (resets (c_checks c)) (rs_loc (start c))))].
Proof. intros CS. exact failed_pass_lemma. Qed.

(* the hypothesis is needed: with a check that forgets its keys in cleanup(), finalizing an abandoned reader after the
   first row of the next run lets a duplicate through *)
Example late_finalisation_matters_when_cleanup_forgets :
  let forgetful := {| ck_reset := ck_reset (check_of (KUnique [0%nat])); ck_row := ck_row (check_of (KUnique [0%nat]));
                      ck_end := ck_end (check_of (KUnique [0%nat])); ck_clean := fun _ => SUnique [] |} in
  let c := {| c_fmt := c_fmt (mkcid false None 0 [] []); c_header := 0; c_fields := [mkfield (txt "k") false None HText];
              c_checks := [forgetful] |} in
  let data := [[txt "a"]; [txt "a"]] in
  map (@oc_raised) [snd (exec c [] (OpLate (LFRead MRaise None data 1) MRaise None data false 1));
                    snd (exec c [] (OpRows MRaise None data false))]
  = [None; Some {| e_family := FCheck; e_loc := {| l_line := 1; l_cell := 0 |}; e_field := None;
                   e_see_also := Some {| l_line := 0; l_cell := 0 |} |}].
Proof. vm_compute. reflexivity. Qed.

(* non-vacuity: reading a,b and then writing a: the write is accepted although 'a' was seen by the read *)
Example history_example :
  let c := mkcid false None 0 [mkfield (txt "k") false None HText] [KUnique [0%nat]] in
  map (fun oc => (oc_raised oc, oc_writes oc))
      (run_history c (resets (c_checks c)) [OpRows MRaise None [[txt "a"]; [txt "b"]] false; OpWrite [[txt "a"]; [txt "a"]] true])
  = [(None, []); (None, [None; Some {| e_family := FCheck; e_loc := {| l_line := 1; l_cell := 0 |}; e_field := None;
                                       e_see_also := Some {| l_line := 0; l_cell := 0 |} |}])].
Proof. vm_compute. reflexivity. Qed.
