(* C11 - Data-format properties mean what the CID says; contradictions are refused. Property theorems only.
   The attribute table (which property exists for which format, with which default), the value tables and the
   check_distinct pairs are regenerated from cutplace/data.py on every run. *)
From Coq Require Import String.
From CP Require Import Model.Base Generated.Consts Generated.FormatTable Model.Ranges Model.Lex Model.RangeParse
  Model.DataFormat Spec.FieldSpec Proofs.DataFormatProofs Proofs.SpellingProofs.
Local Open Scope Z_scope.

(* the documented value sets, written out; compared with the tables read from the source *)
Theorem value_sets :
  VALID_QUOTE_CHARACTERS = map (fun c => [c]) [33; 34; 35; 36; 37; 38; 39; 42; 43; 45; 47; 58; 59; 61; 63; 92; 94; 95; 96; 126]%N /\
  VALID_ESCAPE_CHARACTERS = [txt """"; txt "\"] /\
  VALID_DECIMAL_SEPARATORS = [txt "."; txt ","] /\
  VALID_THOUSANDS_SEPARATORS = [txt ","; txt "."; []] /\
  VALID_QUOTING = [txt "all"; txt "minimal"] /\
  VALID_FORMATS = [txt "delimited"; txt "excel"; txt "fixed"; txt "ods"] /\
  LINE_DELIMITER_TEXTS = [(txt "any", Some (txt "any")); (txt "cr", Some [13%N]); (txt "crlf", Some [13; 10]%N);
                          (txt "lf", Some [10%N]); (txt "none", None)] /\
  name_to_code = [(txt "cr", 13); (txt "ff", 12); (txt "lf", 10); (txt "tab", 9); (txt "vt", 11)].
Proof. repeat split; reflexivity. Qed.

(* which properties apply to which format *)
Theorem applicability_matrix :
  map (fun f => (f, defined_settable f)) VALID_FORMATS =
  [(txt "delimited", map txt ["encoding"; "header"; "allowed_characters"; "decimal_separator"; "escape_character"; "quote_character";
                              "thousands_separator"; "item_delimiter"; "line_delimiter"; "quoting"; "skip_initial_space"]%string);
   (txt "excel", map txt ["encoding"; "header"; "sheet"; "allowed_characters"]%string);
   (txt "fixed", map txt ["encoding"; "header"; "allowed_characters"; "decimal_separator"; "thousands_separator"; "line_delimiter"]%string);
   (txt "ods", map txt ["encoding"; "header"; "sheet"; "allowed_characters"]%string)].
Proof. vm_compute. reflexivity. Qed.

(* a property that does not apply to the chosen format (or is no property at all) is refused, whatever its value *)
Theorem not_applicable_is_refused : forall fmt d name value known,
  new_format fmt = Some d -> ~ In (replace_blanks name) (defined_settable fmt) ->
  set_property d name value known = SetInterface.
Proof. exact not_applicable_refused. Qed.

(* Header is a non-negative, Sheet a positive integer literal *)
Theorem header_non_negative : forall d value known, py_int_domain value = true -> get_attr (df_attrs d) KEY_HEADER <> None ->
  (exists d', set_property d KEY_HEADER value known = SetOk d') <-> exists z, py_int value = Some z /\ 0 <= z.
Proof. exact header_iff. Qed.
Theorem sheet_positive : forall d value known, py_int_domain value = true -> get_attr (df_attrs d) KEY_SHEET <> None ->
  (exists d', set_property d KEY_SHEET value known = SetOk d') <-> exists z, py_int value = Some z /\ 1 <= z.
Proof. exact sheet_iff. Qed.

(* completing a delimited CID refuses exactly the contradictory settings: equal decimal and thousands separators,
   item delimiter equal to the quote character, the escape character or (part of) a line break / the line delimiter *)
Theorem contradictions_iff : forall dl q e ld ds ts,
  validate_ok FORMAT_DELIMITED (delimited_attrs dl q e ld ds ts) = true <->
  (ds <> ts /\ (ld <> None -> Some [e] <> ld) /\ e <> dl /\ Some [dl] <> ld /\ dl <> q /\ ld <> Some [q] /\ dl <> LF /\ dl <> CR).
Proof. exact contradictions_iff_lemma. Qed.
(* ... of which the two conditions on escape / quote character versus line delimiter can never be violated *)
Theorem never_fire : forall q e ld,
  In [q] VALID_QUOTE_CHARACTERS -> In [e] VALID_ESCAPE_CHARACTERS -> In ld (map snd LINE_DELIMITER_TEXTS) ->
  Some [e] <> ld /\ ld <> Some [q].
Proof. exact never_fire_lemma. Qed.

(* unset properties take their documented defaults *)
Theorem defaults :
  (forall f, In f VALID_FORMATS -> exists d, new_format f = Some d /\ get_attr (df_attrs d) KEY_HEADER = Some (AInt 0)) /\
  (forall f, In f [FORMAT_EXCEL; FORMAT_ODS] -> exists d, new_format f = Some d /\ get_attr (df_attrs d) KEY_SHEET = Some (AInt 1)) /\
  (forall f, In f [FORMAT_DELIMITED; FORMAT_FIXED] -> exists d, new_format f = Some d /\
     get_attr (df_attrs d) KEY_DECIMAL_SEPARATOR = Some (AText (Some (txt "."))) /\
     get_attr (df_attrs d) KEY_THOUSANDS_SEPARATOR = Some (AText (Some []))).
Proof.
  repeat split; intros f Hin; cbn in Hin;
  repeat (destruct Hin as [<-|Hin]; [eexists; repeat split; vm_compute; reflexivity|]); contradiction.
Qed.

(* spellings: the model's reading of an item delimiter given by code, quoted, escaped or by name *)
Example spellings_example :
  map validated_character [txt ";"; txt "59"; txt "0x3b"; txt "';'"; txt """;"""; txt "'\x3b'"; txt "tab"; txt "TAB"; txt "9"; txt "'\t'"]
  = [ChOk 59; ChOk 59; ChOk 59; ChOk 59; ChOk 59; ChOk 59; ChOk 9; ChOk 9; ChOk 9; ChOk 9]%N.
Proof. vm_compute. reflexivity. Qed.

(* spellings of a character: a code point written as its decimal number, and a character written as itself, denote that
   code point (for every code point; through the tokenizer model) - hence set the same item delimiter. The other spellings
   (hex, quoted, symbolic names) are compared by correspondence for every code point of a pool. *)
Theorem decimal_code_denotes_code_point : forall n, 0 <= n <= 1114111 -> validated_character (nat_text n) = ChOk (Z.to_N n).
Proof. exact decimal_code_spelling. Qed.
Theorem character_denotes_itself : forall c, is_digit c = false -> validated_character [c] = ChOk c \/ strip [c] = [].
Proof. exact literal_character_spelling. Qed.
Theorem item_delimiter_decimal_and_literal_agree : forall d c known, is_digit c = false -> strip [c] <> [] -> c <> 0%N -> (Z.of_N c) <= 1114111 ->
  set_property d KEY_ITEM_DELIMITER (nat_text (Z.of_N c)) known = set_property d KEY_ITEM_DELIMITER [c] known.
Proof. exact item_delimiter_spellings_agree. Qed.
