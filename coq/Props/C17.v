(* C17 - The storage format of CID and data does not change the verdict. Property theorems only. *)
From Coq Require Import String.
From CP Require Import Model.Base Generated.Consts Model.Ranges Model.Lex Model.RangeParse Model.DataFormat Model.Fields
  Model.FieldTypes Model.Cid Proofs.CidProofs Proofs.StorageProofs Props.C09.

(* The three readers hand the same logical CID to Cid.read in forms that differ only by padding: CSV rows are ragged,
   sheets deliver every row padded with empty cells to the sheet's width and possibly further empty rows.
   Any padding of any row leaves the result - interface or rejection and the row it names - unchanged ... *)
Theorem cid_storage_padding_irrelevant : forall e rows (pads : list nat), length pads = length rows ->
  cid_read e (map (fun p => pad_cells (fst p) (snd p)) (combine pads rows)) = cid_read e rows.
Proof. exact cid_padding_irrelevant. Qed.
(* ... and trailing rows of empty cells leave the accepted interface unchanged *)
Theorem cid_storage_trailing_rows_irrelevant : forall e rows (blanks : list nat),
  outcome (cid_read e (rows ++ map blank_row blanks)) = outcome (cid_read e rows).
Proof. exact cid_trailing_blank_rows_irrelevant. Qed.

(* For every field declaration (type, empty flag, length, rule) and every cell the type's verdict and returned value
   are the same under delimited (default separators), ods and excel - except for the documented Excel rule: a
   date-only DateTime field under Excel ignores a trailing " 00:00:00". *)
Theorem field_verdict_independent_of_storage_format : forall d k1 k2, not_fixed k1 -> not_fixed k2 -> fd_df d = default_decfmt ->
  hooks_agree (declare (with_kind k1 d)) (declare (with_kind k2 d))
    (fun cell => fd_type d <> TDateTime \/ (k1 <> KExcel /\ k2 <> KExcel) \/ suffix_b NO_EXCEL_TIME cell = false
                 \/ has_any STRPTIME_TIME_DIRECTIVES (strptime_format (fd_rule d)) = true).
Proof. exact verdict_independent_of_storage_format. Qed.
Theorem guards_independent_of_storage : forall allowed f cell e1 e2,
  validated {| df_fixed := false; df_excel := e1; df_allowed := allowed |} f cell
  = validated {| df_fixed := false; df_excel := e2; df_allowed := allowed |} f cell.
Proof. exact guards_independent_of_storage_format. Qed.

(* the full statement "for every field type" is false of the code: the carved out case really differs
   (known finding C17/excel-date-only-suffix; the rule is documented behaviour for Excel date cells) *)
Theorem storage_independence_refuted_for_excel_dates :
  exists rule cell, datetime_hook KExcel rule cell <> datetime_hook KOds rule cell.
Proof. exact excel_date_suffix_changes_verdict. Qed.

Example c17_example :
  cid_read env0 (map (pad_cells 3) cid0 ++ [blank_row 7]) = cid_read env0 cid0
  /\ (forall k, In k [KDelimited; KOds; KExcel] ->
      match declare {| fd_type := TDecimal; fd_kind := k; fd_df := default_decfmt; fd_empty := false; fd_length := []; fd_rule := txt "0...10" |} with
      | DeclOk h => h (txt "2.50") = HOk (VDec (Model.Dec.mkdec (false, 250%N, (-2)%Z))) /\ h (txt "2,5") = HReject
      | _ => False end).
Proof. split; [vm_compute; reflexivity|]. intros k [<-|[<-|[<-|[]]]]; vm_compute; split; reflexivity. Qed.
