(* C18 - The command line's exit code reflects the validation outcome. Property theorems only.
   The except -> exit code table of main(), the results of process() and the --until mapping are regenerated
   from cutplace/applications.py on every run (Generated/ExitCodes.v). *)
From Coq Require Import Permutation String.
From CP Require Import Model.Base Model.Ranges Model.Fields Model.Validio Model.ValidioInst Model.Cli Proofs.CliProofs.
Local Open Scope Z_scope.

(* 2 for unusable arguments; 3 when the CID or a data file cannot be read; 1 when the CID or a file is rejected;
   0 otherwise; never 4 *)
Theorem exit_table : forall usable cs fs,
  exit_code usable cs fs =
  if negb usable then 2
  else match cs with
       | CidUnreadable => 3
       | CidRejected => 1
       | CidOk => if any_unreadable fs then 3 else if any_rejected fs then 1 else 0
       end.
Proof. exact exit_table_lemma. Qed.

Theorem exit_zero_iff : forall usable cs fs,
  exit_code usable cs fs = 0 <-> usable = true /\ cs = CidOk /\ Forall (fun f => f = FileAccepted) fs.
Proof.
  intros usable cs fs. rewrite exit_table. split.
  - destruct usable; cbn [negb]; [|discriminate]. destruct cs; try discriminate.
    destruct (any_unreadable fs) eqn:U; [discriminate|]. destruct (any_rejected fs) eqn:R; [discriminate|].
    intros _. repeat split. apply Forall_forall. intros f Hin.
    destruct f; [reflexivity| |].
    + exfalso. unfold any_rejected in R. assert (existsb (fun f => match f with FileRejected => true | _ => false end) fs = true)
        by (apply existsb_exists; exists FileRejected; auto). congruence.
    + exfalso. unfold any_unreadable in U. assert (existsb (fun f => match f with FileUnreadable => true | _ => false end) fs = true)
        by (apply existsb_exists; exists FileUnreadable; auto). congruence.
  - intros [-> [-> F]]. cbn [negb].
    assert (any_unreadable fs = false /\ any_rejected fs = false) as [-> ->]; [|reflexivity].
    induction F as [|f t -> F IH]; cbn; auto.
Qed.

Theorem exit_never_4 : forall usable cs fs, exit_code usable cs fs <> 4.
Proof.
  intros usable cs fs. rewrite exit_table. destruct usable, cs; cbn; try discriminate.
  destruct (any_unreadable fs); [discriminate|]. destruct (any_rejected fs); discriminate.
Qed.

(* the order of the data files does not matter *)
Theorem exit_order_independent : forall usable cs fs fs',
  Permutation fs fs' -> exit_code usable cs fs = exit_code usable cs fs'.
Proof. exact exit_order_lemma. Qed.

(* each file is judged independently of the other files: as by the API on a freshly loaded CID *)
Theorem files_judged_independently : forall (CS : Type) (c : cid CS) limit fresh fs sts,
  validate_files c limit sts fs = map (fun f => fst (validate_file c limit fresh f)) fs.
Proof. intros CS. exact validate_files_pointwise. Qed.

(* a data file without any rows is judged like any other: a CID whose end check needs two distinct values rejects it
   (exit 1), also next to an accepted file and in either order; a file that cannot be read still decides for 3 *)
Example empty_file_is_judged :
  let c := mkcid false None 0 [mkfield (txt "k"%string) false None HText] [KDistinct 0 CGe 2] in
  let good := Readable [[txt "a"%string]; [txt "b"%string]] false in
  let empty := Readable [] false in
  run_cli None CidOk c [empty] = 1%Z /\ run_cli None CidOk c [good] = 0%Z /\
  run_cli None CidOk c [good; empty] = 1%Z /\ run_cli None CidOk c [empty; good] = 1%Z /\
  run_cli (Some 0%Z) CidOk c [empty; Unreadable] = 3%Z.
Proof. vm_compute. repeat split; reflexivity. Qed.
