(* C13 - Fixed-width reading is lossless and aligned.  Property theorems only. *)
From CP Require Import Model.Base Model.Fixed Spec.FixedSpec Proofs.FixedProofs.

(* A run that ends without DataFormatError returned rows that are aligned (every item has its
   declared width) and whose concatenation, interleaved with permitted delimiters (the last one
   optional), is exactly the input: nothing was dropped, padded or repaired. *)
Theorem fixed_sound : forall d ws s rows,
  Forall (fun w => 1 <= w) ws -> ws <> [] ->
  fixed_rows d ws s = Some (rows, true) -> well_formed d ws s rows.
Proof. exact fixed_sound_lemma. Qed.
