(* C13 - Fixed-width reading is lossless and aligned.  Property theorems only. *)
From Coq Require Import String.
From CP Require Import Model.Base Model.Fixed Spec.FixedSpec Proofs.FixedProofs Proofs.FixedComplete.

(* A run that ends without DataFormatError returned rows that are aligned (every item has its
   declared width) and whose concatenation, interleaved with permitted delimiters (the last one
   optional), is exactly the input: nothing was dropped, padded or repaired. *)
Theorem fixed_sound : forall d ws s rows,
  Forall (fun w => 1 <= w) ws -> ws <> [] ->
  fixed_rows d ws s = Some (rows, true) -> well_formed d ws s rows.
Proof. exact fixed_sound_lemma. Qed.

(* Conversely: every well-formed file - records of the declared widths, each followed by a delimiter the setting
   permits (the last one optional; under "any" a bare CR is not followed by a record starting with LF, which would be
   CR LF) - is read back as exactly the records it holds, complete, in order and without an error. Together with
   fixed_sound: reading is lossless. *)
Theorem fixed_complete : forall d ws rd, Forall (fun w => 1 <= w) ws -> ws <> [] ->
  Forall (row_ok ws) (map fst rd) -> delims_ok d rd -> (d = LdAny -> greedy rd) ->
  fixed_rows d ws (render rd) = Some (map fst rd, true).
Proof. exact fixed_complete_lemma. Qed.

Example fixed_example :
  fixed_rows LdAny [2; 3]%nat (txt "ab123" ++ [CR] ++ txt "cd456" ++ [CR; LF] ++ txt "ef789" ++ [LF] ++ txt "gh000")
  = Some ([[txt "ab"; txt "123"]; [txt "cd"; txt "456"]; [txt "ef"; txt "789"]; [txt "gh"; txt "000"]], true)
  /\ fixed_rows LdLF [2; 3]%nat (txt "ab123" ++ [LF] ++ txt "cd4") = Some ([[txt "ab"; txt "123"]], false)
  /\ fixed_rows LdNone [1]%nat (txt "xyz") = Some ([[txt "x"]; [txt "y"]; [txt "z"]], true).
Proof. repeat split; vm_compute; reflexivity. Qed.
