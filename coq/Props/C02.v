(* C02 - Each field type accepts exactly the values its rule describes. Property theorems only.
   The statements are about the executable models of the type specific validated_value functions
   (Model/FieldTypes.v); the front ends they rest on (int(), Decimal(), strptime, re) are models validated against the
   real libraries by the correspondence on every run. *)
From Coq Require Import String.
From CP Require Import Model.Base Generated.Consts Model.Ranges Model.Lex Model.RangeParse Model.Dec Model.DecRange
  Model.FieldTypes Spec.FieldSpec Proofs.IntProofs Proofs.RegexProofs Proofs.FieldTypesProofs Proofs.DateTimeProofs Proofs.DateTimeComplete.
Local Open Scope Z_scope.

(* ---------- Integer *)
(* accepted iff the cell is an integer literal whose value lies inside the valid range; the value is returned *)
Theorem integer_accept_iff : forall r cell v,
  integer_hook r cell = HOk v <-> exists z, py_int cell = IOk z /\ range_validate r z = true /\ v = VInt z.
Proof. exact integer_hook_iff. Qed.

(* the literal reader returns what the text denotes: the decimal text of every integer reads back as that integer *)
Theorem int_literal_denotes : forall v, py_int (int_text v) = IOk v.
Proof. exact py_int_int_text. Qed.

(* with only a length given: exactly the integers whose text fits the length.  For every well-formed length range
   (any number of items, open or closed) and EVERY integer v: v is inside the derived range iff the number of
   characters of str(v) is inside the length; a length with an unlimited item gives the unlimited range. *)
Theorem int_from_length_iff : forall its v, its <> [] -> Forall length_item_wf its ->
  match range_from_length (Some its) with
  | LItems parts => range_validate (Some parts) v = range_validate (Some its) (length_of_int v)
  | LAll => range_validate (Some its) (length_of_int v) = true
  | LRangeError => False
  end.
Proof. exact range_from_length_spec. Qed.
Theorem length_of_int_is_text_length : forall v, Z.of_nat (length (int_text v)) = length_of_int v.
Proof. exact int_text_length. Qed.

(* with neither length nor rule: the signed 32 bit range (bounds parsed from the text in the source) *)
Theorem int_default_is_32_bit : forall k,
  integer_valid_range k [] [] None = DeclOk (Some [(Some (- 2 ^ 31), Some (2 ^ 31 - 1))]).
Proof. exact integer_default. Qed.

(* ---------- Decimal *)
(* accepted iff the separator loop yields a text Decimal() reads as a finite number inside the rule's range *)
Theorem decimal_accept_iff : forall f r cell d,
  decimal_hook f r cell = HOk (VDec d) <->
  exists t, translate_decimal f cell false = Some t /\ py_decimal t = DpOk (DFin d) /\ decrange_validate r d = true.
Proof. exact decimal_hook_iff. Qed.

(* a number written with the data format's separators - integer part in groups joined by the thousands separator,
   then the decimal separator and the fraction - is read as the plain number "digits.digits" *)
Theorem decimal_separators_honoured : forall d t, d <> t -> forall groups fp, Forall (free d t) groups -> free d t fp ->
  translate_decimal {| dsep := [d]; tsep := [t] |} (join t groups ++ d :: fp) false = Some (concat groups ++ DOT :: fp)
  /\ translate_decimal {| dsep := [d]; tsep := [t] |} (join t groups) false = Some (concat groups).
Proof. exact decimal_written. Qed.
(* ... and neither separator may follow the decimal separator *)
Theorem decimal_separator_after_decimal_rejected : forall d t a b, In d b \/ In t b ->
  translate_decimal {| dsep := [d]; tsep := [t] |} (a ++ d :: b) false = None.
Proof. exact separator_after_decimal_rejected. Qed.
(* the plain text denotes coefficient and exponent *)
Theorem decimal_literal_denotes : forall neg ip fp, forallb is_digit ip = true -> forallb is_digit fp = true -> ip ++ fp <> [] ->
  dec_finite neg (ip ++ DOT :: fp) = DpOk (DFin {| d_neg := neg; d_coef := digits_val (ip ++ fp) 0; d_exp := - Z.of_nat (length fp) |})
  /\ (ip <> [] -> dec_finite neg ip = DpOk (DFin {| d_neg := neg; d_coef := digits_val ip 0; d_exp := 0 |})).
Proof. exact dec_finite_plain. Qed.

(* ---------- Choice / Constant / Text *)
Theorem choice_accept_iff : forall choices cell v, choice_hook choices cell = HOk v <-> In cell choices /\ v = VStr cell.
Proof. exact choice_hook_iff. Qed.
Theorem constant_accept_iff : forall c cell v, constant_hook c cell = HOk v <-> cell = c /\ v = VStr cell.
Proof. exact constant_hook_iff. Qed.

(* ---------- DateTime *)
(* whatever is accepted is a real time of day and a real calendar date (leap years included); a layout without a
   year reports 1900 and also admits the 29th of February *)
Theorem datetime_accepts_only_real_dates : forall fmt data y m d hh mm ss,
  strptime fmt data = Some (VTime y m d hh mm ss) ->
  real_time hh mm ss /\
  (if year_given fmt then real_date y m d else y = 1900 /\ (real_date 1900 m d \/ (m = 2 /\ d = 29))).
Proof. exact strptime_sound. Qed.

(* the rule is translated item by item into the strptime format: for every layout made of the items DD MM YYYY YY
   hh mm ss, a literal %, and literal characters other than D M Y h m s % (two year items not touching), in any order
   and number - this is where "YYYY before YY" in the table read from the source matters *)
Theorem datetime_layout_translation : forall l, layout_ok l = true -> strptime_format (layout_text l) = layout_directives l.
Proof. exact translate_layout. Qed.

(* completeness for canonical writing: the strptime format of such a layout consists of exactly its items, and a value
   written item by item, zero padded (DD MM hh mm ss two digits, YYYY four, YY two), is segmented into exactly these
   items - whatever the order of the items and with or without separators between them - and accepted iff the date the
   items denote passes the calendar check (the seven finite item ranges are checked by evaluation and lifted) *)
Theorem datetime_format_items : forall l fuel, (2 * length l < fuel)%nat -> forallb lit_plain l = true ->
  parse_format fuel (layout_directives l) = Some (map fitem_of l).
Proof. exact parse_format_layout. Qed.
Theorem datetime_canonical_text_is_segmented : forall l v rest acc, forallb lit_plain l = true -> Forall (tok_in_range v) l ->
  sp_match (map fitem_of l) (layout_render l v ++ rest) acc = Some (acc ++ layout_groups l v, rest).
Proof. exact canonical_text_is_segmented. Qed.
Theorem datetime_canonical_accepted : forall l v, forallb lit_plain l = true -> Forall (tok_in_range v) l ->
  strptime (map fitem_of l) (layout_render l v) =
    let a := fold_left tm_step (layout_groups l v) tm0 in
    let check_year := match a_year a with Some y => y | None => if (a_month a =? 2) && (a_day a =? 29) then 1904 else 1900 end in
    if valid_date check_year (a_month a) (a_day a)
    then Some (VTime (match a_year a with Some y => y | None => 1900 end) (a_month a) (a_day a) (a_hour a) (a_min a) (a_sec a))
    else None.
Proof. exact strptime_canonical. Qed.

(* ---------- Pattern / RegEx *)
(* RegEx: accepted iff some prefix of the value (from its first character) is in the language of the expression *)
Theorem regex_accept_iff : forall r cell v, has_non_ascii_t cell = false ->
  (regex_hook r cell = HOk v <-> (exists p q, cell = p ++ q /\ matches (desugar r) p) /\ v = VStr cell).
Proof. exact regex_hook_iff. Qed.
(* Pattern: accepted iff the glob matches the entire value *)
Theorem pattern_accept_iff : forall g cell v, has_non_ascii_t cell = false ->
  (pattern_hook g cell = HOk v <-> gmatches g cell /\ v = VStr cell).
Proof. exact pattern_hook_iff. Qed.

(* ---------- non-vacuity: concrete declarations evaluated end to end by the model *)
Example c02_examples :
  (* length 2...3 maps to -99...-1, 10...999 *)
  range_from_length (Some [(Some 2, Some 3)]) = LItems [(Some (-99), Some (-1)); (Some 10, Some 999)]
  /\ map (decimal_hook {| dsep := [44%N]; tsep := [DOT] |} (Some [(Some (mkdec (false, 0%N, 0)), Some (mkdec (false, 2000%N, 0)))]))
         [txt "1.234,50"; txt "1,5.0"; txt "2000,01"]
     = [HOk (VDec (mkdec (false, 123450%N, -2))); HReject; HReject]
  /\ map (datetime_hook KDelimited (txt "DD.MM.YYYY")) [txt "29.02.2000"; txt "29.02.1900"; txt "31.04.2023"]
     = [HOk (VTime 2000 2 29 0 0 0); HReject; HReject]
  /\ strptime_format (txt "YYYY-MM-DD hh:mm:ss") = txt "%Y-%m-%d %H:%M:%S" /\ strptime_format (txt "MMmm") = txt "%m%M"
  /\ layout_ok [LYear4; LLit 45; LMonth; LLit 45; LDay; LLit 32; LHour; LMinute; LSecond; LPercent] = true
  /\ map (pattern_hook [GChr 97; GStar; GOne; GChr 122]) [txt "AxyZ"; txt "az"; txt "a.z"] = [HOk (VStr (txt "AxyZ")); HReject; HOk (VStr (txt "a.z"))].
Proof. repeat split; vm_compute; reflexivity. Qed.
