(* C09 - CIDs are accepted iff structurally sound; rejections name the offending row. Property theorems only.
   Model/Cid.v: Cid.read as a fold of row_step over the rows followed by the end-of-CID checks. *)
From Coq Require Import String.
From CP Require Import Model.Base Generated.Consts Model.Ranges Model.Lex Model.RangeParse Model.DataFormat Model.Fields
  Model.FieldTypes Model.Cid Proofs.CidProofs.

(* whatever CID is accepted is structurally sound: exactly one known data format whose settings are consistent,
   at least one field, field names unique and well formed (ASCII letter, then letters/digits/underscores, no Python
   keyword), checks with unique non-empty descriptions whose rules name declared fields only *)
Theorem accepted_cid_is_structurally_sound : forall e rows s, cid_read e rows = CidOk s ->
  (exists d, st_fmt s = Some d /\ In (df_format d) VALID_FORMATS /\ validate_format d = true)
  /\ st_fields s <> []
  /\ NoDup (map fs_name (st_fields s)) /\ Forall good_name (map fs_name (st_fields s))
  /\ NoDup (map ck_desc (st_checks s)) /\ Forall (fun c => ck_desc c <> []) (st_checks s)
  /\ Forall (fun c => ck_fields c <> [] /\ incl (ck_fields c) (map fs_name (st_fields s))) (st_checks s).
Proof. exact accepted_cid_is_sound. Qed.

(* every state reached while reading keeps these invariants (also: no check before the first field, no field or
   check before the format) *)
Theorem reading_preserves_invariants : forall e s row s', row_step e s row = ROk s' -> Inv s -> Inv s'.
Proof. exact row_step_preserves_inv. Qed.

(* a rejection names the offending row: all rows before it were processed without complaint and that row is the
   one refused; and conversely the first refused row is the one named *)
Theorem rejection_names_the_offending_row : forall e rows n, cid_read e rows = CidInterface (Some n) ->
  (n <= length rows)%nat /\
  ((n < length rows)%nat -> exists s, steps e cstate0 (firstn n rows) = ROk s /\ row_step e s (nth n rows []) = RInterface).
Proof. exact rejection_names_offending_row. Qed.
Theorem first_refused_row_is_named : forall e rows n s, (n < length rows)%nat ->
  steps e cstate0 (firstn n rows) = ROk s -> row_step e s (nth n rows []) = RInterface ->
  cid_read e rows = CidInterface (Some n).
Proof. exact offending_row_is_named. Qed.

(* rows with an empty first cell (and rows without cells) are ignored wherever they stand *)
Theorem comment_rows_are_ignored : forall e before row after, is_comment_row row ->
  outcome (cid_read e (before ++ row :: after)) = outcome (cid_read e (before ++ after)).
Proof. exact comment_rows_ignored. Qed.
(* cells beyond the parsed columns are ignored *)
Theorem trailing_cells_are_ignored : forall e s c0 cells extra, (6 <= length cells)%nat ->
  row_step e s (c0 :: cells ++ extra) = row_step e s (c0 :: cells).
Proof. exact trailing_cells_ignored. Qed.
(* row markers are case-insensitive and may be surrounded by blanks *)
Theorem row_marker_is_normalised : forall e s c0 c0' cells, has_non_ascii c0 = false -> has_non_ascii c0' = false ->
  strip (lower c0) = strip (lower c0') -> row_step e s (c0 :: cells) = row_step e s (c0' :: cells).
Proof. exact row_marker_normalised. Qed.
(* field order is preserved: a row appends at most one field at the end and never removes or reorders fields *)
Theorem field_order_is_preserved : forall e s row s', row_step e s row = ROk s' ->
  st_fields s' = st_fields s \/ exists f, st_fields s' = st_fields s ++ [f].
Proof. exact fields_only_appended. Qed.

(* non-vacuity: a CID with decoration is read by the model; single defects are rejected at their row *)
Definition env0 : env := {| e_field_types := map txt ["Choice"; "Constant"; "DateTime"; "Decimal"; "Integer"; "Pattern"; "RegEx"; "Text"]%string;
                            e_check_types := map txt ["DistinctCount"; "IsUnique"]%string; e_encodings := [txt "utf-8"] |}.
Definition cid0 : list (list text) :=
  [[txt " d "; txt "FORMAT"; txt "Delimited"; txt "ignored"]; []; [[]; txt "a comment"];
   [txt "D"; txt "Header"; txt "1"];
   [txt "F"; txt " customer_id "; txt "12"; txt "x"; txt "1...5"; txt "Integer"; txt "0...99999"];
   [txt "f"; txt "name"; []; []; txt "...40"];
   [txt "C"; txt "unique id"; txt "IsUnique"; txt "customer_id"]].
Example c09_example :
  (match cid_read env0 cid0 with
   | CidOk s => map fs_name (st_fields s) = [txt "customer_id"; txt "name"] /\ map fs_type (st_fields s) = [txt "Integer"; txt "Text"]
                /\ map ck_fields (st_checks s) = [[txt "customer_id"]]
   | _ => False end)
  /\ cid_read env0 (firstn 5 cid0 ++ [[txt "F"; txt "customer_id"]]) = CidInterface (Some 5%nat)
  /\ cid_read env0 (cid0 ++ [[txt "C"; txt "unique id"; txt "IsUnique"; txt "name"]]) = CidInterface (Some 7%nat)
  /\ cid_read env0 (tl cid0) = CidInterface (Some 2%nat).
Proof. repeat split; vm_compute; reflexivity. Qed.
