(* C09 - CIDs are accepted iff structurally sound; rejections name the offending row. Property theorems only.
   Model/Cid.v: Cid.read as a fold of row_step over the rows followed by the end-of-CID checks. *)
From Coq Require Import String.
From CP Require Import Model.Base Generated.Consts Model.Ranges Model.Lex Model.RangeParse Model.DataFormat Model.Fields
  Model.FieldTypes Model.Cid Proofs.CidProofs.

(* accepted if and only if every row is accepted in its turn (rows are judged in order, each against the state the rows
   before it left) and, after the last row, a data format exists whose settings are consistent and at least one field is
   declared; refused with an interface error if and only if some row is the first to be refused or those final conditions
   fail. (What makes a single row acceptable is Model/Cid.v's row_step: the first cell dispatches to the data format, field
   and check rules, whose sub-models C01 / C02 / C11 decide.) *)
Theorem cid_is_accepted_iff_every_row_is : forall e rows s, cid_read e rows = CidOk s <->
  steps e cstate0 rows = ROk s /\ (exists d, st_fmt s = Some d /\ validate_format d = true) /\ st_fields s <> [].
Proof. exact cid_accepted_iff. Qed.
Theorem cid_is_refused_iff_a_row_or_the_end_is : forall e rows, (exists n, cid_read e rows = CidInterface n) <->
  (exists k s, (k < length rows)%nat /\ steps e cstate0 (firstn k rows) = ROk s /\ row_step e s (nth k rows []) = RInterface)
  \/ (exists s, steps e cstate0 rows = ROk s /\
        (st_fmt s = None \/ (exists d, st_fmt s = Some d /\ validate_format d = false) \/ st_fields s = [])).
Proof. exact cid_refused_iff. Qed.

(* whatever CID is accepted is structurally sound: exactly one known data format whose settings are consistent,
   at least one field, field names unique and well formed (ASCII letter, then letters/digits/underscores, no Python
   keyword), checks with unique non-empty descriptions whose rules name declared fields only *)
Theorem accepted_cid_is_structurally_sound : forall e rows s, cid_read e rows = CidOk s ->
  (exists d, st_fmt s = Some d /\ In (df_format d) VALID_FORMATS /\ validate_format d = true)
  /\ st_fields s <> []
  /\ NoDup (map fs_name (st_fields s)) /\ Forall good_name (map fs_name (st_fields s))
  /\ NoDup (map ck_desc (st_checks s)) /\ Forall (fun c => ck_desc c <> []) (st_checks s)
  /\ Forall (fun c => ck_fields c <> [] /\ incl (ck_fields c) (map fs_name (st_fields s))) (st_checks s).
Proof. exact accepted_cid_is_sound. Qed.

(* every state reached while reading keeps these invariants (also: no check before the first field, no field or
   check before the format) *)
Theorem reading_preserves_invariants : forall e s row s', row_step e s row = ROk s' -> Inv s -> Inv s'.
Proof. exact row_step_preserves_inv. Qed.

(* a rejection names the offending row: all rows before it were processed without complaint and that row is the
   one refused; and conversely the first refused row is the one named *)
Theorem rejection_names_the_offending_row : forall e rows n, cid_read e rows = CidInterface (Some n) ->
  (n <= length rows)%nat /\
  ((n < length rows)%nat -> exists s, steps e cstate0 (firstn n rows) = ROk s /\ row_step e s (nth n rows []) = RInterface).
Proof. exact rejection_names_offending_row. Qed.
Theorem first_refused_row_is_named : forall e rows n s, (n < length rows)%nat ->
  steps e cstate0 (firstn n rows) = ROk s -> row_step e s (nth n rows []) = RInterface ->
  cid_read e rows = CidInterface (Some n).
Proof. exact offending_row_is_named. Qed.

(* rows with an empty first cell (and rows without cells) are ignored wherever they stand *)
Theorem comment_rows_are_ignored : forall e before row after, is_comment_row row ->
  outcome (cid_read e (before ++ row :: after)) = outcome (cid_read e (before ++ after)).
Proof. exact comment_rows_ignored. Qed.
(* cells beyond the parsed columns are ignored *)
Theorem trailing_cells_are_ignored : forall e s c0 cells extra, (6 <= length cells)%nat ->
  row_step e s (c0 :: cells ++ extra) = row_step e s (c0 :: cells).
Proof. exact trailing_cells_ignored. Qed.
(* row markers are case-insensitive and may be surrounded by blanks *)
Theorem row_marker_is_normalised : forall e s c0 c0' cells, has_non_ascii c0 = false -> has_non_ascii c0' = false ->
  strip (lower c0) = strip (lower c0') -> row_step e s (c0 :: cells) = row_step e s (c0' :: cells).
Proof. exact row_marker_normalised. Qed.
(* field order is preserved: a row appends at most one field at the end and never removes or reorders fields *)
Theorem field_order_is_preserved : forall e s row s', row_step e s row = ROk s' ->
  st_fields s' = st_fields s \/ exists f, st_fields s' = st_fields s ++ [f].
Proof. exact fields_only_appended. Qed.

(* non-vacuity: a CID with decoration is read by the model; single defects are rejected at their row *)
Definition env0 : env := {| e_field_types := map txt ["Choice"; "Constant"; "DateTime"; "Decimal"; "Integer"; "Pattern"; "RegEx"; "Text"]%string;
                            e_check_types := map txt ["DistinctCount"; "IsUnique"]%string; e_encodings := [txt "utf-8"] |}.
Definition cid0 : list (list text) :=
  [[txt " d "; txt "FORMAT"; txt "Delimited"; txt "ignored"]; []; [[]; txt "a comment"];
   [txt "D"; txt "Header"; txt "1"];
   [txt "F"; txt " customer_id "; txt "12"; txt "x"; txt "1...5"; txt "Integer"; txt "0...99999"];
   [txt "f"; txt "name"; []; []; txt "...40"];
   [txt "C"; txt "unique id"; txt "IsUnique"; txt "customer_id"]].
Example c09_example :
  (match cid_read env0 cid0 with
   | CidOk s => map fs_name (st_fields s) = [txt "customer_id"; txt "name"] /\ map fs_type (st_fields s) = [txt "Integer"; txt "Text"]
                /\ map ck_fields (st_checks s) = [[txt "customer_id"]]
   | _ => False end)
  /\ cid_read env0 (firstn 5 cid0 ++ [[txt "F"; txt "customer_id"]]) = CidInterface (Some 5%nat)
  /\ cid_read env0 (cid0 ++ [[txt "C"; txt "unique id"; txt "IsUnique"; txt "name"]]) = CidInterface (Some 7%nat)
  /\ cid_read env0 (tl cid0) = CidInterface (Some 2%nat).
Proof. repeat split; vm_compute; reflexivity. Qed.

(* the same rows handed over call by call (add_data_format_row / add_field_format_row / add_check_row) by a caller that
   reports a refused call and goes on: the outcome is the outcome of reading just the calls that were accepted, every
   refused call is counted and leaves no trace, and the invariants of the interface hold whatever was refused *)
Theorem refused_calls_leave_no_trace : forall e rows s n s' m, api_steps e rows s n = Some (s', m) ->
  steps e s (kept e rows s) = ROk s' /\ (m + length (kept e rows s) = n + length rows)%nat.
Proof. exact api_steps_as_reading. Qed.
Theorem call_by_call_cid_keeps_invariants : forall e rows s n s' m, api_steps e rows s n = Some (s', m) -> Inv s -> Inv s'.
Proof. exact api_steps_preserve_inv. Qed.
Theorem call_by_call_without_refusal_is_reading : forall e rows s n s', api_steps e rows s n = Some (s', n) -> steps e s rows = ROk s'.
Proof. exact api_steps_none_refused. Qed.
Example c09_call_by_call :
  match api_steps env0 (firstn 5 cid0 ++ [[txt "F"; txt "customer_id"]; [txt "F"; txt "class"]] ++ skipn 5 cid0) cstate0 0 with
  | Some (s, refused) => refused = 2%nat /\ cid_read env0 cid0 = CidOk s
  | None => False end.
Proof. vm_compute. split; reflexivity. Qed.

(* lookups by name on an accepted CID (Cid.field_index, field_value_for): the index of a field is its position in the
   declaration order, the value looked up for it in a row is the cell at that position, a name that was not declared has
   no index *)
Theorem field_lookup_follows_declaration_order : forall e rows s, cid_read e rows = CidOk s ->
  forall i f, nth_error (st_fields s) i = Some f -> field_index s (fs_name f) = Some i.
Proof. exact lookup_follows_declaration_order. Qed.
Theorem field_value_lookup_is_positional : forall e rows s row i f, cid_read e rows = CidOk s -> length row = length (st_fields s) ->
  nth_error (st_fields s) i = Some f -> field_value_for s (fs_name f) row = nth_error row i.
Proof. exact value_lookup_is_positional. Qed.
Theorem undeclared_name_has_no_index : forall s n, field_index s n = None <-> ~ In n (map fs_name (st_fields s)).
Proof. exact unknown_name_has_no_index. Qed.
Example c09_lookup :
  match cid_read env0 cid0 with
  | CidOk s => field_index s (txt "name") = Some 1%nat /\ field_value_for s (txt "name") [txt "7"; txt "Ann"] = Some (txt "Ann")
               /\ field_index s (txt "Name") = None
  | _ => False end.
Proof. vm_compute. repeat split; reflexivity. Qed.
