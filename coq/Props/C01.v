(* C01 - Range descriptions accept exactly the values they describe. Property theorems only.
   These statements are about Range values (items as the parser produced them); that the parser turns every
   description of the documented grammar into the items it denotes is established per run by the correspondence
   (tokenizer model exhaustively on short strings, grammar-derived descriptions with an independent denotation). *)
From Coq Require Import String.
From CP Require Import Model.Base Generated.Consts Model.Ranges Model.Lex Model.RangeParse Model.Dec Model.DecRange Proofs.RangeProofs
  Proofs.RangeParseProofs Proofs.RangeTextProofs Model.RangeStr Proofs.DecRangeParseProofs.
Local Open Scope Z_scope.

(* a value is accepted iff it lies inside at least one item, both limits inclusive, an omitted limit = unbounded *)
Theorem range_validate_iff : forall its v,
  range_validate (Some its) v = true <-> exists it, In it its /\ inside it v.
Proof. exact range_validate_iff_lemma. Qed.

(* an empty description accepts everything *)
Theorem empty_range_accepts_all : forall v, range_validate None v = true.
Proof. reflexivity. Qed.

(* the reported lower limit is the minimum over all items and absent as soon as one item is open below *)
Theorem lower_limit_is_minimum : forall its,
  match lower_limit_items its with
  | None => its = [] \/ exists it, In it its /\ fst it = None
  | Some m => (forall it, In it its -> exists l, fst it = Some l /\ m <= l) /\ exists it, In it its /\ fst it = Some m
  end.
Proof. exact lower_limit_spec. Qed.

Theorem upper_limit_is_maximum : forall its,
  match upper_limit_items its with
  | None => its = [] \/ exists it, In it its /\ snd it = None
  | Some m => (forall it, In it its -> exists u, snd it = Some u /\ u <= m) /\ exists it, In it its /\ snd it = Some m
  end.
Proof. exact upper_limit_spec. Qed.

(* decimal ranges obey the same rule; the order used does not depend on how the numbers are written
   (1.50 vs 1.5: comparison after scaling to any common exponent) *)
Theorem decimal_range_validate_iff : forall its v,
  decrange_validate (Some its) v = true <-> exists it, In it its /\ dinside it v.
Proof. exact decrange_validate_iff_lemma. Qed.

Theorem decimal_order_is_numeric : forall a b e, e <= Z.min (d_exp a) (d_exp b) ->
  dec_leb a b = (dec_scaled a e <=? dec_scaled b e).
Proof. exact dec_leb_scale. Qed.

(* the token loop of Range.__init__: every description of the documented grammar - any number of items; each limit one
   NAME / NUMBER / STRING token in whatever spelling the code_for_* functions evaluate (decimal, hex, quoted character,
   symbolic name), or a NUMBER behind a minus sign; any separator spelling - is mapped to exactly the items it denotes,
   provided every closed item is ordered and no earlier item contains an end point of a later one (the code's overlap
   rule). What remains by correspondence is Python's tokenizer: that the text is split into these tokens. *)
Theorem token_loop_maps_grammar_to_denotation : forall d its, d <> [] -> map gitem_den d = map Some its -> no_overlap [] its ->
  parse_items (desc_tokens d) istate0 [] = POk (Some its).
Proof. exact token_loop_denotes. Qed.
(* a closed item whose upper limit lies below its lower limit is refused *)
Theorem reversed_item_is_refused : forall l1 s l2 a b rest items, is_sep s = true -> lim_value l1 = Some a -> lim_value l2 = Some b -> b < a ->
  parse_items (gitem_tokens (GClosed l1 s l2) ++ eof_tok :: rest) istate0 items = PInterface.
Proof. exact token_loop_refuses_reversed. Qed.

(* from text to items, through the ellipsis pre-processing, the tokenizer model and the token loop, for every description
   written with decimal integers: any number of items separated by ", ", each a number, a...b, a... or ...b with any of the
   three separator spellings, numbers of any size and sign - Range(text) has exactly the items the text denotes ... *)
Theorem written_description_parses_to_its_items : forall d, d <> [] -> Forall sitem_ordered d -> no_overlap [] (map sitem_den d) ->
  range_of_text (desc_text sep_text d) = POk (Some (map sitem_den d)).
Proof. exact range_of_written_description. Qed.
(* ... and therefore accepts exactly the values inside one of the items (limits inclusive, an omitted limit unbounded) *)
Theorem written_description_accepts_exactly_what_it_describes : forall d v, d <> [] -> Forall sitem_ordered d -> no_overlap [] (map sitem_den d) ->
  exists r, range_of_text (desc_text sep_text d) = POk r /\
            (range_validate r v = true <-> exists it, In it d /\ inside (sitem_den it) v).
Proof. exact written_description_accepts_exactly. Qed.

(* what a range prints for itself (Range.__str__: in messages, in generated documentation) is a description of exactly
   that range: reading the printed text gives the same items back, for every range as Range.__init__ produces them *)
Theorem printed_range_reads_back_as_itself : forall its, its <> [] -> Forall limited its ->
  Forall (fun it => match it with (Some a, Some b) => a <= b | _ => True end) its -> no_overlap [] its ->
  range_of_text (range_str (Some its)) = POk (Some its).
Proof. exact printed_range_reads_back. Qed.
Example printed_range_example :
  range_str (Some [(Some (-5), Some (-5)); (None, Some (-10)); (Some 0, Some 99); (Some 1000, None)]) = txt "-5, ...-10, 0...99, 1000..."
  /\ range_str None = txt "None".
Proof. split; vm_compute; reflexivity. Qed.

(* the same for decimal ranges: the token loop of DecimalRange.__init__ maps every grammar description (limits are NUMBER
   tokens in any decimal spelling, optionally behind a minus sign) to its items, and reports precision = the most digits
   written after a dot and scale = that plus the most digits written before it *)
Theorem decimal_token_loop_maps_grammar_to_denotation : forall d its, d <> [] -> map dgitem_den d = map Some its -> dno_overlap [] its ->
  dparse (ddesc_tokens d) dstate0 (0, 0) [] (DEFAULT_SCALE, DEFAULT_PRECISION) =
  let st := desc_stats d (0, 0) in DOk (Some its) (snd st + fst st) (fst st).
Proof. exact dec_token_loop_denotes. Qed.
Example decimal_grammar_example :
  let d := [DGClosed (DMinus (T KNumber (txt "1.50"))) (T KOp [58%N]) (DPlain (T KNumber (txt "299.995"))); DGFrom (DPlain (T KNumber (txt "1e3"))) (T KOp [58%N])] in
  tokenize_without_space (ellipsis_to_colon (replace_dots (txt "-1.50...299.995, 1e3:")) None false) = LOk (ddesc_tokens d)
  /\ decrange_of_text (txt "-1.50...299.995, 1e3:") =
     DOk (Some [(Some (mkdec (true, 150%N, -2)), Some (mkdec (false, 299995%N, -3))); (Some (mkdec (false, 1%N, 3)), None)]) 7 3.
Proof. split; vm_compute; reflexivity. Qed.

(* non-vacuity of the grammar: the tokenizer model splits a description with every kind of limit spelling into exactly
   the token sequence of a grammar description, whose items have the expected denotations *)
Example grammar_example :
  let d := [GClosed (LMinus (T KNumber (txt "0x10"))) (T KOp [58%N]) (LMinus (T KNumber (txt "1")));
            GClosed (LPlain (T KString (txt "'a'"))) (T KOp [58%N]) (LPlain (T KString (txt "'z'")));
            GSingle (LPlain (T KName (txt "tab"))); GFrom (LPlain (T KNumber (txt "200"))) (T KOp [58%N])] in
  tokenize_without_space (ellipsis_to_colon (replace_dots (txt "-0x10 ... -1, 'a':'z' ,tab, 200" ++ [8230%N])) None false) = LOk (desc_tokens d)
  /\ map gitem_den d = map Some [(Some (-16), Some (-1)); (Some 97, Some 122); (Some 9, Some 9); (Some 200, None)].
Proof. split; vm_compute; reflexivity. Qed.

(* non-vacuity: a four-item description with every kind of limit spelling, parsed by the model end to end *)
Example range_example :
  range_of_text (txt "-0x10 ... -1, 'a':'z' ,tab, 200" ++ [8230%N]) =
  POk (Some [(Some (-16), Some (-1)); (Some 97, Some 122); (Some 9, Some 9); (Some 200, None)])
  /\ map (range_validate (Some [(Some (-16), Some (-1)); (Some 97, Some 122); (Some 9, Some 9); (Some 200, None)])) [-17; -16; -1; 0; 9; 10; 199; 200; 99999]
     = [false; true; true; false; true; false; false; true; true].
Proof. split; vm_compute; reflexivity. Qed.
