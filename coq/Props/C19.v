(* C19 - Generated SQL DDL mirrors the CID.  Property theorems only.
   The ladders, MAX_* constants, keyword lists and sign_adjusted_limit these statements are about
   are regenerated from /repo/cutplace/sql.py and fields.py on every run. *)
From Coq Require Import String.
From CP Require Import Model.Base Model.Sql Spec.SqlSpec Proofs.SqlProofs.
Local Open Scope Z_scope.

(* one column per field in CID order; NOT NULL exactly for fields not allowed to be empty;
   a name is quoted exactly when it is a keyword of the dialect *)
Theorem ddl_columns : forall d fs,
  length (create_table_columns d fs) = length fs /\
  map c_notnull (create_table_columns d fs) = map (fun f => negb (sf_empty_ok f)) fs /\
  map c_name (create_table_columns d fs) =
    map (fun f => if is_keyword d (sf_name f) then (34%N :: sf_name f) ++ [34%N] else sf_name f) fs.
Proof. exact columns_shape. Qed.

(* every bounded Integer range gets a column type able to store both limits: all limits, all magnitudes *)
Theorem int_fits_db2 : forall lo hi, int_fits_at Db2 lo hi = true.
Proof. exact int_fits_db2_lemma. Qed.

Theorem int_fits_plsql : forall lo hi, int_fits_at PlSql lo hi = true.
Proof. exact int_fits_plsql_lemma. Qed.

(* Transact-SQL: the full statement is FALSE of the code (known finding: tinyint is unsigned) ... *)
Theorem int_fits_transact_refuted : exists lo hi, lo <= hi /\ int_fits_at Transact lo hi = false.
Proof. exact int_fits_transact_refuted_lemma. Qed.
(* ... and holds exactly outside that class *)
Theorem int_fits_transact_partial : forall lo hi,
  0 <= lo \/ 255 < ansi_int_limit lo hi -> lo <= hi -> int_fits_at Transact lo hi = true.
Proof. exact int_fits_transact_partial_lemma. Qed.

Theorem decimal_digits : forall d name e s p,
  let c := column_of d {| sf_name := name; sf_empty_ok := e; sf_kind := SDecimal s p |} in
  c_len c = Some s /\ c_prec c = Some p.
Proof. intros d name e s p. apply decimal_digits_lemma. right. exact I. Qed.

Theorem text_length : forall d name e u,
  let c := column_of d {| sf_name := name; sf_empty_ok := e; sf_kind := SVarchar u |} in
  c_len c = u /\ c_prec c = None.
Proof. exact varchar_length_lemma. Qed.

(* non-vacuity: a concrete range at a type boundary *)
Example int_fits_example : int_fits_at Db2 (-32769) 32767 = true /\ int_column_type Db2 (-32769) 32767 = (txt "integer", Some 32768).
Proof. split; vm_compute; reflexivity. Qed.
