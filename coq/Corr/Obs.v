(* Observation types and their boolean equalities for the correspondence runs. *)
From CP Require Import Model.Base Model.Ranges Model.Fields Model.Validio Model.ValidioInst.

Definition loc_eqb (a b : loc) : bool := Nat.eqb (l_line a) (l_line b) && Nat.eqb (l_cell a) (l_cell b).
(* container faults (DataFormatError) are raised by the row readers with their own location object;
   the properties only demand the error family for them, so their location is not compared *)
Definition err_eqb (a b : err) : bool :=
  match e_family a, e_family b with
  | FDataFormat, FDataFormat => true
  | _, _ =>
    family_eqb (e_family a) (e_family b) && loc_eqb (e_loc a) (e_loc b)
    && option_eqb Nat.eqb (e_field a) (e_field b) && option_eqb loc_eqb (e_see_also a) (e_see_also b)
  end.
Definition out_eqb (a b : out) : bool :=
  match a, b with
  | ORow r, ORow r' => list_eqb text_eqb r r'
  | OErr e, OErr e' => err_eqb e e'
  | _, _ => false
  end.
Definition event_eqb (a b : event) : bool :=
  match a, b with
  | EReset c, EReset c' | EAtEnd c, EAtEnd c' | ECleanup c, ECleanup c' => Nat.eqb c c'
  | EValue f x, EValue f' x' => Nat.eqb f f' && text_eqb x x'
  | ECheckRow c r, ECheckRow c' r' => Nat.eqb c c' && list_eqb text_eqb r r'
  | _, _ => false
  end.

(* compact constructors for generated case files *)
Definition Lc (line cell : nat) : loc := {| l_line := line; l_cell := cell |}.
Definition E (f : family) (line cell : nat) (fld : option nat) (see : option loc) : err :=
  {| e_family := f; e_loc := Lc line cell; e_field := fld; e_see_also := see |}.

(* what a run of cutplace.rows / cutplace.validate shows to its caller *)
Definition run_obs := (list out * option err * nat * nat)%type.   (* outputs, raised, accepted, rejected *)
Definition run_obs_of (r : api_result cstate) : run_obs := (r_outs r, r_raised r, r_acc r, r_rej r).
Definition run_obs_eqb (a b : run_obs) : bool :=
  let '(o, r, ac, rj) := a in let '(o', r', ac', rj') := b in
  list_eqb out_eqb o o' && option_eqb err_eqb r r' && Nat.eqb ac ac' && Nat.eqb rj rj'.

(* C08: outcome of one operation of a history *)
From CP Require Import Model.History.
Definition outcome_obs := (list out * option err * list (option err) * list (list text))%type.
Definition outcome_obs_of (o : outcome) : outcome_obs := (oc_outs o, oc_raised o, oc_writes o, oc_emitted o).
Definition outcome_obs_eqb (a b : outcome_obs) : bool :=
  let '(o, r, w, e) := a in let '(o', r', w', e') := b in
  list_eqb out_eqb o o' && option_eqb err_eqb r r' && list_eqb (option_eqb err_eqb) w w' && list_eqb (list_eqb text_eqb) e e'.
