(* C13 meets C14: what the fixed-width row writer puts on the stream is a well-formed fixed-width file, so the reader
   returns exactly the padded rows. *)
From Coq Require Import Lia.
From CP Require Import Model.Base Model.Fixed Spec.FixedSpec Proofs.FixedProofs Proofs.FixedComplete.
From CP Require Import Model.Ranges Model.Fields Model.Validio Model.History Model.Writer Proofs.WriterProofs.

(* FixedRowWriter: the separator it writes for each line delimiter setting ("any" -> os.linesep = LF) *)
Definition writer_sep (d : ld) : text :=
  match d with LdNone => [] | LdLF => [LF] | LdCR => [CR] | LdCRLF => [CR; LF] | LdAny => [LF] end.
(* a row the writer can emit: one value per field, none longer than its field *)
Definition fits_row (ws : list nat) (r : list text) : Prop := Forall2 (fun c w => length c <= w) r ws.

Lemma pad_row_ok ws r : fits_row ws r -> row_ok ws (pad_row ws r).
Proof.
  unfold row_ok. intros H. induction H as [|c w r ws Hc _ IH]; [reflexivity|].
  cbn [pad_row map]. rewrite pad_length by exact Hc. rewrite IH. reflexivity.
Qed.
Lemma fixed_text_render ws sep rows : fixed_text ws sep rows = render (map (fun r => (pad_row ws r, sep)) rows).
Proof.
  unfold fixed_text. induction rows as [|r rows IH]; [reflexivity|].
  cbn [map concat render]. rewrite IH. unfold fixed_line. rewrite <- app_assoc. reflexivity.
Qed.
Lemma writer_sep_permitted d : permitted d (writer_sep d).
Proof. destruct d; cbn; auto. Qed.
Lemma writer_delims_ok d ws rows : delims_ok d (map (fun r => (pad_row ws r, writer_sep d)) rows).
Proof.
  induction rows as [|r rows IH]; [constructor|].
  cbn [map]. destruct rows as [|r2 rows].
  - constructor. left. apply writer_sep_permitted.
  - cbn [map] in *. constructor; [apply writer_sep_permitted|exact IH].
Qed.
Lemma writer_greedy ws (rows : list (list text)) : greedy (map (fun r => (pad_row ws r, writer_sep LdAny)) rows).
Proof.
  induction rows as [|r rows IH]; [exact I|].
  cbn [map]. destruct rows as [|r2 rows]; [exact I|].
  cbn [map] in *. cbn [greedy]. split; [|exact IH]. cbn [writer_sep]. intros E. discriminate.
Qed.

(* for every line delimiter setting, every width list and every table whose values fit their fields: reading the text
   the fixed-width writer produced returns exactly the padded rows, completely and without an error *)
Theorem fixed_writer_output_reads_back_lemma d ws rows : Forall (fun w => 1 <= w) ws -> ws <> [] ->
  Forall (fits_row ws) rows ->
  fixed_rows d ws (fixed_text ws (writer_sep d) rows) = Some (map (pad_row ws) rows, true).
Proof.
  intros Hw Hne Hf. rewrite fixed_text_render.
  assert (M : map fst (map (fun r => (pad_row ws r, writer_sep d)) rows) = map (pad_row ws) rows).
  { rewrite map_map. reflexivity. }
  rewrite <- M. apply fixed_complete_lemma; try assumption.
  - apply Forall_forall. intros x Hx. apply in_map_iff in Hx as [p [<- Hp]]. apply in_map_iff in Hp as [r [<- Hr]].
    cbn [fst]. apply pad_row_ok. rewrite Forall_forall in Hf. apply Hf. exact Hr.
  - apply writer_delims_ok.
  - intros ->. apply writer_greedy.
Qed.
