From Coq Require Import String Lia ZifyBool.
From CP Require Import Model.Base Generated.SqlLadders Model.Sql Spec.SqlSpec.
Local Open Scope Z_scope.

Lemma lin_lt_pow10 n : 0 <= n -> n < 10 ^ n.
Proof. intros H. apply Z.pow_gt_lin_r; lia. Qed.

Lemma sal_bounds v : 0 <= sign_adjusted_limit v /\ - sign_adjusted_limit v - 1 <= v <= sign_adjusted_limit v.
Proof. unfold sign_adjusted_limit. destruct (Z.geb_spec v 0); lia. Qed.

Lemma limit_bounds lo hi : let l := ansi_int_limit lo hi in
  0 <= l /\ - l - 1 <= lo /\ lo <= l /\ - l - 1 <= hi /\ hi <= l.
Proof.
  cbv zeta. unfold ansi_int_limit.
  pose proof (sal_bounds lo). pose proof (sal_bounds hi). lia.
Qed.

Lemma fits_smallint len v : fits (txt "smallint") len v = (-32768 <=? v) && (v <=? 32767).
Proof. reflexivity. Qed.
Lemma fits_int len v : fits (txt "int") len v = (-2147483648 <=? v) && (v <=? 2147483647).
Proof. reflexivity. Qed.
Lemma fits_integer len v : fits (txt "integer") len v = (-2147483648 <=? v) && (v <=? 2147483647).
Proof. reflexivity. Qed.
Lemma fits_bigint len v : fits (txt "bigint") len v = (-9223372036854775808 <=? v) && (v <=? 9223372036854775807).
Proof. reflexivity. Qed.
Lemma fits_tinyint len v : fits (txt "tinyint") len v = (0 <=? v) && (v <=? 255).
Proof. reflexivity. Qed.
Lemma fits_decimal p v : fits (txt "decimal") (Some p) v = (Z.abs v <? 10 ^ p).
Proof. reflexivity. Qed.
Lemma fits_number p v : fits (txt "number") (Some p) v = (Z.abs v <? 10 ^ p).
Proof. reflexivity. Qed.

Lemma abs_lt_pow l v : 0 <= l -> - l - 1 <= v <= l -> 2147483647 < l -> Z.abs v < 10 ^ l.
Proof.
  intros Hl Hv Hbig. assert (H1 : 0 <= l - 1) by lia.
  pose proof (lin_lt_pow10 (l - 1) H1) as P.
  replace (10 ^ l) with (10 * 10 ^ (l - 1)) by (rewrite <- Z.pow_succ_r by lia; f_equal; lia).
  set (p := 10 ^ (l - 1)) in *. lia.
Qed.

(* DB2: smallint / integer / bigint / decimal(limit) *)
Lemma int_fits_db2_lemma lo hi : int_fits_at Db2 lo hi = true.
Proof.
  pose proof (limit_bounds lo hi) as B. cbv zeta in B.
  unfold int_fits_at, int_column_type, sql_type, ansi_type.
  change (text_eqb (txt "int") (txt "int")) with true. cbv iota.
  unfold via_ladder, db2_rungs, db2_else. cbn [ladder cmp_z].
  set (l := ansi_int_limit lo hi) in *.
  destruct (Z.leb_spec l 32767).
  { change (Nat.eqb 2 3) with false. cbv iota.
    change [115; 109; 97; 108; 108; 105; 110; 116]%N with (txt "smallint"). rewrite !fits_smallint. lia. }
  destruct (Z.leb_spec l 2147483647).
  { change (Nat.eqb 2 3) with false. cbv iota.
    change [105; 110; 116; 101; 103; 101; 114]%N with (txt "integer"). rewrite !fits_integer. lia. }
  destruct (Z.leb_spec l 9223372036854775807).
  { change (Nat.eqb 2 3) with false. cbv iota.
    change [98; 105; 103; 105; 110; 116]%N with (txt "bigint"). rewrite !fits_bigint. lia. }
  change (Nat.eqb 2 3) with false. cbv iota.
  change [100; 101; 99; 105; 109; 97; 108]%N with (txt "decimal"). rewrite !fits_decimal.
  assert (Z.abs lo < 10 ^ l) by (apply abs_lt_pow; lia).
  assert (Z.abs hi < 10 ^ l) by (apply abs_lt_pow; lia). lia.
Qed.

(* PL/SQL: int up to MAX_INTEGER, number(limit, 0) above *)
Lemma int_fits_plsql_lemma lo hi : int_fits_at PlSql lo hi = true.
Proof.
  pose proof (limit_bounds lo hi) as B. cbv zeta in B.
  unfold int_fits_at, int_column_type, sql_type, ansi_type.
  change (text_eqb (txt "int") (txt "decimal")) with false.
  change (text_eqb (txt "int") (txt "varchar")) with false.
  change (text_eqb (txt "int") (txt "int")) with true. cbv iota.
  unfold via_ladder, plsql_rungs, plsql_else. cbn [ladder cmp_z].
  set (l := ansi_int_limit lo hi) in *.
  destruct (Z.gtb_spec l 2147483647).
  { change (Nat.eqb 3 3) with true. cbv iota.
    change [110; 117; 109; 98; 101; 114]%N with (txt "number"). rewrite !fits_number.
    assert (Z.abs lo < 10 ^ l) by (apply abs_lt_pow; lia).
    assert (Z.abs hi < 10 ^ l) by (apply abs_lt_pow; lia). lia. }
  rewrite !fits_int. lia.
Qed.

(* Transact-SQL: holds whenever tinyint is not chosen for a negative limit *)
Lemma int_fits_transact_partial_lemma lo hi :
  0 <= lo \/ 255 < ansi_int_limit lo hi -> lo <= hi -> int_fits_at Transact lo hi = true.
Proof.
  intros Hyp Hle. pose proof (limit_bounds lo hi) as B. cbv zeta in B.
  unfold int_fits_at, int_column_type, sql_type, ansi_type.
  change (text_eqb (txt "int") (txt "int")) with true. cbv iota.
  unfold via_ladder, transact_rungs, transact_else. cbn [ladder cmp_z].
  set (l := ansi_int_limit lo hi) in *.
  destruct (Z.leb_spec l 255).
  { change (Nat.eqb 2 3) with false. cbv iota.
    change [116; 105; 110; 121; 105; 110; 116]%N with (txt "tinyint"). rewrite !fits_tinyint. lia. }
  destruct (Z.leb_spec l 32767).
  { change (Nat.eqb 2 3) with false. cbv iota.
    change [115; 109; 97; 108; 108; 105; 110; 116]%N with (txt "smallint"). rewrite !fits_smallint. lia. }
  destruct (Z.leb_spec l 2147483647).
  { change (Nat.eqb 2 3) with false. cbv iota.
    change [105; 110; 116]%N with (txt "int"). rewrite !fits_int. lia. }
  destruct (Z.leb_spec l 9223372036854775807).
  { change (Nat.eqb 2 3) with false. cbv iota.
    change [98; 105; 103; 105; 110; 116]%N with (txt "bigint"). rewrite !fits_bigint. lia. }
  change (Nat.eqb 3 3) with true. cbv iota.
  change [100; 101; 99; 105; 109; 97; 108]%N with (txt "decimal"). rewrite !fits_decimal.
  assert (Z.abs lo < 10 ^ l) by (apply abs_lt_pow; lia).
  assert (Z.abs hi < 10 ^ l) by (apply abs_lt_pow; lia). lia.
Qed.

Lemma int_fits_transact_refuted_lemma : exists lo hi, lo <= hi /\ int_fits_at Transact lo hi = false.
Proof. exists (-1), 0. split; [lia | vm_compute; reflexivity]. Qed.

(* statement structure *)
Lemma columns_shape d fs :
  length (create_table_columns d fs) = length fs /\
  map c_notnull (create_table_columns d fs) = map (fun f => negb (sf_empty_ok f)) fs /\
  map c_name (create_table_columns d fs) =
    map (fun f => if is_keyword d (sf_name f) then (34%N :: sf_name f) ++ [34%N] else sf_name f) fs.
Proof.
  unfold create_table_columns. rewrite map_length, !map_map. repeat split; apply map_ext; intros f;
  unfold column_of; destruct (sql_type d (ansi_type (sf_kind f))) as [[ty len] prec]; reflexivity.
Qed.

Lemma decimal_digits_lemma d name e s p : d <> PlSql \/ True ->
  let c := column_of d {| sf_name := name; sf_empty_ok := e; sf_kind := SDecimal s p |} in
  c_len c = Some s /\ c_prec c = Some p.
Proof. intros _. destruct d; vm_compute; split; reflexivity. Qed.

Lemma varchar_length_lemma d name e u :
  let c := column_of d {| sf_name := name; sf_empty_ok := e; sf_kind := SVarchar u |} in
  c_len c = u /\ c_prec c = None.
Proof. destruct d, u; vm_compute; split; reflexivity. Qed.
