(* C05: the two built-in checks decide over everything they were shown since the last reset. *)
From Coq Require Import Lia Permutation.
From CP Require Import Model.Base Model.Ranges Model.Fields Model.Validio Model.ValidioInst Proofs.BaseProofs.
Local Open Scope Z_scope.

(* show a check a sequence of rows (with their locations): the verdict of every call and the final state *)
Fixpoint drive (ck : check cstate) (st : cstate) (calls : list (list text * loc)) : list (option (option loc)) * cstate :=
  match calls with
  | [] => ([], st)
  | (row, l) :: t => let '(st', v) := ck_row ck st row l in
                     let '(vs, stf) := drive ck st' t in (v :: vs, stf)
  end.

Definition key_of (cols : list nat) (row : list text) : list text := map (nth_cell row) cols.

(* location of the first row among [calls] whose key is k *)
Fixpoint first_loc (cols : list nat) (k : list text) (calls : list (list text * loc)) : option loc :=
  match calls with
  | [] => None
  | (r, l) :: t => if list_eqb text_eqb k (key_of cols r) then Some l else first_loc cols k t
  end.

Lemma first_loc_app cols k a b :
  first_loc cols k (a ++ b) = match first_loc cols k a with Some l => Some l | None => first_loc cols k b end.
Proof. induction a as [|[r l] t IH]; cbn; [reflexivity|]. destruct (list_eqb _ _ _); auto. Qed.

Lemma lookup_key_app k a b :
  lookup_key k (a ++ b) = match lookup_key k a with Some l => Some l | None => lookup_key k b end.
Proof. induction a as [|[k' l] t IH]; cbn; [reflexivity|]. destruct (list_eqb _ _ _); auto. Qed.

Lemma unique_row cols seen row l :
  ck_row (check_of (KUnique cols)) (SUnique seen) row l =
  match lookup_key (key_of cols row) seen with
  | Some f => (SUnique seen, Some (Some f))
  | None => (SUnique (seen ++ [(key_of cols row, l)]), None)
  end.
Proof. reflexivity. Qed.

Lemma drive_unique cols : forall calls pre seen,
  (forall k, lookup_key k seen = first_loc cols k pre) ->
  forall i row l, nth_error calls i = Some (row, l) ->
  nth_error (fst (drive (check_of (KUnique cols)) (SUnique seen) calls)) i =
  Some (match first_loc cols (key_of cols row) (pre ++ firstn i calls) with Some l0 => Some (Some l0) | None => None end).
Proof.
  induction calls as [|[r0 l0] t IH]; intros pre seen Inv i row l Hn; [destruct i; discriminate|].
  cbn [drive]. rewrite unique_row.
  destruct (lookup_key (key_of cols r0) seen) as [first|] eqn:LK.
  - (* duplicate: state unchanged *)
    assert (Inv' : forall k, lookup_key k seen = first_loc cols k (pre ++ [(r0, l0)])).
    { intros k. rewrite first_loc_app, <- Inv. destruct (lookup_key k seen) eqn:E; [reflexivity|].
      cbn. destruct (list_eqb text_eqb k (key_of cols r0)) eqn:E2; [|reflexivity].
      apply (list_eqb_eq _ text_eqb_eq) in E2. subst. congruence. }
    specialize (IH (pre ++ [(r0, l0)]) seen Inv').
    destruct (drive (check_of (KUnique cols)) (SUnique seen) t) as [vs stf]. cbn [fst] in *.
    destruct i as [|i]; cbn [nth_error firstn] in *.
    + injection Hn as -> ->. rewrite app_nil_r, <- Inv, LK. reflexivity.
    + rewrite (IH i row l Hn). rewrite <- app_assoc. reflexivity.
  - assert (Inv' : forall k, lookup_key k (seen ++ [(key_of cols r0, l0)]) = first_loc cols k (pre ++ [(r0, l0)])).
    { intros k. rewrite first_loc_app, lookup_key_app, <- Inv. destruct (lookup_key k seen); reflexivity. }
    specialize (IH (pre ++ [(r0, l0)]) (seen ++ [(key_of cols r0, l0)]) Inv').
    destruct (drive (check_of (KUnique cols)) (SUnique (seen ++ [(key_of cols r0, l0)])) t) as [vs stf]. cbn [fst] in *.
    destruct i as [|i]; cbn [nth_error firstn] in *.
    + injection Hn as -> ->. rewrite app_nil_r, <- Inv, LK. reflexivity.
    + rewrite (IH i row l Hn). rewrite <- app_assoc. reflexivity.
Qed.

Lemma unique_verdicts_lemma cols calls i row l :
  nth_error calls i = Some (row, l) ->
  nth_error (fst (drive (check_of (KUnique cols)) (ck_reset (check_of (KUnique cols))) calls)) i =
  Some (match first_loc cols (key_of cols row) (firstn i calls) with Some l0 => Some (Some l0) | None => None end).
Proof. intros H. apply (drive_unique cols calls [] [] (fun k => eq_refl) i row l H). Qed.

(* ---------- DistinctCount *)
Definition value_of (col : nat) (call : list text * loc) : text := nth_cell (fst call) col.

Lemma distinct_row col op n vals row l :
  ck_row (check_of (KDistinct col op n)) (SDistinct vals) row l =
  (if existsb (text_eqb (nth_cell row col)) vals then SDistinct vals else SDistinct (nth_cell row col :: vals), None).
Proof. reflexivity. Qed.

Lemma drive_distinct col op n : forall calls vals,
  exists vals', snd (drive (check_of (KDistinct col op n)) (SDistinct vals) calls) = SDistinct vals' /\
    Forall (fun v => v = None) (fst (drive (check_of (KDistinct col op n)) (SDistinct vals) calls)) /\
    (NoDup vals -> NoDup vals') /\ (forall x, In x vals' <-> In x vals \/ In x (map (value_of col) calls)).
Proof.
  induction calls as [|[r l] t IH]; intros vals.
  - exists vals. cbn. repeat split; auto. intros [H|[]]; auto.
  - cbn [drive]. rewrite distinct_row. set (v := nth_cell r col).
    destruct (existsb (text_eqb v) vals) eqn:Ex.
    + destruct (IH vals) as [vals' [A [B [C D]]]].
      destruct (drive (check_of (KDistinct col op n)) (SDistinct vals) t) as [vs stf]. cbn [fst snd] in *.
      exists vals'. split; [assumption|]. split; [constructor; auto|]. split; [assumption|].
      intros x. rewrite D. cbn [map In]. apply existsb_text_In in Ex.
      unfold value_of at 2; cbn [fst]; fold v. intuition (subst; auto).
    + destruct (IH (v :: vals)) as [vals' [A [B [C D]]]].
      destruct (drive (check_of (KDistinct col op n)) (SDistinct (v :: vals)) t) as [vs stf]. cbn [fst snd] in *.
      exists vals'. split; [assumption|]. split; [constructor; auto|]. split.
      * intros ND. apply C. constructor; [|assumption]. intros Hin. apply existsb_text_In in Hin. congruence.
      * intros x. rewrite D. cbn [map In]. unfold value_of at 2; cbn [fst]; fold v. intuition (subst; auto).
Qed.

Lemma distinct_end_lemma col op n calls :
  let ck := check_of (KDistinct col op n) in
  ck_end ck (snd (drive ck (ck_reset ck) calls)) =
  negb (cmp_z op (Z.of_nat (length (nodup text_eq_dec (map (value_of col) calls)))) n)
  /\ Forall (fun v => v = None) (fst (drive ck (ck_reset ck) calls)).
Proof.
  cbv zeta. change (ck_reset (check_of (KDistinct col op n))) with (SDistinct []).
  destruct (drive_distinct col op n calls []) as [vals' [A [B [C D]]]]. split; [|exact B].
  rewrite A. cbn [check_of ck_end]. f_equal. f_equal. f_equal.
  apply Permutation_length. apply NoDup_Permutation.
  - apply C. constructor.
  - apply NoDup_nodup.
  - intros x. rewrite D, nodup_In. cbn. intuition.
Qed.
