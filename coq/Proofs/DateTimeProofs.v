(* DateTime fields: whatever the strptime model accepts is a real calendar date / time of day. *)
From Coq Require Import Lia ZifyBool.
From CP Require Import Model.Base Model.Lex Model.FieldTypes Spec.FieldSpec.
Local Open Scope Z_scope.
Ltac Zify.zify_post_hook ::= Z.to_euclidean_division_equations.

Lemma days_month_length y m : 1 <= m <= 12 -> days_in_month y m = month_length y m.
Proof.
  intros H. unfold days_in_month, month_length.
  assert (m = 1 \/ m = 2 \/ m = 3 \/ m = 4 \/ m = 5 \/ m = 6 \/ m = 7 \/ m = 8 \/ m = 9 \/ m = 10 \/ m = 11 \/ m = 12) as C by lia.
  destruct C as [->|[->|[->|[->|[->|[->|[->|[->|[->|[->|[->| ->]]]]]]]]]]]; reflexivity.
Qed.
Lemma valid_date_real y m d : valid_date y m d = true <-> real_date y m d.
Proof.
  unfold valid_date, real_date. rewrite !andb_true_iff, !Z.leb_le. split.
  - intros [[[[[A B] C] D] E] F]. rewrite <- days_month_length by lia. lia.
  - intros [A [B C]]. rewrite days_month_length by lia. lia.
Qed.
Lemma is_leap_iff y : is_leap y = true <-> leap_year y.
Proof. unfold is_leap, leap_year. lia. Qed.

(* ---------- the backtracking combinators only ever return what their continuation returned *)
Lemma space_bt_inv {R} (k : text -> option R) s x : space_bt k s = Some x -> exists s', k s' = Some x.
Proof.
  induction s as [|c r IH]; cbn [space_bt]; intros H; [eauto|].
  destruct (is_u_space c); [|eauto]. destruct (space_bt k r) eqn:E; [injection H as ->; auto|eauto].
Qed.
Lemma first_alt_inv {R} (k : text -> text -> option R) l s x : first_alt k l s = Some x ->
  exists ps m rest, In ps l /\ try_alt ps s = Some (m, rest) /\ k m rest = Some x.
Proof.
  induction l as [|ps l IH]; cbn [first_alt]; intros H; [discriminate|].
  destruct (try_alt ps s) as [[m rest]|] eqn:E.
  - destruct (k m rest) eqn:K.
    + injection H as ->. exists ps, m, rest. repeat split; auto. left. reflexivity.
    + destruct (IH H) as [ps' [m' [rest' [A [B C]]]]]. exists ps', m', rest'. repeat split; auto. right. exact A.
  - destruct (IH H) as [ps' [m' [rest' [A [B C]]]]]. exists ps', m', rest'. repeat split; auto. right. exact A.
Qed.
Lemma try_alt_inv ps : forall s m rest, try_alt ps s = Some (m, rest) -> Forall2 (fun p c => p c = true) ps m.
Proof.
  induction ps as [|p ps IH]; intros s m rest H; cbn [try_alt] in H.
  - injection H as <- _. constructor.
  - destruct s as [|c r]; [discriminate|]. destruct (p c) eqn:Pc; [|discriminate].
    destruct (try_alt ps r) as [[a b]|] eqn:E; [|discriminate]. injection H as <- _.
    constructor; [exact Pc|]. eapply IH. exact E.
Qed.

(* ---------- bounds of hour, minute, second groups *)
Definition time_ok (p : N * Z) : Prop :=
  let '(d, v) := p in
  (d = 72%N -> 0 <= v <= 23) /\ (d = 77%N -> 0 <= v <= 59) /\ (d = 83%N -> 0 <= v <= 61).

Lemma gv2 c1 c2 : is_digit c1 = true -> is_digit c2 = true ->
  group_value [c1; c2] = (Z.of_N c1 - 48) * 10 + (Z.of_N c2 - 48).
Proof.
  intros H1 H2. unfold group_value. cbn [filter]. rewrite H1, H2. cbn [digits_val].
  unfold is_digit, in_rng in *. lia.
Qed.
Lemma gv1 c1 : is_digit c1 = true -> group_value [c1] = Z.of_N c1 - 48.
Proof.
  intros H1. unfold group_value. cbn [filter]. rewrite H1. cbn [digits_val]. unfold is_digit, in_rng in *. lia.
Qed.

Lemma alt_time_ok d ps s m rest : In ps (alts d) -> try_alt ps s = Some (m, rest) -> time_ok (d, group_value m).
Proof.
  intros Hin Ht. apply try_alt_inv in Ht. unfold time_ok.
  split; [|split]; intros ->; cbn in Hin;
    repeat match goal with
           | H : _ \/ _ |- _ => destruct H as [H|H]
           | H : False |- _ => contradiction
           end; subst ps;
    repeat match goal with
           | H : Forall2 _ (_ :: _) _ |- _ => inversion H; subst; clear H
           | H : Forall2 _ [] _ |- _ => inversion H; subst; clear H
           end;
    unfold ceq, crng, in_rng in *;
    first [ rewrite gv2 by (unfold is_digit, in_rng in *; lia) | rewrite gv1 by (unfold is_digit, in_rng in *; lia) ];
    unfold is_digit, in_rng in *; lia.
Qed.

Lemma sp_match_inv fmt : forall s acc g rest, sp_match fmt s acc = Some (g, rest) ->
  Forall time_ok acc -> Forall time_ok g /\ map fst g = map fst acc ++ dirs_of fmt.
Proof.
  induction fmt as [|it fmt IH]; intros s acc g rest H Hacc; cbn [sp_match] in H.
  - injection H as <- _. cbn [dirs_of]. rewrite app_nil_r. auto.
  - destruct it as [c| |d].
    + destruct s as [|x r]; [discriminate|]. destruct (N.eqb (lower_c x) (lower_c c)); [|discriminate].
      cbn [dirs_of]. eapply IH; eassumption.
    + destruct s as [|x r]; [discriminate|]. destruct (is_u_space x); [|discriminate].
      apply space_bt_inv in H as [s' H]. cbn [dirs_of]. eapply IH; eassumption.
    + apply first_alt_inv in H as [ps [m [rest' [A [B C]]]]].
      apply IH in C.
      * destruct C as [C1 C2]. split; [exact C1|]. rewrite C2, map_app. cbn [map fst dirs_of]. rewrite <- app_assoc. reflexivity.
      * apply Forall_app. split; [exact Hacc|]. constructor; [|constructor]. eapply alt_time_ok; eassumption.
Qed.

(* ---------- folding the groups into the time record *)
Definition tm_ok (a : tmacc) : Prop := 0 <= a_hour a <= 23 /\ 0 <= a_min a <= 59 /\ 0 <= a_sec a <= 61.
Lemma tm_step_ok a p : tm_ok a -> time_ok p -> tm_ok (tm_step a p).
Proof.
  intros [A [B C]] H. destruct p as [d v]. unfold time_ok in H. destruct H as [H1 [H2 H3]]. unfold tm_step.
  repeat match goal with |- context [if N.eqb d ?k then _ else _] => destruct (N.eqb_spec d k) end;
    unfold tm_ok; cbn [a_hour a_min a_sec]; subst;
    try specialize (H1 eq_refl); try specialize (H2 eq_refl); try specialize (H3 eq_refl); lia.
Qed.
Lemma tm_fold_ok g : forall a, tm_ok a -> Forall time_ok g -> tm_ok (fold_left tm_step g a).
Proof.
  induction g as [|p g IH]; intros a Ha Hg; cbn [fold_left]; [exact Ha|].
  inversion Hg; subst. apply IH; [apply tm_step_ok; assumption|assumption].
Qed.
Definition is_year_dir (d : N) : bool := N.eqb d 121 || N.eqb d 89.
Lemma tm_step_year a p : (a_year (tm_step a p) = None) <-> (a_year a = None /\ is_year_dir (fst p) = false).
Proof.
  destruct p as [d v]. unfold tm_step, is_year_dir. cbn [fst].
  repeat match goal with |- context [if N.eqb d ?k then _ else _] => destruct (N.eqb_spec d k) end;
    cbn [a_year]; subst; cbn; split; intros H; try discriminate; try tauto; try (destruct H; discriminate);
    try (split; [exact H|]; apply orb_false_iff; split; apply N.eqb_neq; assumption).
Qed.
Lemma tm_fold_year g : forall a, a_year (fold_left tm_step g a) = None <-> (a_year a = None /\ existsb is_year_dir (map fst g) = false).
Proof.
  induction g as [|p g IH]; intros a; cbn [fold_left map existsb]; [tauto|].
  rewrite IH, tm_step_year, orb_false_iff. tauto.
Qed.

Definition year_given (fmt : list fitem) : bool := existsb is_year_dir (dirs_of fmt).

(* whatever strptime accepts is a real time of day and a real calendar date; without a year in the layout the
   29th of February is accepted too (and the year reported is 1900) *)
Theorem strptime_sound fmt data y m d hh mm ss :
  strptime fmt data = Some (VTime y m d hh mm ss) ->
  real_time hh mm ss /\
  (if year_given fmt then real_date y m d
   else y = 1900 /\ (real_date 1900 m d \/ (m = 2 /\ d = 29))).
Proof.
  unfold strptime. destruct (sp_match fmt data []) as [[g rest]|] eqn:E; [|discriminate].
  destruct rest; [|discriminate].
  apply sp_match_inv in E; [|constructor]. destruct E as [G1 G2]. cbn [map app] in G2.
  set (a := fold_left tm_step g tm0).
  assert (tm_ok a) as [T1 [T2 T3]] by (apply tm_fold_ok; [unfold tm_ok; cbn; lia|exact G1]).
  pose proof (tm_fold_year g tm0) as Y. fold a in Y. cbn [a_year tm0] in Y. rewrite G2 in Y. fold (year_given fmt) in Y.
  destruct (valid_date _ (a_month a) (a_day a)) eqn:V; [|discriminate].
  intros H. injection H as <- <- <- <- <- <-. split; [unfold real_time; lia|].
  apply valid_date_real in V.
  destruct (a_year a) as [yy|] eqn:Ya.
  - destruct (year_given fmt); [exact V|]. exfalso. assert (Some yy = None) by (apply Y; auto). discriminate.
  - assert (year_given fmt = false) as -> by (apply Y; reflexivity). split; [reflexivity|].
    destruct ((a_month a =? 2) && (a_day a =? 29)) eqn:F.
    + right. lia.
    + left. exact V.
Qed.

(* ---------- rule -> strptime format: every layout is translated item by item *)
From CP Require Import Generated.Consts.

Lemma translate_skip T a : forall rest, translate_go T (a ++ rest) (length a) = translate_go T rest 0.
Proof. induction a as [|c a IH]; intros rest; cbn [app length translate_go]; [destruct rest; reflexivity|apply IH]. Qed.
Lemma step_item T c k d rest : first_item T ((c :: k) ++ rest) = Some (c :: k, d) ->
  translate_go T ((c :: k) ++ rest) 0 = d ++ translate_go T rest 0.
Proof.
  intros H. cbn [app translate_go]. cbn [app] in H. rewrite H.
  replace (length (c :: k) - 1)%nat with (length k) by (cbn [length]; lia).
  rewrite translate_skip. reflexivity.
Qed.
Lemma step_literal T c rest : first_item T (c :: rest) = None -> translate_go T (c :: rest) 0 = c :: translate_go T rest 0.
Proof. intros H. cbn [translate_go]. rewrite H. reflexivity. Qed.

(* the text after an item does not start with Y unless the next item is a year *)
Lemma next_not_year t rest : layout_ok (t :: rest) = true -> is_year t = true ->
  match layout_text rest with 89%N :: _ => False | _ => True end.
Proof.
  intros H Hy. destruct rest as [|t2 rest2]; [exact I|]. cbn [layout_ok] in H.
  apply andb_true_iff in H as [H H3]. apply andb_true_iff in H as [_ H2]. rewrite Hy in H2. cbn [andb] in H2.
  cbn [layout_ok] in H3. apply andb_true_iff in H3 as [H3 _]. apply andb_true_iff in H3 as [H3 _].
  destruct t2; cbn in H2; try discriminate; cbn; try exact I.
  unfold lit_ok in H3. cbn [forallb] in H3. destruct c as [|p]; [exact I|].
  destruct (N.eqb_spec 89 (N.pos p)) as [E|E]; [rewrite <- E in H3; cbn in H3; discriminate|].
  destruct p; try exact I; cbn; repeat (match goal with |- match ?x with _ => _ end => destruct x end); try exact I; exfalso; apply E; reflexivity.
Qed.

Theorem translate_layout l : layout_ok l = true -> strptime_format (layout_text l) = layout_directives l.
Proof.
  unfold strptime_format. induction l as [|t rest IH]; intros Hok; [reflexivity|].
  assert (layout_ok rest = true) as Hrest by (cbn [layout_ok] in Hok; apply andb_true_iff in Hok; tauto).
  unfold layout_text, layout_directives in *. cbn [flat_map]. fold (layout_text rest). fold (layout_directives rest).
  specialize (IH Hrest). fold (layout_text rest) in IH. fold (layout_directives rest) in IH.
  destruct t; cbn [ltok_text ltok_directive].
  - rewrite (step_item _ _ _ [37; 100]%N) by reflexivity. rewrite IH. reflexivity.
  - rewrite (step_item _ _ _ [37; 109]%N) by reflexivity. rewrite IH. reflexivity.
  - rewrite (step_item _ _ _ [37; 89]%N) by reflexivity. rewrite IH. reflexivity.
  - (* YY: the item YYYY comes first in the table and must not match *)
    pose proof (next_not_year LYear2 rest Hok eq_refl) as Hn.
    assert (first_item HUMAN_READABLE_TO_STRPTIME ([89; 89]%N ++ layout_text rest) = Some ([89; 89]%N, [37; 121]%N)) as F.
    { cbn [app]. unfold HUMAN_READABLE_TO_STRPTIME. cbn [first_item prefix_b].
      change (N.eqb 37 89) with false. change (N.eqb 68 89) with false. change (N.eqb 77 89) with false.
      change (N.eqb 89 89) with true. cbn [andb].
      remember (layout_text rest) as lt eqn:Elt. destruct lt as [|c r]; [reflexivity|].
      destruct (N.eqb 89 c) eqn:E; [apply N.eqb_eq in E; subst c; contradiction|]. cbn [andb]. reflexivity. }
    rewrite (step_item _ _ _ [37; 121]%N _ F). rewrite IH. reflexivity.
  - rewrite (step_item _ _ _ [37; 72]%N) by reflexivity. rewrite IH. reflexivity.
  - rewrite (step_item _ _ _ [37; 77]%N) by reflexivity. rewrite IH. reflexivity.
  - rewrite (step_item _ _ _ [37; 83]%N) by reflexivity. rewrite IH. reflexivity.
  - rewrite (step_item _ _ _ [37; 37]%N) by reflexivity. rewrite IH. reflexivity.
  - (* a literal character starts none of the items *)
    cbn [layout_ok] in Hok. apply andb_true_iff in Hok as [Hok _]. apply andb_true_iff in Hok as [Hl _].
    unfold lit_ok in Hl. cbn [forallb] in Hl. repeat (apply andb_true_iff in Hl as [? Hl]).
    cbn [app]. rewrite step_literal; [rewrite IH; reflexivity|].
    unfold HUMAN_READABLE_TO_STRPTIME. cbn [first_item prefix_b].
    repeat match goal with H : negb (N.eqb ?k c) = true |- _ => apply negb_true_iff in H; rewrite H; clear H end.
    reflexivity.
Qed.
