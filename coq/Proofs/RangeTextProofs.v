(* C01, from text to items for descriptions written with decimal numbers: the pre-processing of the ellipsis spellings,
   the tokenizer model and the token loop together map the text of a description to the items it denotes. *)
From Coq Require Import Lia ZifyBool.
From CP Require Import Model.Base Generated.Consts Model.Ranges Model.Lex Model.RangeParse Model.FieldTypes Spec.FieldSpec
  Proofs.BaseProofs Proofs.IntProofs Proofs.RangeParseProofs.
Local Open Scope Z_scope.

(* ---------- numbers: int(text, 0) of the decimal text of n is n *)
Lemma dval_bound l : forallb is_digit l = true -> 0 <= dval l 0 < 10 ^ Z.of_nat (length l).
Proof.
  induction l as [|c l IH] using rev_ind; intros H; [cbn; lia|].
  rewrite forallb_app in H. apply andb_true_iff in H as [Hl Hc]. cbn [forallb] in Hc. rewrite andb_true_r in Hc.
  specialize (IH Hl). rewrite dval_app. unfold dval in *. cbn [fold_left]. unfold dstep at 1 3.
  rewrite app_length. cbn [length]. rewrite Nat2Z.inj_add. change (Z.of_nat 1) with 1. rewrite Z.pow_add_r by lia. change (10 ^ 1) with 10.
  unfold is_digit, in_rng in Hc. set (P := 10 ^ Z.of_nat (length l)) in *. set (D := fold_left dstep l 0) in *. clearbody P D. lia.
Qed.
Lemma digits_value_digits l : forall acc, forallb is_digit l = true -> digits_value 10 l acc = Some (dval l acc).
Proof.
  induction l as [|c l IH]; intros acc H; [reflexivity|]. cbn [forallb] in H. apply andb_true_iff in H as [Hc Hl].
  cbn [digits_value].
  assert (N.eqb c US = false) as -> by (unfold is_digit, in_rng, US in *; lia).
  assert (is_xdigit c = true) as -> by (unfold is_xdigit; rewrite Hc; reflexivity).
  assert (digit_val c = Z.of_N c - 48) as Dv by (unfold digit_val; rewrite Hc; reflexivity).
  assert (digit_val c <? 10 = true) as -> by (rewrite Dv; unfold is_digit, in_rng in Hc; lia).
  cbn [andb]. rewrite IH by exact Hl. rewrite Dv. reflexivity.
Qed.
Lemma nat_text_leading n c r : 0 <= n -> nat_text n = c :: r -> r <> [] -> N.eqb c 48 = false.
Proof.
  intros Hn E Hr. destruct (nat_text_spec n Hn) as [D [V [L _]]]. rewrite E in *.
  apply N.eqb_neq. intros ->. cbn [forallb] in D. apply andb_true_iff in D as [_ Dr].
  unfold dval in V. cbn [fold_left] in V. unfold dstep at 2 in V. change (0 * 10 + (Z.of_N 48 - 48)) with 0 in V. fold (dval r 0) in V.
  pose proof (dval_bound r Dr) as B. cbn [length] in L.
  assert (0 < n) as Hp. { destruct (Z.eq_dec n 0) as [->|]; [|lia]. rewrite ndig_0 in L. destruct r; [congruence|cbn in L; lia]. }
  pose proof (ndig_spec n Hp) as [S1 _]. rewrite <- L in S1.
  replace (Z.of_nat (S (length r)) - 1) with (Z.of_nat (length r)) in S1 by lia. lia.
Qed.
Theorem int_base0_nat_text n : 0 <= n -> int_base0 (nat_text n) = Some n.
Proof.
  intros Hn. destruct (nat_text_spec n Hn) as [D [V [_ NE]]].
  unfold int_base0. destruct (nat_text n) as [|z [|x r]] eqn:E; [congruence| |].
  - rewrite digits_value_digits by exact D. rewrite V. reflexivity.
  - rewrite (nat_text_leading n z (x :: r) Hn E) by discriminate. cbn [andb].
    rewrite digits_value_digits by exact D. rewrite V. reflexivity.
Qed.

(* ---------- the written form *)
Inductive sepk := SDots | SColon | SEllipsis.
Definition sep_text (k : sepk) : text := match k with SDots => [46; 46; 46]%N | SColon => [58%N] | SEllipsis => [ELLIPSIS] end.
Inductive sitem := SSingle (v : Z) | SClosed (a : Z) (k : sepk) (b : Z) | SFrom (a : Z) (k : sepk) | SUpTo (k : sepk) (b : Z).
Definition sitem_text (sp : sepk -> text) (it : sitem) : text :=
  match it with
  | SSingle v => int_text v
  | SClosed a k b => int_text a ++ sp k ++ int_text b
  | SFrom a k => int_text a ++ sp k
  | SUpTo k b => sp k ++ int_text b
  end.
Fixpoint desc_text (sp : sepk -> text) (d : list sitem) : text :=
  match d with
  | [] => []
  | [it] => sitem_text sp it
  | it :: rest => sitem_text sp it ++ [44; 32]%N ++ desc_text sp rest
  end.
Definition sitem_den (it : sitem) : item :=
  match it with
  | SSingle v => (Some v, Some v) | SClosed a _ b => (Some a, Some b) | SFrom a _ => (Some a, None) | SUpTo _ b => (None, Some b)
  end.
Definition sitem_ordered (it : sitem) : Prop := match it with SClosed a _ b => a <= b | _ => True end.

(* ---------- step 1: "..." becomes the ellipsis character, which becomes ':' for the tokenizer *)
Definition plain_char (c : N) : bool := negb (N.eqb c 46) && negb (is_quote c) && negb (N.eqb c ELLIPSIS).
Lemma int_text_plain v : forallb plain_char (int_text v) = true.
Proof.
  assert (forall n, 0 <= n -> forallb plain_char (nat_text n) = true) as A.
  { intros n Hn. destruct (nat_text_spec n Hn) as [D _]. apply forallb_forall. intros c Hc. rewrite forallb_forall in D.
    specialize (D c Hc). unfold plain_char, is_digit, in_rng, is_quote, ELLIPSIS in *. lia. }
  unfold int_text. destruct (v <? 0) eqn:E; [cbn [forallb]; rewrite A by lia; reflexivity|apply A; lia].
Qed.
Definition pre (s : text) : text := ellipsis_to_colon (replace_dots s) None false.
Lemma pre_plain s rest : forallb plain_char s = true -> pre (s ++ rest) = s ++ pre rest.
Proof.
  unfold pre. induction s as [|c s IH]; intros H; [reflexivity|]. cbn [forallb] in H. apply andb_true_iff in H as [Hc Hs].
  unfold plain_char in Hc. apply andb_true_iff in Hc as [Hc He]. apply andb_true_iff in Hc as [Hd Hq].
  apply negb_true_iff in Hd, Hq, He.
  assert (replace_dots ((c :: s) ++ rest) = c :: replace_dots (s ++ rest)) as ->.
  { cbn [app replace_dots]. destruct c as [|p]; [reflexivity|]. destruct (N.eqb_spec (N.pos p) 46) as [E|E]; [discriminate|].
    destruct p as [p|p|]; try reflexivity; repeat (destruct p as [p|p|]; try reflexivity); exfalso; apply E; reflexivity. }
  cbn [ellipsis_to_colon]. rewrite Hq, He. cbn [app]. f_equal. apply IH. exact Hs.
Qed.
Lemma pre_sep k rest : pre (sep_text k ++ rest) = 58%N :: pre rest.
Proof. destruct k; reflexivity. Qed.
Lemma pre_comma rest : pre ([44; 32]%N ++ rest) = [44; 32]%N ++ pre rest.
Proof. apply pre_plain. reflexivity. Qed.
Definition colon (_ : sepk) : text := [58%N].
Lemma pre_sitem it rest : pre (sitem_text sep_text it ++ rest) = sitem_text colon it ++ pre rest.
Proof.
  destruct it; cbn [sitem_text]; rewrite <- ?app_assoc;
    repeat (rewrite ?pre_plain by apply int_text_plain; rewrite ?pre_sep; cbn [app colon]); reflexivity.
Qed.
Lemma pre_nil : pre [] = [].
Proof. reflexivity. Qed.
Theorem pre_desc d : pre (desc_text sep_text d) = desc_text colon d.
Proof.
  induction d as [|it d IH]; [reflexivity|]. destruct d as [|it2 d'].
  - cbn [desc_text]. rewrite <- (app_nil_r (sitem_text sep_text it)). rewrite pre_sitem, pre_nil, app_nil_r. reflexivity.
  - change (desc_text sep_text (it :: it2 :: d')) with (sitem_text sep_text it ++ [44; 32]%N ++ desc_text sep_text (it2 :: d')).
    rewrite pre_sitem, pre_comma, IH. reflexivity.
Qed.

(* ---------- step 2: the tokenizer model on texts made of decimal digits, '-', ':', ',' and blanks *)
Inductive stok := TNum (ds : text) | TOp (c : N) | TBlank.
Definition stok_text (t : stok) : text := match t with TNum ds => ds | TOp c => [c] | TBlank => [32%N] end.
Definition stok_token (t : stok) : list token := match t with TNum ds => [T KNumber ds] | TOp c => [T KOp [c]] | TBlank => [] end.
Definition stoks_text (l : list stok) : text := flat_map stok_text l.
Definition stoks_tokens (l : list stok) : list token := flat_map stok_token l.
Definition is_our_op (c : N) : bool := N.eqb c 45 || N.eqb c 58 || N.eqb c 44.
Definition stok_ok (t : stok) : bool :=
  match t with TNum ds => negb (is_nil_t ds) && forallb is_digit ds | TOp c => is_our_op c | TBlank => true end.
(* two numbers never touch *)
Fixpoint stoks_ok (l : list stok) : bool :=
  match l with
  | [] => true
  | t :: rest => stok_ok t && (match t, rest with TNum _, TNum _ :: _ => false | _, _ => true end) && stoks_ok rest
  end.
Definition benign (c : N) : bool := is_digit c || is_our_op c || N.eqb c 32.
Definition stop_char (c : N) : bool := is_our_op c || N.eqb c 32.

Lemma stoks_text_benign l : stoks_ok l = true -> forallb benign (stoks_text l) = true.
Proof.
  induction l as [|t l IH]; intros H; [reflexivity|]. cbn [stoks_ok] in H. apply andb_true_iff in H as [H Hl]. apply andb_true_iff in H as [Ht _].
  unfold stoks_text. cbn [flat_map]. rewrite forallb_app. fold (stoks_text l). rewrite (IH Hl), andb_true_r.
  destruct t as [ds|c|]; cbn [stok_text stok_ok] in *.
  - apply andb_true_iff in Ht as [_ Hd]. apply forallb_forall. intros c Hc. rewrite forallb_forall in Hd. unfold benign. rewrite (Hd c Hc). reflexivity.
  - cbn [forallb]. unfold benign. rewrite Ht. rewrite orb_true_r. reflexivity.
  - reflexivity.
Qed.

Lemma dtail_digits ds : forall rest, forallb is_digit ds = true -> match rest with c :: _ => stop_char c = true | [] => True end ->
  dtail is_digit (ds ++ rest) = NOk ds rest.
Proof.
  induction ds as [|d ds IH]; intros rest Hd Hr; cbn [app].
  - destruct rest as [|c r]; [reflexivity|]. cbn [dtail].
    assert (is_digit c = false /\ N.eqb c US = false) as [-> ->].
    { unfold stop_char, is_our_op, is_digit, in_rng, US in *. lia. }
    reflexivity.
  - cbn [forallb] in Hd. apply andb_true_iff in Hd as [H1 H2]. cbn [dtail]. rewrite H1. rewrite (IH rest H2 Hr). reflexivity.
Qed.

Lemma scan_number_digits ds rest : ds <> [] -> forallb is_digit ds = true ->
  match rest with c :: _ => stop_char c = true | [] => True end -> scan_number (ds ++ rest) = NOk ds rest.
Proof.
  intros Hne Hd Hr.
  assert (forall c r, rest = c :: r -> N.eqb c DOT = false /\ exp_imag rest = NOk [] rest) as Tail.
  { intros c r ->. assert (stop_char c = true) as Hs by exact Hr.
    assert (N.eqb c DOT = false /\ N.eqb c 101 = false /\ N.eqb c 69 = false /\ N.eqb c 106 = false /\ N.eqb c 74 = false) as [A [B [C0 [D E]]]].
    { unfold stop_char, is_our_op, DOT in *. lia. }
    split; [exact A|]. unfold exp_imag, exponent. rewrite B, C0. cbn [orb]. unfold imaginary. rewrite D, E. reflexivity. }
  assert (forall s, s = ds ++ rest ->
          match dtail is_digit s with
          | NOk a b => match b with
                       | c :: b' => if N.eqb c DOT then match fraction_tail b' with NOk f b2 => napp (a ++ DOT :: f) (exp_imag b2) | NErr => NErr end
                                    else napp a (exp_imag b)
                       | [] => NOk a [] end
          | NErr => NErr end = NOk ds rest) as Main.
  { intros s ->. rewrite (dtail_digits ds rest Hd Hr). destruct rest as [|c r]; [reflexivity|].
    destruct (Tail c r eq_refl) as [-> ->]. cbn [napp]. rewrite app_nil_r. reflexivity. }
  destruct ds as [|z ds']; [congruence|]. cbn [forallb] in Hd. apply andb_true_iff in Hd as [Hz Hds].
  assert (forall x, (is_digit x = true \/ stop_char x = true) ->
          (N.eqb x 120 || N.eqb x 88 = false) /\ (N.eqb x 111 || N.eqb x 79 = false) /\ (N.eqb x 98 || N.eqb x 66 = false)) as NoRadix.
  { intros x [H|H]; unfold is_digit, in_rng, stop_char, is_our_op in H; lia. }
  unfold scan_number. destruct (ds' ++ rest) as [|x r] eqn:E.
  - (* a single digit at the very end *)
    destruct ds'; [|discriminate]. cbn [app] in E. subst rest. cbn [app].
    cbn [dtail]. rewrite Hz. cbn [dtail ncons napp exp_imag exponent imaginary app]. reflexivity.
  - cbn [app]. rewrite E.
    assert (is_digit x = true \/ stop_char x = true) as Hx.
    { destruct ds' as [|d ds'']; cbn [app] in E.
      - subst rest. right. exact Hr.
      - injection E as <- _. cbn [forallb] in Hds. apply andb_true_iff in Hds as [H _]. left. exact H. }
    destruct (NoRadix x Hx) as [R1 [R2 R3]]. rewrite R1, R2, R3, !andb_false_r.
    specialize (Main (z :: x :: r)). rewrite <- E in Main. cbn [app] in Main. rewrite E in Main.
    apply Main. cbn [forallb]. reflexivity.
Qed.

Lemma scan_op_ours c rest : is_our_op c = true -> forallb benign rest = true -> scan_op (c :: rest) = ([c], rest).
Proof.
  intros Hc Hr.
  assert (forall b, benign b = true -> N.eqb b 62 = false /\ N.eqb b 61 = false) as B.
  { intros b Hb. unfold benign, is_digit, in_rng, is_our_op in Hb. lia. }
  unfold is_our_op in Hc.
  assert (c = 45 \/ c = 58 \/ c = 44)%N as Hcases by lia.
  destruct rest as [|b [|b2 r]]; cbn [scan_op].
  - reflexivity.
  - cbn [forallb] in Hr. apply andb_true_iff in Hr as [Hb _]. destruct (B b Hb) as [B1 B2].
    destruct Hcases as [-> | [-> | ->]]; unfold ops2; cbn [map existsb text_eqb txt]; cbn; rewrite ?B1, ?B2; cbn;
      repeat (match goal with |- context [N.eqb ?x ?y] => destruct (N.eqb x y) end; cbn); reflexivity.
  - cbn [forallb] in Hr. apply andb_true_iff in Hr as [Hb Hr]. destruct (B b Hb) as [B1 B2].
    destruct Hcases as [-> | [-> | ->]]; unfold ops3, ops2; cbn; rewrite ?B1, ?B2; cbn;
      repeat (match goal with |- context [N.eqb ?x ?y] => destruct (N.eqb x y) end; cbn); reflexivity.
Qed.

Lemma digit_class d : is_digit d = true ->
  in_domain_char d = true /\ is_blank d = false /\ N.eqb d HASH = false /\ N.eqb d BSL = false /\ is_name_start d = false.
Proof. unfold is_digit, in_domain_char, is_blank, HASH, BSL, is_name_start, is_alpha, in_rng. intros H. repeat split; lia. Qed.
Lemma op_class c : is_our_op c = true ->
  in_domain_char c = true /\ is_blank c = false /\ N.eqb c HASH = false /\ N.eqb c BSL = false /\ is_name_start c = false
  /\ is_digit c = false /\ N.eqb c DOT = false /\ is_quote c = false /\ is_op_char c = true
  /\ (N.eqb c 40 || N.eqb c 91 || N.eqb c 123 = false) /\ (N.eqb c 41 || N.eqb c 93 || N.eqb c 125 = false).
Proof.
  unfold is_our_op. intros H. assert (c = 45 \/ c = 58 \/ c = 44)%N as [-> | [-> | ->]] by lia; repeat split; reflexivity.
Qed.

Lemma stoks_text_stop t rest : stoks_ok (t :: rest) = true -> (exists ds, t = TNum ds) ->
  match stoks_text rest with c :: _ => stop_char c = true | [] => True end.
Proof.
  intros H [ds ->]. cbn [stoks_ok] in H. apply andb_true_iff in H as [H Hr]. apply andb_true_iff in H as [_ Hn].
  destruct rest as [|t2 rest2]; [exact I|]. destruct t2 as [ds2|c|]; [discriminate| |].
  - cbn [stoks_ok] in Hr. apply andb_true_iff in Hr as [Hr _]. apply andb_true_iff in Hr as [Hc _]. cbn [stok_ok] in Hc.
    unfold stoks_text. cbn. unfold stop_char. rewrite Hc. reflexivity.
  - reflexivity.
Qed.

Theorem lex_stoks l : forall fuel, stoks_ok l = true -> (length (stoks_text l) < fuel)%nat ->
  lex_loop fuel (stoks_text l) 0 = LOk (stoks_tokens l).
Proof.
  induction l as [|t l IH]; intros fuel Hok Hf; (destruct fuel as [|fuel]; [cbn in Hf; lia|]).
  - reflexivity.
  - pose proof Hok as Hok0. cbn [stoks_ok] in Hok. apply andb_true_iff in Hok as [Hok Hl]. apply andb_true_iff in Hok as [Ht _].
    unfold stoks_text, stoks_tokens in *. cbn [flat_map] in *. fold (stoks_text l) in *. fold (stoks_tokens l).
    rewrite app_length in Hf.
    destruct t as [ds|c|]; cbn [stok_text stok_token stok_ok] in *.
    + apply andb_true_iff in Ht as [Hne Hd]. destruct ds as [|d ds']; [discriminate|].
      cbn [forallb] in Hd. apply andb_true_iff in Hd as [Hd1 Hd2].
      destruct (digit_class d Hd1) as [C1 [C2 [C3 [C4 C5]]]].
      cbn [app lex_loop]. rewrite C1, C2, C3, C4, C5, Hd1. cbn [negb].
      change (d :: ds' ++ stoks_text l) with ((d :: ds') ++ stoks_text l).
      rewrite (scan_number_digits (d :: ds') (stoks_text l)); [| discriminate | cbn [forallb]; rewrite Hd1; exact Hd2 | eapply stoks_text_stop; [exact Hok0|eexists; reflexivity]].
      rewrite (IH fuel Hl) by (cbn [length] in Hf; lia). reflexivity.
    + destruct (op_class c Ht) as [C1 [C2 [C3 [C4 [C5 [C6 [C7 [C8 [C9 [C10 C11]]]]]]]]]].
      cbn [app lex_loop]. rewrite C1, C2, C3, C4, C5, C6, C7, C8, C9. cbn [negb andb].
      rewrite (scan_op_ours c (stoks_text l) Ht (stoks_text_benign l Hl)). rewrite C10, C11.
      rewrite (IH fuel Hl) by (cbn [length] in Hf; lia). reflexivity.
    + cbn [app lex_loop]. change (in_domain_char 32) with true. change (is_blank 32) with true. cbn [negb].
      apply IH; [exact Hl|cbn [length] in Hf; lia].
Qed.

(* ---------- step 3: the text of a description as surface tokens, and those as the grammar tokens of the token loop *)
Definition int_stoks (v : Z) : list stok := if v <? 0 then [TOp 45; TNum (nat_text (- v))] else [TNum (nat_text v)].
Definition sitem_stoks (it : sitem) : list stok :=
  match it with
  | SSingle v => int_stoks v
  | SClosed a _ b => int_stoks a ++ TOp 58 :: int_stoks b
  | SFrom a _ => int_stoks a ++ [TOp 58]
  | SUpTo _ b => TOp 58 :: int_stoks b
  end.
Fixpoint desc_stoks (d : list sitem) : list stok :=
  match d with
  | [] => []
  | [it] => sitem_stoks it
  | it :: rest => sitem_stoks it ++ TOp 44 :: TBlank :: desc_stoks rest
  end.

Lemma stoks_text_app a b : stoks_text (a ++ b) = stoks_text a ++ stoks_text b.
Proof. unfold stoks_text. apply flat_map_app. Qed.
Lemma stoks_tokens_app a b : stoks_tokens (a ++ b) = stoks_tokens a ++ stoks_tokens b.
Proof. unfold stoks_tokens. apply flat_map_app. Qed.
Lemma int_stoks_text v : stoks_text (int_stoks v) = int_text v.
Proof. unfold int_stoks, int_text. destruct (v <? 0); cbn; rewrite app_nil_r; reflexivity. Qed.
Lemma stoks_text_cons t l : stoks_text (t :: l) = stok_text t ++ stoks_text l.
Proof. reflexivity. Qed.
Lemma sitem_stoks_text it : stoks_text (sitem_stoks it) = sitem_text colon it.
Proof.
  destruct it as [v|a k b|a k|k b]; cbn [sitem_stoks sitem_text colon].
  - apply int_stoks_text.
  - rewrite stoks_text_app, stoks_text_cons, !int_stoks_text. reflexivity.
  - rewrite stoks_text_app, stoks_text_cons, int_stoks_text. reflexivity.
  - rewrite stoks_text_cons, int_stoks_text. reflexivity.
Qed.
Lemma desc_stoks_text d : stoks_text (desc_stoks d) = desc_text colon d.
Proof.
  induction d as [|it d IH]; [reflexivity|]. destruct d as [|it2 d']; [apply sitem_stoks_text|].
  change (desc_stoks (it :: it2 :: d')) with (sitem_stoks it ++ TOp 44 :: TBlank :: desc_stoks (it2 :: d')).
  rewrite stoks_text_app, sitem_stoks_text, !stoks_text_cons. rewrite IH. reflexivity.
Qed.

(* well-formedness of the surface tokens: what a list ends / starts with *)
Definition starts_num (l : list stok) : bool := match l with TNum _ :: _ => true | _ => false end.
Fixpoint ends_num (l : list stok) : bool := match l with [] => false | [TNum _] => true | _ :: r => ends_num r end.
Lemma stoks_ok_app a b : stoks_ok a = true -> stoks_ok b = true -> ends_num a && starts_num b = false -> stoks_ok (a ++ b) = true.
Proof.
  induction a as [|t a IH]; intros Ha Hb Hj; [exact Hb|]. cbn [app stoks_ok] in *.
  apply andb_true_iff in Ha as [Ha Hra]. apply andb_true_iff in Ha as [Ht Hn]. rewrite Ht. cbn [andb].
  destruct a as [|t2 a'].
  - cbn [app]. rewrite Hb, andb_true_r. destruct t; try reflexivity. destruct b as [|[?|?|] ?]; try reflexivity. cbn in Hj. discriminate.
  - assert (stoks_ok ((t2 :: a') ++ b) = true) as E by (apply IH; [exact Hra|exact Hb|destruct t; exact Hj]).
    cbn [app] in *. rewrite E, andb_true_r. exact Hn.
Qed.
Lemma nat_text_ok n : 0 <= n -> stok_ok (TNum (nat_text n)) = true.
Proof. intros H. destruct (nat_text_spec n H) as [D [_ [_ NE]]]. cbn [stok_ok]. rewrite D. destruct (nat_text n); [congruence|reflexivity]. Qed.
Lemma int_stoks_ok v : stoks_ok (int_stoks v) = true /\ ends_num (int_stoks v) = true.
Proof.
  unfold int_stoks. destruct (v <? 0) eqn:E; cbn [stoks_ok ends_num].
  - rewrite nat_text_ok by lia. split; reflexivity.
  - rewrite nat_text_ok by lia. split; reflexivity.
Qed.
Lemma sitem_stoks_ok it : stoks_ok (sitem_stoks it) = true.
Proof.
  destruct it as [v|a k b|a k|k b]; cbn [sitem_stoks].
  - apply int_stoks_ok.
  - apply stoks_ok_app; [apply int_stoks_ok| |rewrite andb_false_r; reflexivity].
    cbn [stoks_ok stok_ok]. change (is_our_op 58) with true. cbn [andb]. destruct (int_stoks_ok b) as [-> _].
    destruct (int_stoks b) as [|[?|?|] ?]; reflexivity.
  - apply stoks_ok_app; [apply int_stoks_ok|reflexivity|rewrite andb_false_r; reflexivity].
  - cbn [stoks_ok stok_ok]. change (is_our_op 58) with true. cbn [andb]. destruct (int_stoks_ok b) as [-> _].
    destruct (int_stoks b) as [|[?|?|] ?]; reflexivity.
Qed.
Lemma desc_stoks_ok d : stoks_ok (desc_stoks d) = true.
Proof.
  induction d as [|it d IH]; [reflexivity|]. destruct d as [|it2 d']; [apply sitem_stoks_ok|].
  change (desc_stoks (it :: it2 :: d')) with (sitem_stoks it ++ TOp 44 :: TBlank :: desc_stoks (it2 :: d')).
  apply stoks_ok_app; [apply sitem_stoks_ok| |rewrite andb_false_r; reflexivity].
  cbn [stoks_ok stok_ok]. change (is_our_op 44) with true. cbn [andb]. exact IH.
Qed.

(* the grammar description (RangeParseProofs) a written description stands for *)
Definition sep_tok : token := T KOp [58%N].
Definition lim_of (v : Z) : lim := if v <? 0 then LMinus (T KNumber (nat_text (- v))) else LPlain (T KNumber (nat_text v)).
Definition gi (it : sitem) : gitem :=
  match it with
  | SSingle v => GSingle (lim_of v)
  | SClosed a _ b => GClosed (lim_of a) sep_tok (lim_of b)
  | SFrom a _ => GFrom (lim_of a) sep_tok
  | SUpTo _ b => GUpTo sep_tok (lim_of b)
  end.
Lemma stoks_tokens_cons t l : stoks_tokens (t :: l) = stok_token t ++ stoks_tokens l.
Proof. reflexivity. Qed.
Lemma int_stoks_tokens v : stoks_tokens (int_stoks v) = lim_tokens (lim_of v).
Proof. unfold int_stoks, lim_of. destruct (v <? 0); reflexivity. Qed.
Lemma sitem_stoks_tokens it : stoks_tokens (sitem_stoks it) = gitem_tokens (gi it).
Proof.
  destruct it as [v|a k b|a k|k b]; cbn [sitem_stoks gi gitem_tokens].
  - apply int_stoks_tokens.
  - rewrite stoks_tokens_app, stoks_tokens_cons, !int_stoks_tokens. reflexivity.
  - rewrite stoks_tokens_app, stoks_tokens_cons, int_stoks_tokens. reflexivity.
  - rewrite stoks_tokens_cons, int_stoks_tokens. reflexivity.
Qed.
Lemma desc_stoks_tokens d : d <> [] -> stoks_tokens (desc_stoks d) ++ [eof_tok] = desc_tokens (map gi d).
Proof.
  induction d as [|it d IH]; intros Hne; [congruence|]. destruct d as [|it2 d'].
  - cbn [desc_stoks map desc_tokens]. rewrite sitem_stoks_tokens. reflexivity.
  - change (desc_stoks (it :: it2 :: d')) with (sitem_stoks it ++ TOp 44 :: TBlank :: desc_stoks (it2 :: d')).
    change (map gi (it :: it2 :: d')) with (gi it :: gi it2 :: map gi d').
    change (desc_tokens (gi it :: gi it2 :: map gi d')) with (gitem_tokens (gi it) ++ comma_tok :: desc_tokens (map gi (it2 :: d'))).
    rewrite stoks_tokens_app, sitem_stoks_tokens, !stoks_tokens_cons. cbn [stok_token app]. rewrite <- app_assoc. cbn [app].
    rewrite IH by discriminate. reflexivity.
Qed.

Lemma lim_of_value v : lim_value (lim_of v) = Some v.
Proof.
  unfold lim_of. destruct (v <? 0) eqn:E; cbn [lim_value is_limit_kind tk T code_of tt]; unfold code_for_number.
  - rewrite int_base0_nat_text by lia. f_equal. lia.
  - rewrite int_base0_nat_text by lia. reflexivity.
Qed.
Lemma sep_tok_is_sep : is_sep sep_tok = true.
Proof. vm_compute. reflexivity. Qed.
Lemma gi_den it : sitem_ordered it -> gitem_den (gi it) = Some (sitem_den it).
Proof.
  destruct it as [v|a k b|a k|k b]; cbn [gi gitem_den sitem_den sitem_ordered]; intros H; rewrite ?sep_tok_is_sep, ?lim_of_value; try reflexivity.
  assert (b <? a = false) as -> by lia. reflexivity.
Qed.

(* ---------- the tokenizer on the pre-processed text *)
Lemma keep_stoks l : filter keep_token (stoks_tokens l ++ [eof_tok]) = stoks_tokens l ++ [eof_tok] \/ stoks_ok l = false.
Proof.
  destruct (stoks_ok l) eqn:Hok; [left|right; reflexivity].
  induction l as [|t l IH]; [reflexivity|]. cbn [stoks_ok] in Hok. apply andb_true_iff in Hok as [Hok Hl]. apply andb_true_iff in Hok as [Ht _].
  rewrite stoks_tokens_cons. rewrite <- app_assoc. rewrite filter_app. rewrite (IH Hl). f_equal.
  destruct t as [ds|c|]; cbn [stok_token filter stok_ok] in *; [| |reflexivity].
  - apply andb_true_iff in Ht as [Hne Hd]. unfold keep_token. cbn [tk tt T tkind_eqb negb andb orb].
    destruct ds as [|d ds]; [discriminate|]. cbn [forallb] in Hd. apply andb_true_iff in Hd as [Hd1 Hd2].
    assert (strip (d :: ds) <> []) as Hs.
    { unfold strip, rstrip. assert (is_py_space d = false) as Sd by (unfold is_digit, in_rng, is_py_space in *; lia).
      cbn [lstrip]. rewrite Sd. intros E. apply (f_equal (@rev N)) in E. rewrite rev_involutive in E. cbn [rev] in E.
      assert (forall m : text, (forall c, In c m -> is_py_space c = false) -> m <> [] -> lstrip m <> []) as A.
      { intros [|c m] Hm Hn; [congruence|]. cbn [lstrip]. rewrite (Hm c (or_introl eq_refl)). discriminate. }
      apply (A (rev ds ++ [d])); [|destruct (rev ds); discriminate|exact E].
      intros c Hc. apply in_app_or in Hc as [Hc|[<-|[]]]; [|exact Sd]. apply in_rev in Hc. rewrite forallb_forall in Hd2.
      specialize (Hd2 c Hc). unfold is_digit, in_rng, is_py_space in *. lia. }
    destruct (strip (d :: ds)); [congruence|reflexivity].
  - unfold is_our_op in Ht. assert (c = 45 \/ c = 58 \/ c = 44)%N as [-> | [-> | ->]] by lia; reflexivity.
Qed.

Lemma benign_in_domain s : forallb benign s = true -> forallb in_domain_char s = true.
Proof.
  intros H. apply forallb_forall. intros c Hc. rewrite forallb_forall in H. specialize (H c Hc).
  unfold benign, is_digit, is_our_op, in_domain_char, in_rng in *. lia.
Qed.

Definition head_visible (l : list stok) : bool := match l with TNum _ :: _ | TOp _ :: _ => true | _ => false end.
Theorem tokenize_stoks l : stoks_ok l = true -> head_visible l = true ->
  tokenize_without_space (stoks_text l) = LOk (stoks_tokens l ++ [eof_tok]).
Proof.
  intros Hok Hh. unfold tokenize_without_space, generated_tokens.
  assert (exists c r, stoks_text l = c :: r /\ is_blank c = false) as [c [r [Es Hc]]].
  { destruct l as [|[ds|c|] l']; try discriminate.
    - cbn [stoks_ok stok_ok] in Hok. apply andb_true_iff in Hok as [Hok _]. apply andb_true_iff in Hok as [Hok _]. apply andb_true_iff in Hok as [Hn Hd].
      destruct ds as [|d ds]; [discriminate|]. exists d, (ds ++ stoks_text l'). split; [reflexivity|].
      cbn [forallb] in Hd. apply andb_true_iff in Hd as [Hd _]. apply (digit_class d Hd).
    - cbn [stoks_ok stok_ok] in Hok. apply andb_true_iff in Hok as [Hok _]. apply andb_true_iff in Hok as [Hok _].
      exists c, (stoks_text l'). split; [reflexivity|]. apply (op_class c Hok). }
  assert (span is_blank (stoks_text l) = ([], stoks_text l)) as ->.
  { rewrite Es. cbn [span]. rewrite Hc. reflexivity. }
  rewrite (benign_in_domain _ (stoks_text_benign l Hok)). cbn [negb].
  rewrite (lex_stoks l (S (length (stoks_text l))) Hok (Nat.lt_succ_diag_r _)).
  destruct (keep_stoks l) as [K|K]; [|congruence].
  destruct (stoks_tokens l) as [|t0 ts] eqn:Et.
  - destruct l as [|[ds|c0|] l']; discriminate.
  - assert (tk t0 = KNumber \/ tk t0 = KOp) as Hk.
    { destruct l as [|[ds|c0|] l']; try discriminate; rewrite stoks_tokens_cons in Et; cbn [stok_token app] in Et; injection Et as <- _; auto. }
    destruct Hk as [Hk|Hk]; rewrite Hk; change (T KEnd []) with eof_tok; rewrite K; reflexivity.
Qed.

(* ---------- the theorem: from the text of a description to its items *)
Lemma lstrip_keeps (m : text) c : In c m -> is_py_space c = false -> lstrip m <> [].
Proof.
  induction m as [|x m IH]; intros Hin Hc; [contradiction|]. cbn [lstrip]. destruct (is_py_space x) eqn:E; [|discriminate].
  destruct Hin as [->|Hin]; [congruence|]. apply IH; assumption.
Qed.
Lemma not_blank_text s c r : s = c :: r -> is_py_space c = false -> is_blank_text s = false.
Proof.
  intros -> Hc. unfold is_blank_text, strip, rstrip. cbn [lstrip]. rewrite Hc.
  destruct (rev (lstrip (rev (c :: r)))) eqn:E; [|reflexivity].
  exfalso. apply (f_equal (@rev N)) in E. rewrite rev_involutive in E. cbn [rev] in E.
  apply (lstrip_keeps (rev r ++ [c]) c); [apply in_or_app; right; left; reflexivity|exact Hc|exact E].
Qed.

Lemma int_text_head v : exists c r, int_text v = c :: r /\ is_py_space c = false.
Proof.
  unfold int_text. destruct (v <? 0) eqn:E.
  - exists 45%N, (nat_text (- v)). split; reflexivity.
  - destruct (nat_text_spec v ltac:(lia)) as [D [_ [_ NE]]]. destruct (nat_text v) as [|c r]; [congruence|]. exists c, r. split; [reflexivity|].
    cbn [forallb] in D. apply andb_true_iff in D as [D _]. unfold is_digit, in_rng, is_py_space in *. lia.
Qed.
Lemma desc_text_head d : d <> [] -> exists c r, desc_text sep_text d = c :: r /\ is_py_space c = false.
Proof.
  intros Hne. destruct d as [|it d']; [congruence|].
  assert (exists c r, sitem_text sep_text it = c :: r /\ is_py_space c = false) as [c [r [E Hc]]].
  { destruct it as [v|a k b|a k|k b]; cbn [sitem_text].
    - apply int_text_head.
    - destruct (int_text_head a) as [c [r [-> Hc]]]. exists c, (r ++ sep_text k ++ int_text b). auto.
    - destruct (int_text_head a) as [c [r [-> Hc]]]. exists c, (r ++ sep_text k). auto.
    - destruct k; cbn [sep_text app]; eexists _, _; split; reflexivity. }
  destruct d' as [|it2 d'']; cbn [desc_text]; rewrite E; cbn [app]; eexists _, _; split; reflexivity || exact Hc.
Qed.

Theorem range_of_written_description d : d <> [] -> Forall sitem_ordered d -> no_overlap [] (map sitem_den d) ->
  range_of_text (desc_text sep_text d) = POk (Some (map sitem_den d)).
Proof.
  intros Hne Hord Hov. unfold range_of_text.
  destruct (desc_text_head d Hne) as [c [r [E Hc]]]. rewrite (not_blank_text _ c r E Hc).
  fold (pre (desc_text sep_text d)). rewrite pre_desc, <- desc_stoks_text.
  rewrite tokenize_stoks; [|apply desc_stoks_ok|].
  - rewrite (desc_stoks_tokens d Hne). apply token_loop_denotes.
    + destruct d; [congruence|discriminate].
    + rewrite !map_map. apply map_ext_in. intros it Hin. apply gi_den. rewrite Forall_forall in Hord. apply Hord. exact Hin.
    + exact Hov.
  - destruct d as [|it d']; [congruence|]. 
    assert (head_visible (sitem_stoks it) = true) as Hv.
    { destruct it as [v|a k b|a k|k b]; cbn [sitem_stoks]; unfold int_stoks; repeat (destruct (_ <? 0)); reflexivity. }
    destruct d' as [|it2 d'']; cbn [desc_stoks]; [exact Hv|]. destruct (sitem_stoks it) as [|[?|?|] ?]; try discriminate; reflexivity.
Qed.

(* end to end: the range made from the written description accepts exactly the values inside one of its items *)
From CP Require Import Proofs.RangeProofs.
Theorem written_description_accepts_exactly d v : d <> [] -> Forall sitem_ordered d -> no_overlap [] (map sitem_den d) ->
  exists r, range_of_text (desc_text sep_text d) = POk r /\
            (range_validate r v = true <-> exists it, In it d /\ inside (sitem_den it) v).
Proof.
  intros Hne Ho Hov. exists (Some (map sitem_den d)). split; [apply range_of_written_description; assumption|].
  rewrite range_validate_iff_lemma. split.
  - intros [it [Hin Hi]]. apply in_map_iff in Hin as [s [<- Hs]]. exists s. auto.
  - intros [s [Hs Hi]]. exists (sitem_den s). split; [apply in_map; exact Hs|exact Hi].
Qed.

(* ---------- printing a range and reading the text again (Range.__str__, Model/RangeStr.v) *)
From CP Require Import Model.RangeStr.
Definition sitem_of (it : item) : sitem :=
  match it with
  | (Some a, Some b) => if a =? b then SSingle a else SClosed a SDots b
  | (Some a, None) => SFrom a SDots
  | (None, Some b) => SUpTo SDots b
  | (None, None) => SSingle 0
  end.
Definition limited (it : item) : Prop := it <> (None, None).
Lemma item_str_sitem it : limited it -> item_str it = sitem_text sep_text (sitem_of it).
Proof.
  destruct it as [[a|] [b|]]; intros H; cbn [item_str sitem_of]; try reflexivity.
  - destruct (a =? b); reflexivity.
  - exfalso. apply H. reflexivity.
Qed.
Lemma items_str_desc its : Forall limited its -> items_str its = desc_text sep_text (map sitem_of its).
Proof.
  induction its as [|it rest IH]; intros H; [reflexivity|]. inversion H; subst.
  destruct rest as [|it2 rest']; cbn [items_str map desc_text].
  - apply item_str_sitem. assumption.
  - rewrite item_str_sitem by assumption. f_equal. f_equal. apply IH. assumption.
Qed.
Lemma sitem_of_den it : limited it -> sitem_den (sitem_of it) = it.
Proof.
  destruct it as [[a|] [b|]]; intros H; cbn [sitem_of]; try reflexivity.
  - destruct (a =? b) eqn:E; cbn [sitem_den]; [apply Z.eqb_eq in E; subst; reflexivity|reflexivity].
  - exfalso. apply H. reflexivity.
Qed.
Lemma sitem_of_ordered it : (match it with (Some a, Some b) => a <= b | _ => True end) -> sitem_ordered (sitem_of it).
Proof. destruct it as [[a|] [b|]]; cbn [sitem_of]; intros H; try exact I. destruct (a =? b); cbn; auto. Qed.

(* the text a range prints for itself is a description of exactly that range: for every range with at least one item,
   whose items have a limit, are ordered and do not overlap (what Range.__init__ produces), reading the printed text
   gives the same items back *)
Theorem printed_range_reads_back its : its <> [] -> Forall limited its ->
  Forall (fun it => match it with (Some a, Some b) => a <= b | _ => True end) its -> no_overlap [] its ->
  range_of_text (range_str (Some its)) = POk (Some its).
Proof.
  intros Hne Hl Ho Hov.
  assert (M : map sitem_den (map sitem_of its) = its).
  { rewrite map_map. rewrite <- (map_id its) at 2. apply map_ext_in. intros it Hin. apply sitem_of_den. rewrite Forall_forall in Hl. auto. }
  destruct its as [|it0 rest]; [congruence|]. cbn [range_str]. rewrite items_str_desc by assumption.
  rewrite range_of_written_description.
  - rewrite M. reflexivity.
  - discriminate.
  - apply Forall_forall. intros s Hs. apply in_map_iff in Hs as [it [<- Hin]]. apply sitem_of_ordered. rewrite Forall_forall in Ho. apply Ho. exact Hin.
  - rewrite M. exact Hov.
Qed.
