(* C01, from text to items for descriptions written with decimal numbers: the pre-processing of the ellipsis spellings,
   the tokenizer model and the token loop together map the text of a description to the items it denotes. *)
From Coq Require Import Lia ZifyBool.
From CP Require Import Model.Base Generated.Consts Model.Ranges Model.Lex Model.RangeParse Model.FieldTypes Spec.FieldSpec
  Proofs.BaseProofs Proofs.IntProofs Proofs.RangeParseProofs.
Local Open Scope Z_scope.

(* ---------- numbers: int(text, 0) of the decimal text of n is n *)
Lemma dval_bound l : forallb is_digit l = true -> 0 <= dval l 0 < 10 ^ Z.of_nat (length l).
Proof.
  induction l as [|c l IH] using rev_ind; intros H; [cbn; lia|].
  rewrite forallb_app in H. apply andb_true_iff in H as [Hl Hc]. cbn [forallb] in Hc. rewrite andb_true_r in Hc.
  specialize (IH Hl). rewrite dval_app. unfold dval in *. cbn [fold_left]. unfold dstep at 1 3.
  rewrite app_length. cbn [length]. rewrite Nat2Z.inj_add. change (Z.of_nat 1) with 1. rewrite Z.pow_add_r by lia. change (10 ^ 1) with 10.
  unfold is_digit, in_rng in Hc. set (P := 10 ^ Z.of_nat (length l)) in *. set (D := fold_left dstep l 0) in *. clearbody P D. lia.
Qed.
Lemma digits_value_digits l : forall acc, forallb is_digit l = true -> digits_value 10 l acc = Some (dval l acc).
Proof.
  induction l as [|c l IH]; intros acc H; [reflexivity|]. cbn [forallb] in H. apply andb_true_iff in H as [Hc Hl].
  cbn [digits_value].
  assert (N.eqb c US = false) as -> by (unfold is_digit, in_rng, US in *; lia).
  assert (is_xdigit c = true) as -> by (unfold is_xdigit; rewrite Hc; reflexivity).
  assert (digit_val c = Z.of_N c - 48) as Dv by (unfold digit_val; rewrite Hc; reflexivity).
  assert (digit_val c <? 10 = true) as -> by (rewrite Dv; unfold is_digit, in_rng in Hc; lia).
  cbn [andb]. rewrite IH by exact Hl. rewrite Dv. reflexivity.
Qed.
Lemma nat_text_leading n c r : 0 <= n -> nat_text n = c :: r -> r <> [] -> N.eqb c 48 = false.
Proof.
  intros Hn E Hr. destruct (nat_text_spec n Hn) as [D [V [L _]]]. rewrite E in *.
  apply N.eqb_neq. intros ->. cbn [forallb] in D. apply andb_true_iff in D as [_ Dr].
  unfold dval in V. cbn [fold_left] in V. unfold dstep at 2 in V. change (0 * 10 + (Z.of_N 48 - 48)) with 0 in V. fold (dval r 0) in V.
  pose proof (dval_bound r Dr) as B. cbn [length] in L.
  assert (0 < n) as Hp. { destruct (Z.eq_dec n 0) as [->|]; [|lia]. rewrite ndig_0 in L. destruct r; [congruence|cbn in L; lia]. }
  pose proof (ndig_spec n Hp) as [S1 _]. rewrite <- L in S1.
  replace (Z.of_nat (S (length r)) - 1) with (Z.of_nat (length r)) in S1 by lia. lia.
Qed.
Theorem int_base0_nat_text n : 0 <= n -> int_base0 (nat_text n) = Some n.
Proof.
  intros Hn. destruct (nat_text_spec n Hn) as [D [V [_ NE]]].
  unfold int_base0. destruct (nat_text n) as [|z [|x r]] eqn:E; [congruence| |].
  - rewrite digits_value_digits by exact D. rewrite V. reflexivity.
  - rewrite (nat_text_leading n z (x :: r) Hn E) by discriminate. cbn [andb].
    rewrite digits_value_digits by exact D. rewrite V. reflexivity.
Qed.

(* ---------- the written form *)
Inductive sepk := SDots | SColon | SEllipsis.
Definition sep_text (k : sepk) : text := match k with SDots => [46; 46; 46]%N | SColon => [58%N] | SEllipsis => [ELLIPSIS] end.
Inductive sitem := SSingle (v : Z) | SClosed (a : Z) (k : sepk) (b : Z) | SFrom (a : Z) (k : sepk) | SUpTo (k : sepk) (b : Z).
Definition sitem_text (sp : sepk -> text) (it : sitem) : text :=
  match it with
  | SSingle v => int_text v
  | SClosed a k b => int_text a ++ sp k ++ int_text b
  | SFrom a k => int_text a ++ sp k
  | SUpTo k b => sp k ++ int_text b
  end.
Fixpoint desc_text (sp : sepk -> text) (d : list sitem) : text :=
  match d with
  | [] => []
  | [it] => sitem_text sp it
  | it :: rest => sitem_text sp it ++ [44; 32]%N ++ desc_text sp rest
  end.
Definition sitem_den (it : sitem) : item :=
  match it with
  | SSingle v => (Some v, Some v) | SClosed a _ b => (Some a, Some b) | SFrom a _ => (Some a, None) | SUpTo _ b => (None, Some b)
  end.
Definition sitem_ordered (it : sitem) : Prop := match it with SClosed a _ b => a <= b | _ => True end.

(* ---------- step 1: "..." becomes the ellipsis character, which becomes ':' for the tokenizer *)
Definition plain_char (c : N) : bool := negb (N.eqb c 46) && negb (is_quote c) && negb (N.eqb c ELLIPSIS).
Lemma int_text_plain v : forallb plain_char (int_text v) = true.
Proof.
  assert (forall n, 0 <= n -> forallb plain_char (nat_text n) = true) as A.
  { intros n Hn. destruct (nat_text_spec n Hn) as [D _]. apply forallb_forall. intros c Hc. rewrite forallb_forall in D.
    specialize (D c Hc). unfold plain_char, is_digit, in_rng, is_quote, ELLIPSIS in *. lia. }
  unfold int_text. destruct (v <? 0) eqn:E; [cbn [forallb]; rewrite A by lia; reflexivity|apply A; lia].
Qed.
Definition pre (s : text) : text := ellipsis_to_colon (replace_dots s) None false.
Lemma pre_plain s rest : forallb plain_char s = true -> pre (s ++ rest) = s ++ pre rest.
Proof.
  unfold pre. induction s as [|c s IH]; intros H; [reflexivity|]. cbn [forallb] in H. apply andb_true_iff in H as [Hc Hs].
  unfold plain_char in Hc. apply andb_true_iff in Hc as [Hc He]. apply andb_true_iff in Hc as [Hd Hq].
  apply negb_true_iff in Hd, Hq, He.
  assert (replace_dots ((c :: s) ++ rest) = c :: replace_dots (s ++ rest)) as ->.
  { cbn [app replace_dots]. destruct c as [|p]; [reflexivity|]. destruct (N.eqb_spec (N.pos p) 46) as [E|E]; [discriminate|].
    destruct p as [p|p|]; try reflexivity; repeat (destruct p as [p|p|]; try reflexivity); exfalso; apply E; reflexivity. }
  cbn [ellipsis_to_colon]. rewrite Hq, He. cbn [app]. f_equal. apply IH. exact Hs.
Qed.
Lemma pre_sep k rest : pre (sep_text k ++ rest) = 58%N :: pre rest.
Proof. destruct k; reflexivity. Qed.
Lemma pre_comma rest : pre ([44; 32]%N ++ rest) = [44; 32]%N ++ pre rest.
Proof. apply pre_plain. reflexivity. Qed.
Definition colon (_ : sepk) : text := [58%N].
Lemma pre_sitem it rest : pre (sitem_text sep_text it ++ rest) = sitem_text colon it ++ pre rest.
Proof.
  destruct it; cbn [sitem_text]; rewrite <- ?app_assoc;
    repeat (rewrite ?pre_plain by apply int_text_plain; rewrite ?pre_sep; cbn [app colon]); reflexivity.
Qed.
Lemma pre_nil : pre [] = [].
Proof. reflexivity. Qed.
Theorem pre_desc d : pre (desc_text sep_text d) = desc_text colon d.
Proof.
  induction d as [|it d IH]; [reflexivity|]. destruct d as [|it2 d'].
  - cbn [desc_text]. rewrite <- (app_nil_r (sitem_text sep_text it)). rewrite pre_sitem, pre_nil, app_nil_r. reflexivity.
  - change (desc_text sep_text (it :: it2 :: d')) with (sitem_text sep_text it ++ [44; 32]%N ++ desc_text sep_text (it2 :: d')).
    rewrite pre_sitem, pre_comma, IH. reflexivity.
Qed.
