(* Lemmas about Model/Validio.v: validate_row, the Reader loop in its three modes, counters. *)
From Coq Require Import Lia.
From CP Require Import Model.Base Model.Ranges Model.Fields Model.Validio Spec.ValidioSpec.

Section P.
  Context {CS : Type}.
  Implicit Types (c : cid CS) (sts : list CS) (row : list text) (l : loc) (s : rstate CS).


  (* ---------- validate_fields *)
  Lemma validate_fields_none fmt fs : forall i row, length row = length fs ->
    (fst (validate_fields fmt fs i row) = None <-> Forall2 (cell_ok fmt) fs row).
  Proof.
    induction fs as [|f fs IH]; intros i row Hl; destruct row as [|cell row]; try (exfalso; cbn in Hl; lia).
    - cbn. split; intros; try constructor; auto.
    - cbn [validate_fields]. destruct (v_ok (validated fmt f cell)) eqn:Hok.
      + destruct (validate_fields fmt fs (S i) row) as [b evs] eqn:V. cbn [fst].
        specialize (IH (S i) row ltac:(cbn in Hl; lia)). rewrite V in IH. cbn [fst] in IH.
        rewrite IH. split; intros H.
        * constructor; assumption.
        * inversion H; assumption.
      + cbn [fst]. split; [discriminate|]. intros H. inversion H; subst. unfold cell_ok in *. congruence.
  Qed.

  Lemma validate_fields_some fmt fs : forall i row k, length row = length fs ->
    fst (validate_fields fmt fs i row) = Some k -> i <= k /\ first_bad fmt fs row (k - i).
  Proof.
    induction fs as [|f fs IH]; intros i row k Hl H; destruct row as [|cell row]; try (exfalso; cbn in Hl; lia); try discriminate.
    cbn [validate_fields] in H. destruct (v_ok (validated fmt f cell)) eqn:Hok.
    - destruct (validate_fields fmt fs (S i) row) as [b evs] eqn:V. cbn [fst] in H. subst b.
      destruct (IH (S i) row k ltac:(cbn in Hl; lia)) as [Hle [[f' [cell' [A [B C]]]] D]]; [rewrite V; reflexivity|].
      split; [lia|]. replace (k - i) with (S (k - S i)) by lia. split.
      + exists f', cell'. cbn. auto.
      + intros j f0 c0 Hj Hf Hc. destruct j as [|j]; cbn in Hf, Hc.
        * congruence.
        * eapply D; eauto. lia.
    - cbn [fst] in H. injection H as <-. split; [lia|]. rewrite Nat.sub_diag. split.
      + exists f, cell. cbn. auto.
      + intros j ? ? Hj. lia.
  Qed.

  (* ---------- run_checks *)
  Lemma run_checks_none cks : forall i sts row l,
    snd (fst (run_checks cks i sts row l)) = None <-> checks_pass row l cks sts.
  Proof.
    induction cks as [|ck cks IH]; intros i sts row l.
    - cbn. split; intros; try constructor; auto.
    - destruct sts as [|st sts]; cbn [run_checks].
      + cbn. split; intros; try constructor; auto.
      + destruct (ck_row ck st row l) as [st' veto] eqn:R. destruct veto as [see|].
        * cbn. split; [discriminate|]. intros H. inversion H; subst. rewrite R in *. discriminate.
        * destruct (run_checks cks (S i) sts row l) as [[sts'' v] evs] eqn:RC. cbn [fst snd].
          specialize (IH (S i) sts row l). rewrite RC in IH. cbn [fst snd] in IH. rewrite IH.
          split; intros H.
          -- constructor; [rewrite R; reflexivity|assumption].
          -- inversion H; assumption.
  Qed.


  Theorem validate_row_accept_iff c sts l row :
    snd (fst (fst (validate_row c sts l row))) = None <->
    length row = length (c_fields c) /\ Forall2 (cell_ok (c_fmt c)) (c_fields c) row /\
    checks_pass row (set_cell l 0) (c_checks c) sts.
  Proof.
    unfold validate_row. destruct (Nat.eqb (length row) (length (c_fields c))) eqn:E; cbn [negb].
    - apply Nat.eqb_eq in E.
      pose proof (validate_fields_none (c_fmt c) (c_fields c) 0 row E) as VN.
      destruct (validate_fields (c_fmt c) (c_fields c) 0 row) as [b evs] eqn:V. cbn [fst] in VN.
      destruct b as [i|].
      + cbn. split; [discriminate|]. intros [_ [H _]]. apply VN in H. discriminate.
      + pose proof (run_checks_none (c_checks c) 0 sts row (set_cell l 0)) as RN.
        destruct (run_checks (c_checks c) 0 sts row (set_cell l 0)) as [[sts' veto] evs2] eqn:RC.
        cbn [fst snd] in RN. destruct veto as [see|]; cbn [fst snd].
        * split; [discriminate|]. intros [_ [_ H]]. apply RN in H. discriminate.
        * split; auto. intros _. split; [assumption|]. split; [apply VN; reflexivity|apply RN; reflexivity].
    - cbn. split; [discriminate|]. intros [H _]. apply Nat.eqb_neq in E. contradiction.
  Qed.

  Theorem validate_row_error c sts l row sts' e l' evs :
    validate_row c sts l row = (sts', Some e, l', evs) ->
    l_line (e_loc e) = l_line l /\ l' = e_loc e /\
    ((length row <> length (c_fields c) /\ e_family e = FData /\ e_loc e = l /\ e_field e = None /\ sts' = sts /\ evs = [])
     \/ (length row = length (c_fields c) /\ sts' = sts /\
         exists i, first_bad (c_fmt c) (c_fields c) row i /\ e_family e = FFieldValue /\ e_loc e = set_cell l i /\ e_field e = Some i)
     \/ (length row = length (c_fields c) /\ Forall2 (cell_ok (c_fmt c)) (c_fields c) row /\
         ~ checks_pass row (set_cell l 0) (c_checks c) sts /\
         e_family e = FCheck /\ e_loc e = set_cell l 0 /\ e_field e = None)).
  Proof.
    unfold validate_row. destruct (Nat.eqb (length row) (length (c_fields c))) eqn:E; cbn [negb].
    - apply Nat.eqb_eq in E.
      pose proof (validate_fields_none (c_fmt c) (c_fields c) 0 row E) as VN.
      pose proof (validate_fields_some (c_fmt c) (c_fields c) 0 row) as VS.
      destruct (validate_fields (c_fmt c) (c_fields c) 0 row) as [b evs0] eqn:V. cbn [fst] in VN, VS.
      destruct b as [i|].
      + intros H. injection H as <- <- <- <-. cbn. split; [reflexivity|]. split; [reflexivity|]. right. left.
        split; [assumption|]. split; [reflexivity|]. exists i.
        destruct (VS i E eq_refl) as [_ FB]. rewrite Nat.sub_0_r in FB. auto.
      + pose proof (run_checks_none (c_checks c) 0 sts row (set_cell l 0)) as RN.
        destruct (run_checks (c_checks c) 0 sts row (set_cell l 0)) as [[sts1 veto] evs2] eqn:RC.
        cbn [fst snd] in RN. destruct veto as [see|]; [|discriminate].
        intros H. injection H as <- <- <- <-. cbn. split; [reflexivity|]. split; [reflexivity|]. right. right.
        split; [assumption|]. split; [apply VN; reflexivity|]. split; [intros CP; apply RN in CP; discriminate|].
        auto.
    - intros H. injection H as <- <- <- <-. cbn. split; [reflexivity|]. split; [reflexivity|]. left.
      apply Nat.eqb_neq in E. repeat split; auto.
  Qed.


  Lemma validate_row_loc c sts l row sts' oe l' evs :
    validate_row c sts l row = (sts', oe, l', evs) -> l_line l' = l_line l.
  Proof.
    unfold validate_row. destruct (negb _).
    - intros H; injection H as <- <- <- <-; reflexivity.
    - destruct (validate_fields _ _ _ _) as [[i|] evs0].
      + intros H; injection H as <- <- <- <-; reflexivity.
      + destruct (run_checks _ _ _ _ _) as [[sts1 [see|]] evs2]; intros H; injection H as <- <- <- <-; reflexivity.
  Qed.

  Definition loc_inv s := rs_loc s = {| l_line := rs_count s - 1; l_cell := 0 |} /\ 1 <= rs_count s.

  (* yield mode: one output per data row, judged at (row number, first cell); never raises *)
  Lemma run_rows_yield c limit : forall raws s, loc_inv s ->
    forall sf outs r evs, run_rows c MYield limit s raws = (sf, outs, r, evs) ->
    outs = yield_spec c limit (rs_count s) (rs_sts s) raws /\ r = None /\ loc_inv sf /\
    rs_count sf = rs_count s + length raws /\
    rs_acc sf = rs_acc s + count_rows outs /\ rs_rej sf = rs_rej s + count_errs outs.
  Proof.
    induction raws as [|row rest IH]; intros s [Hloc Hk] sf outs r evs H.
    - cbn in H. injection H as <- <- <- <-. cbn. repeat split; auto; lia.
    - cbn [run_rows] in H. unfold step in H. cbn [yield_spec].
      destruct (Nat.ltb (c_header c) (rs_count s)) eqn:Hh.
      + destruct (before_limit limit (rs_count s)) eqn:Hb.
        * rewrite Hloc in H.
          destruct (validate_row c (rs_sts s) {| l_line := rs_count s - 1; l_cell := 0 |} row) as [[[sts' oe] l'] evs0] eqn:V.
          pose proof (validate_row_loc _ _ _ _ _ _ _ _ V) as HL. cbn in HL.
          destruct oe as [e|].
          -- match type of H with context [run_rows c MYield limit ?x rest] => set (s1 := x) in *;
               destruct (run_rows c MYield limit s1 rest) as [[[sf1 outs1] r1] evs1] eqn:R end.
             injection H as <- <- <- <-.
             destruct (IH s1 ltac:(split; subst s1; cbn; [unfold advance_line; rewrite HL; f_equal; lia | lia]) _ _ _ _ R)
               as [A [B [[C1 C2] [D [F G]]]]].
             subst s1; cbn in *. repeat split; auto; try lia. rewrite A. reflexivity.
          -- match type of H with context [run_rows c MYield limit ?x rest] => set (s1 := x) in *;
               destruct (run_rows c MYield limit s1 rest) as [[[sf1 outs1] r1] evs1] eqn:R end.
             injection H as <- <- <- <-.
             destruct (IH s1 ltac:(split; subst s1; cbn; [unfold advance_line; rewrite HL; f_equal; lia | lia]) _ _ _ _ R)
               as [A [B [[C1 C2] [D [F G]]]]].
             subst s1; cbn in *. repeat split; auto; try lia. rewrite A. reflexivity.
        * match type of H with context [run_rows c MYield limit ?x rest] => set (s1 := x) in *;
            destruct (run_rows c MYield limit s1 rest) as [[[sf1 outs1] r1] evs1] eqn:R end.
          injection H as <- <- <- <-.
          destruct (IH s1 ltac:(split; subst s1; cbn; [rewrite Hloc; unfold advance_line; cbn; f_equal; lia | lia]) _ _ _ _ R)
            as [A [B [[C1 C2] [D [F G]]]]].
          subst s1; cbn in *. repeat split; auto; try lia. rewrite A. reflexivity.
      + match type of H with context [run_rows c MYield limit ?x rest] => set (s1 := x) in *;
          destruct (run_rows c MYield limit s1 rest) as [[[sf1 outs1] r1] evs1] eqn:R end.
        injection H as <- <- <- <-.
        destruct (IH s1 ltac:(split; subst s1; cbn; [rewrite Hloc; unfold advance_line; cbn; f_equal; lia | lia]) _ _ _ _ R)
          as [A [B [[C1 C2] [D [F G]]]]].
        subst s1; cbn in *. repeat split; auto; try lia.
  Qed.


  (* 'continue' sees exactly the accepted rows of 'yield'; same final state, counters and calls *)
  Lemma run_rows_continue c limit : forall raws s sfy oy ry ey,
    run_rows c MYield limit s raws = (sfy, oy, ry, ey) ->
    run_rows c MContinue limit s raws = (sfy, filter is_row oy, None, ey) /\ ry = None.
  Proof.
    induction raws as [|row rest IH]; intros s sfy oy ry ey H.
    - cbn in *. injection H as <- <- <- <-. auto.
    - cbn [run_rows] in *. unfold step in *.
      destruct (Nat.ltb (c_header c) (rs_count s)).
      + destruct (before_limit limit (rs_count s)).
        * destruct (validate_row c (rs_sts s) (rs_loc s) row) as [[[sts' oe] l'] evs0].
          destruct oe as [e|].
          -- match type of H with context [run_rows c MYield limit ?x rest] =>
               destruct (run_rows c MYield limit x rest) as [[[sf1 o1] r1] e1] eqn:R end.
             injection H as <- <- <- <-. destruct (IH _ _ _ _ _ R) as [-> ->]. cbn. auto.
          -- match type of H with context [run_rows c MYield limit ?x rest] =>
               destruct (run_rows c MYield limit x rest) as [[[sf1 o1] r1] e1] eqn:R end.
             injection H as <- <- <- <-. destruct (IH _ _ _ _ _ R) as [-> ->]. cbn. auto.
        * match type of H with context [run_rows c MYield limit ?x rest] =>
            destruct (run_rows c MYield limit x rest) as [[[sf1 o1] r1] e1] eqn:R end.
          injection H as <- <- <- <-. destruct (IH _ _ _ _ _ R) as [-> ->]. cbn. auto.
      + match type of H with context [run_rows c MYield limit ?x rest] =>
          destruct (run_rows c MYield limit x rest) as [[[sf1 o1] r1] e1] eqn:R end.
        injection H as <- <- <- <-. destruct (IH _ _ _ _ _ R) as [-> ->]. cbn. auto.
  Qed.

  (* 'raise' sees the rows before the first rejection and then raises that same error *)
  Lemma run_rows_raise c limit : forall raws s sfy oy ry ey,
    run_rows c MYield limit s raws = (sfy, oy, ry, ey) ->
    exists sfr er, run_rows c MRaise limit s raws = (sfr, rows_before_error oy, first_error oy, er).
  Proof.
    induction raws as [|row rest IH]; intros s sfy oy ry ey H.
    - cbn in *. injection H as <- <- <- <-. eauto.
    - cbn [run_rows] in *. unfold step in *.
      destruct (Nat.ltb (c_header c) (rs_count s)).
      + destruct (before_limit limit (rs_count s)).
        * destruct (validate_row c (rs_sts s) (rs_loc s) row) as [[[sts' oe] l'] evs0].
          destruct oe as [e|].
          -- match type of H with context [run_rows c MYield limit ?x rest] =>
               destruct (run_rows c MYield limit x rest) as [[[sf1 o1] r1] e1] eqn:R end.
             injection H as <- <- <- <-. cbn. eauto.
          -- match type of H with context [run_rows c MYield limit ?x rest] =>
               destruct (run_rows c MYield limit x rest) as [[[sf1 o1] r1] e1] eqn:R end.
             injection H as <- <- <- <-. destruct (IH _ _ _ _ _ R) as [sfr [er ->]]. cbn. eauto.
        * match type of H with context [run_rows c MYield limit ?x rest] =>
            destruct (run_rows c MYield limit x rest) as [[[sf1 o1] r1] e1] eqn:R end.
          injection H as <- <- <- <-. destruct (IH _ _ _ _ _ R) as [sfr [er ->]]. cbn. eauto.
      + match type of H with context [run_rows c MYield limit ?x rest] =>
          destruct (run_rows c MYield limit x rest) as [[[sf1 o1] r1] e1] eqn:R end.
        injection H as <- <- <- <-. destruct (IH _ _ _ _ _ R) as [sfr [er ->]]. cbn. eauto.
  Qed.

  (* number of outputs of the yield spec = number of data rows *)
  Lemma yield_spec_length c limit : forall raws k sts,
    length (yield_spec c limit k sts raws) + Nat.min (S (c_header c) - k) (length raws) = length raws.
  Proof.
    induction raws as [|row rest IH]; intros k sts; cbn [yield_spec length].
    - lia.
    - destruct (Nat.ltb_spec (c_header c) k).
      + destruct (before_limit limit k).
        * destruct (validate_row _ _ _ _) as [[[sts' [e|]] l'] evs0]; cbn [length];
          specialize (IH (S k) sts'); lia.
        * cbn [length]. specialize (IH (S k) sts). lia.
      + specialize (IH (S k) sts). lia.
  Qed.

  Lemma count_rows_errs (os : list out) : count_rows os + count_errs os = length os.
  Proof. induction os as [|[r|e] t IH]; cbn; lia. Qed.

  (* ---------- Reader.rows as a whole *)
  Definition s0 c : rstate CS :=
    {| rs_count := 1; rs_loc := {| l_line := 0; l_cell := 0 |}; rs_sts := resets (c_checks c); rs_acc := 0; rs_rej := 0 |}.
  Lemma s0_inv c : loc_inv (s0 c).
  Proof. split; cbn; auto. Qed.

  Lemma reader_yield c limit sts_in raws fault sf outs r evs :
    reader_rows c MYield limit sts_in raws fault = (sf, outs, r, evs) ->
    outs = yield_spec c limit 1 (resets (c_checks c)) raws /\
    r = (if fault then Some (format_error (rs_loc sf)) else None) /\
    rs_acc sf = count_rows outs /\ rs_rej sf = count_errs outs /\
    rs_acc sf + rs_rej sf + Nat.min (c_header c) (length raws) = length raws.
  Proof.
    unfold reader_rows. fold (s0 c).
    destruct (run_rows c MYield limit (s0 c) raws) as [[[sf1 o1] r1] e1] eqn:R.
    intros H. injection H as <- <- <- <-.
    destruct (run_rows_yield c limit raws (s0 c) (s0_inv c) _ _ _ _ R) as [A [B [C [D [F G]]]]].
    cbn in A, F, G. subst r1. repeat split; auto.
    rewrite F, G, count_rows_errs, A.
    pose proof (yield_spec_length c limit raws 1 (resets (c_checks c))) as L.
    replace (S (c_header c) - 1) with (c_header c) in L by lia. exact L.
  Qed.

  Lemma reader_continue c limit sts_in raws fault sf outs r evs :
    reader_rows c MYield limit sts_in raws fault = (sf, outs, r, evs) ->
    reader_rows c MContinue limit sts_in raws fault = (sf, filter is_row outs, r, evs).
  Proof.
    unfold reader_rows. fold (s0 c).
    destruct (run_rows c MYield limit (s0 c) raws) as [[[sf1 o1] r1] e1] eqn:R.
    destruct (run_rows_continue c limit raws (s0 c) _ _ _ _ R) as [-> ->].
    intros H. injection H as <- <- <- <-. reflexivity.
  Qed.

  Lemma reader_raise c limit sts_in raws fault sf outs r evs :
    reader_rows c MYield limit sts_in raws fault = (sf, outs, r, evs) ->
    exists sfr er, reader_rows c MRaise limit sts_in raws fault =
      (sfr, rows_before_error outs,
       (match first_error outs with Some e => Some e | None => if fault then Some (format_error (rs_loc sfr)) else None end), er).
  Proof.
    unfold reader_rows. fold (s0 c).
    destruct (run_rows c MYield limit (s0 c) raws) as [[[sf1 o1] r1] e1] eqn:R.
    destruct (run_rows_raise c limit raws (s0 c) _ _ _ _ R) as [sfr [er ->]].
    intros H. injection H as <- <- <- <-. eauto.
  Qed.
End P.
