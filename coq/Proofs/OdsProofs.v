(* C15: decoding any encoding of the family in Spec/OdsSpec.v returns the table. *)
From Coq Require Import Lia.
From CP Require Import Model.Base Model.Lex Model.FieldTypes Model.Ods Spec.FieldSpec Spec.OdsSpec Proofs.BaseProofs Proofs.IntProofs Generated.Consts.
Local Open Scope Z_scope.

(* ---------- sizes: a repeat count is at most _MAX_ODS_REPEATED_COUNT (read from the source) *)
Definition fits (n : nat) : Prop := Z.of_nat n <= MAX_ODS_REPEATED_COUNT.
Lemma fits_le n m : (n <= m)%nat -> fits m -> fits n.
Proof. unfold fits. lia. Qed.
(* a table no dimension of which exceeds the largest repeat count: rows, cells per row, characters per cell *)
Definition small_text (v : text) : Prop := fits (length v).
Definition small_row (row : list text) : Prop := fits (length row) /\ Forall small_text row.
Definition small_table (t : list (list text)) : Prop := fits (length t) /\ Forall small_row t.

(* ---------- run length encoding *)
Definition expand {A} (rs : list (A * nat)) : list A := flat_map (fun p => repeat (fst p) (snd p)) rs.
Definition okrun {A} (p : A * nat) : Prop := (1 <= snd p)%nat /\ fits (snd p).

Lemma rle_expand {A} (eqb : A -> A -> bool) (H : forall x y, eqb x y = true -> x = y) (l : list A) :
  expand (rle eqb l) = l /\ Forall (fun p => (1 <= snd p <= length l)%nat) (rle eqb l).
Proof.
  induction l as [|x r [IH1 IH2]]; cbn [rle]; [split; [reflexivity|constructor]|].
  assert (W : forall ps : list (A * nat), Forall (fun p => (1 <= snd p <= length r)%nat) ps ->
                                           Forall (fun p => (1 <= snd p <= length (x :: r))%nat) ps).
  { intros ps. apply Forall_impl. intros p Hp. cbn [length]. lia. }
  destruct (rle eqb r) as [|[y n] t] eqn:E.
  - cbn in IH1. subst r. split; [reflexivity|]. constructor; [cbn; lia|constructor].
  - destruct (eqb x y) eqn:Exy.
    + apply H in Exy. subst y. split.
      * unfold expand in *. cbn [flat_map fst snd repeat] in *. cbn [app]. f_equal. exact IH1.
      * inversion IH2 as [|p ps Hp Hps]; subst. constructor; [cbn [snd length] in *; lia|apply W; assumption].
    + split.
      * unfold expand in *. cbn [flat_map fst snd repeat app]. f_equal. exact IH1.
      * constructor; [cbn [snd length]; lia|apply W; exact IH2].
Qed.
Lemma rle_in {A} (eqb : A -> A -> bool) (H : forall x y, eqb x y = true -> x = y) (l : list A) p :
  In p (rle eqb l) -> In (fst p) l.
Proof.
  revert p. induction l as [|x r IH]; intros p Hin; cbn [rle] in Hin; [contradiction|].
  destruct (rle eqb r) as [|[y n] t] eqn:E.
  - destruct Hin as [<-|[]]. left. reflexivity.
  - destruct (eqb x y) eqn:Exy.
    + apply H in Exy. subst y. destruct Hin as [<-|Hin]; [left; reflexivity|right; apply IH; right; exact Hin].
    + destruct Hin as [<-|Hin]; [left; reflexivity|right; apply IH; exact Hin].
Qed.
Lemma runs_expand {A} b (eqb : A -> A -> bool) (H : forall x y, eqb x y = true -> x = y) (l : list A) : fits (length l) ->
  expand (runs b eqb l) = l /\ Forall okrun (runs b eqb l) /\ (forall p, In p (runs b eqb l) -> In (fst p) l).
Proof.
  intros Hf. unfold runs. destruct b.
  - destruct (rle_expand eqb H l) as [E F]. split; [exact E|]. split; [|intros p; apply rle_in; exact H].
    revert F. apply Forall_impl. intros p [H1 H2]. split; [exact H1|]. apply (fits_le _ (length l)); assumption.
  - split; [|split].
    + induction l as [|x l IH]; [reflexivity|]. unfold expand in *. cbn. f_equal. apply IH. apply (fits_le _ (length (x :: l))); [cbn; lia|exact Hf].
    + apply Forall_forall. intros p Hin. apply in_map_iff in Hin as [x [<- Hx]]. split; [cbn; lia|].
      cbn [snd]. apply (fits_le _ (length l)); [|exact Hf]. destruct l; [contradiction|cbn; lia].
    + intros p Hin. apply in_map_iff in Hin as [x [<- Hx]]. exact Hx.
Qed.

(* ---------- repeat counts *)
Lemma count_attr st n : (1 <= n)%nat -> fits n -> repeated_count (attr st n) = CountOk n.
Proof.
  intros Hn Hf. unfold attr. destruct (Nat.eqb n 1 && negb (st_one st)) eqn:E.
  - apply andb_true_iff in E as [E _]. apply Nat.eqb_eq in E. subst n. reflexivity.
  - unfold repeated_count. rewrite py_int_int_text.
    assert (Z.of_nat n <? 1 = false) as -> by lia.
    assert (MAX_ODS_REPEATED_COUNT <? Z.of_nat n = false) as -> by (unfold fits in Hf; lia).
    rewrite Nat2Z.id. reflexivity.
Qed.

(* ---------- text inside a paragraph *)
Lemma tapp_ok a b : tapp (TOk a) (TOk b) = TOk (a ++ b).
Proof. reflexivity. Qed.
Lemma inls_text_app l1 l2 a b : inls_text l1 = TOk a -> inls_text l2 = TOk b -> inls_text (l1 ++ l2) = TOk (a ++ b).
Proof.
  revert a. induction l1 as [|x l1 IH]; intros a H1 H2; cbn [app inls_text fold_right] in *.
  - injection H1 as <-. exact H2.
  - fold (inls_text l1) in *. fold (inls_text (l1 ++ l2)).
    destruct (inl_text x) as [tx| |]; try discriminate.
    destruct (inls_text l1) as [t1| |]; try discriminate. cbn in H1. injection H1 as <-.
    rewrite (IH t1 eq_refl H2). cbn. rewrite app_assoc. reflexivity.
Qed.
Lemma inls_repeat i c n : inl_text i = TOk [c] -> inls_text (repeat i n) = TOk (repeat c n).
Proof.
  intros H. induction n as [|n IH]; [reflexivity|].
  cbn [repeat inls_text fold_right]. fold (inls_text (repeat i n)). rewrite H, IH. reflexivity.
Qed.
Lemma enc_run_text st c n : okrun (c, n) -> inls_text (enc_run st (c, n)) = TOk (repeat c n).
Proof.
  intros [Hn Hf]. cbn [snd] in Hn, Hf. unfold enc_run.
  destruct (N.eqb c SP && st_s st) eqn:E1.
  - apply andb_true_iff in E1 as [E1 _]. apply N.eqb_eq in E1. subst c.
    cbn [inls_text fold_right inl_text]. rewrite count_attr by assumption. cbn. rewrite app_nil_r. reflexivity.
  - destruct (N.eqb c 9 && st_tab st) eqn:E2.
    + apply andb_true_iff in E2 as [E2 _]. apply N.eqb_eq in E2. subst c. apply inls_repeat. reflexivity.
    + destruct (N.eqb c LF) eqn:E3.
      * apply N.eqb_eq in E3. subst c. apply inls_repeat. reflexivity.
      * cbn. rewrite app_nil_r. reflexivity.
Qed.
Lemma enc_runs_text st rs : Forall okrun rs ->
  inls_text (flat_map (enc_run st) rs) = TOk (expand rs).
Proof.
  induction rs as [|[c n] rs IH]; intros H; [reflexivity|].
  inversion H; subst. cbn [flat_map]. unfold expand. cbn [flat_map fst snd]. fold (expand rs).
  apply inls_text_app; [apply enc_run_text; assumption|apply IH; assumption].
Qed.
Lemma span_text l : inl_text (ISpan l) = inls_text l.
Proof.
  cbn [inl_text]. induction l as [|x l IH]; [reflexivity|].
  cbn [inls_text fold_right]. fold (inls_text l). rewrite <- IH. reflexivity.
Qed.
Lemma enc_para_text st line : small_text line -> inls_text (enc_para st line) = TOk line.
Proof.
  intros Hs. unfold enc_para.
  destruct (runs_expand true N.eqb (fun x y H => proj1 (N.eqb_eq x y) H) line Hs) as [E [F _]].
  unfold runs in E, F.
  pose proof (enc_runs_text st _ F) as T. rewrite E in T.
  destruct (st_span st); [|exact T].
  cbn [inls_text fold_right]. rewrite span_text, T. cbn. rewrite app_nil_r. reflexivity.
Qed.

(* ---------- paragraphs *)
Fixpoint join_lf (ls : list text) : text :=
  match ls with [] => [] | [l] => l | l :: r => l ++ LF :: join_lf r end.
Lemma split_lf_nonempty s : split_lf s <> [].
Proof. induction s as [|c r IH]; cbn; [discriminate|]. destruct (N.eqb c LF); [discriminate|]. destruct (split_lf r); [contradiction|discriminate]. Qed.
Lemma join_split s : join_lf (split_lf s) = s.
Proof.
  induction s as [|c r IH]; [reflexivity|]. cbn [split_lf].
  destruct (N.eqb c LF) eqn:E.
  - apply N.eqb_eq in E. subst c. pose proof (split_lf_nonempty r).
    destruct (split_lf r) as [|l ls] eqn:S; [contradiction|]. cbn [join_lf app] in *. rewrite IH. reflexivity.
  - pose proof (split_lf_nonempty r). destruct (split_lf r) as [|l ls] eqn:S; [contradiction|].
    destruct ls as [|l2 ls]; cbn [join_lf] in *; rewrite <- IH; reflexivity.
Qed.
(* no line is longer than the text *)
Lemma split_lf_short s : Forall (fun l => (length l <= length s)%nat) (split_lf s).
Proof.
  induction s as [|c r IH]; cbn [split_lf]; [constructor; [cbn; lia|constructor]|].
  assert (W : Forall (fun l => (length l <= length (c :: r))%nat) (split_lf r)).
  { revert IH. apply Forall_impl. intros l Hl. cbn [length]. lia. }
  destruct (N.eqb c LF).
  - constructor; [cbn; lia|exact W].
  - destruct (split_lf r) as [|l ls]; [constructor; [cbn; lia|constructor]|].
    inversion IH; subst. inversion W; subst. constructor; [cbn [length] in *; lia|assumption].
Qed.
Lemma paras_text_map st ls : ls <> [] -> Forall small_text ls -> paras_text (map (enc_para st) ls) = TOk (join_lf ls).
Proof.
  induction ls as [|l ls IH]; intros H Hs; [contradiction|]. inversion Hs; subst.
  destruct ls as [|l2 ls].
  - cbn. apply enc_para_text. assumption.
  - change (map (enc_para st) (l :: l2 :: ls)) with (enc_para st l :: map (enc_para st) (l2 :: ls)).
    cbn [paras_text]. change (enc_para st l2 :: map (enc_para st) ls) with (map (enc_para st) (l2 :: ls)).
    rewrite enc_para_text, IH by (assumption || discriminate). reflexivity.
Qed.
Lemma enc_text_text st v : small_text v -> paras_text (enc_text st v) = TOk v.
Proof.
  intros Hs. unfold enc_text. destruct (st_para st).
  - rewrite paras_text_map; [rewrite join_split; reflexivity|apply split_lf_nonempty|].
    pose proof (split_lf_short v) as S. revert S. apply Forall_impl. intros l Hl. apply (fits_le _ (length v)); assumption.
  - cbn. apply enc_para_text. exact Hs.
Qed.

(* ---------- cells, rows, tables *)
Lemma cells_row_enc st rs : Forall okrun rs -> Forall (fun p => small_text (fst p)) rs ->
  cells_row (map (fun p => {| oc_rep := attr st (snd p); oc_paras := enc_text st (fst p) |}) rs) = Some (Some (expand rs)).
Proof.
  induction rs as [|[v n] rs IH]; intros H Hs; [reflexivity|]. inversion H as [|? ? [H1 H2]]; subst. inversion Hs; subst.
  cbn [map cells_row oc_rep oc_paras fst snd] in *. rewrite count_attr by assumption. rewrite enc_text_text, IH by assumption.
  reflexivity.
Qed.
Lemma enc_row_decodes st row : small_row row -> cells_row (enc_row st row) = Some (Some row).
Proof.
  intros [Hf Hs]. unfold enc_row.
  destruct (runs_expand (st_cells st) text_eqb (fun x y H => proj1 (text_eqb_eq x y) H) row Hf) as [E [F I]].
  rewrite cells_row_enc; [rewrite E; reflexivity|exact F|].
  apply Forall_forall. intros p Hp. rewrite Forall_forall in Hs. apply Hs. apply I. exact Hp.
Qed.
Lemma table_rows_enc st rs : Forall okrun rs -> Forall (fun p => small_row (fst p)) rs ->
  table_rows (map (fun p => {| or_rep := attr st (snd p); or_cells := enc_row st (fst p) |}) rs) = ORows (expand rs) false.
Proof.
  induction rs as [|[row n] rs IH]; intros H Hs; [reflexivity|]. inversion H as [|? ? [H1 H2]]; subst. inversion Hs; subst.
  cbn [map table_rows or_rep or_cells fst snd] in *. rewrite enc_row_decodes, count_attr, IH by assumption. reflexivity.
Qed.
Lemma rows_eqb_eq (x y : list text) : list_eqb text_eqb x y = true -> x = y.
Proof. apply list_eqb_eq. apply text_eqb_eq. Qed.

Theorem enc_table_decodes st t : small_table t -> table_rows (enc_table st t) = ORows t false.
Proof.
  intros [Hf Hs]. unfold enc_table.
  destruct (runs_expand (st_rows st) (list_eqb text_eqb) rows_eqb_eq t Hf) as [E [F I]].
  rewrite table_rows_enc; [rewrite E; reflexivity|exact F|].
  apply Forall_forall. intros p Hp. rewrite Forall_forall in Hs. apply Hs. apply I. exact Hp.
Qed.

(* sheet k of a document whose sheets are encoded with arbitrary (per sheet) styles *)
Theorem ods_decodes (sheets : list (style * list (list text))) k st t : (1 <= k)%nat ->
  nth_error sheets (k - 1) = Some (st, t) -> small_table t ->
  ods_rows (CDoc (map (fun p => enc_table (fst p) (snd p)) sheets)) k = ORows t false.
Proof.
  intros Hk Hn Hs. unfold ods_rows. rewrite nth_error_map, Hn. cbn. apply enc_table_decodes. exact Hs.
Qed.

(* a repeat count beyond the largest one is refused *)
Lemma large_count a z : py_int a = IOk z -> MAX_ODS_REPEATED_COUNT < z -> repeated_count (Some a) = CountBad.
Proof.
  intros E H. unfold repeated_count. rewrite E. destruct (z <? 1); [reflexivity|].
  assert (MAX_ODS_REPEATED_COUNT <? z = true) as -> by lia. reflexivity.
Qed.
(* every table a spreadsheet application can hold is small: the bound is at least 2^20 rows *)
Lemma max_count_is_large : 1048576 <= MAX_ODS_REPEATED_COUNT.
Proof. vm_compute. discriminate. Qed.

Theorem ods_missing_sheet tables k : (length tables < k)%nat -> ods_rows (CDoc tables) k = ORows [] true.
Proof.
  intros H. unfold ods_rows. assert (nth_error tables (k - 1) = None) as -> by (apply nth_error_None; lia). reflexivity.
Qed.

(* a bad repeat count fails with a data format error after the rows before it *)
Lemma bad_count a : (forall z, py_int a = IOk z -> z < 1) -> py_int a <> IOut -> repeated_count (Some a) = CountBad.
Proof.
  intros H Ho. unfold repeated_count. destruct (py_int a) as [z| |] eqn:E; [|reflexivity|congruence].
  specialize (H z eq_refl). assert (z <? 1 = true) as -> by lia. reflexivity.
Qed.
Lemma bad_after_runs st (rs : list (list text * nat)) bad_row after :
  Forall okrun rs -> Forall (fun p => small_row (fst p)) rs ->
  table_rows (bad_row :: after) = ORows [] true ->
  table_rows (map (fun p => {| or_rep := attr st (snd p); or_cells := enc_row st (fst p) |}) rs ++ bad_row :: after)
  = ORows (expand rs) true.
Proof.
  intros F S Hbad. induction rs as [|[r n] rs IH].
  - cbn [map app]. exact Hbad.
  - inversion F as [|? ? [H1 H2]]; subst. inversion S; subst. cbn [map app table_rows or_rep or_cells fst snd] in *.
    rewrite enc_row_decodes, count_attr by assumption.
    unfold expand. cbn [flat_map fst snd]. fold (expand rs).
    rewrite IH by assumption. reflexivity.
Qed.
Theorem ods_bad_row_count st before a cells after : small_table before ->
  repeated_count (Some a) = CountBad -> (exists row, cells_row cells = Some (Some row)) ->
  table_rows (enc_table st before ++ {| or_rep := Some a; or_cells := cells |} :: after) = ORows before true.
Proof.
  intros [Hf Hs] Hbad [row Hrow]. unfold enc_table.
  destruct (runs_expand (st_rows st) (list_eqb text_eqb) rows_eqb_eq before Hf) as [E [F I]].
  rewrite bad_after_runs; [rewrite E; reflexivity|exact F| |].
  - apply Forall_forall. intros p Hp. rewrite Forall_forall in Hs. apply Hs. apply I. exact Hp.
  - cbn [table_rows or_cells or_rep]. rewrite Hrow, Hbad. reflexivity.
Qed.
Theorem ods_bad_cell_count st before a paras more after : small_table before ->
  repeated_count (Some a) = CountBad ->
  table_rows (enc_table st before ++ {| or_rep := None; or_cells := {| oc_rep := Some a; oc_paras := paras |} :: more |} :: after) = ORows before true.
Proof.
  intros [Hf Hs] Hbad. unfold enc_table.
  destruct (runs_expand (st_rows st) (list_eqb text_eqb) rows_eqb_eq before Hf) as [E [F I]].
  rewrite bad_after_runs; [rewrite E; reflexivity|exact F| |].
  - apply Forall_forall. intros p Hp. rewrite Forall_forall in Hs. apply Hs. apply I. exact Hp.
  - cbn [table_rows or_cells or_rep cells_row oc_rep]. rewrite Hbad. reflexivity.
Qed.
