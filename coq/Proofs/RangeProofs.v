(* C01: what a Range accepts and what its overall limits are. *)
From Coq Require Import Lia.
From CP Require Import Model.Base Model.Ranges Model.Dec Model.DecRange.
Local Open Scope Z_scope.

(* the value lies inside the item: both limits inclusive, an omitted limit meaning unbounded *)
Definition inside (it : item) (v : Z) : Prop :=
  (match fst it with None => True | Some l => l <= v end) /\ (match snd it with None => True | Some u => v <= u end).

Lemma item_contains_iff it v : item_contains it v = true <-> inside it v.
Proof.
  destruct it as [[l|] [u|]]; unfold inside; cbn.
  - rewrite andb_true_iff, !Z.leb_le. tauto.
  - rewrite Z.leb_le. tauto.
  - rewrite Z.leb_le. tauto.
  - tauto.
Qed.

Lemma range_validate_iff_lemma its v : range_validate (Some its) v = true <-> exists it, In it its /\ inside it v.
Proof.
  cbn. rewrite existsb_exists. split; intros [it [A B]]; exists it; split; auto; apply item_contains_iff; assumption.
Qed.

(* ---------- overall limits: absent when some item is open on that side, otherwise the minimum / maximum *)
Lemma lower_fold_none its : fold_left lower_step its None = None.
Proof. induction its as [|it t IH]; cbn [fold_left]; [reflexivity|]. unfold lower_step at 2. destruct (fst it); exact IH. Qed.

Lemma lower_fold its : forall c,
  match fold_left lower_step its (Some c) with
  | None => exists it, In it its /\ fst it = None
  | Some m => (forall it, In it its -> exists l, fst it = Some l /\ m <= l) /\ m <= c /\
              (m = c \/ exists it, In it its /\ fst it = Some m)
  end.
Proof.
  induction its as [|it t IH]; intros c; cbn [fold_left].
  - split; [intros ? []|]. split; [lia|left; reflexivity].
  - unfold lower_step at 2. destruct (fst it) as [l|] eqn:E.
    + destruct (l <? c) eqn:Lt.
      * specialize (IH l). apply Z.ltb_lt in Lt.
        destruct (fold_left lower_step t (Some l)) as [m|].
        -- destruct IH as [A [B C]]. split.
           ++ intros it' [<-|Hin]; [exists l; split; [assumption|lia]|apply A; assumption].
           ++ split; [lia|]. right. destruct C as [->|[it' [Hin Hm]]]; [exists it; split; [left; reflexivity|assumption]|exists it'; split; [right; assumption|assumption]].
        -- destruct IH as [it' [Hin Hn]]. exists it'. split; [right; assumption|assumption].
      * specialize (IH c). apply Z.ltb_ge in Lt.
        destruct (fold_left lower_step t (Some c)) as [m|].
        -- destruct IH as [A [B C]]. split.
           ++ intros it' [<-|Hin]; [exists l; split; [assumption|lia]|apply A; assumption].
           ++ split; [lia|]. destruct C as [->|[it' [Hin Hm]]]; [left; reflexivity|right; exists it'; split; [right; assumption|assumption]].
        -- destruct IH as [it' [Hin Hn]]. exists it'. split; [right; assumption|assumption].
    + rewrite lower_fold_none. exists it. split; [left; reflexivity|assumption].
Qed.

Lemma lower_limit_spec its :
  match lower_limit_items its with
  | None => its = [] \/ exists it, In it its /\ fst it = None
  | Some m => (forall it, In it its -> exists l, fst it = Some l /\ m <= l) /\ exists it, In it its /\ fst it = Some m
  end.
Proof.
  unfold lower_limit_items. destruct its as [|it0 t]; [left; reflexivity|].
  destruct (fst it0) as [c|] eqn:E.
  - pose proof (lower_fold (it0 :: t) c) as H.
    destruct (fold_left lower_step (it0 :: t) (Some c)) as [m|].
    + destruct H as [A [B C]]. split; [exact A|]. destruct C as [->|C]; [exists it0; split; [left; reflexivity|assumption]|exact C].
    + right. exact H.
  - rewrite lower_fold_none. right. exists it0. split; [left; reflexivity|assumption].
Qed.

Lemma upper_fold_none its : fold_left upper_step its None = None.
Proof. induction its as [|it t IH]; cbn [fold_left]; [reflexivity|]. unfold upper_step at 2. destruct (snd it); exact IH. Qed.

Lemma upper_fold its : forall c,
  match fold_left upper_step its (Some c) with
  | None => exists it, In it its /\ snd it = None
  | Some m => (forall it, In it its -> exists u, snd it = Some u /\ u <= m) /\ c <= m /\
              (m = c \/ exists it, In it its /\ snd it = Some m)
  end.
Proof.
  induction its as [|it t IH]; intros c; cbn [fold_left].
  - split; [intros ? []|]. split; [lia|left; reflexivity].
  - unfold upper_step at 2. destruct (snd it) as [u|] eqn:E.
    + destruct (c <? u) eqn:Lt.
      * specialize (IH u). apply Z.ltb_lt in Lt.
        destruct (fold_left upper_step t (Some u)) as [m|].
        -- destruct IH as [A [B C]]. split.
           ++ intros it' [<-|Hin]; [exists u; split; [assumption|lia]|apply A; assumption].
           ++ split; [lia|]. right. destruct C as [->|[it' [Hin Hm]]]; [exists it; split; [left; reflexivity|assumption]|exists it'; split; [right; assumption|assumption]].
        -- destruct IH as [it' [Hin Hn]]. exists it'. split; [right; assumption|assumption].
      * specialize (IH c). apply Z.ltb_ge in Lt.
        destruct (fold_left upper_step t (Some c)) as [m|].
        -- destruct IH as [A [B C]]. split.
           ++ intros it' [<-|Hin]; [exists u; split; [assumption|lia]|apply A; assumption].
           ++ split; [lia|]. destruct C as [->|[it' [Hin Hm]]]; [left; reflexivity|right; exists it'; split; [right; assumption|assumption]].
        -- destruct IH as [it' [Hin Hn]]. exists it'. split; [right; assumption|assumption].
    + rewrite upper_fold_none. exists it. split; [left; reflexivity|assumption].
Qed.

Lemma upper_limit_spec its :
  match upper_limit_items its with
  | None => its = [] \/ exists it, In it its /\ snd it = None
  | Some m => (forall it, In it its -> exists u, snd it = Some u /\ u <= m) /\ exists it, In it its /\ snd it = Some m
  end.
Proof.
  unfold upper_limit_items. destruct its as [|it0 t]; [left; reflexivity|].
  destruct (snd it0) as [c|] eqn:E.
  - pose proof (upper_fold (it0 :: t) c) as H.
    destruct (fold_left upper_step (it0 :: t) (Some c)) as [m|].
    + destruct H as [A [B C]]. split; [exact A|]. destruct C as [->|C]; [exists it0; split; [left; reflexivity|assumption]|exact C].
    + right. exact H.
  - rewrite upper_fold_none. right. exists it0. split; [left; reflexivity|assumption].
Qed.

(* ---------- decimals: the comparison does not depend on how the two numbers are written *)
Lemma dec_leb_scale a b e : e <= Z.min (d_exp a) (d_exp b) ->
  dec_leb a b = (dec_scaled a e <=? dec_scaled b e).
Proof.
  intros He. unfold dec_leb. set (m := Z.min (d_exp a) (d_exp b)) in *.
  assert (Hs : forall x, m <= d_exp x -> dec_scaled x e = dec_scaled x m * 10 ^ (m - e)).
  { intros x Hx. unfold dec_scaled. rewrite <- Z.mul_assoc, <- Z.pow_add_r by lia. f_equal. f_equal. lia. }
  rewrite (Hs a), (Hs b) by (subst m; lia).
  assert (0 < 10 ^ (m - e)) by (apply Z.pow_pos_nonneg; lia).
  destruct (Z.leb_spec (dec_scaled a m) (dec_scaled b m)); destruct (Z.leb_spec (dec_scaled a m * 10 ^ (m - e)) (dec_scaled b m * 10 ^ (m - e))); try reflexivity; nia.
Qed.

Definition dinside (it : ditem) (v : dec) : Prop :=
  (match fst it with None => True | Some l => dec_leb l v = true end) /\ (match snd it with None => True | Some u => dec_leb v u = true end).
Lemma decrange_validate_iff_lemma its v : decrange_validate (Some its) v = true <-> exists it, In it its /\ dinside it v.
Proof.
  cbn. rewrite existsb_exists. split; intros [it [A B]]; exists it; split; auto.
  - destruct it as [[l|] [u|]]; unfold dinside; cbn in *; try tauto. apply andb_true_iff in B. tauto.
  - destruct it as [[l|] [u|]]; unfold dinside in B; cbn in *; try tauto. apply andb_true_iff. tauto.
Qed.
