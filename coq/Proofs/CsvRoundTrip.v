(* C12: what the csv writer model emits for a table, the csv reader model reads back as that table,
   for every dialect DataFormat.validate lets through (wf_dialect). *)
From Coq Require Import Lia.
From CP Require Import Model.Base Model.Delimited Spec.DelimitedSpec Proofs.BaseProofs.

(* ---------- events *)
Lemma events_nonempty_lo s a b : s <> [] -> events s a = events s b.
Proof. destruct s as [|c t]; [congruence|]. intros _. cbn [events]. reflexivity. Qed.

Lemma events_plain c t lo : is_nl c = false -> events (c :: t) lo = C c :: events t true.
Proof.
  intros H. unfold is_nl in H. apply orb_false_iff in H as [H1 H2]. cbn [events].
  rewrite N.eqb_sym in H1, H2.
  assert (N.eqb c LF = false) as -> by (rewrite N.eqb_sym; exact H2).
  assert (N.eqb c CR = false) as -> by (rewrite N.eqb_sym; exact H1). reflexivity.
Qed.
Lemma events_lf t lo : events (LF :: t) lo = C LF :: EOL :: events t false.
Proof. reflexivity. Qed.
Lemma events_crlf t lo : events (CR :: LF :: t) lo = C CR :: C LF :: EOL :: events t false.
Proof. reflexivity. Qed.
Lemma events_cr_other c t lo : N.eqb c LF = false -> events (CR :: c :: t) lo = C CR :: EOL :: events (c :: t) false.
Proof. intros H. cbn [events]. change (N.eqb CR LF) with false. change (N.eqb CR CR) with true. cbv iota. rewrite H. reflexivity. Qed.

(* ---------- one event of the reader *)
Lemma rrun_C d c t r acc : rrun d (C c :: t) r acc = match rstep d r (C c) with None => (acc, false) | Some r' => rrun d t r' acc end.
Proof. cbn [rrun]. destruct (rstep d r (C c)); reflexivity. Qed.
Lemma rrun_EOL_quoted d t r acc : state r = InQuoted -> rrun d (EOL :: t) r acc = rrun d t r acc.
Proof. intros H. cbn [rrun]. unfold rstep. rewrite H. rewrite H. reflexivity. Qed.

(* ---------- facts about a well-formed dialect as boolean equations *)
Record wfb (d : dialect) : Prop := {
  dq : N.eqb (delim d) (quote d) = false;
  d_nl : is_nl (delim d) = false;
  q_nl : is_nl (quote d) = false;
  q_esc : is_esc d (quote d) = false;
  d_esc : is_esc d (delim d) = false;
  e_nl : forall c, is_esc d c = true -> is_nl c = false;
  e_or_dbl : match esc d with Some _ => dbl d = false | None => dbl d = true end
}.
Lemma wf_wfb d : wf_dialect d -> wfb d.
Proof.
  intros [A [B [C0 [D [E F]]]]]. constructor.
  - apply N.eqb_neq. exact A.
  - unfold is_nl. apply orb_false_iff. split; apply N.eqb_neq; assumption.
  - unfold is_nl. apply orb_false_iff. split; apply N.eqb_neq; assumption.
  - unfold is_esc. destruct (esc d) as [e|]; [|reflexivity]. destruct F as [_ [_ [F _]]]. apply N.eqb_neq. congruence.
  - unfold is_esc. destruct (esc d) as [e|]; [|reflexivity]. destruct F as [_ [F _]]. apply N.eqb_neq. congruence.
  - intros c H. unfold is_esc in H. destruct (esc d) as [e|]; [|discriminate]. apply N.eqb_eq in H. subst c.
    destruct F as [_ [_ [_ [F1 F2]]]]. unfold is_nl. apply orb_false_iff. split; apply N.eqb_neq; assumption.
  - destruct (esc d); tauto.
Qed.

(* ---------- the writer's flag only goes up *)
Lemma w_field_flag d s : forall q r q', w_field d s q = Some (r, q') -> q = true -> q' = true.
Proof.
  induction s as [|c t IH]; intros q r q' H Hq; cbn [w_field] in H.
  - injection H as _ <-. exact Hq.
  - destruct (N.eqb c (delim d) || is_esc d c || N.eqb c (quote d) || is_nl c).
    + destruct (if N.eqb c (quote d) then if dbl d then ([quote d], false) else ([], true) else if is_esc d c then ([], true) else ([], false)) as [pre we].
      destruct (if we then match esc d with Some e => Some [e] | None => None end else Some []) as [e|]; [|discriminate].
      destruct (w_field d t (if we then q else true)) as [[r1 q1]|] eqn:E; [|discriminate].
      injection H as _ <-. eapply IH; [exact E|]. destruct we; [exact Hq|reflexivity].
    + destruct (w_field d t q) as [[r1 q1]|] eqn:E; [|discriminate]. injection H as _ <-. eapply IH; eassumption.
Qed.

(* ---------- inside a quoted field *)
Definition inq (f : text) (fs : list text) : rd := {| state := InQuoted; field := f; fields := fs |}.

Lemma step_inq_plain d f fs c : is_esc d c = false -> N.eqb c (quote d) = false -> rstep d (inq f fs) (C c) = Some (inq (c :: f) fs).
Proof. intros H1 H2. unfold rstep, inq. cbn [state]. rewrite H1, H2. reflexivity. Qed.

Definition mk (st0 : st) (f : text) (fs : list text) : rd := {| state := st0; field := f; fields := fs |}.
Lemma step_inq_quote_dbl d f fs : dbl d = true -> is_esc d (quote d) = false ->
  rstep d (inq f fs) (C (quote d)) = Some (mk QuoteInQuoted f fs).
Proof. intros H1 H2. unfold rstep, inq, mk, setst. cbn [state field fields]. rewrite H2, N.eqb_refl, H1. reflexivity. Qed.
Lemma step_inq_quote_nodbl d f fs : dbl d = false -> is_esc d (quote d) = false ->
  rstep d (inq f fs) (C (quote d)) = Some (mk InField f fs).
Proof. intros H1 H2. unfold rstep, inq, mk, setst. cbn [state field fields]. rewrite H2, N.eqb_refl, H1. reflexivity. Qed.
Lemma step_qiq_quote d f fs : rstep d (mk QuoteInQuoted f fs) (C (quote d)) = Some (inq (quote d :: f) fs).
Proof. unfold rstep, inq, mk, addc. cbn [state field fields]. rewrite N.eqb_refl. reflexivity. Qed.
Lemma step_inq_esc d f fs e : is_esc d e = true -> rstep d (inq f fs) (C e) = Some (mk EscInQuoted f fs).
Proof. intros H. unfold rstep, inq, mk, setst. cbn [state field fields]. rewrite H. reflexivity. Qed.
Lemma step_escinq d f fs c : rstep d (mk EscInQuoted f fs) (C c) = Some (inq (c :: f) fs).
Proof. reflexivity. Qed.

Lemma rev_cons_app (c : N) s f : rev (c :: s) ++ f = rev s ++ c :: f.
Proof. cbn [rev]. rewrite <- app_assoc. reflexivity. Qed.

Lemma quoted_body d (W : wfb d) s : forall q body q' f fs acc X lo lo',
  w_field d s q = Some (body, q') ->
  rrun d (events (body ++ quote d :: X) lo) (inq f fs) acc = rrun d (events (quote d :: X) lo') (inq (rev s ++ f) fs) acc.
Proof.
  destruct W as [Wdq Wdnl Wqnl Wqesc Wdesc Wenl Wed].
  induction s as [|c t IH]; intros q body q' f fs acc X lo lo' H; cbn [w_field] in H.
  - injection H as <- _. cbn [app rev]. rewrite (events_nonempty_lo _ lo lo') by discriminate. reflexivity.
  - destruct (N.eqb c (delim d) || is_esc d c || N.eqb c (quote d) || is_nl c) eqn:Cond.
    + destruct (N.eqb c (quote d)) eqn:Eq.
      * (* the quote character itself *)
        apply N.eqb_eq in Eq. subst c.
        destruct (dbl d) eqn:Db.
        -- cbn [app] in H. destruct (w_field d t true) as [[r1 q1]|] eqn:E; [|discriminate]. injection H as <- _.
           cbn [app]. rewrite events_plain by exact Wqnl. rewrite rrun_C, step_inq_quote_dbl by assumption.
           rewrite events_plain by exact Wqnl. rewrite rrun_C, step_qiq_quote.
           rewrite (IH _ _ _ _ _ _ _ _ lo' E). rewrite rev_cons_app. reflexivity.
        -- destruct (esc d) as [e|] eqn:Ee; [|discriminate].
           cbn [app] in H. destruct (w_field d t q) as [[r1 q1]|] eqn:E; [|discriminate]. injection H as <- _.
           cbn [app]. assert (is_esc d e = true) as He by (unfold is_esc; rewrite Ee; apply N.eqb_refl).
           rewrite events_plain by (apply Wenl; exact He). rewrite rrun_C, step_inq_esc by exact He.
           rewrite events_plain by exact Wqnl. rewrite rrun_C, step_escinq.
           rewrite (IH _ _ _ _ _ _ _ _ lo' E). rewrite rev_cons_app. reflexivity.
      * destruct (is_esc d c) eqn:Ec.
        -- (* the escape character *)
           destruct (esc d) as [e|] eqn:Ee; [|unfold is_esc in Ec; rewrite Ee in Ec; discriminate].
           assert (c = e) as -> by (unfold is_esc in Ec; rewrite Ee in Ec; apply N.eqb_eq; exact Ec).
           cbn [app] in H. destruct (w_field d t q) as [[r1 q1]|] eqn:E; [|discriminate]. injection H as <- _.
           cbn [app]. rewrite events_plain by (apply Wenl; exact Ec). rewrite rrun_C, step_inq_esc by exact Ec.
           rewrite events_plain by (apply Wenl; exact Ec). rewrite rrun_C, step_escinq.
           rewrite (IH _ _ _ _ _ _ _ _ lo' E). rewrite rev_cons_app. reflexivity.
        -- (* the delimiter or a line break: written as it is *)
           cbn [app] in H. destruct (w_field d t true) as [[r1 q1]|] eqn:E; [|discriminate]. injection H as <- _.
           cbn [app].
           destruct (is_nl c) eqn:Enl.
           ++ unfold is_nl in Enl. apply orb_true_iff in Enl as [Ecr|Elf].
              ** apply N.eqb_eq in Ecr. subst c.
                 assert (rstep d (inq f fs) (C CR) = Some (inq (CR :: f) fs)) as S1 by (apply step_inq_plain; assumption).
                 destruct (r1 ++ quote d :: X) as [|c2 t2] eqn:Erest; [destruct r1; discriminate|].
                 destruct (N.eqb c2 LF) eqn:E2.
                 --- apply N.eqb_eq in E2. subst c2. rewrite events_crlf. rewrite rrun_C, S1.
                     rewrite <- (events_lf t2 lo). rewrite <- Erest.
                     rewrite (IH _ _ _ _ _ _ _ _ lo' E). rewrite rev_cons_app. reflexivity.
                 --- rewrite events_cr_other by exact E2. rewrite rrun_C, S1. rewrite rrun_EOL_quoted by reflexivity.
                     rewrite <- Erest. rewrite (IH _ _ _ _ _ _ _ _ lo' E). rewrite rev_cons_app. reflexivity.
              ** apply N.eqb_eq in Elf. subst c. rewrite events_lf. rewrite rrun_C.
                 rewrite step_inq_plain by assumption. rewrite rrun_EOL_quoted by reflexivity.
                 rewrite (IH _ _ _ _ _ _ _ _ lo' E). rewrite rev_cons_app. reflexivity.
           ++ rewrite events_plain by exact Enl. rewrite rrun_C. rewrite step_inq_plain by assumption.
              rewrite (IH _ _ _ _ _ _ _ _ lo' E). rewrite rev_cons_app. reflexivity.
    + apply orb_false_iff in Cond as [Cond Cnl]. apply orb_false_iff in Cond as [Cond Cq]. apply orb_false_iff in Cond as [Cd Ce].
      destruct (w_field d t q) as [[r1 q1]|] eqn:E; [|discriminate]. injection H as <- _.
      cbn [app]. rewrite events_plain by exact Cnl. rewrite rrun_C. rewrite step_inq_plain by assumption.
      rewrite (IH _ _ _ _ _ _ _ _ lo' E). rewrite rev_cons_app. reflexivity.
Qed.

(* ---------- an unquoted field *)
Lemma step_infield_plain d f fs c : is_nl c = false -> is_esc d c = false -> N.eqb c (delim d) = false ->
  rstep d (mk InField f fs) (C c) = Some (mk InField (c :: f) fs).
Proof. intros H1 H2 H3. unfold rstep, mk, in_field_step, nl_or_eol, addc. cbn [state field fields]. rewrite H1, H2, H3. reflexivity. Qed.
Lemma step_infield_esc d f fs e : is_nl e = false -> is_esc d e = true -> rstep d (mk InField f fs) (C e) = Some (mk EscapedChar f fs).
Proof. intros H1 H2. unfold rstep, mk, in_field_step, nl_or_eol, setst. cbn [state field fields]. rewrite H1, H2. reflexivity. Qed.
Lemma step_escaped d f fs c : is_nl c = false -> rstep d (mk EscapedChar f fs) (C c) = Some (mk InField (c :: f) fs).
Proof. intros H. unfold rstep, mk, addc. cbn [state field fields]. rewrite H. reflexivity. Qed.
Definition startlike (s0 : st) : Prop := s0 = StartRecord \/ s0 = StartField.
Lemma step_start_plain d s0 f fs c : startlike s0 -> is_nl c = false -> is_esc d c = false -> N.eqb c (delim d) = false -> N.eqb c (quote d) = false ->
  rstep d (mk s0 f fs) (C c) = Some (mk InField (c :: f) fs).
Proof.
  intros [-> | ->] H1 H2 H3 H4; unfold rstep, mk, start_field_step, nl_or_eol, addc; cbn [state field fields]; rewrite ?H1, ?H2, ?H3, ?H4; reflexivity.
Qed.
Lemma step_start_esc d s0 f fs e : startlike s0 -> is_nl e = false -> is_esc d e = true -> N.eqb e (quote d) = false ->
  rstep d (mk s0 f fs) (C e) = Some (mk EscapedChar f fs).
Proof.
  intros [-> | ->] H1 H2 H4; unfold rstep, mk, start_field_step, nl_or_eol, setst; cbn [state field fields]; rewrite ?H1, ?H2, ?H4; reflexivity.
Qed.
Lemma step_start_quote d s0 f fs : startlike s0 -> is_nl (quote d) = false ->
  rstep d (mk s0 f fs) (C (quote d)) = Some (inq f fs).
Proof.
  intros [-> | ->] H1; unfold rstep, mk, inq, start_field_step, nl_or_eol, setst; cbn [state field fields]; rewrite ?H1, ?N.eqb_refl; reflexivity.
Qed.

(* the characters of a field that is written without quotes: ordinary ones, or escaped quote / escape characters *)
Lemma plain_char d (W : wfb d) c t body : w_field d (c :: t) false = Some (body, false) ->
  (exists r1, body = c :: r1 /\ w_field d t false = Some (r1, false)
              /\ is_nl c = false /\ is_esc d c = false /\ N.eqb c (delim d) = false /\ N.eqb c (quote d) = false)
  \/ (exists e r1, esc d = Some e /\ body = e :: c :: r1 /\ w_field d t false = Some (r1, false) /\ is_nl c = false
                   /\ (N.eqb c (quote d) = true \/ is_esc d c = true)).
Proof.
  destruct W as [Wdq Wdnl Wqnl Wqesc Wdesc Wenl Wed].
  intros H. cbn [w_field] in H.
  destruct (N.eqb c (delim d) || is_esc d c || N.eqb c (quote d) || is_nl c) eqn:Cond.
  - right. destruct (N.eqb c (quote d)) eqn:Eq.
    + destruct (dbl d) eqn:Db.
      * destruct (w_field d t true) as [[r1 q1]|] eqn:E; [|discriminate]. injection H as _ Hq.
        pose proof (w_field_flag d t true r1 q1 E eq_refl). congruence.
      * destruct (esc d) as [e|] eqn:Ee; [|discriminate].
        destruct (w_field d t false) as [[r1 q1]|] eqn:E; [|discriminate]. injection H as <- Hq. subst q1.
        exists e, r1. apply N.eqb_eq in Eq. subst c. repeat split; auto.
    + destruct (is_esc d c) eqn:Ec.
      * destruct (esc d) as [e|] eqn:Ee; [|unfold is_esc in Ec; rewrite Ee in Ec; discriminate].
        destruct (w_field d t false) as [[r1 q1]|] eqn:E; [|discriminate]. injection H as <- Hq. subst q1.
        exists e, r1. repeat split; auto.
      * destruct (w_field d t true) as [[r1 q1]|] eqn:E; [|discriminate]. injection H as _ Hq.
        pose proof (w_field_flag d t true r1 q1 E eq_refl). congruence.
  - left. apply orb_false_iff in Cond as [Cond Cnl]. apply orb_false_iff in Cond as [Cond Cq]. apply orb_false_iff in Cond as [Cd Ce].
    destruct (w_field d t false) as [[r1 q1]|] eqn:E; [|discriminate]. injection H as <- Hq. subst q1.
    exists r1. repeat split; auto.
Qed.

Lemma plain_body_infield d (W : wfb d) s : forall body f fs acc X lo lo',
  w_field d s false = Some (body, false) -> X <> [] ->
  rrun d (events (body ++ X) lo) (mk InField f fs) acc = rrun d (events X lo') (mk InField (rev s ++ f) fs) acc.
Proof.
  induction s as [|c t IH]; intros body f fs acc X lo lo' H HX.
  - cbn in H. injection H as <-. cbn [app rev]. rewrite (events_nonempty_lo _ lo lo') by exact HX. reflexivity.
  - pose proof W as [Wdq Wdnl Wqnl Wqesc Wdesc Wenl Wed].
    destruct (plain_char d W c t body H) as [[r1 [-> [E [N1 [N2 [N3 N4]]]]]]|[e [r1 [Ee [-> [E [N1 Hc]]]]]]].
    + cbn [app]. rewrite events_plain by exact N1. rewrite rrun_C, step_infield_plain by assumption.
      rewrite (IH _ _ _ _ _ _ lo' E HX). rewrite rev_cons_app. reflexivity.
    + assert (is_esc d e = true) as He by (unfold is_esc; rewrite Ee; apply N.eqb_refl).
      cbn [app]. rewrite events_plain by (apply Wenl; exact He). rewrite rrun_C, step_infield_esc by (try apply Wenl; exact He).
      rewrite events_plain by exact N1. rewrite rrun_C, step_escaped by exact N1.
      rewrite (IH _ _ _ _ _ _ lo' E HX). rewrite rev_cons_app. reflexivity.
Qed.

(* from the start of a field *)
Lemma plain_body_start d (W : wfb d) s : forall body s0 fs acc X lo lo',
  startlike s0 -> w_field d s false = Some (body, false) -> X <> [] -> s <> [] ->
  rrun d (events (body ++ X) lo) (mk s0 [] fs) acc = rrun d (events X lo') (mk InField (rev s) fs) acc.
Proof.
  intros body s0 fs acc X lo lo' Hs H HX Hne. destruct s as [|c t]; [congruence|].
  pose proof W as [Wdq Wdnl Wqnl Wqesc Wdesc Wenl Wed].
  destruct (plain_char d W c t body H) as [[r1 [-> [E [N1 [N2 [N3 N4]]]]]]|[e [r1 [Ee [-> [E [N1 Hc]]]]]]].
  - cbn [app]. rewrite events_plain by exact N1. rewrite rrun_C, step_start_plain by assumption.
    rewrite (plain_body_infield d W t _ _ _ _ _ _ lo' E HX). cbn [rev]. reflexivity.
  - assert (is_esc d e = true) as He by (unfold is_esc; rewrite Ee; apply N.eqb_refl).
    assert (N.eqb e (quote d) = false) as Heq.
    { unfold is_esc in Wqesc. rewrite Ee in Wqesc. rewrite N.eqb_sym. exact Wqesc. }
    cbn [app]. rewrite events_plain by (apply Wenl; exact He). rewrite rrun_C, step_start_esc by (try apply Wenl; assumption).
    rewrite events_plain by exact N1. rewrite rrun_C, step_escaped by exact N1.
    rewrite (plain_body_infield d W t _ _ _ _ _ _ lo' E HX). cbn [rev]. reflexivity.
Qed.

(* ---------- what ends a field *)
Definition endable (s0 : st) : Prop := s0 = InField \/ s0 = QuoteInQuoted \/ s0 = StartField.
Lemma finish_delim d (W : wfb d) s0 f fs acc X lo : endable s0 \/ s0 = StartRecord ->
  rrun d (events (delim d :: X) lo) (mk s0 f fs) acc = rrun d (events X true) (mk StartField [] (rev f :: fs)) acc.
Proof.
  destruct W as [Wdq Wdnl Wqnl Wqesc Wdesc Wenl Wed]. intros Hs.
  rewrite events_plain by exact Wdnl. rewrite rrun_C.
  assert (rstep d (mk s0 f fs) (C (delim d)) = Some (mk StartField [] (rev f :: fs))) as ->; [|reflexivity].
  destruct Hs as [[-> | [-> | ->]] | ->]; unfold rstep, mk, in_field_step, start_field_step, nl_or_eol, save; cbn [state field fields];
    rewrite ?Wdnl, ?Wdesc, ?Wdq, ?N.eqb_refl; reflexivity.
Qed.
Lemma finish_crlf d (W : wfb d) s0 f fs acc X lo : endable s0 ->
  rrun d (events (CR :: LF :: X) lo) (mk s0 f fs) acc = rrun d (events X false) rd0 (acc ++ [rev (rev f :: fs)]).
Proof.
  destruct W as [Wdq Wdnl Wqnl Wqesc Wdesc Wenl Wed]. intros Hs.
  rewrite events_crlf. rewrite rrun_C.
  assert (rstep d (mk s0 f fs) (C CR) = Some (mk EatCrnl [] (rev f :: fs))) as ->.
  { assert (N.eqb CR (quote d) = false) as Q1.
    { unfold is_nl in Wqnl. apply orb_false_iff in Wqnl as [A _]. rewrite N.eqb_sym. exact A. }
    assert (N.eqb CR (delim d) = false) as D1.
    { unfold is_nl in Wdnl. apply orb_false_iff in Wdnl as [A _]. rewrite N.eqb_sym. exact A. }
    destruct Hs as [-> | [-> | ->]]; unfold rstep, mk, in_field_step, start_field_step, nl_or_eol, after_nl, save; cbn [state field fields];
      rewrite ?Q1, ?D1; reflexivity. }
  rewrite rrun_C. change (rstep d (mk EatCrnl [] (rev f :: fs)) (C LF)) with (Some (mk EatCrnl [] (rev f :: fs))).
  cbn [rrun]. reflexivity.
Qed.

(* ---------- one cell followed by the delimiter or by the end of the row *)
Lemma w_cell_cases d lone s w : w_cell d lone s = Some w ->
  (exists body q', w_field d s (qall d || (lone && match s with [] => true | _ => false end)) = Some (body, true) /\ w = quote d :: body ++ [quote d] /\ q' = true)
  \/ (w_field d s false = Some (w, false) /\ (qall d || (lone && match s with [] => true | _ => false end)) = false).
Proof.
  unfold w_cell. destruct (w_field d s _) as [[r [|]]|] eqn:E; intros H; try discriminate; injection H as <-.
  - left. exists r, true. auto.
  - right. destruct (qall d || (lone && match s with [] => true | _ => false end)) eqn:Q.
    + pose proof (w_field_flag d s true r false E eq_refl). discriminate.
    + auto.
Qed.

Lemma cell_then_delim d (W : wfb d) lone s w s0 fs acc X lo lo' : w_cell d lone s = Some w -> startlike s0 -> X <> [] ->
  rrun d (events (w ++ delim d :: X) lo) (mk s0 [] fs) acc = rrun d (events X lo') (mk StartField [] (s :: fs)) acc.
Proof.
  intros Hw Hs HX. pose proof W as [Wdq Wdnl Wqnl Wqesc Wdesc Wenl Wed].
  rewrite (events_nonempty_lo X lo' true HX).
  destruct (w_cell_cases d lone s w Hw) as [[body [q' [E [-> _]]]]|[E Q]].
  - cbn [app]. rewrite <- app_assoc. cbn [app]. rewrite events_plain by exact Wqnl. rewrite rrun_C, step_start_quote by assumption.
    rewrite (quoted_body d W s _ _ _ _ _ _ _ _ true E). rewrite app_nil_r.
    rewrite events_plain by exact Wqnl. rewrite rrun_C.
    destruct (dbl d) eqn:Db.
    + rewrite step_inq_quote_dbl by assumption. rewrite finish_delim; [|exact W|left; right; left; reflexivity].
      rewrite rev_involutive. reflexivity.
    + rewrite step_inq_quote_nodbl by assumption. rewrite finish_delim; [|exact W|left; left; reflexivity].
      rewrite rev_involutive. reflexivity.
  - destruct s as [|c t].
    + cbn in E. injection E as <-. cbn [app]. rewrite finish_delim; [reflexivity|exact W|].
      destruct Hs as [-> | ->]; [right; reflexivity|left; right; right; reflexivity].
    + rewrite (plain_body_start d W (c :: t) _ _ _ _ _ _ true Hs E); [|discriminate|discriminate].
      rewrite finish_delim; [|exact W|left; left; reflexivity]. rewrite rev_involutive. reflexivity.
Qed.

Lemma cell_then_crlf d (W : wfb d) lone s w s0 fs acc X lo : w_cell d lone s = Some w -> startlike s0 -> (s0 = StartField \/ w <> []) ->
  rrun d (events (w ++ CR :: LF :: X) lo) (mk s0 [] fs) acc = rrun d (events X false) rd0 (acc ++ [rev (s :: fs)]).
Proof.
  intros Hw Hs Hne. pose proof W as [Wdq Wdnl Wqnl Wqesc Wdesc Wenl Wed].
  destruct (w_cell_cases d lone s w Hw) as [[body [q' [E [-> _]]]]|[E Q]].
  - cbn [app]. rewrite <- app_assoc. cbn [app]. rewrite events_plain by exact Wqnl. rewrite rrun_C, step_start_quote by assumption.
    rewrite (quoted_body d W s _ _ _ _ _ _ _ _ true E). rewrite app_nil_r.
    rewrite events_plain by exact Wqnl. rewrite rrun_C.
    destruct (dbl d) eqn:Db.
    + rewrite step_inq_quote_dbl by assumption. rewrite finish_crlf; [|exact W|right; left; reflexivity].
      rewrite rev_involutive. reflexivity.
    + rewrite step_inq_quote_nodbl by assumption. rewrite finish_crlf; [|exact W|left; reflexivity].
      rewrite rev_involutive. reflexivity.
  - destruct s as [|c t].
    + cbn in E. injection E as <-. cbn [app]. destruct Hne as [-> | Hne]; [|congruence].
      rewrite finish_crlf; [reflexivity|exact W|right; right; reflexivity].
    + rewrite (plain_body_start d W (c :: t) _ _ _ _ _ _ true Hs E); [|discriminate|discriminate].
      rewrite finish_crlf; [|exact W|left; reflexivity]. rewrite rev_involutive. reflexivity.
Qed.

(* ---------- rows *)
Lemma w_field_nonempty d c t q body q' : w_field d (c :: t) q = Some (body, q') -> body <> [].
Proof.
  cbn [w_field]. destruct (N.eqb c (delim d) || is_esc d c || N.eqb c (quote d) || is_nl c).
  - destruct (if N.eqb c (quote d) then _ else _) as [pre we].
    destruct (if we then _ else _) as [e|]; [|discriminate].
    destruct (w_field d t _) as [[r1 q1]|]; [|discriminate]. intros H. injection H as <- _.
    destruct pre; [destruct e|]; discriminate.
  - destruct (w_field d t q) as [[r1 q1]|]; [|discriminate]. intros H. injection H as <- _. discriminate.
Qed.
Lemma w_cell_nonempty d lone s w : w_cell d lone s = Some w -> lone = true \/ s <> [] -> w <> [].
Proof.
  intros Hw Hl. destruct (w_cell_cases d lone s w Hw) as [[body [q' [E [-> _]]]]|[E Q]]; [discriminate|].
  destruct s as [|c t].
  - destruct Hl as [-> | Hl]; [|congruence]. rewrite orb_true_r in Q. discriminate.
  - eapply w_field_nonempty. exact E.
Qed.

Lemma read_cells d (W : wfb d) t : forall c a b s0 fs acc X lo,
  w_cell d false c = Some a -> w_cells d t false = Some b -> startlike s0 -> (s0 = StartField \/ t <> [] \/ a <> []) ->
  rrun d (events (a ++ b ++ CR :: LF :: X) lo) (mk s0 [] fs) acc = rrun d (events X false) rd0 (acc ++ [rev fs ++ c :: t]).
Proof.
  induction t as [|c2 t IH]; intros c a b s0 fs acc X lo Ha Hb Hs Hne.
  - cbn in Hb. injection Hb as <-. cbn [app].
    rewrite (cell_then_crlf d W false c a s0 fs acc X lo Ha Hs); [cbn [rev]; reflexivity|].
    destruct Hne as [H | [H | H]]; [left; exact H|congruence|right; exact H].
  - cbn [w_cells] in Hb. destruct (w_cell d false c2) as [a2|] eqn:E2; [|discriminate].
    destruct (w_cells d t false) as [b2|] eqn:Eb; [|discriminate]. injection Hb as <-.
    cbn [app]. rewrite <- !app_assoc.
    rewrite (cell_then_delim d W false c a s0 fs acc _ lo true Ha Hs); [|destruct a2; discriminate || (destruct b2; discriminate)].
    rewrite (IH c2 a2 b2 StartField (c :: fs) acc X true E2 eq_refl); [|right; reflexivity|left; reflexivity].
    cbn [rev]. rewrite <- app_assoc. reflexivity.
Qed.

Lemma step_sr_cr d : rstep d (mk StartRecord [] []) (C CR) = Some (mk EatCrnl [] []).
Proof. reflexivity. Qed.
Lemma step_eat_lf d f fs : rstep d (mk EatCrnl f fs) (C LF) = Some (mk EatCrnl f fs).
Proof. reflexivity. Qed.
Lemma rrun_EOL_eat d t f fs acc : rrun d (EOL :: t) (mk EatCrnl f fs) acc = rrun d t rd0 (acc ++ [rev fs]).
Proof. reflexivity. Qed.
Lemma read_row d (W : wfb d) row out acc X lo : w_row d row = Some out ->
  rrun d (events (out ++ X) lo) rd0 acc = rrun d (events X false) rd0 (acc ++ [row]).
Proof.
  intros H. unfold w_row in H. fold (mk StartRecord [] []). change rd0 with (mk StartRecord [] []) at 1.
  destruct row as [|c [|c2 t]].
  - (* no cells: an empty line *)
    cbn in H. injection H as <-. cbn [app]. rewrite events_crlf. rewrite rrun_C, step_sr_cr, rrun_C, step_eat_lf, rrun_EOL_eat. reflexivity.
  - destruct (w_cell d true c) as [a|] eqn:Ea; [|discriminate]. injection H as <-. rewrite <- app_assoc. cbn [app].
    rewrite (cell_then_crlf d W true c a StartRecord [] acc X lo Ea); [reflexivity|left; reflexivity|].
    right. eapply w_cell_nonempty; [exact Ea|left; reflexivity].
  - destruct (w_cells d (c :: c2 :: t) true) as [a|] eqn:Ea; [|discriminate]. injection H as <-.
    cbn [w_cells] in Ea. destruct (w_cell d false c) as [a1|] eqn:E1; [|discriminate].
    destruct (w_cell d false c2) as [a2|] eqn:E2; [|discriminate]. destruct (w_cells d t false) as [b2|] eqn:Eb; [|discriminate].
    injection Ea as <-.
    assert (w_cells d (c2 :: t) false = Some (delim d :: a2 ++ b2)) as Hb by (cbn [w_cells]; rewrite E2, Eb; reflexivity).
    assert (startlike StartRecord) as Hs by (left; reflexivity).
    assert (StartRecord = StartField \/ c2 :: t <> [] \/ a1 <> []) as Hne by (right; left; discriminate).
    pose proof (read_cells d W (c2 :: t) c a1 (delim d :: a2 ++ b2) StartRecord [] acc X lo E1 Hb Hs Hne) as R.
    cbn [rev app] in R.
    assert (((a1 ++ delim d :: a2 ++ b2) ++ [CR; LF]) ++ X = a1 ++ delim d :: (a2 ++ b2) ++ CR :: LF :: X) as Heq.
    { rewrite <- !app_assoc. cbn [app]. rewrite <- ?app_assoc. reflexivity. }
    cbn [app]. rewrite Heq. exact R.
Qed.

Theorem csv_roundtrip d rows out : wf_dialect d -> w_rows d rows = Some out -> csv_read d out = (rows, true).
Proof.
  intros Wf. pose proof (wf_wfb d Wf) as W. unfold csv_read.
  assert (forall rows out acc, w_rows d rows = Some out -> rrun d (events out false) rd0 acc = (acc ++ rows, true)) as A.
  { clear rows out. induction rows as [|r t IH]; intros out acc H; cbn [w_rows] in H.
    - injection H as <-. cbn. rewrite app_nil_r. reflexivity.
    - destruct (w_row d r) as [a|] eqn:Ea; [|discriminate]. destruct (w_rows d t) as [b|] eqn:Eb; [|discriminate]. injection H as <-.
      rewrite (read_row d W r a acc b false Ea). rewrite (IH b _ eq_refl). rewrite <- app_assoc. reflexivity. }
  intros H. rewrite (A rows out [] H). reflexivity.
Qed.

(* ... hence for every delimited format DataFormat.validate accepts *)
From CP Require Import Generated.Consts Generated.FormatTable Model.DataFormat Proofs.DelimitedProofs.
Lemma accepted_format_roundtrips_lemma dl q e ld ds ts qa rows :
  In [q] VALID_QUOTE_CHARACTERS -> In [e] VALID_ESCAPE_CHARACTERS ->
  validate_ok FORMAT_DELIMITED (delimited_attrs dl q e ld ds ts) = true ->
  exists out, w_rows (as_delimited_keywords dl q e qa) rows = Some out /\ csv_read (as_delimited_keywords dl q e qa) out = (rows, true).
Proof.
  intros Hq He Hv.
  pose proof (accepted_formats_wf_lemma dl q e ld ds ts qa Hq He Hv) as W.
  destruct (w_rows (as_delimited_keywords dl q e qa) rows) as [out|] eqn:E.
  - exists out. split; [reflexivity|]. exact (csv_roundtrip _ _ _ W E).
  - exfalso. exact (w_rows_total _ W rows E).
Qed.
