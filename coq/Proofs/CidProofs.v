(* C09: structure of accepted CIDs, decoration that is ignored, the row a rejection names. *)
From Coq Require Import Lia String.
From CP Require Import Model.Base Generated.Consts Model.Ranges Model.Lex Model.RangeParse Model.DataFormat Model.Fields
  Model.FieldTypes Model.Cid Proofs.BaseProofs.
Local Open Scope Z_scope.

(* ---------- running a prefix of the rows *)
Fixpoint steps (e : env) (s : cstate) (rows : list (list text)) : rowres :=
  match rows with
  | [] => ROk s
  | r :: rest => match row_step e s r with ROk s' => steps e s' rest | x => x end
  end.

Lemma steps_app e rows1 : forall s rows2,
  steps e s (rows1 ++ rows2) = match steps e s rows1 with ROk s' => steps e s' rows2 | x => x end.
Proof.
  induction rows1 as [|r rows1 IH]; intros s rows2; cbn [app steps]; [reflexivity|].
  destruct (row_step e s r); try reflexivity. apply IH.
Qed.


(* the row named by a rejection: every row before it was processed, that row itself is refused *)
Lemma read_rows_rejection e rows : forall line s n,
  read_rows e rows line s = CidInterface (Some n) ->
  (line <= n)%nat /\
  ((n < line + length rows)%nat ->
   exists s', steps e s (firstn (n - line) rows) = ROk s' /\ row_step e s' (nth (n - line) rows []) = RInterface).
Proof.
  induction rows as [|r rows IH]; intros line s n H; cbn [read_rows] in H.
  - unfold finish in H. destruct (st_fmt s) as [d|].
    + destruct (negb (validate_format d)); [discriminate|]. destruct (st_fields s); [|discriminate].
      injection H as <-. split; [lia|]. cbn [length]. lia.
    + injection H as <-. split; [lia|]. cbn [length]. lia.
  - destruct (row_step e s r) as [s'| | |] eqn:E; try discriminate.
    + apply IH in H as [H1 H2]. split; [lia|]. intros Hn. cbn [length] in Hn.
      destruct H2 as [s2 [A B]]; [lia|].
      replace (n - line)%nat with (S (n - S line)) by lia. cbn [firstn steps nth]. rewrite E. exists s2. auto.
    + injection H as <-. split; [lia|]. intros _. rewrite Nat.sub_diag. cbn [firstn steps nth]. exists s. auto.
Qed.

Theorem rejection_names_offending_row e rows n : cid_read e rows = CidInterface (Some n) ->
  (n <= length rows)%nat /\
  ((n < length rows)%nat -> exists s, steps e cstate0 (firstn n rows) = ROk s /\ row_step e s (nth n rows []) = RInterface).
Proof.
  intros H. unfold cid_read in H. pose proof (read_rows_rejection e rows 0 cstate0 n H) as [_ B].
  rewrite Nat.sub_0_r in B. split; [|exact B].
  clear B.
  assert (forall rows line s n, read_rows e rows line s = CidInterface (Some n) -> (n <= line + length rows)%nat) as A.
  { clear. induction rows as [|r rows IH]; intros line s n H; cbn [read_rows] in H.
    - unfold finish in H. destruct (st_fmt s) as [d|]; [destruct (negb (validate_format d)); [discriminate|]; destruct (st_fields s); [|discriminate]|];
        injection H as <-; cbn; lia.
    - destruct (row_step e s r); try discriminate; [apply IH in H; cbn [length]; lia|injection H as <-; lia]. }
  apply A in H. lia.
Qed.

(* conversely: if the first n rows are fine and row n is refused, that is what the rejection names *)
Lemma offending_general e rows : forall n line s0 s, (n < length rows)%nat ->
  steps e s0 (firstn n rows) = ROk s -> row_step e s (nth n rows []) = RInterface ->
  read_rows e rows line s0 = CidInterface (Some (line + n)%nat).
Proof.
  induction rows as [|r rows IH]; intros n line s0 s Hn Hs Hr; cbn [length] in Hn; [lia|].
  destruct n as [|n].
  - cbn in Hs. injection Hs as ->. cbn in Hr. cbn [read_rows]. rewrite Hr. f_equal. f_equal. lia.
  - cbn [firstn steps] in Hs. cbn [nth] in Hr. cbn [read_rows].
    destruct (row_step e s0 r) as [s1| | |]; try discriminate.
    replace (line + S n)%nat with (S line + n)%nat by lia. eapply IH; [lia|exact Hs|exact Hr].
Qed.
Theorem offending_row_is_named e rows n s : (n < length rows)%nat ->
  steps e cstate0 (firstn n rows) = ROk s -> row_step e s (nth n rows []) = RInterface ->
  cid_read e rows = CidInterface (Some n).
Proof. intros Hn Hs Hr. unfold cid_read. rewrite (offending_general e rows n 0 cstate0 s Hn Hs Hr). reflexivity. Qed.

(* ---------- what is accepted does not depend on the line counter *)
Definition outcome (r : cidres) : option cstate := match r with CidOk s => Some s | _ => None end.
Lemma outcome_line e rows : forall l1 l2 s, outcome (read_rows e rows l1 s) = outcome (read_rows e rows l2 s).
Proof.
  induction rows as [|r rows IH]; intros l1 l2 s; cbn [read_rows].
  - unfold finish. destruct (st_fmt s) as [d|]; [|reflexivity]. destruct (negb (validate_format d)); [reflexivity|]. destruct (st_fields s); reflexivity.
  - destruct (row_step e s r); try reflexivity. apply IH.
Qed.

(* ---------- decoration *)
Definition is_comment_row (row : list text) : Prop :=
  match row with [] => True | c0 :: _ => has_non_ascii c0 = false /\ strip (lower c0) = [] end.
Lemma comment_row_step e s row : is_comment_row row -> row_step e s row = ROk s.
Proof.
  destruct row as [|c0 cells]; [reflexivity|]. intros [H1 H2]. unfold row_step. rewrite H1, H2.
  reflexivity.
Qed.
(* rows whose first cell is empty (or that have no cells) can be put anywhere without changing the interface *)
Theorem comment_rows_ignored e before row after : is_comment_row row ->
  outcome (cid_read e (before ++ row :: after)) = outcome (cid_read e (before ++ after)).
Proof.
  intros Hc. unfold cid_read. generalize cstate0 as s. generalize 0%nat as line.
  induction before as [|r before IH]; intros line s; cbn [app read_rows].
  - rewrite (comment_row_step e s row Hc). apply outcome_line.
  - destruct (row_step e s r); try reflexivity. apply IH.
Qed.

Lemma pad6_extra cells extra : (6 <= length cells)%nat -> pad6 (cells ++ extra) = pad6 cells.
Proof.
  intros H. unfold pad6. rewrite <- !app_assoc. rewrite !firstn_app.
  replace (6 - length cells)%nat with 0%nat by lia. cbn [firstn]. rewrite !app_nil_r. reflexivity.
Qed.
(* cells beyond the parsed columns are ignored *)
Theorem trailing_cells_ignored e s c0 cells extra : (6 <= length cells)%nat ->
  row_step e s (c0 :: cells ++ extra) = row_step e s (c0 :: cells).
Proof. intros H. unfold row_step. rewrite pad6_extra by exact H. reflexivity. Qed.

(* the row marker is matched case-insensitively and without surrounding blanks *)
Theorem row_marker_normalised e s c0 c0' cells : has_non_ascii c0 = false -> has_non_ascii c0' = false ->
  strip (lower c0) = strip (lower c0') -> row_step e s (c0 :: cells) = row_step e s (c0' :: cells).
Proof. intros H1 H2 H. unfold row_step. rewrite H1, H2, H. reflexivity. Qed.

(* ---------- invariants of every state reachable by processing rows *)
Definition good_name (n : text) : Prop :=
  exists c r, n = c :: r /\ is_ascii_letter c = true /\ forallb is_name_rest r = true /\ ~ In n keywords.
Lemma validated_field_name_good cell n : validated_field_name cell = Some n -> good_name n /\ n = strip cell.
Proof.
  unfold validated_field_name. destruct (strip cell) as [|c r] eqn:E; [discriminate|].
  destruct (existsb (text_eqb (c :: r)) keywords) eqn:K; [discriminate|].
  destruct (is_ascii_letter c && forallb is_name_rest r) eqn:G; [|discriminate].
  intros H. injection H as <-. apply andb_true_iff in G as [G1 G2]. split; [|reflexivity].
  exists c, r. repeat split; try assumption. intros Hin. apply existsb_text_In in Hin. congruence.
Qed.

Record Inv (s : cstate) : Prop := {
  inv_names : NoDup (map fs_name (st_fields s));
  inv_good : Forall good_name (map fs_name (st_fields s));
  inv_descs : NoDup (map ck_desc (st_checks s));
  inv_desc_nonempty : Forall (fun c => ck_desc c <> []) (st_checks s);
  inv_check_fields : Forall (fun c => ck_fields c <> [] /\ incl (ck_fields c) (map fs_name (st_fields s))) (st_checks s);
  inv_fields_before_checks : st_fields s = [] -> st_checks s = [];
  inv_format : match st_fmt s with Some d => In (df_format d) VALID_FORMATS | None => st_fields s = [] /\ st_checks s = [] end
}.

Lemma inv0 : Inv cstate0.
Proof. constructor; cbn; try constructor; auto. Qed.

Lemma new_format_valid v d : new_format v = Some d -> In (df_format d) VALID_FORMATS.
Proof.
  unfold new_format. set (fmt := if text_eqb v (txt "csv") then FORMAT_DELIMITED else v).
  destruct (existsb (text_eqb fmt) VALID_FORMATS) eqn:E; [|discriminate]. intros H. injection H as <-. cbn [df_format].
  apply existsb_text_In in E. exact E.
Qed.
Lemma set_property_keeps_format d n v k d' : set_property d n v k = SetOk d' -> df_format d' = df_format d.
Proof.
  unfold set_property. destruct (get_attr (df_attrs d) (replace_blanks n)); [|discriminate].
  repeat match goal with
         | |- (if ?b then _ else _) = _ -> _ => destruct b
         | |- match ?x with _ => _ end = _ -> _ => destruct x
         end; intros H; try discriminate; injection H as <-; reflexivity.
Qed.

Lemma existsb_name_In (fs : list fsum) n : existsb (fun f => text_eqb (fs_name f) n) fs = false -> ~ In n (map fs_name fs).
Proof.
  intros H Hin. apply in_map_iff in Hin as [f [<- Hf]].
  assert (existsb (fun f0 => text_eqb (fs_name f0) (fs_name f)) fs = true); [|congruence].
  apply existsb_exists. exists f. split; [exact Hf|apply text_eqb_refl].
Qed.
Lemma existsb_desc_In (cs : list csum) n : existsb (fun c => text_eqb (ck_desc c) n) cs = false -> ~ In n (map ck_desc cs).
Proof.
  intros H Hin. apply in_map_iff in Hin as [f [<- Hf]].
  assert (existsb (fun c => text_eqb (ck_desc c) (ck_desc f)) cs = true); [|congruence].
  apply existsb_exists. exists f. split; [exact Hf|apply text_eqb_refl].
Qed.

Lemma nodup_snoc {A} (l : list A) x : NoDup l -> ~ In x l -> NoDup (l ++ [x]).
Proof.
  intros H Hx. induction l as [|y l IH]; cbn; [constructor; [intros []|constructor]|].
  inversion H; subst. constructor.
  - rewrite in_app_iff. intros [Hy|[->|[]]]; [contradiction|]. apply Hx. left. reflexivity.
  - apply IH; [assumption|]. intros Hin. apply Hx. right. exact Hin.
Qed.

(* ---------- shape of the successful steps *)
Ltac break_match_in H :=
  repeat (match type of H with
          | context [match ?x with _ => _ end] => destruct x eqn:?
          | context [if ?b then _ else _] => destruct b eqn:?
          end; try discriminate).

Lemma field_row_ok e s items s' : add_field_format_row e s items = ROk s' ->
  exists d name fs, st_fmt s = Some d /\ validated_field_name (nth 0 items []) = Some name
    /\ existsb (fun f => text_eqb (fs_name f) name) (st_fields s) = false /\ fs_name fs = name
    /\ s' = {| st_fmt := st_fmt s; st_fields := st_fields s ++ [fs]; st_checks := st_checks s |}.
Proof.
  unfold add_field_format_row. intros H.
  destruct (st_fmt s) as [d|] eqn:Ef; [|discriminate].
  destruct (validated_field_name (nth 0 items [])) as [name|] eqn:En; [|discriminate].
  destruct (existsb (fun f => text_eqb (fs_name f) name) (st_fields s)) eqn:Ed; [discriminate|].
  cbv zeta in H.
  break_match_in H;
    injection H as <-; eexists d, name, _; (repeat split; try reflexivity; try eassumption).
Qed.

Lemma check_row_ok e s items s' : add_check_row e s items = ROk s' ->
  exists c, ck_desc c <> [] /\ existsb (fun x => text_eqb (ck_desc x) (ck_desc c)) (st_checks s) = false
    /\ build_check (ck_type c) (ck_rule c) (map fs_name (st_fields s)) = CkOk (ck_fields c)
    /\ s' = {| st_fmt := st_fmt s; st_fields := st_fields s; st_checks := st_checks s ++ [c] |}.
Proof.
  unfold add_check_row. cbv zeta. intros H.
  break_match_in H. injection H as <-.
  eexists {| ck_desc := _; ck_type := _; ck_rule := _; ck_fields := _ |}. cbn [ck_desc ck_type ck_rule ck_fields].
  repeat split; try eassumption; try reflexivity.
  intros E. rewrite E in *. discriminate.
Qed.

Lemma unique_loop_incl ts names : forall after acc fs, unique_loop ts names after acc = Some (Some fs) ->
  incl acc names -> fs <> [] /\ incl fs names.
Proof.
  induction ts as [|t ts IH]; intros after acc fs H Hacc; cbn [unique_loop] in H; [discriminate|].
  destruct (is_eof t).
  - destruct acc; [discriminate|]. injection H as <-. split; [discriminate|exact Hacc].
  - destruct after.
    + destruct (negb (tkind_eqb (tk t) KName)); [discriminate|].
      destruct (negb (existsb (text_eqb (tt t)) names)) eqn:En; [discriminate|].
      destruct (existsb (text_eqb (tt t)) acc); [discriminate|].
      apply IH in H; [exact H|]. apply incl_app; [exact Hacc|].
      intros x [<-|[]]. apply negb_false_iff in En. apply existsb_text_In in En. exact En.
    + destruct (negb (is_comma t)); [discriminate|]. eapply IH; eassumption.
Qed.
Lemma build_check_fields ctype rule names fs : build_check ctype rule names = CkOk fs ->
  names <> [] /\ fs <> [] /\ incl fs names.
Proof.
  unfold build_check. destruct names as [|n0 names]; [discriminate|]. intros H. split; [discriminate|].
  destruct (generated_tokens rule) as [ts| |]; try discriminate.
  destruct (text_eqb ctype (txt "IsUnique")).
  - destruct (unique_loop ts (n0 :: names) true []) as [[fs'|]|] eqn:U; try discriminate. injection H as <-.
    eapply unique_loop_incl; [exact U|]. intros x [].
  - destruct (text_eqb ctype (txt "DistinctCount")); [|discriminate].
    destruct ts as [|t rest]; [discriminate|].
    destruct (negb (tkind_eqb (tk t) KName)); [discriminate|].
    destruct (negb (existsb (text_eqb (tt t)) (n0 :: names))) eqn:En; [discriminate|].
    apply negb_false_iff in En. apply existsb_text_In in En.
    assert (fs = [tt t]) as ->.
    { break_match_in H; injection H as <-; reflexivity. }
    split; [discriminate|]. intros x [<-|[]]. exact En.
Qed.

Lemma format_row_ok e s name value s' : add_data_format_row e s name value = ROk s' ->
  st_fields s' = st_fields s /\ st_checks s' = st_checks s /\
  match st_fmt s with
  | None => exists d, st_fmt s' = Some d /\ In (df_format d) VALID_FORMATS
  | Some d => exists d', st_fmt s' = Some d' /\ df_format d' = df_format d
  end.
Proof.
  unfold add_data_format_row. intros H.
  destruct (is_nil_t name); [discriminate|]. destruct (has_non_ascii name || has_non_ascii value); [discriminate|].
  destruct (st_fmt s) as [d|].
  - destruct (text_eqb (lower name) KEY_FORMAT); [discriminate|].
    destruct (set_property d (lower name) value _) as [d'| | |] eqn:E; try discriminate.
    injection H as <-. cbn. repeat split. exists d'. split; [reflexivity|]. eapply set_property_keeps_format. exact E.
  - destruct (negb (text_eqb (lower name) KEY_FORMAT)); [discriminate|].
    destruct (new_format (lower value)) as [d|] eqn:E; [|discriminate].
    injection H as <-. cbn. repeat split. exists d. split; [reflexivity|]. eapply new_format_valid. exact E.
Qed.

Lemma incl_snoc {A} (l m : list A) x : incl l m -> incl l (m ++ [x]).
Proof. intros H y Hy. apply in_app_iff. left. apply H. exact Hy. Qed.

Theorem row_step_preserves_inv e s row s' : row_step e s row = ROk s' -> Inv s -> Inv s'.
Proof.
  unfold row_step. destruct row as [|c0 cells]; [intros H; injection H as <-; auto|].
  destruct (has_non_ascii c0); [discriminate|]. cbv zeta.
  destruct (text_eqb (strip (lower c0)) ID_DATA_FORMAT).
  { intros H I. apply format_row_ok in H as [F1 [F2 F3]]. destruct I.
    constructor; rewrite ?F1, ?F2; try assumption.
    destruct (st_fmt s) as [d|].
    - destruct F3 as [d' [-> Ed]]. rewrite Ed. exact inv_format0.
    - destruct F3 as [d [-> Hd]]. exact Hd. }
  destruct (text_eqb (strip (lower c0)) ID_FIELD_RULE).
  { intros H I. apply field_row_ok in H as [d [name [fs [Ef [En [Ed [Efs ->]]]]]]]. destruct I.
    apply validated_field_name_good in En as [Hg _]. apply existsb_name_In in Ed.
    constructor; cbn [st_fmt st_fields st_checks]; rewrite ?map_app; cbn [map]; rewrite ?Efs.
    - apply nodup_snoc; assumption.
    - apply Forall_app. split; [assumption|]. constructor; [exact Hg|constructor].
    - assumption.
    - assumption.
    - eapply Forall_impl; [|exact inv_check_fields0]. intros c [A B]. split; [exact A|]. apply incl_snoc. exact B.
    - intros E. destruct (st_fields s); discriminate.
    - rewrite Ef in *. exact inv_format0. }
  destruct (text_eqb (strip (lower c0)) ID_CHECK).
  { intros H I. apply check_row_ok in H as [c [Hd [Ex [Hb ->]]]]. destruct I.
    apply build_check_fields in Hb as [Hn [Hf Hi]]. apply existsb_desc_In in Ex.
    constructor; cbn [st_fmt st_fields st_checks]; rewrite ?map_app; cbn [map]; try assumption.
    - apply nodup_snoc; assumption.
    - apply Forall_app. split; [assumption|]. constructor; [exact Hd|constructor].
    - apply Forall_app. split; [assumption|]. constructor; [split; assumption|constructor].
    - intros E. rewrite E in Hn. cbn in Hn. congruence.
    - destruct (st_fmt s); [assumption|]. destruct inv_format0 as [E _]. rewrite E in Hn. cbn in Hn. congruence. }
  destruct (is_nil_t (strip (lower c0))); [|discriminate]. intros H. injection H as <-. auto.
Qed.

Lemma steps_preserve_inv e rows : forall s s', steps e s rows = ROk s' -> Inv s -> Inv s'.
Proof.
  induction rows as [|r rows IH]; intros s s' H I; cbn [steps] in H; [injection H as <-; exact I|].
  destruct (row_step e s r) as [s1| | |] eqn:E; try discriminate.
  eapply IH; [exact H|]. eapply row_step_preserves_inv; eassumption.
Qed.

Lemma read_rows_accept e rows : forall line s s', read_rows e rows line s = CidOk s' ->
  steps e s rows = ROk s' /\ (exists d, st_fmt s' = Some d /\ validate_format d = true) /\ st_fields s' <> [].
Proof.
  induction rows as [|r rows IH]; intros line s s' H; cbn [read_rows] in H.
  - unfold finish in H. destruct (st_fmt s) as [d|] eqn:Ef; [|discriminate].
    destruct (negb (validate_format d)) eqn:V; [discriminate|]. destruct (st_fields s) eqn:Fs; [discriminate|].
    injection H as <-. split; [reflexivity|]. split; [exists d; split; [exact Ef|apply negb_false_iff; exact V]|]. rewrite Fs. discriminate.
  - cbn [steps]. destruct (row_step e s r); try discriminate. eapply IH. exact H.
Qed.

(* an accepted CID: one known format, validated; at least one field; unique well-formed field names in declaration
   order; checks with unique non-empty descriptions over declared fields only *)
Theorem accepted_cid_is_sound e rows s : cid_read e rows = CidOk s ->
  (exists d, st_fmt s = Some d /\ In (df_format d) VALID_FORMATS /\ validate_format d = true)
  /\ st_fields s <> []
  /\ NoDup (map fs_name (st_fields s)) /\ Forall good_name (map fs_name (st_fields s))
  /\ NoDup (map ck_desc (st_checks s)) /\ Forall (fun c => ck_desc c <> []) (st_checks s)
  /\ Forall (fun c => ck_fields c <> [] /\ incl (ck_fields c) (map fs_name (st_fields s))) (st_checks s).
Proof.
  intros H. unfold cid_read in H. apply read_rows_accept in H as [Hs [[d [Ef V]] Hf]].
  pose proof (steps_preserve_inv e rows cstate0 s Hs inv0) as I. destruct I.
  rewrite Ef in inv_format0.
  split; [exists d; auto|]. repeat split; assumption.
Qed.

(* field order is the order of the F rows: a step appends at most one field at the end and never removes one *)
Theorem fields_only_appended e s row s' : row_step e s row = ROk s' ->
  st_fields s' = st_fields s \/ exists f, st_fields s' = st_fields s ++ [f].
Proof.
  unfold row_step. destruct row as [|c0 cells]; [intros H; injection H as <-; auto|].
  destruct (has_non_ascii c0); [discriminate|]. cbv zeta.
  destruct (text_eqb (strip (lower c0)) ID_DATA_FORMAT).
  { intros H. apply format_row_ok in H as [F1 _]. left. exact F1. }
  destruct (text_eqb (strip (lower c0)) ID_FIELD_RULE).
  { intros H. apply field_row_ok in H as [d [name [fs [_ [_ [_ [_ ->]]]]]]]. right. exists fs. reflexivity. }
  destruct (text_eqb (strip (lower c0)) ID_CHECK).
  { intros H. apply check_row_ok in H as [c [_ [_ [_ ->]]]]. left. reflexivity. }
  destruct (is_nil_t (strip (lower c0))); [|discriminate]. intros H. injection H as <-. auto.
Qed.

(* ---------- a CID built call by call, refused calls skipped *)
Fixpoint kept (e : env) (rows : list (list text)) (s : cstate) : list (list text) :=
  match rows with
  | [] => []
  | row :: rest => match row_step e s row with
                   | ROk s' => row :: kept e rest s'
                   | _ => kept e rest s
                   end
  end.

Lemma kept_length e rows : forall s, (length (kept e rows s) <= length rows)%nat.
Proof.
  induction rows as [|r rows IH]; intros s; cbn [kept length]; [lia|].
  destruct (row_step e s r); [specialize (IH s0)|specialize (IH s)..]; cbn [length]; lia.
Qed.

Theorem api_steps_as_reading e rows : forall s n s' m, api_steps e rows s n = Some (s', m) ->
  steps e s (kept e rows s) = ROk s' /\ (m + length (kept e rows s) = n + length rows)%nat.
Proof.
  induction rows as [|r rows IH]; intros s n s' m H; cbn [api_steps kept] in *.
  - injection H as <- <-. cbn. split; [reflexivity|lia].
  - destruct (row_step e s r) as [s1| | |] eqn:E; try discriminate.
    + cbn [steps length]. rewrite E. apply IH in H as [H1 H2]. split; [exact H1|lia].
    + apply IH in H as [H1 H2]. split; [exact H1|]. cbn [length]. lia.
Qed.

Theorem api_steps_preserve_inv e rows s n s' m : api_steps e rows s n = Some (s', m) -> Inv s -> Inv s'.
Proof. intros H I. apply api_steps_as_reading in H as [H _]. eapply steps_preserve_inv; eassumption. Qed.

(* every call is accepted: the calls are exactly Cid.read without its final checks *)
Lemma api_steps_none_refused e rows : forall s n s', api_steps e rows s n = Some (s', n) -> steps e s rows = ROk s'.
Proof.
  intros s n s' H. pose proof (api_steps_as_reading _ _ _ _ _ _ H) as [H1 H2].
  assert (L : length (kept e rows s) = length rows) by lia. clear H2.
  assert (K : forall rows s, length (kept e rows s) = length rows -> kept e rows s = rows).
  { clear. induction rows as [|r rows IH]; intros s L; cbn [kept] in *; [reflexivity|].
    destruct (row_step e s r) eqn:E; cbn [length] in L.
    - f_equal. apply IH. lia.
    - pose proof (kept_length e rows s). lia.
    - pose proof (kept_length e rows s). lia.
    - pose proof (kept_length e rows s). lia. }
  rewrite (K _ _ L) in H1. exact H1.
Qed.

(* ---------- lookups by name agree with the declaration order *)
Lemma index_of_nth names : NoDup names -> forall i d, (i < length names)%nat -> index_of (nth i names d) names = Some i.
Proof.
  induction 1 as [|x l Hx ND IH]; intros i d Hi; [cbn in Hi; lia|].
  destruct i as [|i]; cbn [nth index_of].
  - rewrite text_eqb_refl. reflexivity.
  - cbn [length] in Hi. assert (Hi' : (i < length l)%nat) by lia.
    destruct (text_eqb x (nth i l d)) eqn:E.
    + apply text_eqb_eq in E. exfalso. apply Hx. rewrite E. apply nth_In. exact Hi'.
    + rewrite (IH i d Hi'). reflexivity.
Qed.
Lemma index_of_some n names i : index_of n names = Some i -> nth_error names i = Some n.
Proof.
  revert i. induction names as [|x l IH]; intros i H; cbn [index_of] in H; [discriminate|].
  destruct (text_eqb x n) eqn:E.
  - injection H as <-. apply text_eqb_eq in E. subst. reflexivity.
  - destruct (index_of n l) as [j|] eqn:J; [|discriminate]. injection H as <-. cbn [nth_error]. apply IH. reflexivity.
Qed.
Lemma index_of_none n names : index_of n names = None <-> ~ In n names.
Proof.
  induction names as [|x l IH]; cbn [index_of In]; [tauto|].
  destruct (text_eqb x n) eqn:E.
  - apply text_eqb_eq in E. split; [discriminate|]. intros H. exfalso. apply H. left. exact E.
  - apply text_eqb_neq in E. destruct (index_of n l) as [j|]; cbn [option_map].
    + split; [discriminate|]. intros H. exfalso. assert (N : ~ In n l) by tauto. apply IH in N. discriminate.
    + split; [|reflexivity]. intros _ [H|H]; [congruence|]. revert H. apply IH. reflexivity.
Qed.

Theorem lookup_follows_declaration_order e rows s : cid_read e rows = CidOk s ->
  forall i f, nth_error (st_fields s) i = Some f -> field_index s (fs_name f) = Some i.
Proof.
  intros H i f Hf. apply accepted_cid_is_sound in H as [_ [_ [ND _]]].
  unfold field_index. assert (Hi : (i < length (map fs_name (st_fields s)))%nat).
  { rewrite map_length. apply nth_error_Some. congruence. }
  assert (E : nth i (map fs_name (st_fields s)) [] = fs_name f).
  { apply nth_error_nth with (d := f) in Hf. transitivity (nth i (map fs_name (st_fields s)) (fs_name f)); [apply nth_indep; exact Hi|].
    rewrite (map_nth fs_name). rewrite Hf. reflexivity. }
  rewrite <- E. apply index_of_nth; assumption.
Qed.
Theorem value_lookup_is_positional e rows s row i f : cid_read e rows = CidOk s -> length row = length (st_fields s) ->
  nth_error (st_fields s) i = Some f -> field_value_for s (fs_name f) row = nth_error row i.
Proof.
  intros H L Hf. unfold field_value_for. rewrite L, Nat.eqb_refl. rewrite (lookup_follows_declaration_order _ _ _ H _ _ Hf). reflexivity.
Qed.
Theorem unknown_name_has_no_index s n : field_index s n = None <-> ~ In n (map fs_name (st_fields s)).
Proof. apply index_of_none. Qed.

(* ---------- accepted iff every row is accepted in turn and the end-of-CID conditions hold *)
Lemma read_rows_accept_conv e rows : forall line s s', steps e s rows = ROk s' ->
  (exists d, st_fmt s' = Some d /\ validate_format d = true) -> st_fields s' <> [] -> read_rows e rows line s = CidOk s'.
Proof.
  induction rows as [|r rows IH]; intros line s s' H [d [Ef V]] Hf; cbn [steps read_rows] in *.
  - injection H as <-. unfold finish. rewrite Ef, V. cbn [negb]. destruct (st_fields s); [congruence|reflexivity].
  - destruct (row_step e s r) as [s1| | |]; try discriminate. apply IH; [exact H| |exact Hf]. exists d. auto.
Qed.
Theorem cid_accepted_iff e rows s : cid_read e rows = CidOk s <->
  steps e cstate0 rows = ROk s /\ (exists d, st_fmt s = Some d /\ validate_format d = true) /\ st_fields s <> [].
Proof.
  split.
  - intros H. unfold cid_read in H. apply read_rows_accept in H. exact H.
  - intros [H1 [H2 H3]]. apply read_rows_accept_conv; assumption.
Qed.
(* and a CID is refused with an interface error iff some row is the first to be refused or the end-of-CID conditions fail *)
Theorem cid_refused_iff e rows : (exists n, cid_read e rows = CidInterface n) <->
  (exists k s, (k < length rows)%nat /\ steps e cstate0 (firstn k rows) = ROk s /\ row_step e s (nth k rows []) = RInterface)
  \/ (exists s, steps e cstate0 rows = ROk s /\
        (st_fmt s = None \/ (exists d, st_fmt s = Some d /\ validate_format d = false) \/ st_fields s = [])).
Proof.
  unfold cid_read. generalize 0%nat as line. generalize cstate0 as s0.
  induction rows as [|r rows IH]; intros s0 line.
  - cbn [read_rows steps firstn length nth]. split.
    + intros [n H]. right. exists s0. split; [reflexivity|]. unfold finish in H.
      destruct (st_fmt s0) as [d|]; [|left; reflexivity]. right.
      destruct (validate_format d) eqn:V; cbn [negb] in H.
      * right. destruct (st_fields s0); [reflexivity|discriminate].
      * left. exists d. auto.
    + intros [[k [s [Hk _]]]|[s [Hs Hc]]]; [cbn in Hk; lia|]. injection Hs as <-. unfold finish.
      destruct Hc as [->|[[d [-> V]]|Hf]].
      * eexists. reflexivity.
      * rewrite V. cbn [negb]. eexists. reflexivity.
      * destruct (st_fmt s0) as [d|]; [|eexists; reflexivity].
        destruct (negb (validate_format d)); [eexists; reflexivity|]. rewrite Hf. eexists. reflexivity.
  - cbn [read_rows steps]. destruct (row_step e s0 r) as [s1| | |] eqn:E.
    + rewrite (IH s1 (S line)). split.
      * intros [[k [s [Hk [Hs Hr]]]]|[s [Hs Hc]]].
        -- left. exists (S k), s. cbn [length firstn steps nth]. rewrite E. split; [lia|]. auto.
        -- right. exists s. auto.
      * intros [[k [s [Hk [Hs Hr]]]]|[s [Hs Hc]]].
        -- left. destruct k as [|k].
           ++ cbn [firstn steps nth] in *. injection Hs as <-. congruence.
           ++ cbn [length firstn steps nth] in *. rewrite E in Hs. exists k, s. split; [lia|]. auto.
        -- right. exists s. auto.
    + split; [|intros _; eexists; reflexivity]. intros _. left. exists 0%nat, s0. cbn [length firstn steps nth]. split; [lia|]. auto.
    + split.
      * intros [n H]. discriminate.
      * intros [[k [s [Hk [Hs Hr]]]]|[s [Hs _]]]; [|discriminate].
        destruct k as [|k]; cbn [firstn steps nth] in *; [injection Hs as <-; congruence|]. rewrite E in Hs. discriminate.
    + split.
      * intros [n H]. discriminate.
      * intros [[k [s [Hk [Hs Hr]]]]|[s [Hs _]]]; [|discriminate].
        destruct k as [|k]; cbn [firstn steps nth] in *; [injection Hs as <-; congruence|]. rewrite E in Hs. discriminate.
Qed.
