From Coq Require Import Lia.
From CP Require Import Model.Base Generated.Consts Generated.FormatTable Model.Delimited Model.DataFormat
  Spec.DelimitedSpec Proofs.BaseProofs.

Ltac kill H := cbn in H; rewrite ?N.eqb_refl, ?andb_true_l, ?andb_true_r, ?orb_true_l, ?orb_true_r in H; cbn in H;
               rewrite ?orb_true_l, ?orb_true_r in H; cbn in H; discriminate H.

(* the consistency rules of DataFormat.validate (as regenerated from the source) really gate the configurations
   handed to the csv module *)
Lemma accepted_formats_wf_lemma dl q e ld ds ts qa :
  In [q] VALID_QUOTE_CHARACTERS -> In [e] VALID_ESCAPE_CHARACTERS ->
  validate_ok FORMAT_DELIMITED (delimited_attrs dl q e ld ds ts) = true ->
  wf_dialect (as_delimited_keywords dl q e qa).
Proof.
  intros Hq He H. unfold validate_ok in H. apply andb_true_iff in H as [H1 H2].
  unfold distinct_pairs in H1. unfold refused_item_delimiters in H2.
  assert (Dq : dl <> q). { intros ->. kill H1. }
  assert (De : e <> dl \/ e = q).
  { destruct (N.eq_dec e q) as [->|Hne]; [right; reflexivity|left]. intros ->. kill H1. }
  assert (Dcr : dl <> CR). { intros ->. kill H2. }
  assert (Dlf : dl <> LF). { intros ->. kill H2. }
  assert (Qnl : q <> CR /\ q <> LF).
  { unfold VALID_QUOTE_CHARACTERS in Hq. cbn in Hq.
    repeat (destruct Hq as [Hq|Hq]; [injection Hq as <-; split; discriminate|]). contradiction. }
  assert (Enl : e <> CR /\ e <> LF).
  { unfold VALID_ESCAPE_CHARACTERS in He. cbn in He.
    repeat (destruct He as [He|He]; [injection He as <-; split; discriminate|]). contradiction. }
  unfold wf_dialect, as_delimited_keywords. destruct (N.eqb_spec e q) as [->|Hne]; cbn.
  - tauto.
  - destruct De as [De|De]; [|contradiction]. repeat split; auto; try tauto.
Qed.

(* the writer never fails for such dialects ("need to escape, but no escapechar set" cannot happen) *)
Lemma w_field_total d : (esc d = None -> dbl d = true) -> forall s quoted, w_field d s quoted <> None.
Proof.
  intros Hd. induction s as [|c t IH]; intros quoted; cbn [w_field]; [discriminate|].
  destruct (N.eqb c (delim d) || is_esc d c || N.eqb c (quote d) || is_nl c).
  - destruct (N.eqb c (quote d)).
    + destruct (dbl d) eqn:Db.
      * specialize (IH true). destruct (w_field d t true) as [[r q]|]; [discriminate|contradiction].
      * destruct (esc d) as [e|] eqn:Ee; [|specialize (Hd eq_refl); congruence].
        specialize (IH quoted). destruct (w_field d t quoted) as [[r q]|]; [discriminate|contradiction].
    + unfold is_esc. destruct (esc d) as [e|] eqn:Ee.
      * destruct (N.eqb c e).
        -- specialize (IH quoted). destruct (w_field d t quoted) as [[r q]|]; [discriminate|contradiction].
        -- specialize (IH true). destruct (w_field d t true) as [[r q]|]; [discriminate|contradiction].
      * specialize (IH true). destruct (w_field d t true) as [[r q]|]; [discriminate|contradiction].
  - specialize (IH quoted). destruct (w_field d t quoted) as [[r q]|]; [discriminate|contradiction].
Qed.

Lemma w_rows_total d : wf_dialect d -> forall rows, w_rows d rows <> None.
Proof.
  intros W. assert (Hd : esc d = None -> dbl d = true).
  { destruct W as [_ [_ [_ [_ [_ W]]]]]. intros E. rewrite E in W. exact W. }
  assert (Hc : forall lone s, w_cell d lone s <> None).
  { intros lone s. unfold w_cell. pose proof (w_field_total d Hd s (qall d || lone && match s with [] => true | _ => false end)) as T.
    destruct (w_field d s _) as [[r [|]]|]; [discriminate|discriminate|contradiction]. }
  assert (Hcs : forall cells first, w_cells d cells first <> None).
  { induction cells as [|c t IH]; intros first; cbn; [discriminate|].
    pose proof (Hc false c). destruct (w_cell d false c); [|contradiction].
    pose proof (IH false). destruct (w_cells d t false); [discriminate|contradiction]. }
  assert (Hr : forall cells, w_row d cells <> None).
  { intros cells. unfold w_row. destruct cells as [|c [|c2 t]].
    - pose proof (Hcs [] true) as T. destruct (w_cells d [] true); [discriminate|contradiction].
    - pose proof (Hc true c). destruct (w_cell d true c); [discriminate|contradiction].
    - pose proof (Hcs (c :: c2 :: t) true) as T. destruct (w_cells d (c :: c2 :: t) true); [discriminate|contradiction]. }
  induction rows as [|r t IH]; cbn; [discriminate|].
  pose proof (Hr r). destruct (w_row d r); [|contradiction]. destruct (w_rows d t); [discriminate|contradiction].
Qed.
