(* C16: rendering of Excel cells, sheet selection, padding, the xlsx writer round trip. *)
From Coq Require Import Lia String.
From CP Require Import Model.Base Model.Lex Model.FieldTypes Model.Excel Spec.FieldSpec Proofs.BaseProofs Proofs.IntProofs.
Local Open Scope Z_scope.

(* ---------- sheet selection *)
Lemma excel_rows_selects book k s : (1 <= k)%nat -> nth_error book (k - 1) = Some s ->
  excel_rows book k = Some (map (map excel_cell_value) (grid s)).
Proof. intros _ H. unfold excel_rows. rewrite H. reflexivity. Qed.
Lemma excel_rows_missing book k : (length book < k)%nat -> excel_rows book k = None.
Proof. intros H. unfold excel_rows. assert (nth_error book (k - 1) = None) as -> by (apply nth_error_None; lia). reflexivity. Qed.
Lemma excel_rows_only_that_sheet before s after other_before other_after :
  length before = length other_before ->
  excel_rows (before ++ s :: after) (S (length before)) = excel_rows (other_before ++ s :: other_after) (S (length before)).
Proof.
  intros H. unfold excel_rows. replace (S (length before) - 1)%nat with (length before) by lia.
  assert (forall (b a : list sheet), nth_error (b ++ s :: a) (length b) = Some s) as A.
  { intros b a. rewrite nth_error_app2 by lia. rewrite Nat.sub_diag. reflexivity. }
  rewrite A, H, A. reflexivity.
Qed.

(* ---------- padding *)
Lemma ncols_ge {A} (s : list (list A)) r : In r s -> (length r <= ncols s)%nat.
Proof.
  induction s as [|x s IH]; intros H; [contradiction|]. unfold ncols. cbn [fold_right]. fold (ncols s).
  destruct H as [->|H]; [apply Nat.le_max_l|]. etransitivity; [apply IH; exact H|apply Nat.le_max_r].
Qed.
Lemma trim_rows_incl {A} (s : list (list A)) r : In r (trim_rows s) -> In r s.
Proof.
  revert r. induction s as [|x s IH]; intros r H; [contradiction|]. cbn [trim_rows] in H.
  destruct (trim_rows s) as [|t ts] eqn:E.
  - destruct x; [contradiction|]. destruct H as [<-|[]]. left. reflexivity.
  - destruct H as [<-|H]; [left; reflexivity|right; apply IH; exact H].
Qed.
Lemma pad_row_length {A} (d : A) w r : (length r <= w)%nat -> length (pad_row d w r) = w.
Proof. intros H. unfold pad_row. rewrite app_length, repeat_length. lia. Qed.

Theorem excel_rows_padded book k rows s : nth_error book (k - 1) = Some s -> excel_rows book k = Some rows ->
  Forall (fun r => length r = ncols s) rows.
Proof.
  intros Hs H. unfold excel_rows in H. rewrite Hs in H. injection H as <-.
  apply Forall_forall. intros r Hin. apply in_map_iff in Hin as [g [<- Hg]]. rewrite map_length.
  unfold grid in Hg. apply in_map_iff in Hg as [r0 [<- Hr0]].
  apply pad_row_length. apply ncols_ge. apply trim_rows_incl. exact Hr0.
Qed.

(* a written cell keeps its place; everything the producer did not write is the empty text *)
Lemma pad_row_nth {A} (d : A) w r x : (x < w)%nat -> (length r <= w)%nat ->
  nth_error (pad_row d w r) x = Some (nth x r d).
Proof.
  intros Hx Hw. unfold pad_row. destruct (Nat.lt_ge_cases x (length r)) as [L|G].
  - rewrite nth_error_app1 by exact L. apply nth_error_nth'. exact L.
  - rewrite nth_error_app2 by exact G. rewrite (nth_overflow r d G).
    assert (x - length r < w - length r)%nat as B by lia.
    rewrite (nth_error_nth' (repeat d (w - length r)) d) by (rewrite repeat_length; exact B).
    f_equal. apply nth_repeat.
Qed.

(* ---------- rendering *)
Lemma suffix_b_app (p s : text) : suffix_b p (s ++ p) = true.
Proof.
  unfold suffix_b. rewrite rev_app_distr. generalize (rev p) as a. intros a.
  induction a as [|c a IH]; [reflexivity|]. cbn. rewrite N.eqb_refl. exact IH.
Qed.
Theorem whole_number_rendered_without_suffix n : excel_cell_value (XNum (int_text n ++ txt ".0")) = int_text n.
Proof.
  cbn [excel_cell_value]. rewrite suffix_b_app. rewrite app_length. change (length (txt ".0")) with 2%nat.
  replace (length (int_text n) + 2 - 2)%nat with (length (int_text n)) by lia.
  rewrite firstn_app, Nat.sub_diag, firstn_all. cbn [firstn]. apply app_nil_r.
Qed.
Lemma suffix_b_false_keeps r : suffix_b (txt ".0") r = false -> excel_cell_value (XNum r) = r.
Proof. intros H. cbn [excel_cell_value]. rewrite H. reflexivity. Qed.

(* zero padded numbers: the right width and the right value *)
Lemma zpad_spec w n : 0 <= n -> (Z.to_nat (ndig n) <= w)%nat ->
  length (zpad w n) = w /\ forallb is_digit (zpad w n) = true /\ dval (zpad w n) 0 = n.
Proof.
  intros Hn Hw. destruct (nat_text_spec n Hn) as [D [V [L NE]]].
  assert (length (nat_text n) <= w)%nat as Hl by lia.
  unfold zpad. repeat split.
  - rewrite app_length, repeat_length. lia.
  - rewrite forallb_app, D, andb_true_r. apply forallb_forall. intros c Hc. apply repeat_spec in Hc. subst c. reflexivity.
  - rewrite dval_app. assert (dval (repeat 48%N (w - length (nat_text n))) 0 = 0) as ->; [|exact V].
    induction (w - length (nat_text n))%nat as [|k IH]; [reflexivity|]. cbn [repeat]. unfold dval in *. cbn [fold_left]. exact IH.
Qed.
Lemma ndig_small n k : 0 <= n < 10 ^ k -> 1 <= k -> ndig n <= k.
Proof.
  intros [H0 H1] Hk. destruct (Z.eq_dec n 0) as [->|]; [rewrite ndig_0; lia|].
  apply ndig_le; lia.
Qed.

Theorem datetime_rendering y m d hh mm ss :
  1 <= y <= 9999 -> 1 <= m <= 12 -> 1 <= d <= 31 -> 0 <= hh <= 23 -> 0 <= mm <= 59 -> 0 <= ss <= 59 ->
  excel_cell_value (XDate y m d hh mm ss) =
    zpad 4 y ++ DASH :: zpad 2 m ++ DASH :: zpad 2 d ++ SP :: zpad 2 hh ++ COLON :: zpad 2 mm ++ COLON :: zpad 2 ss
  /\ length (excel_cell_value (XDate y m d hh mm ss)) = 19%nat.
Proof.
  intros Hy Hm Hd Hh Hmi Hs. cbn [excel_cell_value].
  assert ((y =? 0) && (m =? 0) && (d =? 0) = false) as -> by lia.
  unfold render_date, render_time. split; [rewrite <- !app_assoc; cbn [app]; rewrite <- !app_assoc; reflexivity|].
  assert (forall n, 0 <= n <= 99 -> length (zpad 2 n) = 2%nat) as P2.
  { intros n Hn. apply zpad_spec; [lia|]. pose proof (ndig_small n 2 ltac:(change (10 ^ 2) with 100; lia) ltac:(lia)). lia. }
  assert (length (zpad 4 y) = 4%nat) as P4.
  { apply zpad_spec; [lia|]. pose proof (ndig_small y 4 ltac:(change (10 ^ 4) with 10000; lia) ltac:(lia)). lia. }
  repeat (rewrite app_length || cbn [length]). rewrite P4, !P2 by lia. reflexivity.
Qed.
Theorem time_rendering hh mm ss :
  excel_cell_value (XDate 0 0 0 hh mm ss) = zpad 2 hh ++ COLON :: zpad 2 mm ++ COLON :: zpad 2 ss.
Proof. reflexivity. Qed.

(* ---------- the xlsx writer *)
Lemma map_repeat_none k : map excel_cell_value (repeat XNone k) = repeat [] k.
Proof. induction k as [|k IH]; [reflexivity|]. cbn [repeat map excel_cell_value]. f_equal. exact IH. Qed.
Lemma map_pad_row w (r : list text) :
  map excel_cell_value (pad_row XNone w (map XStr r)) = pad_row [] w r.
Proof.
  unfold pad_row. rewrite map_app, map_length. f_equal.
  - rewrite map_map. cbn [excel_cell_value]. apply map_id.
  - apply map_repeat_none.
Qed.
Lemma trim_rows_id (s : sheet) : Forall (fun r => r <> []) s -> trim_rows s = s.
Proof.
  induction s as [|r s IH]; intros H; [reflexivity|]. inversion H as [|? ? H1 H2]; subst.
  cbn [trim_rows]. rewrite IH by exact H2. destruct s; [destruct r; [congruence|reflexivity]|reflexivity].
Qed.
Lemma ncols_rect (s : sheet) w : s <> [] -> Forall (fun r => length r = w) s -> ncols s = w.
Proof.
  induction s as [|r s IH]; intros Hne H; [congruence|]. inversion H as [|? ? H1 H2]; subst. cbn [ncols fold_right].
  destruct s as [|r2 s]; [cbn; apply Nat.max_0_r|]. fold (ncols (r2 :: s)). rewrite IH by (congruence || assumption). apply Nat.max_id.
Qed.

(* a rectangular table of texts written with the xlsx row writer reads back identically *)
Theorem xlsx_roundtrip_rect (t : list (list text)) w : (0 < w)%nat -> Forall (fun r => length r = w) t ->
  excel_rows (xlsx_written t) 1 = Some t.
Proof.
  intros Hw H. unfold excel_rows, xlsx_written. cbn [Nat.sub nth_error]. f_equal.
  destruct t as [|r0 t0] eqn:Et; [reflexivity|]. rewrite <- Et in *. assert (t <> []) as Hne by (rewrite Et; discriminate). clear Et.
  assert (Forall (fun r : list xcell => length r = w) (map (map XStr) t)) as Hl.
  { apply Forall_forall. intros r Hin. apply in_map_iff in Hin as [r1 [<- Hr1]]. rewrite map_length.
    rewrite Forall_forall in H. apply H. exact Hr1. }
  unfold grid. rewrite trim_rows_id.
  - rewrite (ncols_rect _ w); [|destruct t; [congruence|cbn; discriminate]|exact Hl].
    rewrite map_map, map_map. rewrite <- (map_id t) at 2. apply map_ext_in. intros r Hr.
    rewrite map_pad_row. unfold pad_row. rewrite Forall_forall in H. pose proof (H r Hr) as E. unfold text in *. rewrite E, Nat.sub_diag. apply app_nil_r.
  - apply Forall_forall. intros r Hin. rewrite Forall_forall in Hl. specialize (Hl r Hin). destruct r; [cbn in Hl; lia|discriminate].
Qed.

(* any table - ragged rows, rows without cells - written with the xlsx row writer reads back padded to its widest row and
   without trailing rows that have no cells: all a spreadsheet can keep of it *)
Lemma ncols_map {A B} (f : A -> B) (t : list (list A)) : ncols (map (map f) t) = ncols t.
Proof. induction t as [|r t IH]; [reflexivity|]. unfold ncols in *. cbn [map fold_right]. rewrite map_length, IH. reflexivity. Qed.
Lemma trim_rows_map {A B} (f : A -> B) (t : list (list A)) : trim_rows (map (map f) t) = map (map f) (trim_rows t).
Proof.
  induction t as [|r t IH]; [reflexivity|]. cbn [map trim_rows]. rewrite IH.
  destruct (trim_rows t) as [|x xs]; cbn [map]; [destruct r; reflexivity|reflexivity].
Qed.
Theorem xlsx_roundtrip_general (t : list (list text)) :
  excel_rows (xlsx_written t) 1 = Some (map (pad_row [] (ncols t)) (trim_rows t)).
Proof.
  unfold excel_rows, xlsx_written. cbn [Nat.sub nth_error]. f_equal. unfold grid.
  rewrite ncols_map, trim_rows_map, !map_map. apply map_ext. intros r. apply map_pad_row.
Qed.
