(* C01: the token loop of Range.__init__ maps every description of the documented grammar to its denotation.
   A description is taken at the token level: each limit is one NAME / NUMBER / STRING token with whatever spelling
   (decimal, hex, quoted character, symbolic name) the code_for_* functions evaluate, optionally a NUMBER behind '-';
   the separator is any of the ellipsis spellings; items are separated by commas. *)
From Coq Require Import Lia.
From CP Require Import Model.Base Generated.Consts Model.Ranges Model.Lex Model.RangeParse Proofs.BaseProofs.
Local Open Scope Z_scope.

(* ---------- the grammar at token level *)
Definition comma_tok : token := T KOp [44%N].
Definition minus_tok : token := T KOp [45%N].
Definition eof_tok : token := T KEnd [].
(* the value a limit token stands for *)
Definition code_of (t : token) : code_res :=
  match tk t with
  | KName => code_for_symbolic (tt t) | KNumber => code_for_number (tt t) | KString => code_for_string (tt t)
  | _ => CInterface
  end.
Definition is_limit_kind (t : token) : bool := match tk t with KName | KNumber | KString => true | _ => false end.
(* a separator token: the ellipsis character or the colon, in a token that is no limit *)
Definition is_sep (t : token) : bool :=
  negb (is_limit_kind t) && negb (is_eof t) && negb (is_comma t)
  && (text_eqb (tt t) [ELLIPSIS] || text_eqb (tt t) [58%N]) && negb (tkind_eqb (tk t) KOp && text_eqb (tt t) [45%N]).

(* a limit as it is written: a token, or a NUMBER token behind a minus sign *)
Inductive lim := LPlain (t : token) | LMinus (t : token).
Definition lim_tokens (l : lim) : list token := match l with LPlain t => [t] | LMinus t => [minus_tok; t] end.
Definition lim_value (l : lim) : option Z :=
  match l with
  | LPlain t => if is_limit_kind t then match code_of t with COk v => Some v | _ => None end else None
  | LMinus t => match tk t with KNumber => match code_of t with COk v => Some (- v) | _ => None end | _ => None end
  end.

Inductive gitem :=
| GSingle (l : lim) | GClosed (l1 : lim) (sep : token) (l2 : lim) | GFrom (l : lim) (sep : token) | GUpTo (sep : token) (l : lim).
Definition gitem_tokens (g : gitem) : list token :=
  match g with
  | GSingle l => lim_tokens l
  | GClosed l1 s l2 => lim_tokens l1 ++ s :: lim_tokens l2
  | GFrom l s => lim_tokens l ++ [s]
  | GUpTo s l => s :: lim_tokens l
  end.
(* what the item denotes; None = not well formed (a limit without value, a separator that is none, lower > upper) *)
Definition gitem_den (g : gitem) : option item :=
  match g with
  | GSingle l => match lim_value l with Some v => Some (Some v, Some v) | None => None end
  | GClosed l1 s l2 => if is_sep s then match lim_value l1, lim_value l2 with
                                        | Some a, Some b => if b <? a then None else Some (Some a, Some b) | _, _ => None end
                       else None
  | GFrom l s => if is_sep s then match lim_value l with Some a => Some (Some a, None) | None => None end else None
  | GUpTo s l => if is_sep s then match lim_value l with Some b => Some (None, Some b) | None => None end else None
  end.
Fixpoint desc_tokens (d : list gitem) : list token :=
  match d with
  | [] => [eof_tok]
  | [g] => gitem_tokens g ++ [eof_tok]
  | g :: rest => gitem_tokens g ++ comma_tok :: desc_tokens rest
  end.

(* ---------- feeding the tokens of a limit / a separator *)
Lemma limit_not_end t : is_limit_kind t = true -> is_eof t || is_comma t = false.
Proof. unfold is_limit_kind, is_eof, is_comma. destruct (tk t); cbn; intros H; try discriminate; reflexivity. Qed.
Lemma minus_not_end : is_eof minus_tok || is_comma minus_tok = false.
Proof. reflexivity. Qed.
Lemma sep_not_end s : is_sep s = true -> is_eof s || is_comma s = false.
Proof.
  unfold is_sep. intros H. repeat (apply andb_true_iff in H as [H ?]). apply orb_false_iff.
  split; apply negb_true_iff; assumption.
Qed.

Lemma feed_plain st t v : is_limit_kind t = true -> code_of t = COk v -> hyp st = false ->
  feed_token st t = set_limit st v false \/ feed_token st t = set_limit st v true.
Proof.
  unfold is_limit_kind, code_of, feed_token. intros Hk Hc Hh. destruct (tk t); try discriminate; rewrite Hc.
  - left. reflexivity.
  - right. rewrite Hh. reflexivity.
  - left. reflexivity.
Qed.
Lemma set_limit_hyp_false st v b : hyp st = false -> set_limit st v b = set_limit st v false.
Proof. intros H. unfold set_limit. rewrite H. destruct b; reflexivity. Qed.

Lemma feed_minus st : hyp st = false -> feed_token st minus_tok = FdNext {| lo := lo st; hi := hi st; ell := ell st; hyp := true |}.
Proof. intros H. unfold feed_token, minus_tok. cbn [tk tt T]. rewrite H. reflexivity. Qed.
Lemma feed_number_after_minus st t v : tk t = KNumber -> code_of t = COk v -> hyp st = true ->
  feed_token st t = set_limit st (- v) true.
Proof. unfold code_of, feed_token. intros Hk Hc Hh. rewrite Hk in *. rewrite Hc, Hh. reflexivity. Qed.
Lemma feed_sep st s : is_sep s = true -> hyp st = false ->
  feed_token st s = FdNext {| lo := lo st; hi := hi st; ell := true; hyp := false |}.
Proof.
  unfold is_sep, feed_token, is_limit_kind. intros H Hh.
  repeat (apply andb_true_iff in H as [H ?]).
  destruct (tk s) eqn:K; try discriminate; rewrite Hh;
    match goal with H1 : negb (_ && _) = true |- _ => apply negb_true_iff in H1; try rewrite K in H1; cbn [tkind_eqb andb] in H1 end;
    try (match goal with H1 : text_eqb (tt s) [45%N] = false |- _ => cbn [tkind_eqb andb]; rewrite H1 end);
    cbn [tkind_eqb andb];
    match goal with H2 : _ || _ = true |- _ => rewrite H2 end; reflexivity.
Qed.

(* parse_items over the tokens of a limit: the state gets the value *)
Lemma parse_lim l v st rest items : lim_value l = Some v -> hyp st = false ->
  parse_items (lim_tokens l ++ rest) st items =
  match set_limit st v false with
  | FdNext st' => parse_items rest st' items
  | FdInterface => PInterface | FdLeak => PLeak | FdOut => POutOfDomain
  end.
Proof.
  intros Hv Hh. destruct l as [t|t]; cbn [lim_tokens lim_value app] in *.
  - destruct (is_limit_kind t) eqn:K; [|discriminate]. destruct (code_of t) as [z| | |] eqn:C; try discriminate. injection Hv as <-.
    cbn [parse_items]. rewrite (limit_not_end t K).
    destruct (feed_plain st t z K C Hh) as [-> | ->]; [|rewrite (set_limit_hyp_false st z true Hh)];
      destruct (set_limit st z false); reflexivity.
  - destruct (tk t) eqn:K; try discriminate. destruct (code_of t) as [z| | |] eqn:C; try discriminate. injection Hv as <-.
    cbn [parse_items]. rewrite minus_not_end, (feed_minus st Hh).
    assert (is_limit_kind t = true) as Kl by (unfold is_limit_kind; rewrite K; reflexivity).
    rewrite (limit_not_end t Kl).
    rewrite (feed_number_after_minus {| lo := lo st; hi := hi st; ell := ell st; hyp := true |} t z K C (eq_refl : hyp {| lo := lo st; hi := hi st; ell := ell st; hyp := true |} = true)).
    unfold set_limit. cbn [ell hi lo hyp]. rewrite Hh. destruct (ell st); [destruct (hi st)|destruct (lo st)]; reflexivity.
Qed.
Lemma parse_sep s st rest items : is_sep s = true -> hyp st = false ->
  parse_items (s :: rest) st items = parse_items rest {| lo := lo st; hi := hi st; ell := true; hyp := false |} items.
Proof. intros Hs Hh. cbn [parse_items]. rewrite (sep_not_end s Hs), (feed_sep st s Hs Hh). reflexivity. Qed.

(* ---------- one item: the state in which its terminator (comma or end) finds the loop *)
Definition state_of (it : item) (is_single : bool) : istate :=
  {| lo := fst it; hi := (if is_single then None else snd it); ell := negb is_single; hyp := false |}.
Lemma parse_gitem g it rest items : gitem_den g = Some it ->
  exists st, parse_items (gitem_tokens g ++ rest) istate0 items = parse_items rest st items
             /\ decide_item st = IItem it /\ hyp st = false.
Proof.
  intros H. destruct g as [l|l1 s l2|l s|s l]; cbn [gitem_den gitem_tokens] in *.
  - destruct (lim_value l) as [v|] eqn:V; [|discriminate]. injection H as <-.
    rewrite (parse_lim l v istate0 rest items V eq_refl). cbn. eexists. split; [reflexivity|]. split; reflexivity.
  - destruct (is_sep s) eqn:S; [|discriminate]. destruct (lim_value l1) as [a|] eqn:V1; [|discriminate].
    destruct (lim_value l2) as [b|] eqn:V2; [|discriminate]. destruct (b <? a) eqn:Lt; [discriminate|]. injection H as <-.
    rewrite <- app_assoc. rewrite (parse_lim l1 a istate0 _ items V1 eq_refl). cbn [set_limit istate0 ell lo hi hyp].
    cbn [app]. rewrite (parse_sep s) by (exact S || reflexivity). cbn [lo hi].
    rewrite (parse_lim l2 b) by (exact V2 || reflexivity). cbn [set_limit ell hi lo hyp].
    eexists. split; [reflexivity|]. split; [|reflexivity]. unfold decide_item. cbn [hyp lo hi ell]. rewrite Lt. reflexivity.
  - destruct (is_sep s) eqn:S; [|discriminate]. destruct (lim_value l) as [a|] eqn:V; [|discriminate]. injection H as <-.
    rewrite <- app_assoc. rewrite (parse_lim l a istate0 _ items V eq_refl). cbn [set_limit istate0 ell lo hi hyp].
    cbn [app]. rewrite (parse_sep s) by (exact S || reflexivity). cbn [lo hi].
    eexists. split; [reflexivity|]. split; reflexivity.
  - destruct (is_sep s) eqn:S; [|discriminate]. destruct (lim_value l) as [b|] eqn:V; [|discriminate]. injection H as <-.
    cbn [app]. rewrite (parse_sep s) by (exact S || reflexivity). cbn [lo hi istate0].
    rewrite (parse_lim l b) by (exact V || reflexivity). cbn [set_limit ell hi lo hyp].
    eexists. split; [reflexivity|]. split; reflexivity.
Qed.

(* ---------- the whole description *)
(* the overlap rule of the code: no earlier item contains an end point of a later one *)
Fixpoint no_overlap (earlier : list item) (its : list item) : Prop :=
  match its with
  | [] => True
  | it :: rest => existsb (fun old => items_overlap old it) earlier = false /\ no_overlap (earlier ++ [it]) rest
  end.

Lemma parse_desc d : forall its earlier, d <> [] -> map gitem_den d = map Some its -> no_overlap earlier its ->
  parse_items (desc_tokens d) istate0 earlier = POk (Some (earlier ++ its)).
Proof.
  induction d as [|g d IH]; intros its earlier Hne Hd Hov; [congruence|].
  destruct its as [|it its]; [discriminate|]. cbn [map] in Hd. injection Hd as Hg Hd. cbn [no_overlap] in Hov. destruct Hov as [Ho Hov].
  destruct d as [|g2 d'].
  - destruct its; [|discriminate]. cbn [desc_tokens].
    destruct (parse_gitem g it [eof_tok] earlier Hg) as [st [-> [Hdec _]]].
    cbn [parse_items]. change (is_eof eof_tok || is_comma eof_tok) with true. cbv iota. rewrite Hdec, Ho.
    change (is_eof eof_tok) with true. cbv iota. reflexivity.
  - change (desc_tokens (g :: g2 :: d')) with (gitem_tokens g ++ comma_tok :: desc_tokens (g2 :: d')).
    destruct (parse_gitem g it (comma_tok :: desc_tokens (g2 :: d')) earlier Hg) as [st [-> [Hdec _]]].
    cbn [parse_items]. change (is_eof comma_tok || is_comma comma_tok) with true. cbv iota. rewrite Hdec, Ho.
    change (is_eof comma_tok) with false. cbv iota.
    rewrite (IH its (earlier ++ [it])); [|discriminate|exact Hd|exact Hov]. rewrite <- app_assoc. reflexivity.
Qed.

Theorem token_loop_denotes d its : d <> [] -> map gitem_den d = map Some its -> no_overlap [] its ->
  parse_items (desc_tokens d) istate0 [] = POk (Some its).
Proof. intros. rewrite (parse_desc d its []); auto. Qed.

(* ... and the two semantic refusals: a closed item whose upper limit is below its lower limit, an overlapping item *)
Theorem token_loop_refuses_reversed l1 s l2 a b rest items : is_sep s = true -> lim_value l1 = Some a -> lim_value l2 = Some b -> b < a ->
  parse_items (gitem_tokens (GClosed l1 s l2) ++ eof_tok :: rest) istate0 items = PInterface.
Proof.
  intros S V1 V2 Lt. cbn [gitem_tokens]. rewrite <- app_assoc. rewrite (parse_lim l1 a istate0 _ items V1 eq_refl).
  cbn [set_limit istate0 ell lo hi hyp]. cbn [app]. rewrite (parse_sep s) by (exact S || reflexivity). cbn [lo hi].
  rewrite (parse_lim l2 b) by (exact V2 || reflexivity). cbn [set_limit ell hi lo hyp].
  cbn [parse_items]. change (is_eof eof_tok || is_comma eof_tok) with true. cbv iota.
  unfold decide_item. cbn [hyp lo hi ell]. assert (b <? a = true) as -> by lia. reflexivity.
Qed.
