From Coq Require Import String Lia.
From CP Require Import Model.Base Generated.Consts Generated.FormatTable Model.Ranges Model.Lex Model.RangeParse
  Model.DataFormat Proofs.BaseProofs.
Local Open Scope Z_scope.

(* the names set_property knows how to set *)
Definition settable : list text :=
  [KEY_ENCODING; KEY_HEADER; KEY_SHEET; KEY_ALLOWED_CHARACTERS; KEY_DECIMAL_SEPARATOR; KEY_ESCAPE_CHARACTER;
   KEY_QUOTE_CHARACTER; KEY_THOUSANDS_SEPARATOR; KEY_ITEM_DELIMITER; KEY_LINE_DELIMITER; KEY_QUOTING; KEY_SKIP_INITIAL_SPACE].

Ltac name_case n K :=
  destruct (text_eqb n K) eqn:?E;
  [apply text_eqb_eq in E; subst; split; [unfold settable; cbn; tauto|assumption]|].

(* anything but a refusal means: the (blank-normalised) name is one of the settable names and the format defines it *)
Lemma set_property_not_refused d name value known :
  set_property d name value known <> SetInterface ->
  In (replace_blanks name) settable /\ get_attr (df_attrs d) (replace_blanks name) <> None.
Proof.
  unfold set_property. set (n := replace_blanks name).
  destruct (get_attr (df_attrs d) n) as [a|] eqn:G; [|intros H; contradiction].
  assert (G' : Some a <> None) by discriminate. revert G'. generalize (Some a). intros oa G' H.
  destruct (text_eqb n KEY_FORMAT || text_eqb n (txt "is_valid")); [contradiction|].
  destruct (text_eqb n KEY_ENCODING) eqn:E1; [apply text_eqb_eq in E1; rewrite E1; split; [cbn; tauto|assumption]|].
  destruct (text_eqb n KEY_HEADER) eqn:E2; [apply text_eqb_eq in E2; rewrite E2; split; [cbn; tauto|assumption]|].
  destruct (text_eqb n KEY_SHEET) eqn:E3; [apply text_eqb_eq in E3; rewrite E3; split; [cbn; tauto|assumption]|].
  destruct (text_eqb n KEY_ALLOWED_CHARACTERS) eqn:E4; [apply text_eqb_eq in E4; rewrite E4; split; [cbn; tauto|assumption]|].
  destruct (text_eqb n KEY_DECIMAL_SEPARATOR) eqn:E5; [apply text_eqb_eq in E5; rewrite E5; split; [cbn; tauto|assumption]|].
  destruct (text_eqb n KEY_ESCAPE_CHARACTER) eqn:E6; [apply text_eqb_eq in E6; rewrite E6; split; [cbn; tauto|assumption]|].
  destruct (text_eqb n KEY_QUOTE_CHARACTER) eqn:E7; [apply text_eqb_eq in E7; rewrite E7; split; [cbn; tauto|assumption]|].
  destruct (text_eqb n KEY_THOUSANDS_SEPARATOR) eqn:E8; [apply text_eqb_eq in E8; rewrite E8; split; [cbn; tauto|assumption]|].
  destruct (text_eqb n KEY_ITEM_DELIMITER) eqn:E9; [apply text_eqb_eq in E9; rewrite E9; split; [cbn; tauto|assumption]|].
  destruct (text_eqb n KEY_LINE_DELIMITER) eqn:E10; [apply text_eqb_eq in E10; rewrite E10; split; [cbn; tauto|assumption]|].
  destruct (text_eqb n KEY_QUOTING) eqn:E11; [apply text_eqb_eq in E11; rewrite E11; split; [cbn; tauto|assumption]|].
  destruct (text_eqb n KEY_SKIP_INITIAL_SPACE) eqn:E12; [apply text_eqb_eq in E12; rewrite E12; split; [cbn; tauto|assumption]|].
  contradiction.
Qed.

(* which settable names each format defines (computed from the attribute table translated from DataFormat.__init__) *)
Definition defined_settable (fmt : text) : list text :=
  match new_format fmt with
  | Some d => filter (fun n => match get_attr (df_attrs d) n with Some _ => true | None => false end) settable
  | None => []
  end.

Lemma not_applicable_refused fmt d name value known :
  new_format fmt = Some d -> ~ In (replace_blanks name) (defined_settable fmt) ->
  set_property d name value known = SetInterface.
Proof.
  intros Hd Hn. destruct (set_property d name value known) eqn:E; try reflexivity;
  (exfalso; apply Hn; unfold defined_settable; rewrite Hd; apply filter_In;
   destruct (set_property_not_refused d name value known ltac:(rewrite E; discriminate)) as [A B];
   split; [exact A|]; destruct (get_attr (df_attrs d) (replace_blanks name)); [reflexivity|contradiction]).
Qed.

(* Header: non-negative, Sheet: positive integer literals *)
Lemma header_iff d value known : py_int_domain value = true -> get_attr (df_attrs d) KEY_HEADER <> None ->
  (exists d', set_property d KEY_HEADER value known = SetOk d') <-> exists z, py_int value = Some z /\ 0 <= z.
Proof.
  intros Hdom Hg. unfold set_property. change (replace_blanks KEY_HEADER) with KEY_HEADER.
  destruct (get_attr (df_attrs d) KEY_HEADER); [|contradiction].
  change (text_eqb KEY_HEADER KEY_FORMAT || text_eqb KEY_HEADER (txt "is_valid")) with false.
  change (text_eqb KEY_HEADER KEY_ENCODING) with false. change (text_eqb KEY_HEADER KEY_HEADER) with true.
  cbv iota. rewrite Hdom. cbn [negb]. destruct (py_int value) as [z|].
  - destruct (Z.ltb_spec z 0); split.
    + intros [d' H']. discriminate.
    + intros [z' [H' Hz]]. injection H' as <-. lia.
    + intros _. exists z. split; [reflexivity|lia].
    + intros _. eexists. reflexivity.
  - split; [intros [d' H']; discriminate|intros [z [H' _]]; discriminate].
Qed.

Lemma sheet_iff d value known : py_int_domain value = true -> get_attr (df_attrs d) KEY_SHEET <> None ->
  (exists d', set_property d KEY_SHEET value known = SetOk d') <-> exists z, py_int value = Some z /\ 1 <= z.
Proof.
  intros Hdom Hg. unfold set_property. change (replace_blanks KEY_SHEET) with KEY_SHEET.
  destruct (get_attr (df_attrs d) KEY_SHEET); [|contradiction].
  change (text_eqb KEY_SHEET KEY_FORMAT || text_eqb KEY_SHEET (txt "is_valid")) with false.
  change (text_eqb KEY_SHEET KEY_ENCODING) with false. change (text_eqb KEY_SHEET KEY_HEADER) with false.
  change (text_eqb KEY_SHEET KEY_SHEET) with true.
  cbv iota. rewrite Hdom. cbn [negb]. destruct (py_int value) as [z|].
  - destruct (Z.ltb_spec z 1); split.
    + intros [d' H']. discriminate.
    + intros [z' [H' Hz]]. injection H' as <-. lia.
    + intros _. exists z. split; [reflexivity|lia].
    + intros _. eexists. reflexivity.
  - split; [intros [d' H']; discriminate|intros [z [H' _]]; discriminate].
Qed.

(* validate(): exactly the listed contradictions are refused *)
Lemma atom_esc_ld e (ld : option text) :
  (match ld with Some _ => true | None => false end &&
   match ld with Some (y0 :: b') => (e =? y0)%N && match b' with [] => true | _ :: _ => false end | _ => false end) = false
  <-> (ld <> None -> Some [e] <> ld).
Proof.
  destruct ld as [[|y [|y2 r]]|]; cbn.
  - split; [intros _ _; discriminate|reflexivity].
  - destruct (N.eqb_spec e y) as [->|Hne]; cbn; split; try discriminate; try reflexivity.
    + intros H. exfalso. apply H; [discriminate|reflexivity].
    + intros _ _ H. injection H as H. contradiction.
  - rewrite andb_false_r. split; [intros _ _; discriminate|reflexivity].
  - split; [intros _ H; contradiction|reflexivity].
Qed.
Lemma atom_dl_ld dl (ld : option text) :
  match ld with Some (y0 :: b') => (dl =? y0)%N && match b' with [] => true | _ :: _ => false end | _ => false end = false
  <-> Some [dl] <> ld.
Proof.
  destruct ld as [[|y [|y2 r]]|]; cbn.
  - split; [intros _; discriminate|reflexivity].
  - destruct (N.eqb_spec dl y) as [->|Hne]; cbn; split; try discriminate; try reflexivity.
    + intros H. exfalso. apply H. reflexivity.
    + intros _ H. injection H as H. contradiction.
  - rewrite andb_false_r. split; [intros _; discriminate|reflexivity].
  - split; [intros _; discriminate|reflexivity].
Qed.
Lemma atom_ld_q q (ld : option text) : option_eqb text_eqb ld (Some [q]) = false <-> ld <> Some [q].
Proof.
  destruct ld as [t|]; cbn.
  - destruct (text_eqb t [q]) eqn:E; [apply text_eqb_eq in E|apply text_eqb_neq in E]; split; try discriminate; try reflexivity.
    + intros H. exfalso. apply H. subst. reflexivity.
    + intros _ H. injection H as H. contradiction.
  - split; [intros _; discriminate|reflexivity].
Qed.
Lemma atom_neq a b : ((a =? b)%N && true) = false <-> a <> b.
Proof. rewrite andb_true_r. apply N.eqb_neq. Qed.

Lemma contradictions_iff_lemma dl q e ld ds ts :
  validate_ok FORMAT_DELIMITED (delimited_attrs dl q e ld ds ts) = true <->
  (ds <> ts /\ (ld <> None -> Some [e] <> ld) /\ e <> dl /\ Some [dl] <> ld /\ dl <> q /\ ld <> Some [q] /\ dl <> LF /\ dl <> CR).
Proof.
  unfold validate_ok. unfold distinct_pairs, refused_item_delimiters. cbn.
  rewrite andb_true_iff, !negb_true_iff, !orb_false_iff.
  rewrite atom_esc_ld, atom_dl_ld, atom_ld_q, !atom_neq, text_eqb_neq. unfold LF, CR. tauto.
Qed.

(* the two further pairs the source lists (escape character / line delimiter, line delimiter / quote character) can never
   fire: their value sets are disjoint *)
Lemma never_fire_lemma q e ld :
  In [q] VALID_QUOTE_CHARACTERS -> In [e] VALID_ESCAPE_CHARACTERS ->
  In ld (map snd LINE_DELIMITER_TEXTS) -> Some [e] <> ld /\ ld <> Some [q].
Proof.
  intros Hq He Hl. unfold LINE_DELIMITER_TEXTS in Hl. cbn in Hl.
  unfold VALID_ESCAPE_CHARACTERS in He. cbn in He. unfold VALID_QUOTE_CHARACTERS in Hq. cbn in Hq.
  assert (Hnq : q <> 10%N /\ q <> 13%N /\ q <> 97%N).
  { repeat (destruct Hq as [Hq|Hq]; [injection Hq as <-; repeat split; discriminate|]). contradiction. }
  assert (Hne : e <> 10%N /\ e <> 13%N /\ e <> 97%N).
  { repeat (destruct He as [He|He]; [injection He as <-; repeat split; discriminate|]). contradiction. }
  repeat (destruct Hl as [<-|Hl]; [split; intros H; try discriminate H; try (injection H as H; intuition congruence)|]). contradiction.
Qed.
