(* C13, the other direction: every well-formed fixed-width file is read back as exactly the rows it holds. *)
From Coq Require Import Lia.
From CP Require Import Model.Base Model.Fixed Spec.FixedSpec Proofs.FixedProofs.

Lemma firstn_app_exact {A} (a b : list A) : firstn (length a) (a ++ b) = a.
Proof. rewrite firstn_app, Nat.sub_diag, firstn_all. cbn. apply app_nil_r. Qed.
Lemma skipn_app_exact {A} (a b : list A) : skipn (length a) (a ++ b) = b.
Proof. rewrite skipn_app, Nat.sub_diag, skipn_all. reflexivity. Qed.

Lemma read_rest_complete items : forall rest acc,
  read_rest (map (@length N) items) (concat items ++ rest) acc = RwOk (acc ++ items) rest.
Proof.
  induction items as [|it items IH]; intros rest acc; cbn [map concat read_rest app].
  - rewrite app_nil_r. reflexivity.
  - cbv zeta. rewrite <- app_assoc. rewrite firstn_app_exact, skipn_app_exact, Nat.eqb_refl.
    rewrite IH. rewrite <- app_assoc. reflexivity.
Qed.

(* a row whose items have the declared widths is read as that row, also when its first character was pushed back *)
Lemma read_row_complete ws r pb s rest : row_ok ws r -> Forall (fun w => 1 <= w) ws -> ws <> [] ->
  eff pb s = concat r ++ rest -> read_row ws pb s = RwOk r rest.
Proof.
  intros Hr Hw Hne He. unfold row_ok in Hr. destruct r as [|it items]; [cbn in Hr; congruence|].
  cbn [map] in Hr. subst ws. inversion Hw as [|? ? H1 H2]; subst. cbn [read_row concat] in *.
  destruct it as [|c it']; [cbn in H1; lia|].
  assert (take_item pb (length (c :: it')) s = (c :: it', concat items ++ rest)) as ->.
  { destruct pb as [p|]; cbn [eff take_item] in *.
    - cbn [app] in He. rewrite <- app_assoc in He. cbn [app] in He. injection He as -> ->.
      match goal with |- context [length ?l - 1] => replace (length l - 1) with (length it') by (cbn [length]; lia) end.
      rewrite firstn_app_exact, skipn_app_exact. reflexivity.
    - rewrite He. rewrite <- app_assoc. rewrite firstn_app_exact, skipn_app_exact. reflexivity. }
  rewrite Nat.eqb_refl. rewrite read_rest_complete. reflexivity.
Qed.

Lemma read_row_eof ws : read_row ws None [] = RwEof.
Proof. destruct ws as [|w ws]; [reflexivity|]. cbn [read_row take_item]. rewrite firstn_nil. reflexivity. Qed.

Lemma concat_row_nonempty ws r : row_ok ws r -> Forall (fun w => 1 <= w) ws -> ws <> [] -> concat r <> [].
Proof.
  intros Hr Hw Hne. unfold row_ok in Hr. destruct r as [|it items]; [cbn in Hr; congruence|].
  cbn [map] in Hr. subst ws. inversion Hw; subst. destruct it; [cbn in *; lia|]. cbn. discriminate.
Qed.

(* what follows a record: nothing, or a permitted delimiter and then the next record *)
Definition first_not_lf (rd : list (row * text)) : Prop :=
  match rd with (r2, _) :: _ => match concat r2 with c :: _ => c <> LF | [] => True end | [] => True end.

Lemma skip_delim_last d x : permitted d x \/ x = [] ->
  skip_delim d x = SkEnd \/ skip_delim d x = SkMore None [].
Proof.
  intros [H| ->].
  - destruct d; cbn in H.
    + subst. right. reflexivity.
    + subst. right. reflexivity.
    + subst. right. reflexivity.
    + subst. right. reflexivity.
    + destruct H as [-> | [-> | ->]]; cbn; auto.
  - destruct d; cbn; auto.
Qed.
Lemma skip_delim_more d x c rest : permitted d x -> (d = LdAny -> x = [CR] -> c <> LF) ->
  exists pb s2, skip_delim d (x ++ c :: rest) = SkMore pb s2 /\ eff pb s2 = c :: rest.
Proof.
  intros H G. destruct d; cbn in H.
  - subst. exists None, (c :: rest). split; reflexivity.
  - subst. exists None, (c :: rest). split; reflexivity.
  - subst. exists None, (c :: rest). split; reflexivity.
  - subst. exists None, (c :: rest). split; reflexivity.
  - destruct H as [-> | [-> | ->]].
    + exists None, (c :: rest). split; reflexivity.
    + specialize (G eq_refl eq_refl). cbn. assert (N.eqb c LF = false) as -> by (apply N.eqb_neq; exact G).
      exists (Some c), rest. split; reflexivity.
    + exists None, (c :: rest). split; reflexivity.
Qed.

Lemma loop_complete d ws (Hw : Forall (fun w => 1 <= w) ws) (Hne : ws <> []) :
  forall rd fuel pb s acc, length rd < fuel -> Forall (row_ok ws) (map fst rd) -> delims_ok d rd -> (d = LdAny -> greedy rd) ->
  eff pb s = render rd -> (pb <> None -> rd <> []) ->
  loop fuel d ws pb s acc = Some (acc ++ map fst rd, true).
Proof.
  induction rd as [|[r x] rd IH]; intros fuel pb s acc Hf Hrows Hd Hg He Hpb.
  - destruct fuel; [cbn in Hf; lia|]. cbn [render] in He. destruct pb as [c|]; [exfalso; apply Hpb; [discriminate|reflexivity]|].
    cbn [eff] in He. subst s. cbn [loop]. rewrite read_row_eof. cbn [map]. rewrite app_nil_r. reflexivity.
  - destruct fuel; [cbn in Hf; lia|]. cbn [map fst] in Hrows. inversion Hrows as [|? ? Hr Hrs]; subst.
    cbn [render] in He. cbn [loop].
    rewrite (read_row_complete ws r pb s (x ++ render rd) Hr Hw Hne He).
    destruct rd as [|[r2 x2] rd'].
    + (* the last record *)
      cbn [render]. rewrite app_nil_r. inversion Hd as [|? ? Hx|]; subst.
      destruct (skip_delim_last d x Hx) as [-> | ->].
      * cbn [map fst]. reflexivity.
      * destruct fuel; [cbn in Hf; lia|]. cbn [loop]. rewrite read_row_eof. cbn [map fst]. reflexivity.
    + inversion Hd as [| |? ? ? ? Hx Hd']; subst. cbn [map fst] in Hrs. inversion Hrs as [|? ? Hr2 _]; subst.
      pose proof (concat_row_nonempty ws r2 Hr2 Hw Hne) as Hc.
      cbn [render]. destruct (concat r2) as [|c body] eqn:Ec; [congruence|]. cbn [app].
      assert (G : d = LdAny -> x = [CR] -> c <> LF).
      { intros Ed E. destruct (Hg Ed) as [Hg1 _]. rewrite Ec in Hg1. exact (Hg1 E). }
      destruct (skip_delim_more d x c (body ++ x2 ++ render rd') Hx G) as [pb' [s2 [-> Heff]]].
      rewrite (IH fuel pb' s2 (acc ++ [r])).
      * rewrite <- app_assoc. reflexivity.
      * cbn [length] in *. lia.
      * exact Hrs.
      * exact Hd'.
      * intros Ed. exact (proj2 (Hg Ed)).
      * rewrite Heff. cbn [render]. rewrite Ec. reflexivity.
      * intros _. discriminate.
Qed.

Lemma render_length_ge ws rd : Forall (row_ok ws) (map fst rd) -> Forall (fun w => 1 <= w) ws -> ws <> [] -> length rd <= length (render rd).
Proof.
  intros Hr Hw Hne. induction rd as [|[r x] rd IH]; [cbn; lia|].
  cbn [map fst] in Hr. inversion Hr; subst. cbn [render length]. rewrite !app_length.
  pose proof (concat_row_nonempty ws r H1 Hw Hne). destruct (concat r); [congruence|]. cbn [length]. specialize (IH H2). lia.
Qed.

(* every well-formed file is read back complete and aligned, without an error *)
Theorem fixed_complete_lemma d ws rd : Forall (fun w => 1 <= w) ws -> ws <> [] ->
  Forall (row_ok ws) (map fst rd) -> delims_ok d rd -> (d = LdAny -> greedy rd) ->
  fixed_rows d ws (render rd) = Some (map fst rd, true).
Proof.
  intros Hw Hne Hr Hd Hg. unfold fixed_rows.
  rewrite (loop_complete d ws Hw Hne rd (S (length (render rd))) None (render rd) []); [reflexivity| |assumption..| |].
  - pose proof (render_length_ge ws rd Hr Hw Hne). lia.
  - reflexivity.
  - intros H. congruence.
Qed.
