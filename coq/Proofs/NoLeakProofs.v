(* C10: no path of the models ends in "a non-cutplace exception escapes".  The models mirror the code's
   try/except structure and its input dependent assertions, so these are statements about that structure. *)
From Coq Require Import Lia String.
From CP Require Import Model.Base Generated.Consts Generated.ExitCodes Model.Ranges Model.Lex Model.RangeParse Model.Dec Model.DecRange
  Model.DataFormat Model.Fields Model.FieldTypes Model.Cid Model.Validio Model.Cli.
Local Open Scope Z_scope.

Ltac break_goal :=
  repeat match goal with
         | |- context [match ?x with _ => _ end] => destruct x eqn:?
         | |- context [if ?b then _ else _] => destruct b eqn:?
         end.

(* ---------- limits of ranges *)
Lemma code_for_symbolic_no_leak v : code_for_symbolic v <> CLeak.
Proof. unfold code_for_symbolic. break_goal; discriminate. Qed.
Lemma code_for_number_no_leak v : code_for_number v <> CLeak.
Proof. unfold code_for_number. break_goal; discriminate. Qed.
Lemma code_for_string_no_leak v : code_for_string v <> CLeak.
Proof. unfold code_for_string. break_goal; discriminate. Qed.

Lemma set_limit_no_leak s v b : set_limit s v b <> FdLeak.
Proof. unfold set_limit. break_goal; discriminate. Qed.
Lemma feed_token_no_leak s t : feed_token s t <> FdLeak.
Proof.
  unfold feed_token. destruct (tk t).
  - pose proof (code_for_symbolic_no_leak (tt t)). destruct (code_for_symbolic (tt t)); try discriminate; [apply set_limit_no_leak|congruence].
  - pose proof (code_for_number_no_leak (tt t)). destruct (code_for_number (tt t)); try discriminate; [apply set_limit_no_leak|congruence].
  - pose proof (code_for_string_no_leak (tt t)). destruct (code_for_string (tt t)); try discriminate; [apply set_limit_no_leak|congruence].
  - break_goal; discriminate.
  - break_goal; discriminate.
  - break_goal; discriminate.
  - break_goal; discriminate.
  - break_goal; discriminate.
  - break_goal; discriminate.
  - break_goal; discriminate.
Qed.
Lemma parse_items_no_leak ts : forall s items, parse_items ts s items <> PLeak.
Proof.
  induction ts as [|t ts IH]; intros s items; cbn [parse_items]; [discriminate|].
  destruct (is_eof t || is_comma t).
  - destruct (decide_item s); [|destruct (is_eof t); [discriminate|apply IH]|discriminate].
    destruct (existsb _ items); [discriminate|]. destruct (is_eof t); [discriminate|apply IH].
  - pose proof (feed_token_no_leak s t). destruct (feed_token s t); try discriminate; [apply IH|congruence].
Qed.
Theorem range_of_text_no_leak d : range_of_text d <> PLeak.
Proof.
  unfold range_of_text. destruct (is_blank_text d); [discriminate|].
  destruct (tokenize_without_space _); [apply parse_items_no_leak|unfold token_error_family; discriminate|discriminate].
Qed.

Lemma dparse_no_leak ts : forall s st items sp, dparse ts s st items sp <> DLeak.
Proof.
  induction ts as [|t ts IH]; intros s st items sp; cbn [dparse]; [discriminate|].
  destruct (is_eof t || is_comma t).
  - destruct (ddecide s); [|destruct (is_eof t); [discriminate|apply IH]|discriminate].
    destruct (existsb _ items); [discriminate|]. destruct (is_eof t); [discriminate|apply IH].
  - destruct (dfeed_token s st t); [apply IH|discriminate].
Qed.
Theorem decrange_of_text_no_leak d : decrange_of_text d <> DLeak.
Proof.
  unfold decrange_of_text. destruct (is_blank_text d); [discriminate|].
  destruct (tokenize_without_space _); [apply dparse_no_leak|unfold token_error_family; discriminate|discriminate].
Qed.
Lemma decrange_with_default_no_leak a b : decrange_with_default a b <> DLeak.
Proof. unfold decrange_with_default. destruct (is_blank_text a); apply decrange_of_text_no_leak. Qed.

(* ---------- data format properties *)
Lemma validated_character_no_leak v : validated_character v <> ChLeak.
Proof.
  assert (forall x, validated_character_tokens x <> ChLeak) as A.
  { intros x. unfold validated_character_tokens. destruct (generated_tokens x) as [[|t rest]| |]; try discriminate.
    destruct (is_eof t); [discriminate|].
    assert (forall c, c <> CLeak -> match c with
            | COk z => match rest with t2 :: _ => if is_eof t2 then if 1114111 <? z then ChInterface else ChOk (Z.to_N z) else ChInterface | [] => ChOutOfDomain end
            | CInterface => ChInterface | CLeak => ChLeak | COutOfDomain => ChOutOfDomain end <> ChLeak) as B.
    { intros c Hc. destruct c; try discriminate; [|congruence]. break_goal; discriminate. }
    apply B. destruct (tk t); try (break_goal; discriminate).
    - apply code_for_symbolic_no_leak.
    - apply code_for_number_no_leak.
    - apply code_for_string_no_leak. }
  unfold validated_character. break_goal; try discriminate; apply A.
Qed.
Theorem set_property_no_leak d n v k : set_property d n v k <> SetLeak.
Proof.
  unfold set_property. destruct (get_attr _ _); [|discriminate].
  pose proof (range_of_text_no_leak v) as R. pose proof (validated_character_no_leak v) as Cc.
  destruct (range_of_text v); destruct (validated_character v); try congruence; break_goal; discriminate.
Qed.

(* ---------- field declarations and hooks *)
Lemma decl_of_pres_no_leak p : p <> PLeak -> decl_of_pres p <> DeclLeak.
Proof. destruct p; cbn; congruence. Qed.
Lemma integer_valid_range_no_leak k lt rule len : integer_valid_range k lt rule len <> DeclLeak.
Proof.
  unfold integer_valid_range.
  pose proof (range_of_text_no_leak rule) as R.
  pose proof (range_of_text_no_leak DEFAULT_INTEGER_RANGE_TEXT) as Rd.
  destruct (range_of_text rule) eqn:E1; destruct (range_of_text DEFAULT_INTEGER_RANGE_TEXT) eqn:E2; try congruence;
    break_goal; cbn [decl_of_pres]; discriminate.
Qed.
Lemma lex_decl_no_leak {A} rule (k : list token -> decl A) : (forall ts, k ts <> DeclLeak) -> lex_decl rule k <> DeclLeak.
Proof. intros H. unfold lex_decl. destruct (tokenize_without_space rule); [apply H|unfold token_error_family; discriminate|discriminate]. Qed.

Lemma choice_loop_no_leak n : forall ts acc, (length ts <= n)%nat -> choice_loop ts acc <> DeclLeak.
Proof.
  induction n as [|n IH]; intros ts acc Hl.
  - destruct ts; [cbn; discriminate|cbn in Hl; lia].
  - destruct ts as [|t ts]; cbn [choice_loop]; [discriminate|].
    destruct (is_eof t); [discriminate|]. destruct (is_comma t); [discriminate|].
    destruct (is_nil_t (token_text t)); [discriminate|].
    destruct ts as [|t2 rest2]; [discriminate|]. destruct (is_eof t2); [discriminate|].
    destruct (negb (is_comma t2)); [discriminate|]. destruct rest2 as [|t3 r3]; [discriminate|].
    destruct (is_eof t3); [discriminate|]. apply IH. cbn [length] in *. lia.
Qed.
Lemma choice_choices_no_leak e rule : choice_choices e rule <> DeclLeak.
Proof.
  unfold choice_choices. apply lex_decl_no_leak. intros ts.
  pose proof (choice_loop_no_leak (length ts) ts [] (le_n _)). destruct (choice_loop ts []); try discriminate; [|congruence].
  break_goal; discriminate.
Qed.
Lemma constant_constant_no_leak e rule len : constant_constant e rule len <> DeclLeak.
Proof. unfold constant_constant. apply lex_decl_no_leak. intros ts. break_goal; discriminate. Qed.
Lemma decimal_valid_range_no_leak rule : decimal_valid_range rule <> DeclLeak.
Proof.
  unfold decimal_valid_range. pose proof (decrange_with_default_no_leak rule DEFAULT_DECIMAL_RANGE_TEXT).
  destruct (decrange_with_default rule DEFAULT_DECIMAL_RANGE_TEXT); try discriminate. congruence.
Qed.

Theorem declare_no_leak d : declare d <> DeclLeak.
Proof.
  unfold declare. destruct (fd_type d).
  - pose proof (range_of_text_no_leak (fd_length d)). destruct (range_of_text (fd_length d)); try discriminate; [|congruence].
    pose proof (integer_valid_range_no_leak (fd_kind d) (fd_length d) (fd_rule d) r). destruct (integer_valid_range _ _ _ r); try discriminate; congruence.
  - pose proof (decimal_valid_range_no_leak (fd_rule d)). destruct (decimal_valid_range (fd_rule d)); try discriminate; [|congruence].
    pose proof (decrange_of_text_no_leak (fd_length d)). destruct (decrange_of_text (fd_length d)); try discriminate; congruence.
  - pose proof (range_of_text_no_leak (fd_length d)). destruct (range_of_text (fd_length d)); try discriminate; [|congruence].
    pose proof (choice_choices_no_leak (fd_empty d) (fd_rule d)). destruct (choice_choices _ _); try discriminate; congruence.
  - pose proof (range_of_text_no_leak (fd_length d)). destruct (range_of_text (fd_length d)); try discriminate; [|congruence].
    pose proof (constant_constant_no_leak (fd_empty d) (fd_rule d) r). destruct (constant_constant _ _ r); try discriminate; congruence.
  - pose proof (range_of_text_no_leak (fd_length d)). destruct (range_of_text (fd_length d)); try discriminate; [|congruence].
    break_goal; discriminate.
  - pose proof (range_of_text_no_leak (fd_length d)). destruct (range_of_text (fd_length d)); try discriminate; [|congruence].
    break_goal; discriminate.
  - pose proof (range_of_text_no_leak (fd_length d)). destruct (range_of_text (fd_length d)); try discriminate; [|congruence].
    break_goal; discriminate.
  - pose proof (range_of_text_no_leak (fd_length d)). destruct (range_of_text (fd_length d)); try discriminate; congruence.
Qed.

(* the type specific validated_value never lets another exception through *)
Lemma decrange_validate_num_some r v : v <> DNan -> decrange_validate_num r v <> None.
Proof. destruct v; cbn; try discriminate. congruence. Qed.
Lemma decimal_hook_no_leak f r cell : decimal_hook f r cell <> HLeak.
Proof.
  unfold decimal_hook. destruct (translate_decimal f cell false) as [t|]; [|discriminate].
  destruct (py_decimal t) as [v| |]; try discriminate. destruct v as [x|neg|]; try discriminate.
  - cbn. destruct (decrange_validate r x); discriminate.
  - cbn. break_goal; discriminate.
Qed.
Lemma datetime_hook_no_leak k rule cell fmt :
  parse_format (S (length (strptime_format rule))) (strptime_format rule) = Some fmt -> has_dup (dirs_of fmt) = false ->
  datetime_hook k rule cell <> HLeak.
Proof.
  intros Hp Hd. unfold datetime_hook. destruct (_ || _); [discriminate|]. cbv zeta. rewrite Hp, Hd.
  destruct (strptime fmt _); discriminate.
Qed.
Lemma datetime_hook_no_leak_unparsed k rule cell :
  parse_format (S (length (strptime_format rule))) (strptime_format rule) = None -> datetime_hook k rule cell <> HLeak.
Proof. intros Hp. unfold datetime_hook. destruct (_ || _); [discriminate|]. cbv zeta. rewrite Hp. discriminate. Qed.

Theorem hooks_no_leak d h cell : declare d = DeclOk h -> h cell <> HLeak.
Proof.
  unfold declare. destruct (fd_type d).
  - destruct (range_of_text (fd_length d)); try discriminate. destruct (integer_valid_range _ _ _ _); try discriminate.
    intros H. injection H as <-. unfold integer_hook. break_goal; discriminate.
  - destruct (decimal_valid_range _); try discriminate. destruct (decrange_of_text _); try discriminate.
    intros H. injection H as <-. apply decimal_hook_no_leak.
  - destruct (range_of_text (fd_length d)); try discriminate. destruct (choice_choices _ _); try discriminate.
    intros H. injection H as <-. unfold choice_hook. break_goal; discriminate.
  - destruct (range_of_text (fd_length d)); try discriminate. destruct (constant_constant _ _ _); try discriminate.
    intros H. injection H as <-. unfold constant_hook. break_goal; discriminate.
  - destruct (range_of_text (fd_length d)); try discriminate. destruct (has_non_ascii_t (fd_rule d)); [discriminate|]. cbv zeta.
    destruct (parse_format _ _) as [fmt|] eqn:Ep.
    + destruct (has_dup (dirs_of fmt)) eqn:Ed; [discriminate|]. intros H. injection H as <-. eapply datetime_hook_no_leak; eassumption.
    + intros H. injection H as <-. apply datetime_hook_no_leak_unparsed. exact Ep.
  - destruct (range_of_text (fd_length d)); try discriminate. destruct (_ && _); [|discriminate].
    intros H. injection H as <-. unfold pattern_hook. break_goal; discriminate.
  - destruct (range_of_text (fd_length d)); try discriminate. destruct (_ && _); [|discriminate].
    intros H. injection H as <-. unfold regex_hook. break_goal; discriminate.
  - destruct (range_of_text (fd_length d)); try discriminate. intros H. injection H as <-. discriminate.
Qed.

(* ---------- reading a CID *)
Lemma add_data_format_row_no_leak e s n v : add_data_format_row e s n v <> RLeak.
Proof.
  unfold add_data_format_row. destruct (is_nil_t n); [discriminate|]. destruct (_ || _); [discriminate|].
  destruct (st_fmt s) as [d|].
  - destruct (text_eqb _ _); [discriminate|].
    pose proof (set_property_no_leak d (lower n) v (existsb (text_eqb v) (e_encodings e))).
    destruct (set_property d (lower n) v _); try discriminate. congruence.
  - break_goal; discriminate.
Qed.

Lemma validated_python_name_no_token_error v : validated_python_name v <> PnTokenError.
Proof. unfold validated_python_name. break_goal; discriminate. Qed.
Lemma type_parts_no_leak parts : type_parts parts <> TyLeak.
Proof.
  induction parts as [|p rest IH]; cbn [type_parts]; [discriminate|].
  pose proof (validated_python_name_no_token_error p). destruct (validated_python_name p); try discriminate; [|congruence].
  destruct (type_parts rest); try discriminate. congruence.
Qed.
Lemma field_type_of_no_leak c : field_type_of c <> TyLeak.
Proof.
  unfold field_type_of. destruct (is_nil_t (strip c)); [discriminate|]. cbv zeta.
  pose proof (type_parts_no_leak (split_on DOT (strip c))). destruct (type_parts _); try discriminate; [|congruence].
  break_goal; discriminate.
Qed.

Lemma add_field_format_row_no_leak e s items : add_field_format_row e s items <> RLeak.
Proof.
  unfold add_field_format_row. destruct (st_fmt s) as [d|]; [|discriminate]. cbv zeta.
  destruct (validated_field_name _) as [name|]; [|discriminate].
  destruct (existsb _ (st_fields s)); [discriminate|]. destruct (has_non_ascii _); [discriminate|].
  destruct (_ && _); [discriminate|].
  pose proof (field_type_of_no_leak (nth 4 items [])) as T. destruct (field_type_of (nth 4 items [])) as [key| | |]; try discriminate; [|congruence].
  destruct (negb _); [discriminate|].
  destruct (ftype_of key (strip (nth 5 items []))) as [ty|] eqn:Ety.
  - set (dd := {| fd_type := ty; fd_kind := kind_of d; fd_df := decfmt_of d; fd_empty := _; fd_length := nth 3 items []; fd_rule := strip (nth 5 items []) |}).
    pose proof (declare_no_leak dd) as D. pose proof (hooks_no_leak dd) as Hk.
    destruct (declare dd) as [h| | |] eqn:Ed; try discriminate; [|congruence].
    pose proof (range_of_text_no_leak (nth 3 items [])) as R. destruct (range_of_text (nth 3 items [])); try discriminate.
    destruct (negb (length_declaration_ok _ _)); [discriminate|]. destruct (is_nil_t (nth 1 items [])); [discriminate|].
    destruct (negb (v_ok _)); [discriminate|]. destruct (v_hook _) as [arg|]; [|discriminate].
    specialize (Hk h arg eq_refl). destruct (h arg); try discriminate. congruence.
  - pose proof (range_of_text_no_leak (nth 3 items [])) as R.
    destruct (_ || _); [|discriminate].
    destruct (range_of_text (nth 3 items [])); try discriminate; [|congruence].
    break_goal; discriminate.
Qed.

Lemma build_check_no_leak t r names : build_check t r names <> CkLeak.
Proof. unfold build_check. break_goal; discriminate. Qed.
Lemma add_check_row_no_leak e s items : add_check_row e s items <> RLeak.
Proof.
  unfold add_check_row. cbv zeta. destruct (is_nil_t _); [discriminate|]. destruct (negb _); [discriminate|].
  match goal with |- context [build_check ?a ?b ?c] => pose proof (build_check_no_leak a b c); destruct (build_check a b c) end;
    try discriminate; [|congruence]. break_goal; discriminate.
Qed.

Theorem row_step_no_leak e s row : row_step e s row <> RLeak.
Proof.
  unfold row_step. destruct row as [|c0 cells]; [discriminate|]. destruct (has_non_ascii c0); [discriminate|]. cbv zeta.
  destruct (text_eqb _ ID_DATA_FORMAT); [apply add_data_format_row_no_leak|].
  destruct (text_eqb _ ID_FIELD_RULE); [apply add_field_format_row_no_leak|].
  destruct (text_eqb _ ID_CHECK); [apply add_check_row_no_leak|].
  destruct (is_nil_t _); discriminate.
Qed.

Theorem cid_read_no_leak e rows : cid_read e rows <> CidLeak.
Proof.
  unfold cid_read. generalize cstate0 as s. generalize 0%nat as line.
  induction rows as [|r rows IH]; intros line s; cbn [read_rows].
  - unfold finish. break_goal; discriminate.
  - pose proof (row_step_no_leak e s r). destruct (row_step e s r); try discriminate; [apply IH|congruence].
Qed.

(* ---------- the command line: whatever the CID and the data files are, the exit code is 0, 1, 2 or 3 *)
Theorem exit_code_never_4 args cs files : In (exit_code args cs files) [0; 1; 2; 3].
Proof.
  unfold exit_code. destruct args; cbn [negb]; [|cbn; auto].
  destruct cs.
  - destruct (process_files files true) as [[|]|]; vm_compute; auto.
  - vm_compute; auto.
  - vm_compute; auto.
Qed.
