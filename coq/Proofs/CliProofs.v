From Coq Require Import Lia Permutation.
From CP Require Import Model.Base Model.Ranges Model.Fields Model.Validio Model.Cli Generated.ExitCodes.
Local Open Scope Z_scope.

Definition any_unreadable (fs : list file_status) := existsb (fun f => match f with FileUnreadable => true | _ => false end) fs.
Definition any_rejected (fs : list file_status) := existsb (fun f => match f with FileRejected => true | _ => false end) fs.

Lemma process_files_spec fs : forall ok,
  process_files fs ok = if any_unreadable fs then None else Some (ok && negb (any_rejected fs)).
Proof.
  unfold any_unreadable, any_rejected.
  induction fs as [|f t IH]; intros ok; cbn [process_files existsb].
  - cbn. rewrite andb_true_r. reflexivity.
  - destruct f; cbn [orb].
    + apply IH.
    + rewrite IH. destruct (existsb _ t); [reflexivity|]. cbn. rewrite andb_false_r. reflexivity.
    + reflexivity.
Qed.

Lemma exit_table_lemma usable cs fs :
  exit_code usable cs fs =
  if negb usable then 2
  else match cs with
       | CidUnreadable => 3
       | CidRejected => 1
       | CidOk => if any_unreadable fs then 3 else if any_rejected fs then 1 else 0
       end.
Proof.
  unfold exit_code. destruct usable; cbn [negb]; [|reflexivity].
  destruct cs; try reflexivity.
  rewrite process_files_spec. destruct (any_unreadable fs); [reflexivity|].
  cbn. destruct (any_rejected fs); reflexivity.
Qed.

Lemma existsb_perm {A} (p : A -> bool) l l' : Permutation l l' -> existsb p l = existsb p l'.
Proof.
  induction 1; cbn; auto.
  - rewrite IHPermutation. reflexivity.
  - rewrite !orb_assoc. f_equal. apply orb_comm.
  - congruence.
Qed.

Lemma exit_order_lemma usable cs fs fs' : Permutation fs fs' -> exit_code usable cs fs = exit_code usable cs fs'.
Proof.
  intros P. rewrite !exit_table_lemma. unfold any_unreadable, any_rejected.
  rewrite (existsb_perm _ _ _ P). rewrite (existsb_perm (fun f => match f with FileRejected => true | _ => false end) _ _ P).
  reflexivity.
Qed.

Section Files.
  Context {CS : Type}.
  (* every file is judged as on a freshly loaded CID, whatever its siblings left in the shared checks *)
  Lemma validate_file_fresh (c : cid CS) limit sts sts' f : fst (validate_file c limit sts f) = fst (validate_file c limit sts' f).
  Proof. destruct f; reflexivity. Qed.

  Lemma validate_files_pointwise (c : cid CS) limit fresh : forall fs sts,
    validate_files c limit sts fs = map (fun f => fst (validate_file c limit fresh f)) fs.
  Proof.
    induction fs as [|f t IH]; intros sts; cbn [validate_files map]; [reflexivity|].
    destruct (validate_file c limit sts f) as [st sts'] eqn:E. rewrite IH. f_equal.
    change st with (fst (st, sts')). rewrite <- E. apply validate_file_fresh.
  Qed.
End Files.
