(* errors.Location: the text of a location names row and column 1-based; they can be read back from its end. *)
From Coq Require Import Lia.
From CP Require Import Model.Base Model.Lex Model.FieldTypes Spec.FieldSpec Model.Location Proofs.IntProofs.
Local Open Scope Z_scope.

(* reading "(...R<digits>C<digits>)" back from the end of a text - what a user, or a program scanning a log, does *)
Fixpoint span_digits (s : text) : text * text :=
  match s with
  | c :: r => if is_digit c then let '(d, rest) := span_digits r in (c :: d, rest) else ([], s)
  | [] => ([], [])
  end.
Definition rc_of_text (s : text) : option (Z * Z) :=
  match rev s with
  | c0 :: r0 =>
      if N.eqb c0 RPAR then
        let '(d2, r2) := span_digits r0 in
        match d2, r2 with
        | _ :: _, c1 :: r3 =>
            if N.eqb c1 CH_C then
              let '(d1, r4) := span_digits r3 in
              match d1, r4 with
              | _ :: _, c2 :: _ => if N.eqb c2 CH_R then Some (dval (rev d1) 0, dval (rev d2) 0) else None
              | _, _ => None
              end
            else None
        | _, _ => None
        end
      else None
  | [] => None
  end.

Lemma span_digits_app d c rest : forallb is_digit d = true -> is_digit c = false ->
  span_digits (d ++ c :: rest) = (d, c :: rest).
Proof.
  intros Hd Hc. induction d as [|x d IH]; cbn [app span_digits].
  - rewrite Hc. reflexivity.
  - cbn [forallb] in Hd. apply andb_true_iff in Hd as [Hx Hd]. rewrite Hx, (IH Hd). reflexivity.
Qed.
Lemma forallb_rev {A} (p : A -> bool) l : forallb p (rev l) = forallb p l.
Proof.
  induction l as [|x l IH]; [reflexivity|]. cbn [rev forallb]. rewrite forallb_app, IH. cbn. rewrite andb_true_r. apply andb_comm.
Qed.
Lemma num_spec n : forallb is_digit (num n) = true /\ dval (num n) 0 = Z.of_nat n + 1 /\ num n <> [].
Proof. unfold num. destruct (nat_text_spec (Z.of_nat n + 1) ltac:(lia)) as [A [B [_ D]]]. auto. Qed.

(* for a location in tabular data (cells, no character column) the text ends in R<row>C<column>, both 1-based,
   whatever the path, the sheet and the history of the location object *)
Theorem loc_text_names_row_and_cell (l : location) : lo_has_cell l = true -> lo_has_column l = false ->
  rc_of_text (loc_text l) = Some (Z.of_nat (lo_line l) + 1, Z.of_nat (lo_cell l) + 1).
Proof.
  intros Hc Hk. unfold loc_text. rewrite Hc, Hk.
  destruct (num_spec (lo_line l)) as [L1 [L2 L3]]. destruct (num_spec (lo_cell l)) as [C1 [C2 C3]].
  set (pre := basename (lo_path l) ++ SP :: LPAR :: (if lo_has_sheet l then [83; 104; 101; 101; 116]%N ++ num (lo_sheet l) ++ [BANG] else [])).
  assert (E : basename (lo_path l) ++ SP :: LPAR ::
              ((if lo_has_sheet l then [83; 104; 101; 101; 116]%N ++ num (lo_sheet l) ++ [BANG] else []) ++ CH_R :: num (lo_line l) ++ CH_C :: num (lo_cell l)) ++ [] ++ [RPAR]
              = pre ++ CH_R :: num (lo_line l) ++ CH_C :: num (lo_cell l) ++ [RPAR]).
  { unfold pre. rewrite <- !app_assoc. cbn [app]. rewrite <- !app_assoc. cbn [app]. reflexivity. }
  rewrite E. clear E.
  unfold rc_of_text.
  assert (R : rev (pre ++ CH_R :: num (lo_line l) ++ CH_C :: num (lo_cell l) ++ [RPAR])
              = RPAR :: rev (num (lo_cell l)) ++ CH_C :: rev (num (lo_line l)) ++ CH_R :: rev pre).
  { rewrite rev_app_distr. cbn [rev]. rewrite rev_app_distr. cbn [rev]. rewrite rev_app_distr. cbn [rev app].
    rewrite <- !app_assoc. cbn [app]. reflexivity. }
  rewrite R. rewrite N.eqb_refl.
  rewrite span_digits_app by (rewrite ?forallb_rev; auto).
  destruct (rev (num (lo_cell l))) as [|x xs] eqn:Ex.
  { exfalso. apply C3. rewrite <- (rev_involutive (num (lo_cell l))), Ex. reflexivity. }
  rewrite N.eqb_refl.
  rewrite span_digits_app by (rewrite ?forallb_rev; auto).
  destruct (rev (num (lo_line l))) as [|y ys] eqn:Ey.
  { exfalso. apply L3. rewrite <- (rev_involutive (num (lo_line l))), Ey. reflexivity. }
  rewrite N.eqb_refl. rewrite <- Ex, <- Ey, !rev_involutive, L2, C2. reflexivity.
Qed.

(* the operations keep the counters as the code does: a new line starts at cell 1 again *)
Lemma advance_line_resets_cell l k l' : lstep l (LAdvLine k) = Some l' -> lo_line l' = (lo_line l + k)%nat /\ lo_cell l' = 0%nat /\ (0 < k)%nat.
Proof.
  cbn [lstep]. destruct (Nat.ltb 0 k) eqn:E; [|discriminate]. intros H. injection H as <-. cbn. apply Nat.ltb_lt in E. auto.
Qed.
