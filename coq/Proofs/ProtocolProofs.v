(* C20: the call protocol that drives field hooks and checks. *)
From Coq Require Import Lia.
From CP Require Import Model.Base Model.Ranges Model.Fields Model.Validio Spec.ValidioSpec Proofs.ValidioProofs.

(* ---------- the field hook is called only behind the guards *)
Lemma hook_called_iff fmt f cell x :
  v_hook (validated fmt f cell) = Some x <->
  chars_ok (df_allowed fmt) cell = true /\
  x = (if df_fixed fmt then strip cell else cell) /\ x <> [] /\
  length_ok fmt f cell = true.
Proof.
  unfold validated. destruct (chars_ok (df_allowed fmt) cell); cbn [negb].
  2:{ cbn. split; [discriminate|]. intros [H _]. discriminate. }
  set (v := if df_fixed fmt then strip cell else cell).
  destruct (negb (f_empty_ok f) && is_nil v) eqn:E1.
  { cbn. split; [discriminate|]. intros [_ [-> [Hne _]]]. apply andb_true_iff in E1 as [_ E1].
    destruct v; [congruence|discriminate]. }
  destruct (length_ok fmt f cell); cbn [negb].
  2:{ cbn. split; [discriminate|]. intros [_ [_ [_ H]]]. discriminate. }
  destruct v as [|a v'] eqn:Ev; cbn [is_nil v_hook].
  - split; [discriminate|]. intros [_ [-> [Hne _]]]. congruence.
  - split.
    + intros H. injection H as <-. repeat split; auto. discriminate.
    + intros [_ [-> _]]. reflexivity.
Qed.

Lemma rejected_without_hook_or_by_hook fmt f cell :
  v_ok (validated fmt f cell) = false ->
  v_hook (validated fmt f cell) = None \/ exists x, v_hook (validated fmt f cell) = Some x /\ f_hook f x = false.
Proof.
  unfold validated. destruct (negb (chars_ok _ _)); [auto|].
  destruct (negb (f_empty_ok f) && _); [auto|]. destruct (negb (length_ok _ _ _)); [auto|].
  destruct (is_nil _); cbn; [discriminate|]. intros H. right. eauto.
Qed.

Section P.
  Context {CS : Type}.
  Implicit Types (c : cid CS) (sts : list CS).

  (* ---------- field loop: hooks in column order, never beyond the first rejected cell *)
  Lemma field_event_iff fmt fs : forall i row j x,
    In (EValue j x) (snd (validate_fields fmt fs i row)) <->
    i <= j /\ exists f cell, nth_error fs (j - i) = Some f /\ nth_error row (j - i) = Some cell /\
      v_hook (validated fmt f cell) = Some x /\
      (forall j' f' d', j' < j - i -> nth_error fs j' = Some f' -> nth_error row j' = Some d' -> v_ok (validated fmt f' d') = true).
  Proof.
    induction fs as [|f fs IH]; intros i row j x.
    - cbn. split; [tauto|]. intros [_ [f [cell [H _]]]]. destruct (j - i); discriminate.
    - destruct row as [|cell row].
      + cbn. split; [tauto|]. intros [_ [f' [d' [_ [H _]]]]]. destruct (j - i); discriminate.
      + cbn [validate_fields].
        destruct (v_ok (validated fmt f cell)) eqn:Hok.
        * destruct (validate_fields fmt fs (S i) row) as [b evs] eqn:V. cbn [snd].
          rewrite in_app_iff. specialize (IH (S i) row j x). rewrite V in IH. cbn [snd] in IH. rewrite IH. clear IH.
          split.
          -- intros [H|[Hle [f' [d' [A [B [C D]]]]]]].
             ++ destruct (v_hook (validated fmt f cell)) as [y|] eqn:Hh; [|contradiction].
                destruct H as [H|[]]. injection H as <- <-. split; [lia|]. rewrite Nat.sub_diag.
                exists f, cell. cbn. repeat split; auto. intros j' ? ? Hj. lia.
             ++ split; [lia|]. replace (j - i) with (S (j - S i)) by lia. exists f', d'. cbn. repeat split; auto.
                intros [|j'] f0 d0 Hj Hf Hc; cbn in Hf, Hc; [congruence|]. eapply D; eauto. lia.
          -- intros [Hle [f' [d' [A [B [C D]]]]]]. destruct (Nat.eq_dec j i) as [->|Hne].
             ++ left. rewrite Nat.sub_diag in *. cbn in A, B. injection A as <-. injection B as <-. rewrite C. left. reflexivity.
             ++ right. split; [lia|]. replace (j - i) with (S (j - S i)) in * by lia. cbn in A, B.
                exists f', d'. repeat split; auto. intros j' f0 d0 Hj Hf Hc. apply (D (S j') f0 d0); auto. lia.
        * cbn [snd]. split.
          -- intros H. destruct (v_hook (validated fmt f cell)) as [y|] eqn:Hh; [|contradiction].
             destruct H as [H|[]]. injection H as <- <-. split; [lia|]. rewrite Nat.sub_diag.
             exists f, cell. cbn. repeat split; auto. intros j' ? ? Hj. lia.
          -- intros [Hle [f' [d' [A [B [C D]]]]]]. destruct (Nat.eq_dec j i) as [->|Hne].
             ++ rewrite Nat.sub_diag in *. cbn in A, B. injection A as <-. injection B as <-. rewrite C. left. reflexivity.
             ++ exfalso. assert (0 < j - i) by lia. specialize (D 0 f cell H eq_refl eq_refl). congruence.
  Qed.

  (* ---------- check loop: every check in declaration order up to and including the first veto, each once *)
  Fixpoint check_events_upto (n : nat) (i : nat) (row : list text) : list event :=
    match n with O => [] | S n' => ECheckRow i row :: check_events_upto n' (S i) row end.

  Lemma run_checks_events (cks : list (check CS)) : forall i sts row l,
    exists n, snd (run_checks cks i sts row l) = check_events_upto n i row /\ n <= length cks /\ n <= length sts /\
      (snd (fst (run_checks cks i sts row l)) = None -> n = Nat.min (length cks) (length sts)).
  Proof.
    induction cks as [|ck cks IH]; intros i sts row l.
    - exists 0. cbn. repeat split; auto; lia.
    - destruct sts as [|st sts]; [exists 0; cbn; repeat split; auto; lia|].
      cbn [run_checks]. destruct (ck_row ck st row l) as [st' [see|]].
      + exists 1. cbn. repeat split; auto; try lia. discriminate.
      + destruct (IH (S i) sts row l) as [n [A [B [C D]]]].
        destruct (run_checks cks (S i) sts row l) as [[sts'' v] evs]. cbn [fst snd] in *.
        exists (S n). cbn. rewrite A. repeat split; auto; try lia; try (intros H; rewrite (D H); reflexivity).
  Qed.

  (* a check is shown a row iff every cell was accepted and no earlier-declared check rejected it *)
  Lemma validate_row_events c sts l row sts' oe l' evs :
    validate_row c sts l row = (sts', oe, l', evs) ->
    (length row <> length (c_fields c) /\ evs = []) \/
    (length row = length (c_fields c) /\
     exists fevs cevs, evs = fevs ++ cevs /\ fevs = snd (validate_fields (c_fmt c) (c_fields c) 0 row) /\
       ((fst (validate_fields (c_fmt c) (c_fields c) 0 row) <> None /\ cevs = []) \/
        (fst (validate_fields (c_fmt c) (c_fields c) 0 row) = None /\
         cevs = snd (run_checks (c_checks c) 0 sts row (set_cell l 0))))).
  Proof.
    unfold validate_row. destruct (Nat.eqb (length row) (length (c_fields c))) eqn:E; cbn [negb].
    - apply Nat.eqb_eq in E. destruct (validate_fields (c_fmt c) (c_fields c) 0 row) as [[i|] fevs] eqn:V.
      + intros H. injection H as <- <- <- <-. right. split; [assumption|]. exists fevs, []. rewrite app_nil_r.
        repeat split; auto. left. split; [discriminate|reflexivity].
      + destruct (run_checks (c_checks c) 0 sts row (set_cell l 0)) as [[sts1 veto] cevs] eqn:RC.
        destruct veto; intros H; injection H as <- <- <- <-; right; (split; [assumption|]); exists fevs, cevs;
          repeat split; auto.
    - intros H. injection H as <- <- <- <-. left. apply Nat.eqb_neq in E. auto.
  Qed.

  (* ---------- run level: what the whole log looks like *)
  Fixpoint log_spec (c : cid CS) (limit : option nat) (k : nat) (sts : list CS) (raws : list (list text)) : list event :=
    match raws with
    | [] => []
    | row :: rest =>
        if Nat.ltb (c_header c) k then
          if before_limit limit k then
            match validate_row c sts {| l_line := k - 1; l_cell := 0 |} row with
            | (sts', _, _, evs) => evs ++ log_spec c limit (S k) sts' rest
            end
          else log_spec c limit (S k) sts rest          (* beyond the limit: no calls at all *)
        else log_spec c limit (S k) sts rest            (* header: no calls at all *)
    end.

  Lemma run_rows_log c limit : forall raws (s : rstate CS), loc_inv s ->
    forall sf outs r evs, run_rows c MYield limit s raws = (sf, outs, r, evs) ->
    evs = log_spec c limit (rs_count s) (rs_sts s) raws.
  Proof.
    induction raws as [|row rest IH]; intros s [Hloc Hk] sf outs r evs H.
    - cbn in H. injection H as <- <- <- <-. reflexivity.
    - cbn [run_rows] in H. unfold step in H. cbn [log_spec].
      destruct (Nat.ltb (c_header c) (rs_count s)).
      + destruct (before_limit limit (rs_count s)).
        * rewrite Hloc in H.
          destruct (validate_row c (rs_sts s) {| l_line := rs_count s - 1; l_cell := 0 |} row) as [[[sts' oe] l'] evs0] eqn:V.
          pose proof (validate_row_loc _ _ _ _ _ _ _ _ V) as HL. cbn in HL.
          destruct oe as [e|].
          -- match type of H with context [run_rows c MYield limit ?x rest] => set (s1 := x) in *;
               destruct (run_rows c MYield limit s1 rest) as [[[sf1 outs1] r1] evs1] eqn:R end.
             injection H as <- <- <- <-.
             rewrite (IH s1 ltac:(split; subst s1; cbn; [unfold advance_line; rewrite HL; f_equal; lia | lia]) _ _ _ _ R).
             reflexivity.
          -- match type of H with context [run_rows c MYield limit ?x rest] => set (s1 := x) in *;
               destruct (run_rows c MYield limit s1 rest) as [[[sf1 outs1] r1] evs1] eqn:R end.
             injection H as <- <- <- <-.
             rewrite (IH s1 ltac:(split; subst s1; cbn; [unfold advance_line; rewrite HL; f_equal; lia | lia]) _ _ _ _ R).
             reflexivity.
        * match type of H with context [run_rows c MYield limit ?x rest] => set (s1 := x) in *;
            destruct (run_rows c MYield limit s1 rest) as [[[sf1 outs1] r1] evs1] eqn:R end.
          injection H as <- <- <- <-.
          rewrite (IH s1 ltac:(split; subst s1; cbn; [rewrite Hloc; unfold advance_line; cbn; f_equal; lia | lia]) _ _ _ _ R).
          reflexivity.
      + match type of H with context [run_rows c MYield limit ?x rest] => set (s1 := x) in *;
          destruct (run_rows c MYield limit s1 rest) as [[[sf1 outs1] r1] evs1] eqn:R end.
        injection H as <- <- <- <-.
        rewrite (IH s1 ltac:(split; subst s1; cbn; [rewrite Hloc; unfold advance_line; cbn; f_equal; lia | lia]) _ _ _ _ R).
        reflexivity.
  Qed.

  Lemma log_spec_header c limit rows : forall hdr k sts, k + length hdr <= S (c_header c) ->
    log_spec c limit k sts (hdr ++ rows) = log_spec c limit (k + length hdr) sts rows.
  Proof.
    induction hdr as [|h t IH]; intros k sts Hk; cbn [app length log_spec].
    - rewrite Nat.add_0_r. reflexivity.
    - cbn [length] in Hk. destruct (Nat.ltb_spec (c_header c) k); [lia|].
      rewrite IH by lia. f_equal. lia.
  Qed.

  Lemma log_spec_beyond c n : forall raws j sts, n < j -> log_spec c (Some n) j sts raws = [].
  Proof.
    induction raws as [|row rest IH]; intros j sts Hj; cbn [log_spec]; [reflexivity|].
    destruct (Nat.ltb (c_header c) j).
    - cbn [before_limit]. destruct (Nat.leb_spec j n); [lia|]. apply IH. lia.
    - apply IH. lia.
  Qed.

  (* close: end verdicts in declaration order up to and including the first failure, then every check cleaned up *)
  Fixpoint end_events_upto (n : nat) (i : nat) : list event :=
    match n with O => [] | S n' => EAtEnd i :: end_events_upto n' (S i) end.
  Lemma end_checks_events (cks : list (check CS)) : forall i sts,
    exists n, snd (end_checks cks i sts) = end_events_upto n i /\ n <= length cks /\
      (fst (end_checks cks i sts) = None -> n = Nat.min (length cks) (length sts)).
  Proof.
    induction cks as [|ck cks IH]; intros i sts.
    - exists 0. cbn. auto.
    - destruct sts as [|st sts]; [exists 0; cbn; repeat split; auto; lia|].
      cbn [end_checks]. destruct (ck_end ck st).
      + exists 1. cbn. repeat split; auto; try lia. discriminate.
      + destruct (IH (S i) sts) as [n [A [B C]]]. destruct (end_checks cks (S i) sts) as [r evs]. cbn [fst snd] in *.
        exists (S n). cbn. rewrite A. repeat split; auto; try lia; try (intros H; rewrite (C H); reflexivity).
  Qed.

  Lemma close_log c sts l :
    exists n, snd (close c sts l) = end_events_upto n 0 ++ cleanup_events (length (c_checks c)) 0 /\ n <= length (c_checks c).
  Proof.
    unfold close. destruct (end_checks_events (c_checks c) 0 sts) as [n [A [B _]]].
    destruct (end_checks (c_checks c) 0 sts) as [failed evs]. cbn [snd] in *. exists n. rewrite A. auto.
  Qed.

  (* the whole log of cutplace.rows in yield mode: resets once, first; then the per-row calls; then close *)
  Lemma api_log c limit sts_in raws fault :
    exists n, r_log (api_rows c MYield limit sts_in raws fault) =
      reset_events (length (c_checks c)) 0 ++ log_spec c limit 1 (resets (c_checks c)) raws ++
      end_events_upto n 0 ++ cleanup_events (length (c_checks c)) 0.
  Proof.
    unfold api_rows, reader_rows. fold (s0 c).
    destruct (run_rows c MYield limit (s0 c) raws) as [[[sf outs] r] evs] eqn:R.
    pose proof (run_rows_log c limit raws (s0 c) (s0_inv c) _ _ _ _ R) as L. cbn in L.
    destruct (close_log c (rs_sts sf) (rs_loc sf)) as [n [A _]].
    destruct (close c (rs_sts sf) (rs_loc sf)) as [[sts' ce] evs2]. cbn [snd r_log] in *.
    exists n. rewrite A, L, <- app_assoc. reflexivity.
  Qed.
End P.
