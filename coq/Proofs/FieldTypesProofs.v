(* Field types: what each built-in validated_value accepts and returns. *)
From Coq Require Import Lia ZifyBool String.
From CP Require Import Model.Base Generated.Consts Model.Ranges Model.Lex Model.RangeParse Model.Dec Model.DecRange
  Model.FieldTypes Spec.FieldSpec Proofs.BaseProofs Proofs.RegexProofs.
Local Open Scope Z_scope.
Ltac Zify.zify_post_hook ::= Z.to_euclidean_division_equations.

(* ---------- hooks that are a membership test *)
Lemma choice_hook_iff cs cell v : choice_hook cs cell = HOk v <-> In cell cs /\ v = VStr cell.
Proof.
  unfold choice_hook. destruct (existsb (text_eqb cell) cs) eqn:E.
  - apply existsb_text_In in E. split; [intros H; injection H as <-; auto|intros [_ ->]; reflexivity].
  - split; [discriminate|]. intros [Hin _]. apply existsb_text_In in Hin. congruence.
Qed.
Lemma choice_hook_total cs cell : choice_hook cs cell = HOk (VStr cell) \/ choice_hook cs cell = HReject.
Proof. unfold choice_hook. destruct (existsb _ cs); auto. Qed.

Lemma constant_hook_iff c cell v : constant_hook c cell = HOk v <-> cell = c /\ v = VStr cell.
Proof.
  unfold constant_hook. destruct (text_eqb cell c) eqn:E.
  - apply text_eqb_eq in E. split; [intros H; injection H as <-; auto|intros [_ ->]; reflexivity].
  - apply text_eqb_neq in E. split; [discriminate|]. intros [H _]. contradiction.
Qed.

Lemma integer_hook_iff r cell v :
  integer_hook r cell = HOk v <-> exists z, py_int cell = IOk z /\ range_validate r z = true /\ v = VInt z.
Proof.
  unfold integer_hook. destruct (py_int cell) as [z| |] eqn:E.
  - destruct (range_validate r z) eqn:R.
    + split; [intros H; injection H as <-; exists z; auto|]. intros [z' [H1 [_ ->]]]. congruence.
    + split; [discriminate|]. intros [z' [H1 [H2 _]]]. injection H1 as <-. congruence.
  - split; [discriminate|]. intros [z' [H1 _]]. discriminate.
  - split; [discriminate|]. intros [z' [H1 _]]. discriminate.
Qed.

Lemma regex_hook_iff r cell v : has_non_ascii_t cell = false ->
  (regex_hook r cell = HOk v <-> (exists p q, cell = p ++ q /\ matches (desugar r) p) /\ v = VStr cell).
Proof.
  intros Ha. unfold regex_hook. rewrite Ha. destruct (prefix_match (desugar r) cell) eqn:E.
  - apply prefix_match_iff in E. split; [intros H; injection H as <-; auto|intros [_ ->]; reflexivity].
  - split; [discriminate|]. intros [H _]. apply prefix_match_iff in H. congruence.
Qed.
Lemma pattern_hook_iff g cell v : has_non_ascii_t cell = false ->
  (pattern_hook g cell = HOk v <-> gmatches g cell /\ v = VStr cell).
Proof.
  intros Ha. unfold pattern_hook. rewrite Ha. destruct (full_match (glob_re g) cell) eqn:E.
  - apply glob_match_iff in E. split; [intros H; injection H as <-; auto|intros [_ ->]; reflexivity].
  - split; [discriminate|]. intros [H _]. apply glob_match_iff in H. congruence.
Qed.

(* ---------- Integer without length and rule: the signed 32 bit range (text read from the source) *)
Lemma integer_default k : integer_valid_range k [] [] None = DeclOk (Some [(Some (- 2 ^ 31), Some (2 ^ 31 - 1))]).
Proof. destruct k; vm_compute; reflexivity. Qed.

(* ---------- Decimal: the separator loop *)
Section Translate.
  Context (d t : N) (Hdt : d <> t).
  Local Notation f1 := {| dsep := [d]; tsep := [t] |}.

  Definition free (s : text) : Prop := ~ In d s /\ ~ In t s.

  Lemma one_eqb (a b : N) : text_eqb [a] [b] = N.eqb a b.
  Proof. cbn. apply andb_true_r. Qed.

  Lemma translate_free s found : free s -> translate_decimal f1 s found = Some s.
  Proof.
    induction s as [|c s IH]; intros [Hd Ht]; cbn [translate_decimal]; [reflexivity|].
    cbn [dsep tsep is_nil_t negb andb]. rewrite !one_eqb.
    assert (N.eqb c d = false) as -> by (apply N.eqb_neq; intros ->; apply Hd; left; reflexivity).
    assert (N.eqb c t = false) as -> by (apply N.eqb_neq; intros ->; apply Ht; left; reflexivity).
    rewrite IH; [reflexivity|]. split; intros H; [apply Hd|apply Ht]; right; exact H.
  Qed.

  (* groups of digits joined by the thousands separator *)
  Fixpoint join (groups : list text) : text :=
    match groups with [] => [] | [g] => g | g :: gs => g ++ t :: join gs end.

  Lemma translate_app_free s r found : free s ->
    translate_decimal f1 (s ++ r) found = match translate_decimal f1 r found with Some x => Some (s ++ x) | None => None end.
  Proof.
    induction s as [|c s IH]; intros [Hd Ht]; cbn [app translate_decimal].
    - destruct (translate_decimal f1 r found); reflexivity.
    - cbn [dsep tsep is_nil_t negb andb]. rewrite !one_eqb.
      assert (N.eqb c d = false) as -> by (apply N.eqb_neq; intros ->; apply Hd; left; reflexivity).
      assert (N.eqb c t = false) as -> by (apply N.eqb_neq; intros ->; apply Ht; left; reflexivity).
      rewrite IH by (split; intros H; [apply Hd|apply Ht]; right; exact H).
      destruct (translate_decimal f1 r found); reflexivity.
  Qed.

  Lemma translate_tsep r : translate_decimal f1 (t :: r) false = translate_decimal f1 r false.
  Proof.
    cbn [translate_decimal]. cbn [dsep tsep is_nil_t negb andb]. rewrite !one_eqb.
    assert (N.eqb t d = false) as -> by (apply N.eqb_neq; congruence). rewrite N.eqb_refl. reflexivity.
  Qed.
  Lemma translate_dsep r : translate_decimal f1 (d :: r) false =
    match translate_decimal f1 r true with Some x => Some (DOT :: x) | None => None end.
  Proof. cbn [translate_decimal]. cbn [dsep]. rewrite one_eqb, N.eqb_refl. reflexivity. Qed.

  (* a number written with grouped integer part and a fraction is handed to Decimal() as plain "digits.digits" *)
  Lemma translate_written groups fp rest : Forall free groups -> free fp ->
    translate_decimal f1 (join groups ++ rest) false =
    match translate_decimal f1 rest false with Some x => Some (concat groups ++ x) | None => None end.
  Proof.
    intros Hg Hf. induction groups as [|g gs IH].
    - cbn. destruct (translate_decimal f1 rest false); reflexivity.
    - inversion Hg as [|? ? G1 G2]; subst. destruct gs as [|g2 gs'].
      + cbn [join concat]. rewrite app_nil_r. apply translate_app_free. exact G1.
      + change (join (g :: g2 :: gs')) with (g ++ t :: join (g2 :: gs')).
        rewrite <- app_assoc. cbn [app]. rewrite translate_app_free by exact G1.
        rewrite translate_tsep. rewrite IH by exact G2.
        destruct (translate_decimal f1 rest false); cbn [concat]; [rewrite app_assoc|]; reflexivity.
  Qed.

  Theorem decimal_written groups fp : Forall free groups -> free fp ->
    translate_decimal f1 (join groups ++ d :: fp) false = Some (concat groups ++ DOT :: fp)
    /\ translate_decimal f1 (join groups) false = Some (concat groups).
  Proof.
    intros Hg Hf. split.
    - rewrite (translate_written groups fp) by assumption. rewrite translate_dsep, translate_free by exact Hf. reflexivity.
    - rewrite <- (app_nil_r (join groups)). rewrite (translate_written groups fp) by assumption. cbn. rewrite app_nil_r. reflexivity.
  Qed.

  (* after the decimal separator neither separator may occur again *)
  Lemma after_decimal_none s : In d s \/ In t s -> translate_decimal f1 s true = None.
  Proof.
    induction s as [|c s IH]; intros H; [destruct H as [[]|[]]|].
    cbn [translate_decimal]. cbn [dsep tsep is_nil_t negb andb]. rewrite !one_eqb.
    destruct (N.eqb c d) eqn:E1; [reflexivity|]. destruct (N.eqb c t) eqn:E2; [reflexivity|].
    rewrite IH; [reflexivity|].
    apply N.eqb_neq in E1, E2. destruct H as [[H|H]|[H|H]]; try congruence; auto.
  Qed.
  Theorem separator_after_decimal_rejected a b : In d b \/ In t b -> translate_decimal f1 (a ++ d :: b) false = None.
  Proof.
    intros H. assert (forall found, translate_decimal f1 (a ++ d :: b) found = None) as A; [|apply A].
    induction a as [|c a IH]; intros found; cbn [app translate_decimal].
    - cbn [dsep]. rewrite one_eqb, N.eqb_refl. destruct found; [reflexivity|].
      rewrite after_decimal_none by exact H. reflexivity.
    - cbn [dsep tsep is_nil_t negb andb]. rewrite !one_eqb.
      destruct (N.eqb c d); [destruct found; [reflexivity|rewrite IH; reflexivity]|].
      destruct (N.eqb c t); [destruct found; [reflexivity|apply IH]|]. rewrite IH. reflexivity.
  Qed.
End Translate.

(* ---------- Decimal(text) for plain digit texts *)
Lemma span_digits ds r : forallb is_digit ds = true -> (match r with c :: _ => is_digit c = false | [] => True end) ->
  span is_digit (ds ++ r) = (ds, r).
Proof.
  intros Hd Hr. induction ds as [|c ds IH]; cbn [app].
  - destruct r as [|c r]; [reflexivity|]. cbn [span]. rewrite Hr. reflexivity.
  - cbn [forallb] in Hd. apply andb_true_iff in Hd as [Hc Hds]. cbn [span]. rewrite Hc, IH by exact Hds. reflexivity.
Qed.

Theorem dec_finite_plain neg ip fp : forallb is_digit ip = true -> forallb is_digit fp = true -> ip ++ fp <> [] ->
  dec_finite neg (ip ++ DOT :: fp) = DpOk (DFin {| d_neg := neg; d_coef := digits_val (ip ++ fp) 0; d_exp := - Z.of_nat (length fp) |})
  /\ (ip <> [] -> dec_finite neg ip = DpOk (DFin {| d_neg := neg; d_coef := digits_val ip 0; d_exp := 0 |})).
Proof.
  intros Hi Hf Hne. split.
  - unfold dec_finite. rewrite (span_digits ip (DOT :: fp)) by (assumption || reflexivity).
    change (N.eqb DOT DOT) with true. cbv iota beta.
    rewrite <- (app_nil_r fp) at 1. rewrite (span_digits fp []) by (assumption || exact I).
    destruct (ip ++ fp) eqn:E; [congruence|]. reflexivity.
  - intros Hip. unfold dec_finite. rewrite <- (app_nil_r ip) at 1. rewrite (span_digits ip []) by (assumption || exact I).
    rewrite app_nil_r. destruct ip; [congruence|]. reflexivity.
Qed.

Lemma decimal_hook_iff f r cell d :
  decimal_hook f r cell = HOk (VDec d) <->
  exists t, translate_decimal f cell false = Some t /\ py_decimal t = DpOk (DFin d) /\ decrange_validate r d = true.
Proof.
  unfold decimal_hook. destruct (translate_decimal f cell false) as [t|] eqn:T.
  - destruct (py_decimal t) as [v| |] eqn:P.
    + destruct v as [d'|neg|]; cbn [decrange_validate_num].
      * destruct (decrange_validate r d') eqn:R.
        -- split; [intros H; injection H as <-; exists t; auto|]. intros [t' [E1 [E2 _]]]. injection E1 as <-. congruence.
        -- split; [discriminate|]. intros [t' [E1 [E2 E3]]]. injection E1 as <-. rewrite P in E2. injection E2 as <-. congruence.
      * split.
        -- destruct (match r with None => true | Some its => existsb (ditem_contains_inf neg) its end); discriminate.
        -- intros [t' [E1 [E2 _]]]. injection E1 as <-. rewrite P in E2. discriminate.
      * split.
        -- destruct r as [[|? ?]|]; discriminate.
        -- intros [t' [E1 [E2 _]]]. injection E1 as <-. rewrite P in E2. discriminate.
    + split; [discriminate|]. intros [t' [E1 [E2 _]]]. injection E1 as <-. rewrite P in E2. discriminate.
    + split; [discriminate|]. intros [t' [E1 [E2 _]]]. injection E1 as <-. rewrite P in E2. discriminate.
  - split; [discriminate|]. intros [t' [E1 _]]. discriminate.
Qed.
