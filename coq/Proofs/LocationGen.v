(* The hand-written model of errors.Location (Model/Location.v) against the definitions the translator regenerates from
   cutplace/errors.py on every run (Generated/LocationOps.v): the operations on the counters and the printed text are
   the same functions. The theorems about locations (Proofs/LocationProofs.v, Props/C04.v) therefore speak about what
   the source says now. *)
From Coq Require Import Lia.
From CP Require Import Model.Base Spec.FieldSpec Model.Location Generated.LocationOps.

Definition g_lstep (l : location) (o : lop) : option location :=
  match o with
  | LAdvColumn k => g_advance_column l k
  | LAdvCell k => g_advance_cell l k
  | LSetCell k => g_set_cell l k
  | LAdvLine k => g_advance_line l k
  | LAdvSheet => g_advance_sheet l
  end.

(* robust against harmless rewrites of the source (order of the asserts, `a + b` written `b + a`, `x >= 1` for `x > 0`,
   the order of independent assignments): the guards are compared by their meaning, the counters by arithmetic *)
Ltac same_location :=
  cbn [andb];
  repeat match goal with
         | |- context [Nat.ltb ?a ?b] => destruct (Nat.ltb_spec a b)
         | |- context [Nat.leb ?a ?b] => destruct (Nat.leb_spec a b)
         end;
  cbn [andb]; try lia; try reflexivity; try (f_equal; f_equal; lia).
Lemma lstep_generated l o : lstep l o = g_lstep l o.
Proof.
  destruct l as [p ln col cl sh hcol hcell hsheet].
  destruct o as [k|k|k|k|]; cbn [lstep g_lstep];
    unfold g_advance_column, g_advance_cell, g_set_cell, g_advance_line, g_advance_sheet;
    cbn [lo_path lo_line lo_column lo_cell lo_sheet lo_has_column lo_has_cell lo_has_sheet];
    destruct hcol, hcell, hsheet; same_location.
Qed.

Lemma defaults_generated : g_advance_column_default_amount = 1%nat /\ g_advance_cell_default_amount = 1%nat /\ g_advance_line_default_amount = 1%nat.
Proof. repeat split; reflexivity. Qed.

Lemma num_dec n : num n = dec_of (n + 1).
Proof. unfold num, dec_of. f_equal. lia. Qed.

Lemma loc_text_generated l : loc_text l = g_str l.
Proof.
  unfold loc_text, g_str. cbv zeta. rewrite !num_dec. rewrite ?Nat.add_1_r. cbn [Nat.add].
  unfold SP, LPAR, RPAR, BANG, SEMI, CH_R, CH_C.
  destruct (lo_has_cell l), (lo_has_sheet l), (lo_has_column l); cbn [app];
    repeat (rewrite <- app_assoc; cbn [app]); reflexivity.
Qed.
