(* C14, second half: what a CID-bound writer emitted is accepted again, row by row, when it is read back under the
   same CID.  Two developments:
   (1) arbitrary (also user-defined) checks, under the hypothesis that no written row was rejected by a row check
       (a row a check vetoes may already have been registered by earlier-declared checks - that is the call protocol,
       C20 - so for arbitrary checks nothing can be said beyond this hypothesis);
   (2) the built-in checks IsUnique / DistinctCount (and the harness plugins), without that hypothesis: the keys the
       reader has registered are always among those the writer had registered. *)
From Coq Require Import Lia.
From CP Require Import Model.Base Model.Ranges Model.Fields Model.Validio Model.ValidioInst Model.History Model.Writer
  Spec.ValidioSpec Proofs.ValidioProofs Proofs.WriterProofs.

Section General.
  Context {CS : Type}.
  Implicit Types (c : cid CS) (sts : list CS) (row : list text) (l : loc) (s : rstate CS) (w : wstate CS).

  Lemma set_cell_line l1 l2 i : l_line l1 = l_line l2 -> set_cell l1 i = set_cell l2 i.
  Proof. intros H. unfold set_cell. rewrite H. reflexivity. Qed.

  (* an accepted row is accepted at every cursor position in the same line, with the same effect on the checks *)
  Lemma validate_row_accept_line c sts l1 l2 row sts' l' evs :
    l_line l1 = l_line l2 -> validate_row c sts l1 row = (sts', None, l', evs) ->
    validate_row c sts l2 row = (sts', None, set_cell l2 0, evs).
  Proof.
    intros HL. unfold validate_row. destruct (negb _); [discriminate|].
    destruct (validate_fields _ _ _ _) as [[i|] evs0]; [discriminate|].
    rewrite (set_cell_line l1 l2 0 HL).
    destruct (run_checks _ _ _ _ _) as [[sts1 [see|]] evs2]; [discriminate|].
    intros H; injection H as <- <- <-. reflexivity.
  Qed.

  Definition no_check_veto (es : list (option err)) : Prop :=
    Forall (fun oe => match oe with Some e => e_family e <> FCheck | None => True end) es.

  Lemma skipn_S_cons {A} n (x : A) xs : skipn (S n) (x :: xs) = skipn n xs.
  Proof. reflexivity. Qed.

  Lemma readback_run c : forall rows w wf es,
    write_all c w rows = (wf, es) -> no_check_veto es ->
    forall s, loc_inv s -> rs_count s = S (l_line (w_loc w)) -> rs_sts s = w_sts w ->
    exists sf evs,
      run_rows c MYield None s (accepted_of rows es)
      = (sf, map ORow (skipn (c_header c - l_line (w_loc w)) (accepted_of rows es)), None, evs)
      /\ rs_sts sf = w_sts wf /\ loc_inv sf /\ rs_count sf = S (l_line (w_loc wf)) /\ rs_rej sf = rs_rej s.
  Proof.
    induction rows as [|row rest IH]; intros w wf es H NV s Inv Hk Hs.
    - cbn in H. injection H as <- <-. cbn [accepted_of]. rewrite skipn_nil. cbn. eauto 10.
    - cbn [write_all] in H. destruct (write_row c w row) as [[w' oe] evs0] eqn:W.
      destruct (write_all c w' rest) as [wf' es'] eqn:R. injection H as <- <-.
      inversion NV as [|? ? NV1 NV2]; subst.
      unfold write_row in W. destruct (Nat.leb (c_header c) (l_line (w_loc w))) eqn:Hh.
      + apply Nat.leb_le in Hh.
        destruct (validate_row c (w_sts w) (w_loc w) row) as [[[sts' [e|]] l'] evs1] eqn:V.
        * (* rejected by the writer: nothing registered, nothing emitted *)
          injection W as <- <- <-. cbn [accepted_of].
          destruct (validate_row_error c _ _ _ _ _ _ _ V) as [_ [El [A|[B|C]]]].
          -- destruct A as [_ [_ [_ [_ [-> _]]]]].
             pose proof (validate_row_loc _ _ _ _ _ _ _ _ V) as HL.
             destruct (IH _ _ _ R NV2 s Inv) as [sf [evs [E1 E2]]]; cbn; try congruence.
             cbn in E1, E2. rewrite HL in E1. eauto.
          -- destruct B as [_ [-> _]].
             pose proof (validate_row_loc _ _ _ _ _ _ _ _ V) as HL.
             destruct (IH _ _ _ R NV2 s Inv) as [sf [evs [E1 E2]]]; cbn; try congruence.
             cbn in E1, E2. rewrite HL in E1. eauto.
          -- exfalso. destruct C as [_ [_ [_ [F _]]]]. contradiction.
        * (* accepted and emitted: the reader accepts it at the same line with the same effect *)
          injection W as <- <- <-. cbn [accepted_of].
          pose proof (validate_row_loc _ _ _ _ _ _ _ _ V) as HL.
          replace (c_header c - l_line (w_loc w)) with 0 by lia. cbn [skipn map].
          cbn [run_rows]. unfold step.
          assert (Nat.ltb (c_header c) (rs_count s) = true) as -> by (apply Nat.ltb_lt; lia).
          cbn [before_limit].
          assert (l_line (w_loc w) = l_line (rs_loc s)) as HL2 by (destruct Inv as [-> _]; cbn; lia).
          rewrite Hs, (validate_row_accept_line c _ _ (rs_loc s) _ _ _ _ HL2 V). cbv beta iota zeta.
          match goal with |- context [run_rows c MYield None ?x _] => set (s1 := x) end.
          destruct (IH _ _ _ R NV2 s1) as [sf [evs [E1 [E2 [E3 [E4 E5]]]]]].
          -- split; subst s1; cbn; [|lia]. destruct Inv as [-> _]. unfold advance_line, set_cell. cbn. f_equal. lia.
          -- subst s1. cbn. lia.
          -- reflexivity.
          -- cbn in E1. rewrite HL in E1. replace (c_header c - S (l_line (w_loc w))) with 0 in E1 by lia.
             cbn [skipn] in E1. rewrite E1. exists sf. eexists. split; [reflexivity|]. repeat split; auto; apply E3.
      + (* still inside the header: emitted without validation, skipped by the reader *)
        apply Nat.leb_gt in Hh. injection W as <- <- <-. cbn [accepted_of].
        replace (c_header c - l_line (w_loc w)) with (S (c_header c - S (l_line (w_loc w)))) by lia.
        rewrite skipn_S_cons. cbn [run_rows]. unfold step.
        assert (Nat.ltb (c_header c) (rs_count s) = false) as -> by (apply Nat.ltb_ge; lia). cbv beta iota zeta.
        match goal with |- context [run_rows c MYield None ?x _] => set (s1 := x) end.
        destruct (IH _ _ _ R NV2 s1) as [sf [evs [E1 [E2 [E3 [E4 E5]]]]]].
        * split; subst s1; cbn; [|lia]. destruct Inv as [-> _]. unfold advance_line. cbn. f_equal. lia.
        * subst s1. cbn. lia.
        * subst s1. cbn. exact Hs.
        * cbn in E1. rewrite E1. exists sf. eexists. split; [reflexivity|]. repeat split; auto; apply E3.
  Qed.

  (* the whole statement: write any rows with a fresh writer; if no row was refused by a row check, reading what
     was emitted under the same CID (any mode is derived from 'yield', see C06) returns the emitted rows behind the
     header, all accepted, no error; and the checks end in the states the writer left them in, so the end-of-data
     verdict on reading is the writer's *)
  Theorem writer_readback_lemma c rows sts_w sts_r wf es :
    write_all c (writer_init c sts_w) rows = (wf, es) -> no_check_veto es ->
    w_rows wf = accepted_of rows es /\
    exists sf evs,
      reader_rows c MYield None sts_r (w_rows wf) false = (sf, map ORow (skipn (c_header c) (w_rows wf)), None, evs)
      /\ rs_sts sf = w_sts wf /\ rs_rej sf = 0.
  Proof.
    intros H NV. destruct (write_all_emits c _ _ _ _ H) as [_ [E _]]. cbn in E. split; [exact E|].
    rewrite E. unfold reader_rows. fold (s0 c).
    destruct (readback_run c rows _ _ _ H NV (s0 c) (s0_inv c) eq_refl eq_refl) as [sf [evs [R [A [_ [_ B]]]]]].
    cbn in R. rewrite Nat.sub_0_r in R. rewrite R. eauto.
  Qed.
End General.

(* ---------- built-in checks: no hypothesis on how rows were rejected *)
Section Builtin.
  Implicit Types (ks : list ckind) (row : list text) (l : loc).

  Definition sim1 (k : ckind) (x y : cstate) : Prop :=
    match k with
    | KUnique _ => match x, y with
                   | SUnique sa, SUnique sb => forall key, lookup_key key sa = None -> lookup_key key sb = None
                   | _, _ => False
                   end
    | _ => True
    end.
  Fixpoint sim ks (a b : list cstate) : Prop :=
    match ks, a, b with
    | [], [], [] => True
    | k :: ks', x :: a', y :: b' => sim1 k x y /\ sim ks' a' b'
    | _, _, _ => False
    end.

  Lemma lookup_key_app key sa k l : lookup_key key (sa ++ [(k, l)]) = None -> lookup_key key sa = None.
  Proof.
    induction sa as [|[k' l'] sa IH]; cbn; [reflexivity|].
    destruct (list_eqb text_eqb key k'); [discriminate|exact IH].
  Qed.
  Lemma lookup_key_app_none key sa k l :
    lookup_key key sa = None -> list_eqb text_eqb key k = false -> lookup_key key (sa ++ [(k, l)]) = None.
  Proof.
    induction sa as [|[k' l'] sa IH]; cbn; intros H1 H2.
    - rewrite H2. reflexivity.
    - destruct (list_eqb text_eqb key k'); [discriminate|auto].
  Qed.
  Lemma lookup_key_app_hit key sa k l : list_eqb text_eqb key k = true -> lookup_key key (sa ++ [(k, l)]) <> None.
  Proof.
    induction sa as [|[k' l'] sa IH]; cbn; intros H.
    - rewrite H. discriminate.
    - destruct (list_eqb text_eqb key k'); [discriminate|auto].
  Qed.

  Lemma sim_refl_resets ks : sim ks (resets (map check_of ks)) (resets (map check_of ks)).
  Proof. induction ks as [|k ks IH]; cbn; auto. split; [|exact IH]. destruct k; cbn; auto. Qed.

  (* the writer's states only grow: whatever it does with a row, the reader's registered keys stay among the writer's *)
  Lemma run_checks_grow ks : forall i a b row l a' v evs,
    sim ks a b -> run_checks (map check_of ks) i a row l = (a', v, evs) -> sim ks a' b.
  Proof.
    induction ks as [|k ks IH]; intros i a b row l a' v evs S H.
    - destruct a, b; cbn in S; try contradiction. cbn in H. injection H as <- <- <-. exact I.
    - destruct a as [|x a], b as [|y b]; cbn in S; try contradiction. destruct S as [S1 S2].
      cbn [map run_checks] in H.
      destruct (ck_row (check_of k) x row l) as [x' veto] eqn:R.
      assert (sim1 k x' y) as S1'.
      { destruct k; cbn in *; auto.
        destruct x as [sa| |]; try contradiction. destruct y as [sb| |]; try contradiction.
        destruct (lookup_key (map (nth_cell row) cols) sa) eqn:LK; injection R as <- <-; auto.
        intros key Hk. apply S1. eapply lookup_key_app; eauto. }
      destruct veto as [see|].
      + injection H as <- <- <-. cbn. auto.
      + destruct (run_checks (map check_of ks) (S i) a row l) as [[a'' v'] evs'] eqn:RC.
        injection H as <- <- <-. cbn. split; [exact S1'|]. eapply IH; eauto.
  Qed.

  (* a row that passes the writer's checks passes the reader's; the relation is kept *)
  Lemma run_checks_pass ks : forall i a b row l a' evs,
    sim ks a b -> run_checks (map check_of ks) i a row l = (a', None, evs) ->
    exists b', run_checks (map check_of ks) i b row l = (b', None, evs) /\ sim ks a' b'.
  Proof.
    induction ks as [|k ks IH]; intros i a b row l a' evs S H.
    - destruct a, b; cbn in S; try contradiction. cbn in H. injection H as <- <-. cbn. eauto.
    - destruct a as [|x a], b as [|y b]; cbn in S; try contradiction. destruct S as [S1 S2].
      cbn [map run_checks] in *.
      destruct (ck_row (check_of k) x row l) as [x' veto] eqn:R. destruct veto as [see|]; [discriminate|].
      destruct (run_checks (map check_of ks) (S i) a row l) as [[a'' v'] evs'] eqn:RC.
      injection H as <- -> <-.
      destruct (IH _ _ _ _ _ _ _ S2 RC) as [b' [RB SB]]. rewrite RB.
      assert (exists y', ck_row (check_of k) y row l = (y', None) /\ sim1 k x' y') as [y' [RY SY]].
      { destruct k; cbn in *.
        - destruct x as [sa| |]; try contradiction. destruct y as [sb| |]; try contradiction.
          destruct (lookup_key (map (nth_cell row) cols) sa) eqn:LK; [discriminate|]. injection R as <-.
          rewrite (S1 _ LK). eexists. split; [reflexivity|]. cbn. intros key Hk.
          destruct (list_eqb text_eqb key (map (nth_cell row) cols)) eqn:E.
          + exfalso. eapply lookup_key_app_hit; eauto.
          + apply lookup_key_app_none; auto. apply S1. eapply lookup_key_app; eauto.
        - destruct y as [|vals|]; eexists; (split; [reflexivity|exact I]).
        - injection R as <- R. rewrite R. eauto.
        - eauto.
        - eauto. }
      rewrite RY. eexists. split; [reflexivity|]. cbn. auto.
  Qed.

  Lemma builtin_readback_run (c : cid cstate) ks : c_checks c = map check_of ks -> forall rows w wf es,
    write_all c w rows = (wf, es) ->
    forall s, loc_inv s -> rs_count s = S (l_line (w_loc w)) -> sim ks (w_sts w) (rs_sts s) ->
    exists sf evs,
      run_rows c MYield None s (accepted_of rows es)
      = (sf, map ORow (skipn (c_header c - l_line (w_loc w)) (accepted_of rows es)), None, evs)
      /\ sim ks (w_sts wf) (rs_sts sf) /\ rs_rej sf = rs_rej s.
  Proof.
    intros Hc. induction rows as [|row rest IH]; intros w wf es H s Inv Hk Hs.
    - cbn in H. injection H as <- <-. cbn [accepted_of]. rewrite skipn_nil. cbn. eauto 10.
    - cbn [write_all] in H. destruct (write_row c w row) as [[w' oe] evs0] eqn:W.
      destruct (write_all c w' rest) as [wf' es'] eqn:R. injection H as <- <-.
      unfold write_row in W. destruct (Nat.leb (c_header c) (l_line (w_loc w))) eqn:Hh.
      + apply Nat.leb_le in Hh.
        assert (l_line (w_loc w) = l_line (rs_loc s)) as HL2 by (destruct Inv as [-> _]; cbn; lia).
        destruct (validate_row c (w_sts w) (w_loc w) row) as [[[sts' oe'] l'] evs1] eqn:V.
        pose proof (validate_row_loc _ _ _ _ _ _ _ _ V) as HL.
        unfold validate_row in V.
        destruct (negb (Nat.eqb (length row) (length (c_fields c)))) eqn:Hn.
        { injection V as <- <- <- <-. injection W as <- <- <-. cbn [accepted_of].
          destruct (IH _ _ _ R s Inv) as [sf [evs [E1 E2]]]; cbn; auto. cbn in E1. eauto. }
        destruct (validate_fields (c_fmt c) (c_fields c) 0 row) as [[i|] evsf] eqn:VF.
        { injection V as <- <- <- <-. injection W as <- <- <-. cbn [accepted_of].
          destruct (IH _ _ _ R s Inv) as [sf [evs [E1 E2]]]; cbn; auto. cbn in E1. eauto. }
        rewrite Hc in V.
        destruct (run_checks (map check_of ks) 0 (w_sts w) row (set_cell (w_loc w) 0)) as [[a' [see|]] evsc] eqn:RC.
        * (* vetoed by a check: the writer's states may have grown, the reader does not see the row *)
          injection V as <- <- <- <-. injection W as <- <- <-. cbn [accepted_of].
          pose proof (run_checks_grow _ _ _ _ _ _ _ _ _ Hs RC) as S'.
          destruct (IH _ _ _ R s Inv) as [sf [evs [E1 E2]]]; cbn; auto. cbn in E1. eauto.
        * injection V as <- <- <- <-. injection W as <- <- <-. cbn [accepted_of].
          destruct (run_checks_pass _ _ _ _ _ _ _ _ Hs RC) as [b' [RB SB]].
          replace (c_header c - l_line (w_loc w)) with 0 by lia. cbn [skipn map].
          cbn [run_rows]. unfold step.
          assert (Nat.ltb (c_header c) (rs_count s) = true) as -> by (apply Nat.ltb_lt; lia).
          cbn [before_limit]. unfold validate_row. rewrite Hn, VF, Hc.
          pose proof (set_cell_line (rs_loc s) (w_loc w) 0 (eq_sym HL2)) as QQ. rewrite QQ. rewrite RB. cbv beta iota zeta.
          match goal with |- context [run_rows c MYield None ?x _] => set (s1 := x) end.
          destruct (IH _ _ _ R s1) as [sf [evs [E1 [E2 E3]]]].
          -- split; subst s1; cbn; [|lia]. unfold advance_line, set_cell. cbn. f_equal. lia.
          -- subst s1. cbn. lia.
          -- subst s1. cbn. exact SB.
          -- cbn in E1. replace (c_header c - S (l_line (w_loc w))) with 0 in E1 by lia.
             cbn [skipn] in E1. rewrite E1. exists sf. eexists. split; [reflexivity|]. split; auto.
      + apply Nat.leb_gt in Hh. injection W as <- <- <-. cbn [accepted_of].
        replace (c_header c - l_line (w_loc w)) with (S (c_header c - S (l_line (w_loc w)))) by lia.
        rewrite skipn_S_cons. cbn [run_rows]. unfold step.
        assert (Nat.ltb (c_header c) (rs_count s) = false) as -> by (apply Nat.ltb_ge; lia). cbv beta iota zeta.
        match goal with |- context [run_rows c MYield None ?x _] => set (s1 := x) end.
        destruct (IH _ _ _ R s1) as [sf [evs [E1 [E2 E3]]]].
        * split; subst s1; cbn; [|lia]. destruct Inv as [-> _]. unfold advance_line. cbn. f_equal. lia.
        * subst s1. cbn. lia.
        * subst s1. cbn. exact Hs.
        * cbn in E1. rewrite E1. exists sf. eexists. split; [reflexivity|]. split; auto.
  Qed.

  Lemma builtin_readback_run_enc enc (c : cid cstate) ks : c_checks c = map check_of ks -> forall rows w wf es,
    write_all_enc enc c w rows = (wf, es) ->
    forall s, loc_inv s -> rs_count s = S (l_line (w_loc w)) -> sim ks (w_sts w) (rs_sts s) ->
    exists sf evs,
      run_rows c MYield None s (accepted_of rows es)
      = (sf, map ORow (skipn (c_header c - l_line (w_loc w)) (accepted_of rows es)), None, evs)
      /\ sim ks (w_sts wf) (rs_sts sf) /\ rs_rej sf = rs_rej s.
  Proof.
    intros Hc. induction rows as [|row rest IH]; intros w wf es H s Inv Hk Hs.
    - cbn in H. injection H as <- <-. cbn [accepted_of]. rewrite skipn_nil. cbn. eauto 10.
    - cbn [write_all_enc] in H. destruct (write_row_enc enc c w row) as [[w' oe] evs0] eqn:W.
      destruct (write_all_enc enc c w' rest) as [wf' es'] eqn:R. injection H as <- <-.
      unfold write_row_enc, write_row in W. destruct (Nat.leb (c_header c) (l_line (w_loc w))) eqn:Hh.
      + apply Nat.leb_le in Hh.
        assert (l_line (w_loc w) = l_line (rs_loc s)) as HL2 by (destruct Inv as [-> _]; cbn; lia).
        destruct (validate_row c (w_sts w) (w_loc w) row) as [[[sts' oe'] l'] evs1] eqn:V.
        pose proof (validate_row_loc _ _ _ _ _ _ _ _ V) as HL.
        unfold validate_row in V.
        destruct (negb (Nat.eqb (length row) (length (c_fields c)))) eqn:Hn.
        { injection V as <- <- <- <-. injection W as <- <- <-. cbn [accepted_of].
          destruct (IH _ _ _ R s Inv) as [sf [evs [E1 E2]]]; cbn; auto. cbn in E1. eauto. }
        destruct (validate_fields (c_fmt c) (c_fields c) 0 row) as [[i|] evsf] eqn:VF.
        { injection V as <- <- <- <-. injection W as <- <- <-. cbn [accepted_of].
          destruct (IH _ _ _ R s Inv) as [sf [evs [E1 E2]]]; cbn; auto. cbn in E1. eauto. }
        rewrite Hc in V.
        destruct (run_checks (map check_of ks) 0 (w_sts w) row (set_cell (w_loc w) 0)) as [[a' [see|]] evsc] eqn:RC.
        * (* vetoed by a check: the writer's states may have grown, the reader does not see the row *)
          injection V as <- <- <- <-. injection W as <- <- <-. cbn [accepted_of].
          pose proof (run_checks_grow _ _ _ _ _ _ _ _ _ Hs RC) as S'.
          destruct (IH _ _ _ R s Inv) as [sf [evs [E1 E2]]]; cbn; auto. cbn in E1. eauto.
        * injection V as <- <- <- <-. cbv beta iota zeta in W.
          destruct (forallb (forallb enc) row) eqn:Enc; injection W as <- <- <-; cbn [accepted_of].
          2:{ (* the encoding refuses the row: the writer's checks have seen it, the reader never does *)
              pose proof (run_checks_grow _ _ _ _ _ _ _ _ _ Hs RC) as S'.
              destruct (IH _ _ _ R s Inv) as [sf [evs [E1 E2]]]; cbn; auto. cbn in E1. eauto. }
          destruct (run_checks_pass _ _ _ _ _ _ _ _ Hs RC) as [b' [RB SB]].
          replace (c_header c - l_line (w_loc w)) with 0 by lia. cbn [skipn map].
          cbn [run_rows]. unfold step.
          assert (Nat.ltb (c_header c) (rs_count s) = true) as -> by (apply Nat.ltb_lt; lia).
          cbn [before_limit]. unfold validate_row. rewrite Hn, VF, Hc.
          pose proof (set_cell_line (rs_loc s) (w_loc w) 0 (eq_sym HL2)) as QQ. rewrite QQ. rewrite RB. cbv beta iota zeta.
          match goal with |- context [run_rows c MYield None ?x _] => set (s1 := x) end.
          destruct (IH _ _ _ R s1) as [sf [evs [E1 [E2 E3]]]].
          -- split; subst s1; cbn; [|lia]. unfold advance_line, set_cell. cbn. f_equal. lia.
          -- subst s1. cbn. lia.
          -- subst s1. cbn. exact SB.
          -- cbn in E1. replace (c_header c - S (l_line (w_loc w))) with 0 in E1 by lia.
             cbn [skipn] in E1. rewrite E1. exists sf. eexists. split; [reflexivity|]. split; auto.
      + apply Nat.leb_gt in Hh. cbv beta iota zeta in W.
        destruct (forallb (forallb enc) row) eqn:Enc; injection W as <- <- <-; cbn [accepted_of].
        2:{ match type of R with context [if ?b then _ else _] => destruct b end;
              (destruct (IH _ _ _ R s Inv) as [sf [evs [E1 E2]]]; cbn; auto; cbn in E1; eauto). }
        replace (c_header c - l_line (w_loc w)) with (S (c_header c - S (l_line (w_loc w)))) by lia.
        rewrite skipn_S_cons. cbn [run_rows]. unfold step.
        assert (Nat.ltb (c_header c) (rs_count s) = false) as -> by (apply Nat.ltb_ge; lia). cbv beta iota zeta.
        match goal with |- context [run_rows c MYield None ?x _] => set (s1 := x) end.
        destruct (IH _ _ _ R s1) as [sf [evs [E1 [E2 E3]]]].
        * split; subst s1; cbn; [|lia]. destruct Inv as [-> _]. unfold advance_line. cbn. f_equal. lia.
        * subst s1. cbn. lia.
        * subst s1. cbn. exact Hs.
        * cbn in E1. rewrite E1. exists sf. eexists. split; [reflexivity|]. split; auto.
  Qed.

  (* with IsUnique / DistinctCount checks, whatever mixture of accepted and rejected rows was written: reading the
     output back accepts every row *)
  Theorem builtin_writer_readback_lemma (c : cid cstate) ks rows sts_w sts_r wf es :
    c_checks c = map check_of ks ->
    write_all c (writer_init c sts_w) rows = (wf, es) ->
    exists sf evs,
      reader_rows c MYield None sts_r (w_rows wf) false = (sf, map ORow (skipn (c_header c) (w_rows wf)), None, evs)
      /\ rs_rej sf = 0.
  Proof.
    intros Hc H. destruct (write_all_emits c _ _ _ _ H) as [_ [E _]]. cbn in E.
    rewrite E. unfold reader_rows. fold (s0 c).
    destruct (builtin_readback_run c ks Hc rows _ _ _ H (s0 c) (s0_inv c) eq_refl) as [sf [evs [R [_ B]]]].
    - cbn. rewrite Hc. apply sim_refl_resets.
    - cbn in R. rewrite Nat.sub_0_r in R. rewrite R. eauto.
  Qed.

  (* the same for a target whose encoding cannot represent every character: rows it refuses have been seen by the
     writer's checks but are not in the output; the output still reads back without a rejection *)
  Theorem builtin_writer_readback_enc_lemma enc (c : cid cstate) ks rows sts_w sts_r wf es :
    c_checks c = map check_of ks ->
    write_all_enc enc c (writer_init c sts_w) rows = (wf, es) ->
    exists sf evs,
      reader_rows c MYield None sts_r (w_rows wf) false = (sf, map ORow (skipn (c_header c) (w_rows wf)), None, evs)
      /\ rs_rej sf = 0.
  Proof.
    intros Hc H. destruct (write_all_enc_emits enc c _ _ _ _ H) as [_ [E _]]. cbn in E.
    rewrite E. unfold reader_rows. fold (s0 c).
    destruct (builtin_readback_run_enc enc c ks Hc rows _ _ _ H (s0 c) (s0_inv c) eq_refl) as [sf [evs [R [_ B]]]].
    - cbn. rewrite Hc. apply sim_refl_resets.
    - cbn in R. rewrite Nat.sub_0_r in R. rewrite R. eauto.
  Qed.
End Builtin.
