From CP Require Import Model.Base Model.Ranges Model.Fields Model.Validio Model.History.

Section P.
  Context {CS : Type}.

  (* the Reader loop never consults the states it inherits: they are overwritten by reset first *)
  Lemma reader_rows_ignores_inherited (c : cid CS) m limit sts sts' raws fault :
    reader_rows c m limit sts raws fault = reader_rows c m limit sts' raws fault.
  Proof. reflexivity. Qed.

  (* ---------- finalizing an earlier, unfinished run in the middle of a later one *)
  Lemma run_rows_split_spec (c : cid CS) m limit : forall raws j s s2 oa ra rest,
    run_rows_split c m limit j s raws = (s2, oa, ra, Some rest) ->
    forall sf ob rb evs, run_rows c m limit s2 rest = (sf, ob, rb, evs) ->
    exists evs', run_rows c m limit s raws = (sf, oa ++ ob, rb, evs').
  Proof.
    induction raws as [|row rest0 IH]; intros j s s2 oa ra rest H sf ob rb evs R.
    - destruct j; cbn [run_rows_split] in H; [|discriminate].
      injection H as <- <- _ <-. exists evs. exact R.
    - destruct j as [|k'].
      + cbn [run_rows_split] in H. injection H as <- <- _ <-. exists evs. exact R.
      + cbn [run_rows_split] in H. cbn [run_rows].
        destruct (step c m limit s row) as [[s' so] evs0]. destruct so as [[o|]|e]; [| |discriminate].
        * destruct (run_rows_split c m limit k' s' rest0) as [[[sf' outs'] r'] susp'] eqn:E.
          injection H as <- <- <- ->.
          destruct (IH _ _ _ _ _ _ E _ _ _ _ R) as [evs' ->]. eexists. reflexivity.
        * destruct (IH _ _ _ _ _ _ H _ _ _ _ R) as [evs' ->]. eexists. reflexivity.
  Qed.

  Lemma cleanups_id (cks : list (check CS)) : (forall ck st, In ck cks -> ck_clean ck st = st) ->
    forall sts, cleanups cks sts = sts.
  Proof.
    induction cks as [|ck cks IH]; intros H sts; [destruct sts; reflexivity|].
    destruct sts as [|st sts]; [reflexivity|]. cbn [cleanups]. rewrite H by (left; reflexivity).
    rewrite IH; [reflexivity|]. intros ck' st' Hin. apply H. right. exact Hin.
  Qed.

  (* when clean-up leaves the state of a check alone (as it does for every built-in check), finalizing an unfinished
     earlier run in the middle of a later run - at any point j, whatever the earlier run was - does not change the
     later run's outcome *)
  Lemma late_finalisation_harmless_lemma (c : cid CS) :
    (forall ck st, In ck (c_checks c) -> ck_clean ck st = st) ->
    forall sts first m limit raws fault j,
    snd (exec c sts (OpLate first m limit raws fault j)) = snd (exec c sts (OpRows m limit raws fault)).
  Proof.
    intros Hclean sts first m limit raws fault j. cbn [exec].
    destruct (run_rows_split c m limit j (start c) raws) as [[[s2 oa] ra] susp] eqn:E.
    destruct j as [|j']; [reflexivity|].
    destruct susp as [rest|]; [|reflexivity].
    match goal with |- context [match ?p with Some l1 => _ | None => _ end] => destruct p as [l1|] end; [|reflexivity].
    unfold close at 1. destruct (end_checks (c_checks c) 0 (rs_sts s2)) as [failed evs0].
    rewrite (cleanups_id _ Hclean).
    assert (W : with_sts s2 (rs_sts s2) = s2) by (destruct s2; reflexivity). rewrite W.
    destruct (run_rows c m limit s2 rest) as [[[sf ob] rb] evsb] eqn:R.
    destruct (run_rows_split_spec _ _ _ _ _ _ _ _ _ _ E _ _ _ _ R) as [evs' RR].
    unfold api_rows, reader_rows. unfold start in RR. rewrite RR.
    destruct (close c (rs_sts sf) (rs_loc sf)) as [[sts' ce] evs2]. reflexivity.
  Qed.

  Lemma exec_outcome_independent (c : cid CS) (o : op) : forall sts sts', snd (exec c sts o) = snd (exec c sts' o).
  Proof.
    intros sts sts'. destruct o as [m l r f|[[|n]|] r f|m l r f k|m l r f|m l r f|rows [|]|first m l r f j]; reflexivity.
  Qed.

  Lemma exec_state_independent (c : cid CS) (o : op) : forall sts sts', fst (exec c sts o) = fst (exec c sts' o).
  Proof.
    intros sts sts'. destruct o as [m l r f|[[|n]|] r f|m l r f k|m l r f|m l r f|rows [|]|first m l r f j]; reflexivity.
  Qed.

  Lemma history_independent_lemma (c : cid CS) (h : list op) (o : op) : forall sts fresh,
    snd (exec c (history_state c sts h) o) = snd (exec c fresh o).
  Proof. intros sts fresh. apply exec_outcome_independent. Qed.

  (* every run of a history equals the same run on a fresh CID *)
  Lemma run_history_fresh (c : cid CS) (fresh : list CS) : forall h sts,
    run_history c sts h = map (fun o => snd (exec c fresh o)) h.
  Proof.
    induction h as [|o rest IH]; intros sts; cbn [run_history map]; [reflexivity|].
    destruct (exec c sts o) as [sts' oc] eqn:E. rewrite IH. f_equal.
    change oc with (snd (sts', oc)). rewrite <- E. apply exec_outcome_independent.
  Qed.

  (* a pass that cannot even start (the container is broken, the sheet is missing): nothing is returned, the error is
     raised, and close() - called by hand - judges the end checks on freshly reset states, whatever earlier runs left *)
  Lemma failed_pass_lemma (c : cid CS) m limit sts :
    let oc := snd (exec c sts (OpByHand m limit [] true)) in
    oc_outs oc = [] /\ (exists e, oc_raised oc = Some e) /\
    oc_writes oc = [snd (fst (close c (resets (c_checks c)) (rs_loc (start c))))].
  Proof.
    cbn [exec]. unfold reader_rows. cbn.
    destruct (close c (resets (c_checks c)) {| l_line := 0; l_cell := 0 |}) as [[sts' ce] evs]. cbn.
    repeat split. eexists. reflexivity.
  Qed.
End P.
