From CP Require Import Model.Base Model.Ranges Model.Fields Model.Validio Model.History.

Section P.
  Context {CS : Type}.

  (* the Reader loop never consults the states it inherits: they are overwritten by reset first *)
  Lemma reader_rows_ignores_inherited (c : cid CS) m limit sts sts' raws fault :
    reader_rows c m limit sts raws fault = reader_rows c m limit sts' raws fault.
  Proof. reflexivity. Qed.

  Lemma exec_outcome_independent (c : cid CS) (o : op) : forall sts sts', snd (exec c sts o) = snd (exec c sts' o).
  Proof. intros sts sts'. destruct o as [m l r f|[[|n]|] r f|m l r f k|m l r f|rows [|]]; reflexivity. Qed.

  Lemma exec_state_independent (c : cid CS) (o : op) : forall sts sts', fst (exec c sts o) = fst (exec c sts' o).
  Proof. intros sts sts'. destruct o as [m l r f|[[|n]|] r f|m l r f k|m l r f|rows [|]]; reflexivity. Qed.

  Lemma history_independent_lemma (c : cid CS) (h : list op) (o : op) : forall sts fresh,
    snd (exec c (history_state c sts h) o) = snd (exec c fresh o).
  Proof. intros sts fresh. apply exec_outcome_independent. Qed.

  (* every run of a history equals the same run on a fresh CID *)
  Lemma run_history_fresh (c : cid CS) (fresh : list CS) : forall h sts,
    run_history c sts h = map (fun o => snd (exec c fresh o)) h.
  Proof.
    induction h as [|o rest IH]; intros sts; cbn [run_history map]; [reflexivity|].
    destruct (exec c sts o) as [sts' oc] eqn:E. rewrite IH. f_equal.
    change oc with (snd (sts', oc)). rewrite <- E. apply exec_outcome_independent.
  Qed.
End P.
