(* Regular expressions and globs: the derivative based matchers decide the declarative languages. *)
From Coq Require Import Lia.
From CP Require Import Model.Base Model.Lex Model.FieldTypes Spec.FieldSpec.

Lemma nullable_iff r : nullable r = true <-> matches r [].
Proof.
  induction r as [| |c|d|neg rs|a IHa b IHb|a IHa b IHb|a IHa]; cbn [nullable]; split; intros H.
  - discriminate.
  - inversion H.
  - constructor.
  - reflexivity.
  - discriminate.
  - inversion H.
  - discriminate.
  - inversion H.
  - discriminate.
  - inversion H.
  - apply andb_true_iff in H as [Ha Hb]. change (@nil N) with (@nil N ++ @nil N). constructor; [apply IHa|apply IHb]; assumption.
  - inversion H as [| | | |a' b' s t Ms Mt E1 E2| | | |]; subst.
    apply app_eq_nil in E2 as [-> ->]. apply andb_true_iff. split; [apply IHa|apply IHb]; assumption.
  - apply orb_true_iff in H as [Ha|Hb]; [apply MAltL, IHa|apply MAltR, IHb]; assumption.
  - apply orb_true_iff. inversion H; subst; [left; apply IHa|right; apply IHb]; assumption.
  - constructor.
  - reflexivity.
Qed.

(* a star matching a non-empty text starts with a non-empty piece *)
Lemma star_cons a x s : matches (RStar a) (x :: s) ->
  exists s1 s2, s = s1 ++ s2 /\ matches a (x :: s1) /\ matches (RStar a) s2.
Proof.
  intros H. remember (RStar a) as r eqn:Er. remember (x :: s) as w eqn:Ew.
  revert x s Ew. induction H as [| | | | | | | a' |a' u v Mu _ Mv IHv]; intros x0 s0 Ew; try discriminate.
  injection Er as ->.
  destruct u as [|y u].
  - cbn in Ew. apply IHv; [reflexivity|exact Ew].
  - cbn in Ew. injection Ew as E1 E2. subst. exists u, v. auto.
Qed.

Lemma deriv_iff x r : forall s, matches (deriv x r) s <-> matches r (x :: s).
Proof.
  induction r as [| |c|d|neg rs|a IHa b IHb|a IHa b IHb|a IHa]; intros s; cbn [deriv].
  - split; intros H; inversion H.
  - split; intros H; inversion H.
  - destruct (chr_match c x) eqn:E; split; intros H.
    + inversion H; subst. constructor. exact E.
    + inversion H; subst. constructor.
    + inversion H.
    + inversion H; subst. congruence.
  - destruct (any_match d x) eqn:E; split; intros H.
    + inversion H; subst. constructor. exact E.
    + inversion H; subst. constructor.
    + inversion H.
    + inversion H; subst. congruence.
  - destruct (xorb neg (set_has rs x)) eqn:E; split; intros H.
    + inversion H; subst. constructor. exact E.
    + inversion H; subst. constructor.
    + inversion H.
    + inversion H; subst. congruence.
  - (* seq *)
    assert (forall t, matches (RSeq (deriv x a) b) t -> matches (RSeq a b) (x :: t)) as S1.
    { intros t H. inversion H as [| | | |a' b' u v Mu Mv E1 E2| | | |]; subst.
      change (x :: u ++ v) with ((x :: u) ++ v). constructor; [apply IHa; exact Mu|exact Mv]. }
    destruct (nullable a) eqn:Na; split; intros H.
    + inversion H; subst; [apply S1; assumption|].
      change (x :: s) with ([] ++ x :: s). constructor; [apply nullable_iff; exact Na|apply IHb; assumption].
    + inversion H as [| | | |a' b' u v Mu Mv E1 E2| | | |]; subst.
      destruct u as [|y u].
      * cbn in E2. subst v. apply MAltR. apply IHb. exact Mv.
      * cbn in E2. injection E2 as E3 E4. subst. apply MAltL. constructor; [apply IHa; exact Mu|exact Mv].
    + apply S1. exact H.
    + inversion H as [| | | |a' b' u v Mu Mv E1 E2| | | |]; subst.
      destruct u as [|y u].
      * apply nullable_iff in Mu. congruence.
      * cbn in E2. injection E2 as E3 E4. subst. constructor; [apply IHa; exact Mu|exact Mv].
  - split; intros H.
    + inversion H; subst; [apply MAltL, IHa|apply MAltR, IHb]; assumption.
    + inversion H; subst; [apply MAltL, IHa|apply MAltR, IHb]; assumption.
  - split; intros H.
    + inversion H as [| | | |a' b' u v Mu Mv E1 E2| | | |]; subst.
      change (x :: u ++ v) with ((x :: u) ++ v). apply MStarS; [apply IHa; exact Mu|exact Mv].
    + apply star_cons in H as [s1 [s2 [-> [M1 M2]]]]. constructor; [apply IHa; exact M1|exact M2].
Qed.

Theorem full_match_iff s : forall r, full_match r s = true <-> matches r s.
Proof.
  induction s as [|x s IH]; intros r; cbn [full_match].
  - apply nullable_iff.
  - rewrite IH. apply deriv_iff.
Qed.

Theorem prefix_match_iff s : forall r, prefix_match r s = true <-> exists p q, s = p ++ q /\ matches r p.
Proof.
  induction s as [|x s IH]; intros r; cbn [prefix_match].
  - rewrite orb_false_r, nullable_iff. split.
    + intros H. exists [], []. auto.
    + intros [p [q [E M]]]. symmetry in E. apply app_eq_nil in E as [-> ->]. exact M.
  - rewrite orb_true_iff, nullable_iff, IH. split.
    + intros [H|[p [q [-> M]]]].
      * exists [], (x :: s). auto.
      * exists (x :: p), q. split; [reflexivity|]. apply deriv_iff. exact M.
    + intros [p [q [E M]]]. destruct p as [|y p].
      * left. exact M.
      * cbn in E. injection E as <- ->. right. exists p, q. split; [reflexivity|]. apply deriv_iff. exact M.
Qed.

(* ---------- globs *)
Lemma star_any_all (w : text) : matches (RStar (RAny true)) w.
Proof.
  induction w as [|x w IH]; [constructor|].
  change (x :: w) with ([x] ++ w). apply MStarS; [constructor; reflexivity|exact IH].
Qed.

Lemma glob_re_iff g : forall s, matches (glob_re g) s <-> gmatches g s.
Proof.
  induction g as [|it g IH]; intros s; cbn [glob_re fold_right].
  - split; intros H; inversion H; constructor.
  - fold (glob_re g). split; intros H.
    + inversion H as [| | | |a' b' u v Mu Mv E1 E2| | | |]; subst. apply IH in Mv.
      destruct it as [c| | |neg rs]; cbn [gitem_re] in Mu.
      * inversion Mu; subst. constructor; assumption.
      * inversion Mu; subst. constructor; assumption.
      * constructor. assumption.
      * inversion Mu; subst. constructor; assumption.
    + inversion H as [|c x g' s' Hc Hg|x g' s' Hg|neg rs x g' s' Hx Hg|w g' s' Hg]; subst.
      * change (x :: s') with ([x] ++ s'). constructor; [constructor; exact Hc|apply IH; exact Hg].
      * change (x :: s') with ([x] ++ s'). constructor; [constructor; reflexivity|apply IH; exact Hg].
      * change (x :: s') with ([x] ++ s'). constructor; [constructor; exact Hx|apply IH; exact Hg].
      * constructor; [apply star_any_all|apply IH; exact Hg].
Qed.

Theorem glob_match_iff g s : full_match (glob_re g) s = true <-> gmatches g s.
Proof. rewrite full_match_iff. apply glob_re_iff. Qed.
