(* C03: the guards of AbstractFieldFormat.validated hold whatever the type-specific hook says. *)
From Coq Require Import Lia.
From CP Require Import Model.Base Model.Ranges Model.Fields.

(* "empty" as the data format sees it: nothing, or (fixed-width) nothing but blanks *)
Definition blank_for (fmt : dfmt) (cell : text) : Prop := (if df_fixed fmt then strip cell else cell) = [].

Lemma guard_chars_lemma fmt f cell : chars_ok (df_allowed fmt) cell = false ->
  validated fmt f cell = {| v_ok := false; v_hook := None |}.
Proof. intros H. unfold validated. rewrite H. reflexivity. Qed.

Lemma chars_ok_iff allowed cell :
  chars_ok allowed cell = false <-> exists c, In c cell /\ range_validate allowed (Z.of_N c) = false.
Proof.
  unfold chars_ok. split.
  - intros H. induction cell as [|c t IH]; [discriminate|]. cbn in H.
    destruct (range_validate allowed (Z.of_N c)) eqn:E.
    + destruct (IH H) as [c' [A B]]. exists c'. split; [right; assumption|assumption].
    + exists c. split; [left; reflexivity|assumption].
  - intros [c [Hin Hr]]. induction cell as [|c0 t IH]; [contradiction|]. cbn.
    destruct Hin as [->|Hin]; [rewrite Hr; reflexivity|]. rewrite (IH Hin). apply andb_false_r.
Qed.

Lemma guard_empty_lemma fmt f cell : chars_ok (df_allowed fmt) cell = true -> blank_for fmt cell ->
  validated fmt f cell = {| v_ok := f_empty_ok f && length_ok fmt f cell; v_hook := None |}.
Proof.
  intros Hc Hb. unfold validated, blank_for in *. rewrite Hc. cbn [negb]. rewrite Hb. cbn [is_nil].
  destruct (f_empty_ok f); cbn [negb andb]; [|reflexivity].
  destruct (length_ok fmt f cell); reflexivity.
Qed.

(* a cell that is empty in the plain sense is never held against the length when the field may be empty *)
Lemma empty_cell_length fmt f : f_empty_ok f = true -> length_ok fmt f [] = true.
Proof. intros H. unfold length_ok. rewrite H. reflexivity. Qed.

Lemma guard_length_lemma fmt f cell : length_ok fmt f cell = false ->
  v_ok (validated fmt f cell) = false /\ v_hook (validated fmt f cell) = None.
Proof.
  intros H. unfold validated. destruct (negb (chars_ok _ _)); [auto|].
  destruct (negb (f_empty_ok f) && _); [auto|]. rewrite H. auto.
Qed.

Lemma guard_pass_lemma fmt f cell :
  chars_ok (df_allowed fmt) cell = true -> ~ blank_for fmt cell -> length_ok fmt f cell = true ->
  let v := if df_fixed fmt then strip cell else cell in
  validated fmt f cell = {| v_ok := f_hook f v; v_hook := Some v |}.
Proof.
  intros Hc Hb Hl. cbv zeta. unfold validated, blank_for in *. rewrite Hc, Hl. cbn [negb].
  destruct (if df_fixed fmt then strip cell else cell) as [|a t] eqn:E; [contradiction|].
  cbn [is_nil]. rewrite andb_false_r. reflexivity.
Qed.

(* what "outside the declared length" means *)
Lemma length_ok_spec fmt f cell : (f_empty_ok f && is_nil cell) = false ->
  length_ok fmt f cell =
  if df_fixed fmt then match lower_limit (f_length f) with Some w => (Z.of_nat (length cell) <=? w)%Z | None => true end
  else range_validate (f_length f) (Z.of_nat (length cell)).
Proof. intros H. unfold length_ok. rewrite H. reflexivity. Qed.
