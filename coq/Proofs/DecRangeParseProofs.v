(* C01 for decimal ranges: the token loop of DecimalRange.__init__ maps every description of the grammar (at token level)
   to the items it denotes and computes scale and precision as the maxima over all limits written. *)
From Coq Require Import Lia.
From CP Require Import Model.Base Generated.Consts Model.Ranges Model.Lex Model.RangeParse Model.Dec Model.DecRange
  Proofs.BaseProofs Proofs.RangeParseProofs.
Local Open Scope Z_scope.

Inductive dlim := DPlain (t : token) | DMinus (t : token).
Definition dlim_tokens (l : dlim) : list token := match l with DPlain t => [t] | DMinus t => [minus_tok; t] end.
Definition dlim_tok (l : dlim) : token := match l with DPlain t | DMinus t => t end.
Definition dlim_value (l : dlim) : option dec :=
  match tk (dlim_tok l) with
  | KNumber => match dec_of_token (tt (dlim_tok l)) with
               | Some v => Some (match l with DPlain _ => v | DMinus _ => dec_negate v end)
               | None => None end
  | _ => None
  end.
(* digits after / before the dot of the number as written (the sign does not count) *)
Definition dlim_stats (l : dlim) (st : dstats) : dstats :=
  match dec_of_token (tt (dlim_tok l)) with
  | Some v => (Z.max (fst st) (Z.max 0 (- d_exp v)), Z.max (snd st) (ndigits (d_coef v) + d_exp v))
  | None => st
  end.

Inductive dgitem :=
| DGSingle (l : dlim) | DGClosed (l1 : dlim) (sep : token) (l2 : dlim) | DGFrom (l : dlim) (sep : token) | DGUpTo (sep : token) (l : dlim).
Definition dgitem_tokens (g : dgitem) : list token :=
  match g with
  | DGSingle l => dlim_tokens l
  | DGClosed l1 s l2 => dlim_tokens l1 ++ s :: dlim_tokens l2
  | DGFrom l s => dlim_tokens l ++ [s]
  | DGUpTo s l => s :: dlim_tokens l
  end.
Definition dgitem_den (g : dgitem) : option ditem :=
  match g with
  | DGSingle l => match dlim_value l with Some v => Some (Some v, Some v) | None => None end
  | DGClosed l1 s l2 => if is_sep s then match dlim_value l1, dlim_value l2 with
                                         | Some a, Some b => if dec_ltb b a then None else Some (Some a, Some b) | _, _ => None end
                        else None
  | DGFrom l s => if is_sep s then match dlim_value l with Some a => Some (Some a, None) | None => None end else None
  | DGUpTo s l => if is_sep s then match dlim_value l with Some b => Some (None, Some b) | None => None end else None
  end.
Definition dgitem_stats (g : dgitem) (st : dstats) : dstats :=
  match g with
  | DGSingle l => dlim_stats l st
  | DGClosed l1 _ l2 => dlim_stats l2 (dlim_stats l1 st)
  | DGFrom l _ => dlim_stats l st
  | DGUpTo _ l => dlim_stats l st
  end.
Fixpoint ddesc_tokens (d : list dgitem) : list token :=
  match d with
  | [] => [eof_tok]
  | [g] => dgitem_tokens g ++ [eof_tok]
  | g :: rest => dgitem_tokens g ++ comma_tok :: ddesc_tokens rest
  end.

(* ---------- feeding *)
Lemma number_not_end t : tk t = KNumber -> is_eof t || is_comma t = false.
Proof. unfold is_eof, is_comma. intros ->. reflexivity. Qed.

Lemma dparse_lim l v s st rest items sp : dlim_value l = Some v -> dhyp s = false ->
  dparse (dlim_tokens l ++ rest) s st items sp =
  (if dell s
   then match dhi s with
        | None => dparse rest {| dlo := dlo s; dhi := Some v; dell := true; dhyp := false |} (dlim_stats l st) items sp
        | Some _ => DInterface end
   else match dlo s with
        | None => dparse rest {| dlo := Some v; dhi := dhi s; dell := false; dhyp := false |} (dlim_stats l st) items sp
        | Some _ => DInterface end).
Proof.
  intros Hv Hh. unfold dlim_value in Hv. destruct (tk (dlim_tok l)) eqn:K; try discriminate.
  destruct (dec_of_token (tt (dlim_tok l))) as [w|] eqn:D; [|discriminate]. injection Hv as <-.
  unfold dlim_stats. rewrite D.
  destruct l as [t|t]; cbn [dlim_tokens dlim_tok app] in *.
  - cbn [dparse]. rewrite (number_not_end t K). unfold dfeed_token. rewrite K, D, Hh. cbv zeta.
    destruct (dell s); [destruct (dhi s)|destruct (dlo s)]; reflexivity.
  - cbn [dparse]. rewrite minus_not_end. unfold dfeed_token at 1. cbn [tk tt minus_tok T]. rewrite Hh.
    cbn [tkind_eqb text_eqb andb N.eqb Pos.eqb]. rewrite (number_not_end t K). unfold dfeed_token. rewrite K, D. cbn [dhyp dell dhi dlo]. cbv zeta.
    destruct (dell s); [destruct (dhi s)|destruct (dlo s)]; reflexivity.
Qed.
Lemma dfeed_sep s st t : is_sep t = true -> dhyp s = false ->
  dfeed_token s st t = DfNext {| dlo := dlo s; dhi := dhi s; dell := true; dhyp := false |} st.
Proof.
  unfold is_sep, dfeed_token, is_limit_kind. intros H Hh. repeat (apply andb_true_iff in H as [H ?]).
  destruct (tk t) eqn:K; try discriminate; rewrite Hh;
    match goal with H1 : negb (_ && _) = true |- _ => apply negb_true_iff in H1; try rewrite K in H1; cbn [tkind_eqb andb] in H1 end;
    try (match goal with H1 : text_eqb (tt t) [45%N] = false |- _ => cbn [tkind_eqb andb]; rewrite H1 end);
    cbn [tkind_eqb andb];
    match goal with H2 : _ || _ = true |- _ => rewrite H2 end; reflexivity.
Qed.
Lemma dparse_sep t s st rest items sp : is_sep t = true -> dhyp s = false ->
  dparse (t :: rest) s st items sp = dparse rest {| dlo := dlo s; dhi := dhi s; dell := true; dhyp := false |} st items sp.
Proof. intros Hs Hh. cbn [dparse]. rewrite (sep_not_end t Hs), (dfeed_sep s st t Hs Hh). reflexivity. Qed.

Lemma dparse_gitem g it st rest items sp : dgitem_den g = Some it ->
  exists s, dparse (dgitem_tokens g ++ rest) dstate0 st items sp = dparse rest s (dgitem_stats g st) items sp
            /\ ddecide s = DItem it.
Proof.
  intros H. destruct g as [l|l1 t l2|l t|t l]; cbn [dgitem_den dgitem_tokens dgitem_stats] in *.
  - destruct (dlim_value l) as [v|] eqn:V; [|discriminate]. injection H as <-.
    rewrite (dparse_lim l v dstate0 st rest items sp V eq_refl). cbn [dstate0 dell dlo]. eexists. split; reflexivity.
  - destruct (is_sep t) eqn:S; [|discriminate]. destruct (dlim_value l1) as [a|] eqn:V1; [|discriminate].
    destruct (dlim_value l2) as [b|] eqn:V2; [|discriminate]. destruct (dec_ltb b a) eqn:Lt; [discriminate|]. injection H as <-.
    rewrite <- app_assoc. rewrite (dparse_lim l1 a dstate0 st _ items sp V1 eq_refl). cbn [dstate0 dell dlo app].
    rewrite dparse_sep by (exact S || reflexivity). cbn [dlo dhi].
    rewrite (dparse_lim l2 b) by (exact V2 || reflexivity). cbn [dell dhi dlo].
    eexists. split; [reflexivity|]. unfold ddecide. cbn [dhyp dlo dhi dell]. rewrite Lt. reflexivity.
  - destruct (is_sep t) eqn:S; [|discriminate]. destruct (dlim_value l) as [a|] eqn:V; [|discriminate]. injection H as <-.
    rewrite <- app_assoc. rewrite (dparse_lim l a dstate0 st _ items sp V eq_refl). cbn [dstate0 dell dlo app].
    rewrite dparse_sep by (exact S || reflexivity). eexists. split; reflexivity.
  - destruct (is_sep t) eqn:S; [|discriminate]. destruct (dlim_value l) as [b|] eqn:V; [|discriminate]. injection H as <-.
    cbn [app]. rewrite dparse_sep by (exact S || reflexivity). cbn [dlo dhi dstate0].
    rewrite (dparse_lim l b) by (exact V || reflexivity). cbn [dell dhi dlo].
    eexists. split; reflexivity.
Qed.

Fixpoint dno_overlap (earlier : list ditem) (its : list ditem) : Prop :=
  match its with
  | [] => True
  | it :: rest => existsb (fun old => ditems_overlap old it) earlier = false /\ dno_overlap (earlier ++ [it]) rest
  end.
Definition desc_stats (d : list dgitem) (st : dstats) : dstats := fold_left (fun a g => dgitem_stats g a) d st.

Lemma dparse_desc d : forall its earlier st sp, d <> [] -> map dgitem_den d = map Some its -> dno_overlap earlier its ->
  dparse (ddesc_tokens d) dstate0 st earlier sp =
  let st' := desc_stats d st in DOk (Some (earlier ++ its)) (snd st' + fst st') (fst st').
Proof.
  induction d as [|g d IH]; intros its earlier st sp Hne Hd Hov; [congruence|].
  destruct its as [|it its]; [discriminate|]. cbn [map] in Hd. injection Hd as Hg Hd. cbn [dno_overlap] in Hov. destruct Hov as [Ho Hov].
  destruct d as [|g2 d'].
  - destruct its; [|discriminate]. cbn [ddesc_tokens desc_stats fold_left].
    destruct (dparse_gitem g it st [eof_tok] earlier sp Hg) as [s [-> Hdec]].
    cbn [dparse]. change (is_eof eof_tok || is_comma eof_tok) with true. cbv iota. rewrite Hdec, Ho.
    change (is_eof eof_tok) with true. cbv iota. reflexivity.
  - change (ddesc_tokens (g :: g2 :: d')) with (dgitem_tokens g ++ comma_tok :: ddesc_tokens (g2 :: d')).
    destruct (dparse_gitem g it st (comma_tok :: ddesc_tokens (g2 :: d')) earlier sp Hg) as [s [-> Hdec]].
    cbn [dparse]. change (is_eof comma_tok || is_comma comma_tok) with true. cbv iota. rewrite Hdec, Ho.
    change (is_eof comma_tok) with false. cbv iota.
    rewrite (IH its (earlier ++ [it])); [|discriminate|exact Hd|exact Hov]. cbv zeta. rewrite <- app_assoc. reflexivity.
Qed.

Theorem dec_token_loop_denotes d its : d <> [] -> map dgitem_den d = map Some its -> dno_overlap [] its ->
  dparse (ddesc_tokens d) dstate0 (0, 0) [] (DEFAULT_SCALE, DEFAULT_PRECISION) =
  let st := desc_stats d (0, 0) in DOk (Some its) (snd st + fst st) (fst st).
Proof. intros. rewrite (dparse_desc d its []); auto. Qed.
